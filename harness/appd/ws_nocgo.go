//go:build !cgo
// +build !cgo

package main

// Without cgo the bundled websocket/client.go (`import "C"`) is excluded from
// the build. This flavour repeats its few lines over the exported http client
// API; frames still go through the bundled Conn.SendData / Conn.ReadData.

import (
	"errors"
	"reflect"
	"unsafe"

	"github.com/brewlin/net-protocol/pkg/buffer"
	"github.com/brewlin/net-protocol/protocol/application/http"
	"github.com/brewlin/net-protocol/protocol/application/websocket"
)

const wsFlavour = "replica of websocket/client.go over http.Client + websocket.Conn (no cgo)"

type wsClient interface {
	Upgrade() error
	Push(string) error
	Recv() (string, error)
	Close()
	HTTP() *http.Client
}

type replica struct {
	hc  *http.Client
	con *websocket.Conn
}

func newBundledWS(url string) (wsClient, error) {
	hc, err := http.NewClient(url)
	if err != nil {
		return nil, err
	}
	return &replica{hc: hc}, nil
}

func (r *replica) Upgrade() error {
	r.hc.SetHeaders(map[string]string{
		"Upgrade":               "websocket",
		"Connection":            "Upgrade",
		"Sec-WebSocket-Key":     buffer.GetRandomString(24),
		"Sec-WebSocket-Protcol": "chat, superchat",
		"Sec-WebSocket-Version": "13",
	})
	if err := r.hc.Push(); err != nil {
		return err
	}
	// newConn(c.httpClient.GetConnection()) is unexported: fill the field of a zero Conn
	con := &websocket.Conn{}
	f := reflect.ValueOf(con).Elem().FieldByName("conn")
	if !f.IsValid() {
		return errors.New("websocket.Conn has no field conn")
	}
	reflect.NewAt(f.Type(), unsafe.Pointer(f.UnsafeAddr())).Elem().Set(reflect.ValueOf(r.hc.GetConnection()))
	r.con = con
	return nil
}

func (r *replica) Push(s string) error { return r.con.SendData([]byte(s)) }
func (r *replica) Recv() (string, error) {
	b, err := r.con.ReadData()
	return string(b), err
}
func (r *replica) Close() {
	if r.con != nil {
		r.con.Close()
	} else {
		r.hc.GetConnection().Close()
	}
}
func (r *replica) HTTP() *http.Client { return r.hc }
