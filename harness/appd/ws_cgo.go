//go:build cgo
// +build cgo

package main

// websocket/client.go of the code under test carries `import "C"`, so the
// bundled websocket.Client only exists in cgo builds. This flavour uses it.

import (
	"reflect"
	"unsafe"

	"github.com/brewlin/net-protocol/protocol/application/http"
	"github.com/brewlin/net-protocol/protocol/application/websocket"
)

const wsFlavour = "bundled websocket.Client (cgo build)"

type wsClient interface {
	Upgrade() error
	Push(string) error
	Recv() (string, error)
	Close()
	HTTP() *http.Client
}

type bundled struct{ *websocket.Client }

func newBundledWS(url string) (wsClient, error) {
	c, err := websocket.NewClient(url) // panics when the connection fails (recovered by the caller)
	if err != nil {
		return nil, err
	}
	return bundled{c}, nil
}

// the http client inside the websocket client (read-only access for logging)
func (b bundled) HTTP() *http.Client {
	f := fld(reflect.ValueOf(b.Client), "httpClient")
	return (*http.Client)(unsafe.Pointer(f.Pointer()))
}
