// appd drives the bundled HTTP and WebSocket client/server of
// github.com/brewlin/net-protocol over the stack's own TCP (one stack, one
// loopback NIC) and records what the exported API showed at both ends (C20).
//
//	appd run <input.json> <http-trace.ndjson> <ws-trace.ndjson>
//
// One scenario = one connection = one trace segment (first event "reset").
// Scenarios run one after the other; every blocking wait has a deadline, after
// which the scenario ends with timeout=true (the trace spec rejects it and the
// check re-runs it once before reporting anything).
//
// Observation points: arguments and results of the exported API
// (http.Client/Request/Response, websocket.Client/Conn); the request line
// token and the header map, for which the API has no accessor, are read from
// the API's own objects by reflection (read-only).  The raw WebSocket client
// (wsraw scenarios) and the raw WebSocket server the bundled client talks to
// (wsrawsrv scenarios; masked and unmasked frames alternate on one connection)
// are the harness's own RFC 6455 codec over a tcpip.Endpoint; combo scenarios
// keep several connections of the one server process open at the same time;
// the accept key is recomputed with crypto/sha1 + encoding/base64.
package main

import (
	"bytes"
	"crypto/sha1"
	"crypto/sha256"
	"encoding/base64"
	"encoding/hex"
	"errors"
	"fmt"
	"os"
	"reflect"
	"runtime"
	"sort"
	"strconv"
	"strings"
	"sync"
	"sync/atomic"
	"time"
	"unsafe"

	"github.com/brewlin/net-protocol/pkg/waiter"
	tcpip "github.com/brewlin/net-protocol/protocol"
	"github.com/brewlin/net-protocol/protocol/application/http"
	"github.com/brewlin/net-protocol/protocol/application/websocket"
	"github.com/brewlin/net-protocol/protocol/link/loopback"
	"github.com/brewlin/net-protocol/protocol/network/ipv4"
	"github.com/brewlin/net-protocol/protocol/transport/tcp"
	"github.com/brewlin/net-protocol/stack"

	"verifh/vh"
	"verifh/wire"
)

const (
	srvIP   = "10.0.0.1"
	srvPort = 8080
)

type msgSpec struct {
	N    int   `json:"n"`
	Seed int   `json:"seed"`
	Key  []int `json:"key"` // raw sender: masking key (4 bytes); empty = the frame is sent unmasked
}

type scenario struct {
	Kind string `json:"kind"` // http | ws | wsraw | wsrawsrv | combo
	ID   int    `json:"id"`
	// http
	Method  string     `json:"method"`
	Path    string     `json:"path"`
	Headers [][]string `json:"headers"`
	Body    string     `json:"body"`   // hex
	Status  int        `json:"status"` // what the handler produces (200: Error is not called)
	RBody   string     `json:"rbody"`  // hex
	// ws
	C2S    []msgSpec `json:"c2s"`
	S2C    []msgSpec `json:"s2c"`
	Order  []string  `json:"order"`  // linear order "c0","s0",... (a sender waits for the other side's earlier messages); empty = free running
	Chunks []int     `json:"chunks"` // raw client: write sizes (cyclic); empty = one write per frame
	CKey   string    `json:"ckey"`   // raw client: Sec-WebSocket-Key to send ("" = derived from the id)
	// combo: parts run over simultaneously open connections of ONE server process. Part k starts once part
	// k-1 has been answered (http) / upgraded (ws); websocket parts exchange their messages only after every
	// part has started, so later upgrades and requests happen while earlier connections are open.
	Parts []scenario `json:"parts"`
}

type input struct {
	Routes     []string   `json:"routes"`    // http handlers
	WsRoutes   []string   `json:"ws_routes"` // websocket handlers
	SettleMs   int        `json:"settle_ms"`
	DeadlineMs int        `json:"deadline_ms"`
	MaxStuck   int        `json:"max_stuck"`
	Scenarios  []scenario `json:"scenarios"`
}

// ---------------------------------------------------------------- per-scenario run state
type run struct {
	sc       *scenario
	mu       sync.Mutex
	events   []map[string]interface{}
	sealed   bool
	deadline time.Duration

	skey    string
	srvUp   chan struct{}
	cliUp   chan struct{}
	finish  chan struct{}
	srvDone chan struct{}
	started chan struct{} // answered (http) / upgraded (ws) or given up
	once    sync.Once
	gate    <-chan struct{} // combo: messages flow only after this is closed (nil: at once)
	cliGot  int32
	srvGot  int32
}

func (r *run) log(ev string, kv ...interface{}) {
	m := map[string]interface{}{"ev": ev}
	for i := 0; i+1 < len(kv); i += 2 {
		m[kv[i].(string)] = kv[i+1]
	}
	r.mu.Lock()
	if !r.sealed {
		r.events = append(r.events, m)
	}
	r.mu.Unlock()
}

func (r *run) markStarted() { r.once.Do(func() { close(r.started) }) }

func (r *run) waitGate() bool {
	if r.gate == nil {
		return true
	}
	return waitCh(r.gate, r.deadline)
}

func newRun(sc *scenario, deadline time.Duration) *run {
	rn := &run{sc: sc, deadline: deadline, srvUp: make(chan struct{}), cliUp: make(chan struct{}),
		finish: make(chan struct{}), srvDone: make(chan struct{}), started: make(chan struct{})}
	rn.log("reset", "sid", sc.ID, "kind", sc.Kind)
	return rn
}

// which scenario a handler invocation belongs to: the connection registered for the route (combo parts),
// else the one sequential scenario in progress
var current atomic.Value // *run
var byRoute sync.Map     // route -> *run

func cur() *run {
	r, _ := current.Load().(*run)
	return r
}

func lookup(route string) *run {
	if v, ok := byRoute.Load(route); ok {
		return v.(*run)
	}
	return cur()
}

// ---------------------------------------------------------------- reflection helpers (read-only)
func fld(v reflect.Value, names ...string) reflect.Value {
	for _, n := range names {
		for v.Kind() == reflect.Ptr || v.Kind() == reflect.Interface {
			if v.IsNil() {
				return reflect.Value{}
			}
			v = v.Elem()
		}
		v = v.FieldByName(n)
		if !v.IsValid() {
			vh.Fatal("field %s not found: the layout of the code under test changed", n)
		}
	}
	return v
}

func reqToken(r *http.Request, name string) string {
	return fld(reflect.ValueOf(r), name).String()
}

// header map of a Request: names by reflection, values through the exported GetHeader
func reqHeaders(r *http.Request) [][]string {
	m := fld(reflect.ValueOf(r), "headers", "ptr")
	out := [][]string{}
	if !m.IsValid() || m.Kind() != reflect.Map {
		return out
	}
	for _, k := range m.MapKeys() {
		out = append(out, []string{k.String(), r.GetHeader(k.String())})
	}
	sort.Slice(out, func(i, j int) bool { return out[i][0] < out[j][0] })
	return out
}

// the request object a http.Client is about to send
func clientReq(c *http.Client) *http.Request {
	f := fld(reflect.ValueOf(c), "req")
	return (*http.Request)(unsafe.Pointer(f.Pointer()))
}

// ---------------------------------------------------------------- payloads
var runes = []string{"é", "ß", "中", "文", "€"}

func gen(n, seed int) []byte {
	out := make([]byte, 0, n)
	x := uint64(seed)*0x9E3779B97F4A7C15 + 0x1234567
	i := 0
	for len(out) < n {
		x ^= x << 13
		x ^= x >> 7
		x ^= x << 17
		r := int(x>>33) % 64
		left := n - len(out)
		if r < 6 && left >= 3 {
			s := runes[r%len(runes)]
			if len(s) <= left {
				out = append(out, s...)
				i++
				continue
			}
		}
		out = append(out, byte(0x20+(int(x>>40)+i)%95))
		i++
	}
	return out
}

func desc(b []byte) map[string]interface{} {
	g := sha256.Sum256(b)
	d := map[string]interface{}{"n": len(b), "b": "", "h": "", "t": "", "g": hex.EncodeToString(g[:])}
	if len(b) <= 256 {
		d["b"] = hex.EncodeToString(b)
	} else {
		d["h"] = hex.EncodeToString(b[:48])
		d["t"] = hex.EncodeToString(b[len(b)-48:])
	}
	return d
}

func unhex(s string) []byte {
	b, err := hex.DecodeString(s)
	if err != nil {
		vh.Fatal("bad hex in scenario: %v", err)
	}
	return b
}

// RFC 6455 section 4.2.2, computed with the standard library only
func acceptRef(key string) string {
	h := sha1.Sum([]byte(key + "258EAFA5-E914-47DA-95CA-C5AB0DC85B11"))
	return base64.StdEncoding.EncodeToString(h[:])
}

// ---------------------------------------------------------------- waiting with deadlines
var errDeadline = errors.New("deadline")

func waitCh(ch <-chan struct{}, d time.Duration) bool {
	select {
	case <-ch:
		return true
	case <-time.After(d):
		return false
	}
}

func waitCount(p *int32, need int, until time.Time) bool {
	for int(atomic.LoadInt32(p)) < need {
		if time.Now().After(until) {
			return false
		}
		time.Sleep(200 * time.Microsecond)
	}
	return true
}

// call f in a goroutine; false if it did not return within d
func within(rn *run, d time.Duration, f func()) bool {
	done := make(chan struct{})
	go func() {
		defer func() {
			if p := recover(); p != nil {
				rn.log("note", "what", fmt.Sprintf("panic: %v", p))
			}
			close(done)
		}()
		f()
	}()
	return waitCh(done, d)
}

// contain a panic of the code under test inside a harness goroutine: the scenario then ends incomplete
// (and is rejected by the trace spec) instead of killing the driver
func contain(rn *run, who string) {
	if p := recover(); p != nil {
		rn.log("note", "what", fmt.Sprintf("panic in %s: %v", who, p))
	}
}

// number of messages of the other direction that precede message (side, idx) in the linear order
func needBefore(order []string, side byte, idx int) int {
	me := fmt.Sprintf("%c%d", side, idx)
	n := 0
	for _, o := range order {
		if o == me {
			return n
		}
		if len(o) > 0 && o[0] != side {
			n++
		}
	}
	return 0
}

// ---------------------------------------------------------------- server readiness
// The bundled server registers its read waiter only after Accept returned and a goroutine was started; a
// request that arrives before that is never noticed (ServerSocket.Read waits for the NEXT notification).
// That race is about schedules, not about C20's inputs, so the driver waits until the connection's server
// goroutine is parked in ServerSocket.Read before it writes: state-based (goroutine dump), no wall-clock guess.
const readMark = "http.(*ServerSocket).Read("

var stackBuf = make([]byte, 1<<18)

func parkedReaders() int {
	for {
		n := runtime.Stack(stackBuf, true)
		if n < len(stackBuf) {
			return bytes.Count(stackBuf[:n], []byte(readMark))
		}
		stackBuf = make([]byte, 2*len(stackBuf))
	}
}

// waitServer waits until one more goroutine than `before` is parked in ServerSocket.Read (at most 2 s, then
// the settle delay alone has to do), and then the settle delay.
func waitServer(before int, settle time.Duration) {
	until := time.Now().Add(2 * time.Second)
	for parkedReaders() <= before && time.Now().Before(until) {
		time.Sleep(300 * time.Microsecond)
	}
	time.Sleep(settle)
}

// ---------------------------------------------------------------- server side
func httpHandler(route string) func(*http.Request, *http.Response) {
	return func(r *http.Request, w *http.Response) {
		rn := lookup(route)
		if rn == nil {
			return
		}
		defer contain(rn, "http handler")
		rn.log("hreq", "route", route, "method", r.GetMethod(), "path", reqToken(r, "uri"),
			"headers", reqHeaders(r), "body", hex.EncodeToString([]byte(r.GetBody())))
		sc := rn.sc
		if sc.Kind != "http" {
			return
		}
		if sc.Status != 200 {
			w.Error(sc.Status)
		}
		w.End(string(unhex(sc.RBody)))
		rn.log("hresp", "status", sc.Status, "body", sc.RBody)
	}
}

func wsHandler(route string) func(*http.Request, *http.Response) {
	return func(r *http.Request, w *http.Response) {
		rn := lookup(route)
		if rn == nil {
			return
		}
		sc := rn.sc
		if sc.Kind == "http" {
			httpHandler(route)(r, w)
			return
		}
		defer close(rn.srvDone)
		defer contain(rn, "websocket handler")
		c, err := websocket.Upgrade(r, w)
		if err != nil {
			rn.log("note", "what", "server upgrade: "+err.Error())
			return
		}
		rn.skey = r.GetHeader("Sec-WebSocket-Key")
		close(rn.srvUp)
		// the bundled client takes the 101 response with ONE receive: frames sent before it
		// returned from Upgrade would be swallowed, so the server waits for the client
		if !waitCh(rn.cliUp, rn.deadline) {
			rn.log("note", "what", "server: client never finished its upgrade")
			return
		}
		if !rn.waitGate() {
			return
		}
		until := time.Now().Add(rn.deadline)
		wdone := make(chan struct{})
		go func() {
			defer close(wdone)
			defer contain(rn, "server writer")
			for j, m := range sc.S2C {
				if !waitCount(&rn.srvGot, needBefore(sc.Order, 's', j), until) {
					rn.log("note", "what", fmt.Sprintf("server: gave up waiting before s%d", j))
					return
				}
				data := gen(m.N, m.Seed)
				rn.log("send", "dir", "s2c", "m", desc(data))
				if err := c.SendData(data); err != nil {
					rn.log("note", "what", "server SendData: "+err.Error())
				}
			}
		}()
		for range sc.C2S {
			data, err := c.ReadData()
			if err != nil {
				rn.log("note", "what", "server ReadData: "+err.Error())
				break
			}
			rn.log("recv", "dir", "c2s", "m", desc(data))
			atomic.AddInt32(&rn.srvGot, 1)
		}
		waitCh(wdone, rn.deadline)
		waitCh(rn.finish, rn.deadline)
	}
}

// ---------------------------------------------------------------- http scenario
func runHTTP(rn *run, settle time.Duration) (stuck bool) {
	defer rn.markStarted()
	sc := rn.sc
	url := fmt.Sprintf("http://%s:%d%s", srvIP, srvPort, sc.Path)
	var c *http.Client
	var err error
	parked := parkedReaders()
	if !within(rn, rn.deadline, func() { c, err = http.NewClient(url) }) || err != nil || c == nil {
		rn.log("note", "what", fmt.Sprintf("client connect failed: %v", err))
		rn.log("cres", "status", -1, "body", "", "err", "connect", "timeout", true)
		return true
	}
	c.SetMethod(sc.Method)
	hs := map[string]string{}
	for _, kv := range sc.Headers {
		hs[kv[0]] = kv[1]
	}
	c.SetHeaders(hs)
	body := unhex(sc.Body)
	c.SetData(string(body))
	// the request as the client object holds it (default headers included)
	cr := clientReq(c)
	rn.log("creq", "method", cr.GetMethod(), "path", reqToken(cr, "uri"), "headers", reqHeaders(cr),
		"body", hex.EncodeToString([]byte(cr.GetBody())))
	waitServer(parked, settle)
	var res string
	ok := within(rn, rn.deadline, func() { res, err = c.GetResult() })
	if !ok {
		rn.log("cres", "status", -1, "body", "", "err", "", "timeout", true)
		c.GetConnection().Close()
		time.Sleep(50 * time.Millisecond) // let a late handler run into this (rejected) segment
		return true
	}
	es := ""
	if err != nil {
		es = err.Error()
	}
	st, aerr := strconv.Atoi(reqToken(c.GetRequest(), "uri"))
	if aerr != nil {
		st = -1
	}
	rn.log("cres", "status", st, "body", hex.EncodeToString([]byte(res)), "err", es, "timeout", false)
	c.GetConnection().Close()
	return false
}

// ---------------------------------------------------------------- websocket, bundled client
func runWS(rn *run, settle time.Duration) (stuck bool) {
	defer rn.markStarted()
	sc := rn.sc
	url := fmt.Sprintf("http://%s:%d%s", srvIP, srvPort, sc.Path)
	var cli wsClient
	var err error
	parked := parkedReaders()
	if !within(rn, rn.deadline, func() { cli, err = newBundledWS(url) }) || err != nil || cli == nil {
		rn.log("note", "what", fmt.Sprintf("client connect failed: %v", err))
		rn.log("done", "timeout", true)
		return true
	}
	defer func() {
		defer func() { recover() }() // websocket.Client.Close dereferences a nil Conn when the upgrade failed
		cli.Close()
	}()
	waitServer(parked, settle)
	if !within(rn, rn.deadline, func() { err = cli.Upgrade() }) || err != nil {
		rn.log("note", "what", fmt.Sprintf("client upgrade: %v", err))
		rn.log("done", "timeout", true)
		return true
	}
	if !waitCh(rn.srvUp, rn.deadline) {
		rn.log("done", "timeout", true)
		return true
	}
	hc := cli.HTTP()
	ckey := clientReq(hc).GetHeader("Sec-WebSocket-Key")
	accept := hc.GetRequest().GetHeader("Sec-WebSocket-Accept")
	rn.log("upg", "client", "bundled", "ckey", ckey, "skey", rn.skey, "accept", accept, "ref", acceptRef(ckey),
		"status", reqToken(hc.GetRequest(), "uri"))
	close(rn.cliUp)
	rn.markStarted()
	if !rn.waitGate() {
		rn.log("done", "timeout", true)
		return true
	}
	until := time.Now().Add(rn.deadline)
	wdone := make(chan struct{})
	go func() {
		defer close(wdone)
		defer contain(rn, "client writer")
		for i, m := range sc.C2S {
			if !waitCount(&rn.cliGot, needBefore(sc.Order, 'c', i), until) {
				rn.log("note", "what", fmt.Sprintf("client: gave up waiting before c%d", i))
				return
			}
			data := gen(m.N, m.Seed)
			rn.log("send", "dir", "c2s", "m", desc(data))
			if err := cli.Push(string(data)); err != nil {
				rn.log("note", "what", "client Push: "+err.Error())
			}
		}
	}()
	rdone := make(chan struct{})
	go func() {
		defer close(rdone)
		defer contain(rn, "client reader")
		for range sc.S2C {
			s, err := cli.Recv()
			if err != nil {
				rn.log("note", "what", "client Recv: "+err.Error())
				return
			}
			rn.log("recv", "dir", "s2c", "m", desc([]byte(s)))
			atomic.AddInt32(&rn.cliGot, 1)
		}
	}()
	ok := waitCh(wdone, rn.deadline) && waitCh(rdone, rn.deadline) && waitCount(&rn.srvGot, len(sc.C2S), until)
	rn.log("done", "timeout", !ok)
	close(rn.finish)
	return !ok
}

// ---------------------------------------------------------------- raw TCP endpoint of the stack
type rawConn struct {
	ep  tcpip.Endpoint
	wq  *waiter.Queue
	we  waiter.Entry // readable / hang-up
	ch  chan struct{}
	oe  waiter.Entry // writable
	och chan struct{}
	buf []byte
}

func dialRaw(s *stack.Stack, d time.Duration) (*rawConn, error) {
	c := &rawConn{wq: &waiter.Queue{}}
	ep, e := s.NewEndpoint(tcp.ProtocolNumber, ipv4.ProtocolNumber, c.wq)
	if e != nil {
		return nil, errors.New(e.String())
	}
	c.ep = ep
	c.we, c.ch = waiter.NewChannelEntry(nil)
	c.wq.EventRegister(&c.we, waiter.EventIn|waiter.EventHUp)
	c.oe, c.och = waiter.NewChannelEntry(nil)
	c.wq.EventRegister(&c.oe, waiter.EventOut)
	e = ep.Connect(tcpip.FullAddress{Addr: wire.A4(srvIP), Port: srvPort})
	if e == tcpip.ErrConnectStarted {
		if !waitCh(c.och, d) {
			return nil, errDeadline
		}
		e = ep.GetSockOpt(tcpip.ErrorOption{})
	}
	if e != nil {
		return nil, errors.New(e.String())
	}
	return c, nil
}

func (c *rawConn) write(b []byte, until time.Time) error {
	for len(b) > 0 {
		cp := append([]byte(nil), b...) // the endpoint keeps the slice
		n, _, e := c.ep.Write(tcpip.SlicePayload(cp), tcpip.WriteOptions{})
		b = b[n:]
		if e == tcpip.ErrWouldBlock || (e == nil && len(b) > 0) {
			if !waitCh(c.och, time.Until(until)) {
				return errDeadline
			}
			continue
		}
		if e != nil {
			return errors.New(e.String())
		}
	}
	return nil
}

func (c *rawConn) fill(until time.Time) error {
	for {
		v, _, e := c.ep.Read(nil)
		if e == nil {
			c.buf = append(c.buf, v...)
			return nil
		}
		if e != tcpip.ErrWouldBlock {
			return errors.New(e.String())
		}
		if !waitCh(c.ch, time.Until(until)) {
			return errDeadline
		}
	}
}

func (c *rawConn) readN(n int, until time.Time) ([]byte, error) {
	for len(c.buf) < n {
		if err := c.fill(until); err != nil {
			return nil, err
		}
	}
	out := append([]byte(nil), c.buf[:n]...)
	c.buf = c.buf[n:]
	return out, nil
}

func (c *rawConn) readUntil(sep []byte, until time.Time) ([]byte, error) {
	for {
		if i := bytes.Index(c.buf, sep); i >= 0 {
			out := append([]byte(nil), c.buf[:i+len(sep)]...)
			c.buf = c.buf[i+len(sep):]
			return out, nil
		}
		if err := c.fill(until); err != nil {
			return nil, err
		}
	}
}

func (c *rawConn) close() {
	c.wq.EventUnregister(&c.we)
	c.wq.EventUnregister(&c.oe)
	c.ep.Close()
}

// the harness's own RFC 6455 encoder (minimal length form; masked with key, or unmasked when key is empty)
func encodeFrame(payload []byte, key []byte) (hdr, frame []byte) {
	n := len(payload)
	mb := byte(0)
	if len(key) == 4 {
		mb = 0x80
	}
	hdr = []byte{0x81}
	switch {
	case n <= 125:
		hdr = append(hdr, mb|byte(n))
	case n <= 65535:
		hdr = append(hdr, mb|126, byte(n>>8), byte(n))
	default:
		hdr = append(hdr, mb|127, 0, 0, 0, 0, byte(n>>24), byte(n>>16), byte(n>>8), byte(n))
	}
	if mb != 0 {
		hdr = append(hdr, key...)
	}
	frame = append([]byte(nil), hdr...)
	if mb == 0 {
		frame = append(frame, payload...)
		return
	}
	for i, b := range payload {
		frame = append(frame, b^key[i%4])
	}
	return
}

func ints(b []byte) []int {
	out := make([]int, len(b))
	for i, x := range b {
		out[i] = int(x)
	}
	return out
}

// rawSend writes msgs as frames of direction dir with the harness's own encoder (a message with a 4-byte key is
// masked, one without is sent unmasked: both kinds may alternate on one connection).
func rawSend(rn *run, c *rawConn, dir string, side byte, msgs []msgSpec, got *int32, until time.Time) {
	sc := rn.sc
	for i, m := range msgs {
		if !waitCount(got, needBefore(sc.Order, side, i), until) {
			rn.log("note", "what", fmt.Sprintf("raw %s sender: gave up waiting before %c%d", dir, side, i))
			return
		}
		data := gen(m.N, m.Seed)
		key := []byte{}
		if len(m.Key) == 4 {
			key = []byte{byte(m.Key[0]), byte(m.Key[1]), byte(m.Key[2]), byte(m.Key[3])}
		}
		hdr, frame := encodeFrame(data, key)
		rn.log("send", "dir", dir, "m", desc(data))
		rn.log("frame", "dir", dir, "hdr", ints(hdr), "key", ints(key))
		// optionally dribble the frame so that the receiver's exact-length read needs several receives
		pos, k := 0, 0
		for pos < len(frame) {
			sz := len(frame) - pos
			if len(sc.Chunks) > 0 {
				if cs := sc.Chunks[k%len(sc.Chunks)]; cs > 0 && cs < sz {
					sz = cs
				}
				k++
			}
			if err := c.write(frame[pos:pos+sz], until); err != nil {
				rn.log("note", "what", "raw write: "+err.Error())
				return
			}
			pos += sz
			if len(sc.Chunks) > 0 && pos < len(frame) {
				time.Sleep(300 * time.Microsecond)
			}
		}
	}
}

// rawRecv reads len(msgs) frames of direction dir byte by byte with the harness's own decoder
func rawRecv(rn *run, c *rawConn, dir string, msgs []msgSpec, got *int32, until time.Time) {
	for j, m := range msgs {
		h, err := c.readN(2, until)
		if err != nil {
			rn.log("note", "what", "raw read: "+err.Error())
			return
		}
		ext := 0
		if h[1]&0x7f == 126 {
			ext = 2
		} else if h[1]&0x7f == 127 {
			ext = 8
		}
		if h[1]&0x80 != 0 {
			ext += 4
		}
		more, err := c.readN(ext, until)
		if err != nil {
			rn.log("note", "what", "raw read: "+err.Error())
			return
		}
		h = append(h, more...)
		rn.log("frame", "dir", dir, "hdr", ints(h))
		var n uint64
		p := 2
		switch h[1] & 0x7f {
		case 126:
			n = uint64(h[2])<<8 | uint64(h[3])
			p = 4
		case 127:
			for _, b := range h[2:10] {
				n = n<<8 | uint64(b)
			}
			p = 10
		default:
			n = uint64(h[1] & 0x7f)
		}
		if n != uint64(m.N) {
			// the header does not announce the length of the message the peer was asked to send:
			// already rejected by the trace spec at the frame event; do not wait for bytes that may never come
			rn.log("note", "what", fmt.Sprintf("raw %s reader: frame %d announces %d bytes, message has %d", dir, j, n, m.N))
			return
		}
		pay, err := c.readN(int(n), until)
		if err != nil {
			rn.log("note", "what", "raw read payload: "+err.Error())
			return
		}
		if h[1]&0x80 != 0 {
			for i := range pay {
				pay[i] ^= h[p+i%4]
			}
		}
		rn.log("recv", "dir", dir, "raw", true, "m", desc(pay))
		atomic.AddInt32(got, 1)
	}
}

// raw client <-> bundled server
func runWSRaw(rn *run, s *stack.Stack, settle time.Duration) (stuck bool) {
	defer rn.markStarted()
	sc := rn.sc
	until := time.Now().Add(rn.deadline)
	parked := parkedReaders()
	c, err := dialRaw(s, rn.deadline)
	if err != nil {
		rn.log("note", "what", "raw connect: "+err.Error())
		rn.log("done", "timeout", true)
		return true
	}
	defer c.close()
	waitServer(parked, settle)
	ckey := sc.CKey
	if ckey == "" {
		ckey = base64.StdEncoding.EncodeToString(gen(16, sc.ID*7+1))
	}
	req := "GET " + sc.Path + " HTTP/1.1\r\nHost: " + srvIP + ":" + strconv.Itoa(srvPort) +
		"\r\nUpgrade: websocket\r\nConnection: Upgrade\r\nSec-WebSocket-Key: " + ckey +
		"\r\nSec-WebSocket-Version: 13\r\n\r\n"
	if err := c.write([]byte(req), until); err != nil {
		rn.log("note", "what", "raw write upgrade: "+err.Error())
		rn.log("done", "timeout", true)
		return true
	}
	resp, err := c.readUntil([]byte("\r\n\r\n"), until)
	if err != nil || !waitCh(rn.srvUp, rn.deadline) {
		rn.log("note", "what", fmt.Sprintf("raw read upgrade response: %v", err))
		rn.log("done", "timeout", true)
		return true
	}
	lines := strings.Split(string(resp), "\r\n")
	status, accept := "", ""
	if f := strings.SplitN(lines[0], " ", 3); len(f) >= 2 {
		status = f[1]
	}
	for _, ln := range lines[1:] {
		if i := strings.Index(ln, ":"); i > 0 && strings.EqualFold(strings.TrimSpace(ln[:i]), "Sec-WebSocket-Accept") {
			accept = strings.TrimSpace(ln[i+1:])
		}
	}
	rn.log("upg", "client", "raw", "ckey", ckey, "skey", rn.skey, "accept", accept, "ref", acceptRef(ckey), "status", status)
	close(rn.cliUp)
	rn.markStarted()
	if !rn.waitGate() {
		rn.log("done", "timeout", true)
		return true
	}
	until = time.Now().Add(rn.deadline)
	wdone := make(chan struct{})
	go func() {
		defer close(wdone)
		rawSend(rn, c, "c2s", 'c', sc.C2S, &rn.cliGot, until)
	}()
	rdone := make(chan struct{})
	go func() {
		defer close(rdone)
		rawRecv(rn, c, "s2c", sc.S2C, &rn.cliGot, until)
	}()
	ok := waitCh(wdone, rn.deadline) && waitCh(rdone, rn.deadline) && waitCount(&rn.srvGot, len(sc.C2S), until)
	rn.log("done", "timeout", !ok)
	close(rn.finish)
	return !ok
}

// ---------------------------------------------------------------- bundled client <-> the harness's own raw server
// The receiver under test is the bundled CLIENT's Conn.ReadData: the raw server (a listening tcpip.Endpoint of the
// same stack, port rawPort) answers the upgrade itself and sends masked and unmasked frames on one connection.
const rawPort = 8081

type rawListener struct {
	ep tcpip.Endpoint
	wq waiter.Queue
	we waiter.Entry
	ch chan struct{}
}

var rawSrv *rawListener

func listenRaw(s *stack.Stack) *rawListener {
	l := &rawListener{}
	ep, e := s.NewEndpoint(tcp.ProtocolNumber, ipv4.ProtocolNumber, &l.wq)
	if e != nil {
		vh.Fatal("raw listener: %v", e)
	}
	l.ep = ep
	l.we, l.ch = waiter.NewChannelEntry(nil)
	l.wq.EventRegister(&l.we, waiter.EventIn)
	if e := ep.Bind(tcpip.FullAddress{Port: rawPort}, nil); e != nil {
		vh.Fatal("raw listener bind: %v", e)
	}
	if e := ep.Listen(16); e != nil {
		vh.Fatal("raw listener listen: %v", e)
	}
	return l
}

func (l *rawListener) accept(until time.Time) (*rawConn, error) {
	for {
		ep, wq, e := l.ep.Accept()
		if e == nil {
			c := &rawConn{ep: ep, wq: wq}
			c.we, c.ch = waiter.NewChannelEntry(nil)
			wq.EventRegister(&c.we, waiter.EventIn|waiter.EventHUp)
			c.oe, c.och = waiter.NewChannelEntry(nil)
			wq.EventRegister(&c.oe, waiter.EventOut)
			return c, nil // data that arrived before the registration is found by the first Read of fill()
		}
		if e != tcpip.ErrWouldBlock {
			return nil, errors.New(e.String())
		}
		if !waitCh(l.ch, time.Until(until)) {
			return nil, errDeadline
		}
	}
}

func runWSRawSrv(rn *run, settle time.Duration) (stuck bool) {
	defer rn.markStarted()
	sc := rn.sc
	until := time.Now().Add(rn.deadline)
	fail := func(what string) bool {
		rn.log("note", "what", what)
		rn.log("done", "timeout", true)
		return true
	}
	url := fmt.Sprintf("http://%s:%d%s", srvIP, rawPort, sc.Path)
	var cli wsClient
	var err error
	if !within(rn, rn.deadline, func() { cli, err = newBundledWS(url) }) || err != nil || cli == nil {
		return fail(fmt.Sprintf("client connect to the raw server failed: %v", err))
	}
	defer func() {
		defer func() { recover() }()
		cli.Close()
	}()
	c, err := rawSrv.accept(until)
	if err != nil {
		return fail("raw server accept: " + err.Error())
	}
	defer c.close()
	updone := make(chan struct{})
	var uerr error
	go func() {
		defer close(updone)
		defer contain(rn, "client upgrade")
		uerr = cli.Upgrade()
	}()
	reqb, err := c.readUntil([]byte("\r\n\r\n"), until)
	if err != nil {
		return fail("raw server: reading the upgrade request: " + err.Error())
	}
	skey := ""
	for _, ln := range strings.Split(string(reqb), "\r\n")[1:] {
		if i := strings.Index(ln, ": "); i > 0 && ln[:i] == "Sec-WebSocket-Key" {
			skey = ln[i+2:]
		}
	}
	resp := "HTTP/1.1 101 Switching Protocols\r\nUpgrade: websocket\r\nConnection: Upgrade\r\nSec-WebSocket-Accept: " +
		acceptRef(skey) + "\r\n\r\n"
	if err := c.write([]byte(resp), until); err != nil {
		return fail("raw server: writing the 101 response: " + err.Error())
	}
	// the bundled client takes the response with one receive: no frame before its Upgrade returned
	if !waitCh(updone, rn.deadline) || uerr != nil {
		return fail(fmt.Sprintf("client upgrade against the raw server: %v", uerr))
	}
	hc := cli.HTTP()
	ckey := clientReq(hc).GetHeader("Sec-WebSocket-Key")
	rn.log("upg", "client", "bundled-vs-raw-server", "ckey", ckey, "skey", skey, "accept", hc.GetRequest().GetHeader("Sec-WebSocket-Accept"),
		"ref", acceptRef(ckey), "status", reqToken(hc.GetRequest(), "uri"))
	rn.markStarted()
	if !rn.waitGate() {
		return fail("gate")
	}
	until = time.Now().Add(rn.deadline)
	done := make([]chan struct{}, 4)
	for i := range done {
		done[i] = make(chan struct{})
	}
	go func() { // raw server -> client frames (masked and unmasked)
		defer close(done[0])
		rawSend(rn, c, "s2c", 's', sc.S2C, &rn.srvGot, until)
	}()
	go func() { // raw server reads the client's frames
		defer close(done[1])
		rawRecv(rn, c, "c2s", sc.C2S, &rn.srvGot, until)
	}()
	go func() { // bundled client sends
		defer close(done[2])
		defer contain(rn, "client writer")
		for i, m := range sc.C2S {
			if !waitCount(&rn.cliGot, needBefore(sc.Order, 'c', i), until) {
				rn.log("note", "what", fmt.Sprintf("client: gave up waiting before c%d", i))
				return
			}
			data := gen(m.N, m.Seed)
			rn.log("send", "dir", "c2s", "m", desc(data))
			if err := cli.Push(string(data)); err != nil {
				rn.log("note", "what", "client Push: "+err.Error())
			}
		}
	}()
	go func() { // bundled client receives: Conn.ReadData under test
		defer close(done[3])
		defer contain(rn, "client reader")
		for range sc.S2C {
			s, err := cli.Recv()
			if err != nil {
				rn.log("note", "what", "client Recv: "+err.Error())
				return
			}
			rn.log("recv", "dir", "s2c", "m", desc([]byte(s)))
			atomic.AddInt32(&rn.cliGot, 1)
		}
	}()
	ok := true
	for _, d := range done {
		ok = waitCh(d, rn.deadline) && ok
	}
	rn.log("done", "timeout", !ok)
	return !ok
}

// ---------------------------------------------------------------- main
func main() {
	if len(os.Args) != 5 || os.Args[1] != "run" {
		vh.Fatal("usage: appd run <input.json> <http-trace.ndjson> <ws-trace.ndjson>")
	}
	vh.Quiet()
	var in input
	vh.LoadJSON(os.Args[2], &in)
	if in.DeadlineMs <= 0 {
		in.DeadlineMs = 30000
	}
	if in.MaxStuck <= 0 {
		in.MaxStuck = 2
	}
	s := stack.New([]string{ipv4.ProtocolName}, []string{tcp.ProtocolName}, stack.Options{})
	if err := s.CreateNIC(1, loopback.New()); err != nil {
		vh.Fatal("CreateNIC: %v", err)
	}
	if err := s.AddAddress(1, ipv4.ProtocolNumber, wire.A4(srvIP)); err != nil {
		vh.Fatal("AddAddress: %v", err)
	}
	s.SetRouteTable([]tcpip.Route{{Destination: tcpip.Address(make([]byte, 4)), Mask: tcpip.AddressMask(make([]byte, 4)), NIC: 1}})
	stack.Pstack = s // the application packages use the global stack
	srv := http.NewHTTP("none", "10.0.0.0/24", srvIP, strconv.Itoa(srvPort))
	for _, r := range in.Routes {
		srv.HandleFunc(r, httpHandler(r))
	}
	for _, r := range in.WsRoutes {
		srv.HandleFunc(r, wsHandler(r))
	}
	go srv.ListenAndServ()
	rawSrv = listenRaw(s)
	time.Sleep(30 * time.Millisecond)

	th := vh.NewTrace(os.Args[3])
	tw := vh.NewTrace(os.Args[4])
	settle := time.Duration(in.SettleMs) * time.Millisecond
	stuckIDs, skipped := []int{}, []int{}
	nstuck := map[string]int{}
	deadline := time.Duration(in.DeadlineMs) * time.Millisecond
	runOne := func(rn *run) bool {
		switch rn.sc.Kind {
		case "http":
			return runHTTP(rn, settle)
		case "ws":
			st := runWS(rn, settle)
			waitCh(rn.srvDone, 200*time.Millisecond)
			return st
		case "wsraw":
			st := runWSRaw(rn, s, settle)
			waitCh(rn.srvDone, 200*time.Millisecond)
			return st
		case "wsrawsrv":
			return runWSRawSrv(rn, settle)
		}
		vh.Fatal("unknown scenario kind %q", rn.sc.Kind)
		return true
	}
	flush := func(rn *run) {
		rn.mu.Lock()
		rn.sealed = true
		evs := rn.events
		rn.mu.Unlock()
		t := tw
		if rn.sc.Kind == "http" {
			t = th
		}
		for _, e := range evs {
			t.Log(e)
		}
	}
	for i := range in.Scenarios {
		sc := &in.Scenarios[i]
		cls := "ws"
		if sc.Kind == "http" {
			cls = "http"
		}
		if nstuck[cls] >= in.MaxStuck || (sc.Kind == "combo" && nstuck["http"] >= in.MaxStuck) {
			if sc.Kind == "combo" {
				for _, p := range sc.Parts {
					skipped = append(skipped, p.ID)
				}
			} else {
				skipped = append(skipped, sc.ID)
			}
			continue
		}
		if sc.Kind != "combo" {
			rn := newRun(sc, deadline)
			current.Store(rn)
			if runOne(rn) {
				nstuck[cls]++
				stuckIDs = append(stuckIDs, sc.ID)
			}
			flush(rn)
			continue
		}
		// combo: several connections of this one server process open at the same time
		current.Store((*run)(nil))
		gate := make(chan struct{})
		runs := make([]*run, len(sc.Parts))
		res := make([]bool, len(sc.Parts))
		var wg sync.WaitGroup
		for k := range sc.Parts {
			p := &sc.Parts[k]
			rn := newRun(p, deadline)
			runs[k] = rn
			if p.Kind != "http" {
				rn.gate = gate
			}
			if p.Kind != "wsrawsrv" { // (its server is the harness's own: no handler of the bundled server involved)
				byRoute.Store(p.Path, rn)
			}
			wg.Add(1)
			go func(k int, rn *run) {
				defer wg.Done()
				res[k] = runOne(rn)
				if rn.sc.Kind == "http" {
					byRoute.Delete(rn.sc.Path)
				}
			}(k, rn)
			waitCh(rn.started, deadline+time.Second)
		}
		close(gate)
		wg.Wait()
		anyStuck := false
		for k, rn := range runs {
			if rn.sc.Kind != "wsrawsrv" {
				byRoute.Delete(rn.sc.Path)
			}
			if res[k] {
				anyStuck = true
				stuckIDs = append(stuckIDs, rn.sc.ID)
			}
			flush(rn)
		}
		if anyStuck {
			nstuck["ws"]++
		}
	}
	th.Close()
	tw.Close()
	vh.Emit(map[string]interface{}{"scenarios": len(in.Scenarios), "stuck": stuckIDs, "skipped": skipped, "ws_client": wsFlavour,
		"goroutines": runtime.NumGoroutine()})
	os.Exit(0)
}
