// hsd: reactive raw-peer driver for C03 (TCP handshake).  ONE real stack
// (10.0.0.1 / fd00::1) against a scripted peer (10.0.0.9 / fd00::9).
//
//	hsd run <scenarios.json> <out.ndjson>
//
// Scenario steps: listen / connect / send / settle / accept / up / state / probe.
// Every peer segment is logged (`inj`) BEFORE it is handed to the stack, every
// frame the stack emits is logged synchronously in the link tap (`emit`), so
// the file order is the causal order.  After every step the driver waits for
// QUIESCENCE and logs `settle`: quiescence is a state, not a time-out - every
// goroutine of the process other than the driver's is parked (the stack under
// test has no I/O and no polling loops; only timers can wake it), and no frame
// was emitted while we looked.  Scenarios run one after another inside one
// process (hook H4 and tcp.SynRcvdCountThreshold are process-global); the
// check starts several processes in parallel.
package main

import (
	"bufio"
	"bytes"
	"encoding/json"
	"os"
	"runtime"
	"sync"
	"sync/atomic"
	"time"

	vrand "github.com/brewlin/net-protocol/pkg/rand"
	"github.com/brewlin/net-protocol/pkg/waiter"
	tcpip "github.com/brewlin/net-protocol/protocol"
	"github.com/brewlin/net-protocol/protocol/transport/tcp"
	"verifh/vh"
	"verifh/wire"
)

type M = map[string]interface{}

type scenario struct {
	V       int     `json:"v"`      // family on the wire (peer 10.0.0.9 / fd00::9)
	Sock    int     `json:"sock"`   // family of the stack's socket (0: same as v; 6 with v=4: dual-stack socket, IPv4 peer)
	V6Only  bool    `json:"v6only"` // IPV6_V6ONLY on the stack's socket
	Role    string  `json:"role"`   // passive | active
	Cookie  int     `json:"cookie"` // 0: normal, 1: SynRcvdCountThreshold=0 (every SYN gets a cookie), 2: threshold=1 (pressure)
	Port    int     `json:"port"`   // passive: listening port; active: peer's port
	Backlog int     `json:"backlog"`
	ISS     []int   `json:"iss"`     // active: [hi, lo] pinned through hook H4
	PeerISS [][]int `json:"peeriss"` // per peer index [hi, lo]
	MTU     int     `json:"mtu"`
	Tag     string  `json:"tag"`
	Steps   []M     `json:"steps"`
	Info    M       `json:"info"` // copied into the reset event
}

const noRel = -999999

var flagBits = map[byte]uint8{'F': wire.FIN, 'S': wire.SYN, 'R': wire.RST, 'P': wire.PSH, 'A': wire.ACK, 'U': wire.URG}

func flagsOf(s string) uint8 {
	var f uint8
	for i := 0; i < len(s); i++ {
		f |= flagBits[s[i]]
	}
	return f
}
func flagStr(f uint8) string {
	s := ""
	for _, c := range "FSRPAU" {
		if f&flagBits[byte(c)] != 0 {
			s += string(c)
		}
	}
	return s
}

func geti(m M, k string, d int) int {
	if v, ok := m[k]; ok && v != nil {
		return vh.Int(v)
	}
	return d
}
func gets(m M, k string, d string) string {
	if v, ok := m[k]; ok && v != nil {
		return vh.Str(v)
	}
	return d
}

func errS(e *tcpip.Error) string {
	if e == nil {
		return ""
	}
	return e.String()
}

func rel(x, base uint32) int { return int(int32(x - base)) }

// ---------------------------------------------------------------- quiescence
var busyStates = [][]byte{[]byte("running"), []byte("runnable"), []byte("syscall"), []byte("copystack"), []byte("preempted")}
var stackBuf = make([]byte, 4<<20)

// othersParked reports whether every goroutine except the caller is parked
// (waiting on a channel, sleeper, mutex, timer ...), i.e. cannot make progress
// without an external event.
func othersParked() bool {
	n := runtime.Stack(stackBuf, true)
	b := stackBuf[:n]
	first := true
	for len(b) > 0 {
		i := bytes.IndexByte(b, '\n')
		var ln []byte
		if i < 0 {
			ln, b = b, nil
		} else {
			ln, b = b[:i], b[i+1:]
		}
		if !bytes.HasPrefix(ln, []byte("goroutine ")) {
			continue
		}
		lb := bytes.IndexByte(ln, '[')
		if lb < 0 {
			continue
		}
		if first { // the caller itself
			first = false
			continue
		}
		st := ln[lb+1:]
		for _, bs := range busyStates {
			if bytes.HasPrefix(st, bs) {
				return false
			}
		}
	}
	return true
}

type runner struct {
	sc       scenario
	h        *wire.Host
	link     *wire.Link
	mu       sync.Mutex
	evs      []M
	emits    int64
	np       tcpip.NetworkProtocolNumber
	saddr    []byte // stack address
	paddr    []byte // peer address
	sport    int    // stack port (passive: listening port; active: ephemeral, learned)
	lep      tcpip.Endpoint
	lwq      *waiter.Queue
	aep      tcpip.Endpoint // active opener
	awq      *waiter.Queue
	conns    map[int]tcpip.Endpoint // accepted, by peer index
	stackISS map[int]uint32
	haveISS  map[int]bool
	peerISS  map[int]uint32
	lastSyn  map[int]uint32 // sequence number of the last SYN sent per peer index
	notIdle  int
	out      *bufio.Writer // events are flushed at every settle so that a crash of the stack loses nothing observed so far
	flushed  int
}

func (r *runner) log(ev M) {
	r.mu.Lock()
	r.evs = append(r.evs, ev)
	r.mu.Unlock()
}

func (r *runner) flush() {
	r.mu.Lock()
	for ; r.flushed < len(r.evs); r.flushed++ {
		b, err := json.Marshal(r.evs[r.flushed])
		if err != nil {
			vh.Fatal("marshal: %v", err)
		}
		r.out.Write(b)
		r.out.WriteByte('\n')
	}
	r.mu.Unlock()
	r.out.Flush()
}

func mapped(a []byte) []byte {
	if len(a) != 4 {
		return a
	}
	return append([]byte{0, 0, 0, 0, 0, 0, 0, 0, 0, 0, 0xff, 0xff}, a...)
}

// sameHost: an address reported by the sockets API names host a (an IPv4 host also in its v4-mapped form)
func sameHost(got, a []byte) bool {
	return bytes.Equal(got, a) || bytes.Equal(got, mapped(a))
}

// newSock creates the stack's socket in the scenario's socket family
func (r *runner) newSock() (tcpip.Endpoint, *waiter.Queue) {
	wq := &waiter.Queue{}
	np := r.np
	if r.sc.Sock == 6 {
		np = wire.ProtoIPv6
	} else if r.sc.Sock == 4 {
		np = wire.ProtoIPv4
	}
	ep, err := r.h.S.NewEndpoint(tcp.ProtocolNumber, np, wq)
	if err != nil {
		vh.Fatal("NewEndpoint: %v", err)
	}
	if r.sc.V6Only {
		if e := ep.SetSockOpt(tcpip.V6OnlyOption(1)); e != nil {
			vh.Fatal("v6only: %v", e)
		}
	}
	return ep, wq
}

// connAddr is the peer's address as the application of the stack's socket family writes it (v4-mapped on a v6 socket)
func (r *runner) connAddr() tcpip.Address {
	if r.sc.Sock == 6 && r.sc.V == 4 {
		return tcpip.Address(mapped(r.paddr))
	}
	return tcpip.Address(r.paddr)
}

func (r *runner) peerPort(pp int) int {
	if r.sc.Role == "active" {
		return r.sc.Port
	}
	return 40000 + pp
}
func (r *runner) ppOf(port int) int {
	if r.sc.Role == "active" {
		if port == r.sc.Port {
			return 0
		}
		return -1
	}
	if port >= 40000 && port < 40064 {
		return port - 40000
	}
	return -1
}

// settle waits for quiescence (see file comment) and logs it.
func (r *runner) settle(logit bool) bool {
	ok := false
	for i := 0; i < 200000; i++ {
		// let every runnable goroutine run until it parks, then look: if all of them are parked
		// nothing can happen any more without a new frame, an API call or a timer
		runtime.Gosched()
		runtime.Gosched()
		if othersParked() {
			ok = true
			break
		}
		if i > 50 {
			time.Sleep(20 * time.Microsecond)
		}
	}
	if !ok {
		r.notIdle++
	}
	if logit {
		r.log(M{"ev": "settle", "idle": ok})
		r.flush()
	}
	return ok
}

func addrStr(a []byte) string {
	s := ""
	for i, x := range a {
		if i > 0 {
			s += "."
		}
		s += itoa(int(x))
	}
	return s
}
func itoa(n int) string {
	if n == 0 {
		return "0"
	}
	neg := n < 0
	if neg {
		n = -n
	}
	var b [20]byte
	i := len(b)
	for n > 0 {
		i--
		b[i] = byte('0' + n%10)
		n /= 10
	}
	if neg {
		i--
		b[i] = '-'
	}
	return string(b[i:])
}

// tap: decode every frame the stack emits with the harness's own decoder.
func (r *runner) tap(l *wire.Link, f wire.Frame) {
	atomic.AddInt64(&r.emits, 1)
	ev := M{"ev": "emit", "kind": "other", "proto": int(f.Proto)}
	var src, dst, l4 []byte
	var proto uint8
	ipok := true
	switch f.Proto {
	case wire.ProtoIPv4:
		ip, err := wire.ParseIPv4(f.Bytes)
		if err != nil {
			ev["kind"], ev["err"] = "bad", err.Error()
			r.log(ev)
			return
		}
		src, dst, l4, proto = ip.Src, ip.Dst, ip.Payload, ip.Proto
		ipok = ip.HdrOK && ip.TotalLen == len(f.Bytes)
	case wire.ProtoIPv6:
		ip, err := wire.ParseIPv6(f.Bytes)
		if err != nil {
			ev["kind"], ev["err"] = "bad", err.Error()
			r.log(ev)
			return
		}
		src, dst, l4, proto = ip.Src, ip.Dst, ip.Payload, ip.Next
		ipok = ip.PayloadLen == len(f.Bytes)-40
	default:
		r.log(ev)
		return
	}
	if proto != 6 {
		ev["ipproto"] = int(proto)
		r.log(ev)
		return
	}
	t, err := wire.ParseTCP(src, dst, l4)
	if err != nil {
		ev["kind"], ev["err"] = "badtcp", err.Error()
		r.log(ev)
		return
	}
	pp := r.ppOf(int(t.DstPort))
	addrok := bytes.Equal(src, r.saddr) && bytes.Equal(dst, r.paddr)
	if r.sc.Role == "passive" && int(t.SrcPort) != r.sport {
		addrok = false
	}
	if r.sc.Role == "active" && r.sport != 0 && int(t.SrcPort) != r.sport {
		addrok = false
	}
	r.mu.Lock()
	if pp >= 0 && t.Flags&wire.SYN != 0 && addrok {
		r.stackISS[pp], r.haveISS[pp] = t.Seq, true
	}
	rseq, rack := noRel, noRel
	if pp >= 0 && r.haveISS[pp] {
		rseq = rel(t.Seq, r.stackISS[pp])
	}
	if pp >= 0 && t.Flags&wire.ACK != 0 {
		if pi, ok := r.peerISS[pp]; ok {
			rack = rel(t.Ack, pi)
		}
	}
	r.mu.Unlock()
	ev["kind"], ev["pp"], ev["sport"], ev["dport"] = "tcp", pp, int(t.SrcPort), int(t.DstPort)
	ev["addrok"], ev["ipok"], ev["sumok"], ev["optok"] = addrok, ipok, t.SumOK, t.Opts.WellOK
	ev["flags"], ev["seqhi"], ev["seqlo"], ev["ackhi"], ev["acklo"] = flagStr(t.Flags), int(t.Seq>>16), int(t.Seq&0xffff), int(t.Ack>>16), int(t.Ack&0xffff)
	ev["rseq"], ev["rack"], ev["win"], ev["n"] = rseq, rack, int(t.Window), len(t.Payload)
	ev["mss"], ev["ws"], ev["ts"], ev["sackperm"] = -1, -1, t.Opts.HasTS, t.Opts.SACKPerm
	if t.Opts.HasMSS {
		ev["mss"] = int(t.Opts.MSS)
	}
	if t.Opts.HasWS {
		ev["ws"] = int(t.Opts.WS)
	}
	if t.Opts.HasTS {
		ev["tsval_hi"], ev["tsval_lo"] = int(t.Opts.TSVal>>16), int(t.Opts.TSVal&0xffff)
		ev["tsecr_hi"], ev["tsecr_lo"] = int(t.Opts.TSEcr>>16), int(t.Opts.TSEcr&0xffff)
	}
	r.log(ev)
}

// num32 resolves a sequence/ack specification: {"rel": k} (relative to base) or {"abs": [hi, lo]}.
func num32(spec interface{}, base uint32, haveBase bool) (uint32, bool) {
	m, ok := spec.(map[string]interface{})
	if !ok || m == nil {
		return base, haveBase
	}
	if a, ok := m["abs"]; ok && a != nil {
		x := vh.Ints(a)
		return uint32(x[0])<<16 | uint32(x[1]), true
	}
	k := geti(m, "rel", 0)
	// rel may exceed 32-bit signed in JSON as two parts: {"rel": k, "relhi": h} adds h<<16
	kk := uint32(int32(k)) + uint32(geti(m, "relhi", 0))<<16
	return base + kk, haveBase
}

func (r *runner) send(st M) {
	pp := geti(st, "pp", 0)
	r.mu.Lock()
	pi := r.peerISS[pp]
	si, have := r.stackISS[pp], r.haveISS[pp]
	r.mu.Unlock()
	seq, _ := num32(st["seq"], pi, true)
	ack, ackKnown := num32(st["ack"], si, have)
	flags := gets(st, "flags", "")
	n := geti(st, "n", 0)
	var opts []byte
	if ob, ok := st["optbytes"]; ok && ob != nil {
		for _, b := range vh.Ints(ob) {
			opts = append(opts, byte(b))
		}
	}
	if geti(st, "tsecho", 0) != 0 { // append a timestamp option (needed on every segment once TS was negotiated)
		opts = append(opts, 1, 1)
		opts = append(opts, wire.OptTS(uint32(geti(st, "tsval", 7)), 0)...)
	}
	opts = wire.PadOpts(opts)
	win := geti(st, "win", 65535)
	data := wire.Pattern(geti(st, "seed", 0), n)
	sport := r.peerPort(pp)
	dport := r.sport
	if dp := geti(st, "dport", 0); dp != 0 {
		dport = dp
	}
	l4 := wire.BuildTCP(r.paddr, r.saddr, wire.TCPFields{SrcPort: uint16(sport), DstPort: uint16(dport), Seq: seq, Ack: ack,
		Flags: flagsOf(flags), Window: uint16(win), Opts: opts}, data)
	ev := M{"ev": "inj", "pp": pp, "sport": sport, "dport": dport, "flags": flags, "n": n, "win": win,
		"seqhi": int(seq >> 16), "seqlo": int(seq & 0xffff), "ackhi": int(ack >> 16), "acklo": int(ack & 0xffff),
		"rseq": rel(seq, pi), "rack": noRel, "optlen": len(opts)}
	if have {
		ev["rack"] = rel(ack, si)
	}
	ev["ackknown"] = ackKnown
	for _, k := range []string{"omss", "ows", "ots", "osack", "owell", "oclass", "note"} {
		if v, ok := st[k]; ok {
			ev[k] = v
		}
	}
	r.log(ev)
	if flagsOf(flags)&wire.SYN != 0 {
		r.lastSyn[pp] = seq
	}
	r.inject(l4)
}

func (r *runner) inject(l4 []byte) {
	if r.sc.V == 6 {
		r.link.Inject(wire.ProtoIPv6, wire.BuildIPv6(r.paddr, r.saddr, 6, l4, 64), "")
	} else {
		r.link.Inject(wire.ProtoIPv4, wire.BuildIPv4(r.paddr, r.saddr, 6, l4, wire.IPv4Opts{ID: 1}), "")
	}
}

// kill resets a connection the scenario leaves behind (so that no goroutine of it lingers with
// retransmission timers): a RST exactly at the endpoint's RCV.NXT.
func (r *runner) kill(ep tcpip.Endpoint) {
	ra, e1 := ep.GetRemoteAddress()
	la, e2 := ep.GetLocalAddress()
	if e1 != nil || e2 != nil {
		return
	}
	for i := 0; i < 1000; i++ {
		st, ok := tcp.VerifState(ep)
		if ok {
			if st.State == 4 {
				r.inject(wire.BuildTCP(r.paddr, r.saddr, wire.TCPFields{SrcPort: ra.Port, DstPort: la.Port, Seq: st.RcvNxt, Flags: wire.RST, Window: 0}, nil))
			}
			return
		}
		runtime.Gosched()
	}
}

func (r *runner) snap(ep tcpip.Endpoint) M {
	if ep == nil {
		return M{"held": false}
	}
	st, ok := tcp.VerifState(ep)
	m := M{"held": true, "ok": ok, "state": st.State, "err": st.HardError, "worker": st.Worker}
	if ok {
		m["segq"], m["maxpayload"], m["sndwndscale"], m["sndwnd"], m["rcvwndscale"] = st.SegQueue, st.MaxPayload, st.SndWndScale, st.SndWnd, st.RcvWndScale
	}
	return m
}

func (r *runner) step(st M) {
	op := gets(st, "op", "")
	switch op {
	case "listen":
		ep, wq := r.newSock()
		r.lep, r.lwq = ep, wq
		e1 := ep.Bind(tcpip.FullAddress{Port: uint16(r.sc.Port)}, nil)
		var e2 *tcpip.Error
		if e1 == nil {
			e2 = ep.Listen(r.sc.Backlog)
		}
		r.sport = r.sc.Port
		r.log(M{"ev": "listen", "port": r.sc.Port, "backlog": r.sc.Backlog, "err": errS(e1) + errS(e2)})
		r.settle(true)
	case "connect":
		ep, wq := r.newSock()
		r.aep, r.awq = ep, wq
		// bind first so that the local port is known before the SYN is emitted
		if e := ep.Bind(tcpip.FullAddress{Port: uint16(geti(st, "lport", 0))}, nil); e != nil {
			vh.Fatal("bind: %v", e)
		}
		la, _ := ep.GetLocalAddress()
		r.sport = int(la.Port)
		pin := len(r.sc.ISS) == 2
		if pin {
			iss := uint32(r.sc.ISS[0])<<16 | uint32(r.sc.ISS[1])
			vrand.VerifSetSource(func(b []byte) bool {
				if len(b) != 4 {
					return false
				}
				b[0], b[1], b[2], b[3] = byte(iss), byte(iss>>8), byte(iss>>16), byte(iss>>24)
				return true
			})
		}
		r.log(M{"ev": "connect", "lport": r.sport, "rport": r.sc.Port, "pinned": pin})
		cerr := ep.Connect(tcpip.FullAddress{Addr: r.connAddr(), Port: uint16(r.sc.Port)})
		r.settle(false) // the ISS is drawn by the protocol goroutine: keep the source installed until it is parked
		if pin {
			vrand.VerifSetSource(nil)
		}
		r.log(M{"ev": "connret", "err": errS(cerr)})
		r.settle(true)
	case "send":
		r.send(st)
		r.settle(true)
	case "settle":
		r.settle(true)
	case "retarget":
		// passive-side ISS placement: the stack's ISS is linear in the peer's (cookie = hash + irs + ...), so after a
		// throw-away SYN showed iss0 for irs0 the peer picks irs = irs0 + (target - iss0) and the next SYN-ACK carries `target`
		pp := geti(st, "pp", 0)
		t := vh.Ints(st["iss"])
		target := uint32(t[0])<<16 | uint32(t[1])
		r.mu.Lock()
		ok := r.haveISS[pp]
		if ok {
			r.peerISS[pp] = r.peerISS[pp] + (target - r.stackISS[pp])
			r.haveISS[pp] = false
		}
		np := r.peerISS[pp]
		r.mu.Unlock()
		r.log(M{"ev": "retarget", "pp": pp, "ok": ok, "peerhi": int(np >> 16), "peerlo": int(np & 0xffff)})
	case "closel":
		if r.lep == nil {
			vh.Fatal("closel without listener")
		}
		r.log(M{"ev": "closel"})
		r.lep.Close()
		r.lep = nil
		r.settle(true)
	case "accept":
		if r.lep == nil {
			vh.Fatal("accept without listener")
		}
		ep, _, err := r.lep.Accept()
		ev := M{"ev": "accept", "ok": err == nil, "err": errS(err), "pp": -1, "rport": 0, "raddrok": false, "lport": 0}
		if err == nil {
			ra, _ := ep.GetRemoteAddress()
			la, _ := ep.GetLocalAddress()
			pp := r.ppOf(int(ra.Port))
			ev["pp"], ev["rport"], ev["lport"] = pp, int(ra.Port), int(la.Port)
			ev["raddrok"] = sameHost([]byte(ra.Addr), r.paddr) && sameHost([]byte(la.Addr), r.saddr)
			ev["raddrlen"] = len(ra.Addr)
			if old, ok := r.conns[pp]; ok {
				old.Close()
			}
			r.conns[pp] = ep
		}
		r.log(ev)
		r.settle(true)
	case "up":
		if r.aep == nil {
			vh.Fatal("up without connect")
		}
		err := r.aep.Connect(tcpip.FullAddress{Addr: r.connAddr(), Port: uint16(r.sc.Port)})
		res := "error"
		switch err {
		case nil, tcpip.ErrAlreadyConnected:
			res = "connected"
		case tcpip.ErrAlreadyConnecting:
			res = "connecting"
		}
		var eo tcpip.ErrorOption
		soerr := r.aep.GetSockOpt(eo)
		r.log(M{"ev": "up", "res": res, "err": errS(err), "soerr": errS(soerr)})
		r.settle(true)
	case "state":
		ev := M{"ev": "state", "listener": r.snap(r.lep), "active": r.snap(r.aep)}
		cs := M{}
		for pp, ep := range r.conns {
			cs[itoa(pp)] = r.snap(ep)
		}
		ev["conns"] = cs
		r.log(ev)
	case "probe":
		// write n bytes on the established connection: the emitted data segments show which
		// MSS / window scale the stack took from the peer's SYN options
		pp := geti(st, "pp", 0)
		ep := r.aep
		if r.sc.Role == "passive" {
			ep = r.conns[pp]
		}
		n := geti(st, "n", 1000)
		ev := M{"ev": "probe", "pp": pp, "n": n, "wrote": 0, "err": "no connection"}
		if ep != nil {
			ev["snap"] = r.snap(ep)
			r.log(M{"ev": "probecall", "pp": pp, "n": n})
			w, _, err := ep.Write(tcpip.SlicePayload(wire.Pattern(5, n)), tcpip.WriteOptions{})
			ev["wrote"], ev["err"] = int(w), errS(err)
		}
		r.log(ev)
		r.settle(true)
	default:
		vh.Fatal("unknown step %q", op)
	}
}

func runScenario(si int, sc scenario, out *bufio.Writer) int {
	clock := wire.NewClock()
	mtu := sc.MTU
	if mtu == 0 {
		mtu = 1500
	}
	h := wire.NewHost(clock, "s", []wire.NICSpec{{ID: 1, MTU: uint32(mtu), Addr4: []string{"10.0.0.1"}, Addr6: []string{"fd00::1"}}})
	r := &runner{sc: sc, h: h, link: h.Links[1], conns: map[int]tcpip.Endpoint{}, stackISS: map[int]uint32{}, haveISS: map[int]bool{}, peerISS: map[int]uint32{}, lastSyn: map[int]uint32{}, out: out}
	r.np, r.saddr, r.paddr = wire.ProtoIPv4, []byte(wire.A4("10.0.0.1")), []byte(wire.A4("10.0.0.9"))
	if sc.V == 6 {
		r.np, r.saddr, r.paddr = wire.ProtoIPv6, []byte(wire.A6("fd00::1")), []byte(wire.A6("fd00::9"))
	}
	for i, p := range sc.PeerISS {
		r.peerISS[i] = uint32(p[0])<<16 | uint32(p[1])
	}
	switch sc.Cookie {
	case 1:
		tcp.SynRcvdCountThreshold = 0
	case 2:
		tcp.SynRcvdCountThreshold = 1
	default:
		tcp.SynRcvdCountThreshold = 1000
	}
	rs := M{"ev": "reset", "sc": si, "role": sc.Role, "v": sc.V, "cookie": sc.Cookie, "port": sc.Port, "backlog": sc.Backlog, "tag": sc.Tag, "mtu": mtu,
		"pinned": len(sc.ISS) == 2, "sock": sc.Sock, "v6only": sc.V6Only}
	for k, v := range sc.Info {
		rs[k] = v
	}
	r.log(rs)
	r.link.OnEmit = r.tap
	for _, st := range sc.Steps {
		r.step(st)
	}
	r.log(M{"ev": "end", "notidle": r.notIdle})
	r.flush()
	// tear down without leaving goroutines / timers behind: reset half-open and established
	// connections from the peer side, drain the accept queue, close, wait for quiescence
	r.link.OnEmit = nil
	eps := []tcpip.Endpoint{}
	for _, ep := range r.conns {
		eps = append(eps, ep)
	}
	if r.sc.Role == "passive" {
		for pp, sq := range r.lastSyn {
			r.inject(wire.BuildTCP(r.paddr, r.saddr, wire.TCPFields{SrcPort: uint16(r.peerPort(pp)), DstPort: uint16(r.sport), Seq: sq + 1, Flags: wire.RST}, nil))
		}
		r.settle(false)
	}
	if r.lep != nil {
		for i := 0; i < 64; i++ {
			ep, _, err := r.lep.Accept()
			if err != nil {
				break
			}
			eps = append(eps, ep)
		}
		r.settle(false)
	}
	if r.aep != nil {
		eps = append(eps, r.aep)
	}
	for _, ep := range eps {
		r.kill(ep)
	}
	r.settle(false)
	for _, ep := range eps {
		ep.Close()
	}
	if r.lep != nil {
		r.lep.Close()
	}
	tcp.SynRcvdCountThreshold = 1000
	r.settle(false)
	return r.notIdle
}

func main() {
	vh.Quiet()
	if os.Getenv("GOMAXPROCS") == "" {
		runtime.GOMAXPROCS(1) // quiescence detection stops the world: keep that cheap on a shared machine
	}
	if len(os.Args) < 4 || os.Args[1] != "run" {
		vh.Fatal("usage: hsd run scenarios.json out.ndjson")
	}
	var scs []scenario
	vh.LoadJSON(os.Args[2], &scs)
	f, err := os.Create(os.Args[3])
	if err != nil {
		vh.Fatal("create %s: %v", os.Args[3], err)
	}
	out := bufio.NewWriterSize(f, 1<<16)
	notIdle := 0
	for i, sc := range scs {
		notIdle += runScenario(i, sc, out)
	}
	out.Flush()
	f.Close()
	vh.Emit(vh.Result{Paths: len(scs), Extra: M{"not_idle": notIdle}})
}
