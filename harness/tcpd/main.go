// tcpd: two real stacks joined by an adversarial in-memory wire (pair
// driver) for C01/C02/C04/C05/C14.  Every segment is logged when emitted
// (synchronously in the link tap) and again when it is handed to the peer's
// stack; applications log their calls.  One totally ordered event list per
// scenario; scenarios run concurrently.
//
//	tcpd pair <scenarios.json> <out.ndjson> [parallel]
package main

import (
	"fmt"
	"math/rand"
	"os"
	"runtime"
	"strconv"
	"sync"
	"sync/atomic"
	"time"

	vrand "github.com/brewlin/net-protocol/pkg/rand"
	"github.com/brewlin/net-protocol/pkg/waiter"
	tcpip "github.com/brewlin/net-protocol/protocol"
	"github.com/brewlin/net-protocol/protocol/transport/tcp"
	"verifh/vh"
	"verifh/wire"
)

type M = map[string]interface{}

type rule struct {
	Kind string `json:"kind"` // syn synack ack data fin rst any
	Nth  int    `json:"nth"`  // 1-based occurrence of that kind in this direction; 0 = every
	Upto int    `json:"upto"` // with Nth: occurrences Nth..Upto
	Act  string `json:"act"`  // drop dup hold delay
	Arg  int    `json:"arg"`  // hold: release after Arg further frames
}

type dirFaults struct {
	Rules    []rule  `json:"rules"`
	Loss     float64 `json:"loss"`
	Dup      float64 `json:"dup"`
	Hold     float64 `json:"hold"`
	Budget   int     `json:"budget"`   // max number of random faults
	Replay   float64 `json:"replay"`   // probability of re-injecting an old data segment later (stale replay)
	Coalesce float64 `json:"coalesce"` // peer-like: deliver a data segment, then the next one merged with it (partial overlap)
	Beyond   float64 `json:"beyond"`   // peer-like: also hand over a fabricated segment starting at the receiver's advertised right edge
}

type app struct {
	Writes       []int `json:"writes"`         // chunk sizes, written in order
	Shutdown     bool  `json:"shutdown"`       // Shutdown(Write) after the last write
	Close        bool  `json:"close"`          // Close() the endpoint once the writer (writes + shutdown) and the reader (EOS / error / read_max) are done
	CloseAfterMS int   `json:"close_after_ms"` // ... after this pause
	ReadMax      int   `json:"read_max"`       // stop reading after this many bytes (0 = until EOS)
	ReadDelayUS  int   `json:"read_delay_us"`
	ReadStartMS  int   `json:"read_start_ms"` // do not read before this
	WriteGapUS   int   `json:"write_gap_us"`
	RcvBuf       int   `json:"rcvbuf"`
	SndBuf       int   `json:"sndbuf"`
	ISS          []int `json:"iss"`           // [hi, lo] for the active opener (side a) via hook H4
	ShutAfterMS  int   `json:"shut_after_ms"` // delay before shutdown
	RcvBuf2      int   `json:"rcvbuf2"`       // the application changes its receive buffer size to this ...
	RcvBuf2MS    int   `json:"rcvbuf2_ms"`    // ... this long after the connection came up
	NoRead       bool  `json:"noread"`
}

type scenario struct {
	V        int       `json:"v"`
	MTU      int       `json:"mtu"`
	MTUB     int       `json:"mtu_b"` // link MTU of host b when it differs (b then announces a smaller/larger MSS than a's MTU allows)
	SACK     bool      `json:"sack"`
	CC       string    `json:"cc"`
	A        app       `json:"a"` // active opener
	B        app       `json:"b"` // listener / accepted side
	A2B      dirFaults `json:"a2b"`
	B2A      dirFaults `json:"b2a"`
	Seed     int64     `json:"seed"`
	Deadline int       `json:"deadline_ms"`
	Tag      string    `json:"tag"`
	Flags    M         `json:"flags"` // copied into the reset event (known-finding switches etc.)
	Sync     bool      `json:"sync"`  // synchronous wire: a frame is handed over only after the previous one was processed
}

// Byte is the content of stream d (0: a->b, 1: b->a) at offset i; TraceTcp.tla has the same function.
func Byte(d, i int) byte { return byte((i*31 + d*101 + (i>>8)*7 + 17) & 0xff) }

type elog struct {
	mu  sync.Mutex
	evs []M
	t0  time.Time
}

func (l *elog) add(ev M) {
	l.mu.Lock()
	ev["t"] = int(time.Since(l.t0) / time.Microsecond)
	l.evs = append(l.evs, ev)
	l.mu.Unlock()
}

type side struct {
	name      string
	d         int // stream index written by this side
	host      *wire.Host
	link      *wire.Link
	ep        tcpip.Endpoint
	wq        *waiter.Queue
	addr      tcpip.Address
	cfg       app
	iss       uint32
	haveI     bool
	appClosed bool // the scenario's application has Close()d the endpoint
	// what this side advertised last (raw), and the window scale option of its SYN (-1: none)
	wsOpt  int
	advAck uint32
	advWnd uint16
	advOK  bool
	advSyn bool
}

var epMu sync.Mutex

func (s *side) getEp() tcpip.Endpoint {
	epMu.Lock()
	defer epMu.Unlock()
	return s.ep
}

func (s *side) setEp(ep tcpip.Endpoint, wq *waiter.Queue) {
	epMu.Lock()
	s.ep, s.wq = ep, wq
	epMu.Unlock()
}

type frameQ struct {
	f    wire.Frame
	info M
}

type pair struct {
	sc      scenario
	log     *elog
	a, b    *side
	ch      [2]chan frameQ // 0: a->b, 1: b->a
	infl    int64          // frames queued or held
	done    chan struct{}
	emits   int64
	napping int64
}

func segKind(fl uint8, n int) string {
	switch {
	case fl&wire.RST != 0:
		return "rst"
	case fl&wire.SYN != 0 && fl&wire.ACK != 0:
		return "synack"
	case fl&wire.SYN != 0:
		return "syn"
	case fl&wire.FIN != 0:
		return "fin"
	case n > 0:
		return "data"
	}
	return "ack"
}

func flagStr(f uint8) string {
	s := ""
	for i, c := range "FSRPAU" {
		if f&(1<<uint(i)) != 0 {
			s += string(c)
		}
	}
	return s
}

func rel(x, base uint32) int { return int(int32(x - base)) }

// decode builds the event fields of a TCP segment seen on the wire, emitted by side s.
func (p *pair) decode(f wire.Frame, s, peer *side) (M, uint8, int) {
	var src, dst, l4 []byte
	var proto uint8
	ipok := true
	if f.Proto == wire.ProtoIPv4 {
		ip, err := wire.ParseIPv4(f.Bytes)
		if err != nil {
			return M{"bad": err.Error()}, 0, 0
		}
		src, dst, l4, proto = ip.Src, ip.Dst, ip.Payload, ip.Proto
		ipok = ip.HdrOK
	} else if f.Proto == wire.ProtoIPv6 {
		ip, err := wire.ParseIPv6(f.Bytes)
		if err != nil {
			return M{"bad": err.Error()}, 0, 0
		}
		src, dst, l4, proto = ip.Src, ip.Dst, ip.Payload, ip.Next
	} else {
		return M{"bad": "proto"}, 0, 0
	}
	if proto != 6 {
		return M{"bad": "not tcp", "ipproto": int(proto)}, 0, 0
	}
	t, err := wire.ParseTCP(src, dst, l4)
	if err != nil {
		return M{"bad": err.Error()}, 0, 0
	}
	if t.Flags&wire.SYN != 0 && !s.haveI {
		s.iss, s.haveI = t.Seq, true
		s.wsOpt = -1
		if t.Opts.HasWS {
			s.wsOpt = int(t.Opts.WS)
		}
	}
	if t.Flags&wire.ACK != 0 && t.Flags&wire.RST == 0 {
		s.advAck, s.advWnd, s.advOK, s.advSyn = t.Ack, t.Window, true, t.Flags&wire.SYN != 0
	}
	ev := M{"e": s.name, "flags": flagStr(t.Flags), "len": len(t.Payload), "wnd": int(t.Window),
		"sumok": t.SumOK && ipok, "optok": t.Opts.WellOK, "iplen": len(f.Bytes)}
	if s.haveI {
		ev["seq"] = rel(t.Seq, s.iss)
	} else {
		ev["seq"] = -999999
	}
	if t.Flags&wire.ACK != 0 && peer.haveI {
		ev["ack"] = rel(t.Ack, peer.iss)
	} else {
		ev["ack"] = -999999
	}
	ev["pay"] = wire.Ints(t.Payload)
	ev["mss"], ev["ws"], ev["ts"], ev["sackperm"] = -1, -1, t.Opts.HasTS, t.Opts.SACKPerm
	if t.Opts.HasMSS {
		ev["mss"] = int(t.Opts.MSS)
	}
	if t.Opts.HasWS {
		ev["ws"] = int(t.Opts.WS)
	}
	sb := [][]int{}
	for _, b := range t.Opts.SACK {
		if peer.haveI {
			sb = append(sb, []int{rel(b.Start, peer.iss), rel(b.End, peer.iss)})
		}
	}
	ev["sack"] = sb
	ev["kind"] = segKind(t.Flags, len(t.Payload))
	ev["seqraw_hi"], ev["seqraw_lo"] = int(t.Seq>>16), int(t.Seq&0xffff)
	return ev, t.Flags, len(t.Payload)
}

func (p *pair) tap(s, peer *side, dir int) func(*wire.Link, wire.Frame) {
	idx := 0
	return func(l *wire.Link, f wire.Frame) {
		ev, _, _ := p.decode(f, s, peer)
		idx++
		ev["ev"], ev["idx"] = "emit", idx
		atomic.AddInt64(&p.emits, 1)
		p.log.add(ev)
		info := M{}
		for k, v := range ev {
			info[k] = v
		}
		atomic.AddInt64(&p.infl, 1)
		select {
		case p.ch[dir] <- frameQ{f, info}:
		default:
			// queue overflow: treat as a (logged) drop by the network
			atomic.AddInt64(&p.infl, -1)
			info["ev"] = "drop"
			info["why"] = "queue"
			p.log.add(info)
		}
	}
}

// deliver runs one direction of the wire.
// rebuild makes a new TCP segment for the same connection as template frame tf: sequence number seq, payload pl, flags fl
// (addresses, ports, ack, window and options of the template); used for the wire's peer-like transformations.
func rebuild(tf wire.Frame, seq uint32, fl uint8, pl []byte) (wire.Frame, bool) {
	var src, dst, l4 []byte
	v6 := tf.Proto == wire.ProtoIPv6
	if v6 {
		ip, err := wire.ParseIPv6(tf.Bytes)
		if err != nil {
			return tf, false
		}
		src, dst, l4 = ip.Src, ip.Dst, ip.Payload
	} else {
		ip, err := wire.ParseIPv4(tf.Bytes)
		if err != nil {
			return tf, false
		}
		src, dst, l4 = ip.Src, ip.Dst, ip.Payload
	}
	t, err := wire.ParseTCP(src, dst, l4)
	if err != nil {
		return tf, false
	}
	seg := wire.BuildTCP(src, dst, wire.TCPFields{SrcPort: t.SrcPort, DstPort: t.DstPort, Seq: seq, Ack: t.Ack, Flags: fl, Window: t.Window,
		Opts: append([]byte{}, t.RawOpts...)}, pl)
	nf := tf
	if v6 {
		nf.Bytes = wire.BuildIPv6(src, dst, 6, seg, 64)
	} else {
		nf.Bytes = wire.BuildIPv4(src, dst, 6, seg, wire.IPv4Opts{ID: 0x7777})
	}
	return nf, true
}

func tcpOf(f wire.Frame) (wire.TCP, bool) {
	if f.Proto == wire.ProtoIPv6 {
		ip, err := wire.ParseIPv6(f.Bytes)
		if err != nil {
			return wire.TCP{}, false
		}
		t, err := wire.ParseTCP(ip.Src, ip.Dst, ip.Payload)
		return t, err == nil
	}
	ip, err := wire.ParseIPv4(f.Bytes)
	if err != nil {
		return wire.TCP{}, false
	}
	t, err := wire.ParseTCP(ip.Src, ip.Dst, ip.Payload)
	return t, err == nil
}

func (p *pair) deliver(dir int, to *side, df dirFaults, seed int64) {
	from := p.a
	if to == p.a {
		from = p.b
	}
	var merge *frameQ // a delivered data frame waiting to be coalesced with the next contiguous one
	r := rand.New(rand.NewSource(seed))
	counts := map[string]int{}
	budget := df.Budget
	type held struct {
		q     frameQ
		after int
	}
	var holds []held
	var old []frameQ
	var injMu sync.Mutex // log + inject are one step, also for frames released by a delay timer
	inject := func(q frameQ, how string) {
		ev := M{}
		for k, v := range q.info {
			ev[k] = v
		}
		ev["ev"], ev["to"], ev["how"] = "arrive", to.name, how
		injMu.Lock()
		select {
		case <-p.done:
			injMu.Unlock()
			return
		default:
		}
		if p.sc.Sync && (ev["kind"] == "data" || ev["kind"] == "fin") {
			// the accepted endpoint becomes known to the harness when Accept returns: hold post-handshake frames until then,
			// otherwise they could not be delivered in lockstep
			for i := 0; i < 4000 && to.getEp() == nil; i++ {
				time.Sleep(500 * time.Microsecond)
			}
		}
		p.log.add(ev)
		to.link.Inject(q.f.Proto, q.f.Bytes, "")
		if p.sc.Sync && to.getEp() != nil {
			// synchronous wire: do not hand over the next frame before this one has been processed
			// (segment queue empty, protocol goroutine idle), so that log order = causal order
			for i := 0; i < 20000; i++ {
				st, ok := tcp.VerifState(to.ep)
				if ok && !st.SegQueue {
					// everything handed over so far has been processed (and whatever the stack advertised
					// before processing it has been logged by the tap)
					p.log.add(M{"ev": "processed", "to": to.name})
					break
				}
				if i < 100 {
					runtime.Gosched()
				} else {
					time.Sleep(20 * time.Microsecond)
				}
			}
		}
		injMu.Unlock()
	}
	release := func(force bool) {
		k := 0
		for _, h := range holds {
			h.after--
			if h.after <= 0 || force {
				inject(h.q, "held")
				atomic.AddInt64(&p.infl, -1)
			} else {
				holds[k] = h
				k++
			}
		}
		holds = holds[:k]
	}
	idle := time.NewTimer(time.Hour)
	for {
		idle.Reset(15 * time.Millisecond)
		select {
		case <-p.done:
			return
		case <-idle.C:
			release(true) // never keep a frame forever: held frames are delayed, not lost
			continue
		case q := <-p.ch[dir]:
			kind, _ := q.info["kind"].(string)
			counts[kind]++
			counts["any"]++
			if merge != nil && kind == "data" {
				t1, ok1 := tcpOf(merge.f)
				t2, ok2 := tcpOf(q.f)
				m := merge
				merge = nil
				if ok1 && ok2 && t2.Seq == t1.Seq+uint32(len(t1.Payload)) {
					pl := append(append([]byte{}, t1.Payload...), t2.Payload...)
					if nf, ok := rebuild(q.f, t1.Seq, t2.Flags, pl); ok {
						info, _, _ := p.decode(nf, from, to)
						info["ev"], info["fabricated"] = "emit", "coalesced"
						_ = m
						inject(frameQ{nf, info}, "coalesced")
						atomic.AddInt64(&p.infl, -1)
						release(false)
						continue
					}
				}
			}
			act, arg := "", 0
			for _, ru := range df.Rules {
				in := func(c int) bool {
					return ru.Nth == 0 || ru.Nth == c || (ru.Upto > 0 && c >= ru.Nth && c <= ru.Upto)
				}
				if (ru.Kind == kind && in(counts[kind])) || (ru.Kind == "any" && in(counts["any"])) {
					act, arg = ru.Act, ru.Arg
					break
				}
			}
			if act == "" && budget > 0 && kind != "" {
				x := r.Float64()
				switch {
				case x < df.Loss:
					act = "drop"
				case x < df.Loss+df.Dup:
					act = "dup"
				case x < df.Loss+df.Dup+df.Hold:
					act, arg = "hold", 1+r.Intn(4)
				case x < df.Loss+df.Dup+df.Hold+df.Coalesce && kind == "data":
					act = "coalesce"
				case x < df.Loss+df.Dup+df.Hold+df.Coalesce+df.Beyond && kind == "data":
					act, arg = "beyond", 1+r.Intn(40)
				}
				if act != "" {
					budget--
				}
			}
			switch act {
			case "drop":
				ev := M{}
				for k, v := range q.info {
					ev[k] = v
				}
				ev["ev"], ev["why"] = "drop", "fault"
				p.log.add(ev)
				atomic.AddInt64(&p.infl, -1)
			case "dup":
				inject(q, "pass")
				inject(q, "dup")
				atomic.AddInt64(&p.infl, -1)
			case "coalesce":
				// behave like a peer that merges segments on retransmission: this data frame is delivered now, and the
				// next contiguous data frame will be delivered as ONE segment covering both (a partial overlap at the receiver)
				inject(q, "pass")
				atomic.AddInt64(&p.infl, -1)
				qq := q
				merge = &qq
			case "beyond":
				// behave like a peer that ignores the window: a fabricated data segment that starts exactly at the right
				// edge the receiver advertised last (correct stream bytes) is handed to the receiver, THEN this frame
				if to.advOK && from.haveI {
					scale := uint(0)
					if !to.advSyn && to.wsOpt >= 0 && from.wsOpt >= 0 {
						scale = uint(to.wsOpt)
					}
					edge := to.advAck + uint32(to.advWnd)<<scale
					off := int(int32(edge - from.iss - 1))
					n := arg
					if n <= 0 {
						n = 5
					}
					if off >= 0 && to.advWnd > 0 {
						pl := make([]byte, n)
						for i := range pl {
							pl[i] = Byte(from.d, off+i)
						}
						if nf, ok := rebuild(q.f, edge, wire.ACK|wire.PSH, pl); ok {
							info, _, _ := p.decode(nf, from, to)
							info["ev"], info["fabricated"] = "emit", "beyond-window"
							inject(frameQ{nf, info}, "beyond")
						}
					}
				}
				inject(q, "pass")
				atomic.AddInt64(&p.infl, -1)
			case "hold":
				holds = append(holds, held{q, arg})
			case "delay": // deliver after arg milliseconds (the frame stays "in flight" meanwhile)
				qq := q
				time.AfterFunc(time.Duration(arg)*time.Millisecond, func() {
					inject(qq, "delayed")
					atomic.AddInt64(&p.infl, -1)
				})
			default:
				inject(q, "pass")
				atomic.AddInt64(&p.infl, -1)
			}
			if kind == "data" && df.Replay > 0 {
				old = append(old, q)
				if r.Float64() < df.Replay && len(old) > 2 {
					inject(old[r.Intn(len(old)-1)], "replay") // a stale copy of an earlier data segment
				}
			}
			if act != "hold" && act != "delay" {
				release(false)
			}
		}
	}
}

// nap is a deliberate application pause; the quiescence monitor does not
// judge the connection while an application is napping (it is not stalled).
func (p *pair) nap(d time.Duration) {
	atomic.AddInt64(&p.napping, 1)
	select {
	case <-time.After(d):
	case <-p.done:
	}
	atomic.AddInt64(&p.napping, -1)
}

func errS(e *tcpip.Error) string {
	if e == nil {
		return ""
	}
	return e.String()
}

// writer writes the side's chunks, blocking on EventOut when the send buffer is full.
func (p *pair) writer(s *side, wg *sync.WaitGroup) {
	defer wg.Done()
	off := 0
	wpolled := false
	we, ch := waiter.NewChannelEntry(nil)
	s.wq.EventRegister(&we, waiter.EventOut|waiter.EventHUp|waiter.EventErr)
	defer s.wq.EventUnregister(&we)
	for _, n := range s.cfg.Writes {
		rem := n
		for rem > 0 {
			buf := make([]byte, rem)
			for i := range buf {
				buf[i] = Byte(s.d, off+i)
			}
			p.log.add(M{"ev": "wcall", "e": s.name, "off": off, "n": rem})
			got, _, err := s.ep.Write(tcpip.SlicePayload(buf), tcpip.WriteOptions{})
			p.log.add(M{"ev": "wret", "e": s.name, "n": int(got), "err": errS(err)})
			off += int(got)
			rem -= int(got)
			if err != nil && err != tcpip.ErrWouldBlock {
				return
			}
			_ = wpolled
			if rem > 0 {
				// (the writable notification is threshold based - sent when the send buffer drains below half - so space found
				// by polling without a notification proves nothing: the writer keeps polling)
				select {
				case <-ch:
				case <-time.After(50 * time.Millisecond):
				case <-p.done:
					return
				}
			}
		}
		if s.cfg.WriteGapUS > 0 {
			p.nap(time.Duration(s.cfg.WriteGapUS) * time.Microsecond)
		}
	}
	if s.cfg.ShutAfterMS > 0 {
		p.nap(time.Duration(s.cfg.ShutAfterMS) * time.Millisecond)
	}
	if s.cfg.Shutdown {
		p.log.add(M{"ev": "shutw", "e": s.name, "at": off})
		err := s.ep.Shutdown(tcpip.ShutdownWrite)
		p.log.add(M{"ev": "shutret", "e": s.name, "err": errS(err)})
	}
}

// reader reads until end of stream or error.
func (p *pair) reader(s *side, wg *sync.WaitGroup) {
	defer wg.Done()
	if s.cfg.NoRead {
		return
	}
	we, ch := waiter.NewChannelEntry(nil)
	s.wq.EventRegister(&we, waiter.EventIn|waiter.EventHUp|waiter.EventErr)
	defer s.wq.EventUnregister(&we)
	if s.cfg.ReadStartMS > 0 {
		p.nap(time.Duration(s.cfg.ReadStartMS) * time.Millisecond)
	}
	total := 0
	polled := false
	for {
		v, _, err := s.ep.Read(nil)
		if err == tcpip.ErrWouldBlock {
			// the application sleeps on the readiness notification; the 2 s poll is only a rescue, and a rescue that finds
			// something to read for which no notification arrives is logged (`missedwake`): an application that blocks on the
			// waiter queue alone would sleep for ever
			polled = false
			select {
			case <-ch:
			case <-time.After(2 * time.Second):
				polled = true
			case <-p.done:
				return
			}
			continue
		}
		if polled {
			polled = false
			select {
			case <-ch:
			case <-time.After(300 * time.Millisecond):
				p.log.add(M{"ev": "missedwake", "e": s.name, "what": "readable", "at": total})
			case <-p.done:
				return
			}
		}
		if err != nil {
			if err == tcpip.ErrClosedForReceive {
				p.log.add(M{"ev": "eos", "e": s.name, "at": total})
			} else {
				p.log.add(M{"ev": "rerr", "e": s.name, "err": err.String(), "at": total})
			}
			return
		}
		p.log.add(M{"ev": "read", "e": s.name, "off": total, "n": len(v), "pay": wire.Ints(v)})
		total += len(v)
		if s.cfg.ReadMax > 0 && total >= s.cfg.ReadMax {
			p.log.add(M{"ev": "readstop", "e": s.name, "at": total})
			return
		}
		if s.cfg.ReadDelayUS > 0 {
			p.nap(time.Duration(s.cfg.ReadDelayUS) * time.Microsecond)
		}
	}
}

func snap(ep tcpip.Endpoint, s *side, peer *side) M {
	if ep == nil {
		return M{"ok": false}
	}
	st, ok := tcp.VerifState(ep)
	if !ok {
		return M{"ok": false, "state": st.State, "err": st.HardError, "worker": st.Worker}
	}
	m := M{"ok": true, "state": st.State, "err": st.HardError, "cwnd": st.Cwnd, "ssthresh": st.Ssthresh, "outstanding": st.Outstanding,
		"rto": int(st.RTOms), "resend": st.ResendArmed, "keep": st.KeepArmed, "sndclosed": st.SndClosed, "sndbufused": st.SndBufUsed,
		"sndqueued": st.SndQueued, "unsent": st.Unsent, "rcvclosed": st.RcvClosed, "rcvbufused": st.RcvBufUsed, "pending": st.Pending,
		"segq": st.SegQueue, "sndwnd": st.SndWnd, "worker": st.Worker, "dupack": st.DupAck, "fr": st.FRActive,
		// an armed retransmission timer whose deadline passed more than 2 s ago while the protocol goroutine is idle
		// will never fire (the runtime timer behind the lazy timer is gone): it counts as "no timer pending"
		"overdue": int(st.ResendOverdueMs), "deadtimer": st.ResendArmed && st.ResendOverdueMs > 2000}
	if s.haveI {
		m["snduna"], m["sndnxt"], m["sndnxtlist"] = rel(st.SndUna, s.iss), rel(st.SndNxt, s.iss), rel(st.SndNxtList, s.iss)
	}
	if peer.haveI {
		m["rcvnxt"], m["rcvacc"] = rel(st.RcvNxt, peer.iss), rel(st.RcvAcc, peer.iss)
	}
	return m
}

// hook H4 (the source of pkg/rand) is process-global: a scenario that pins its ISS holds issRW exclusively from before its
// stacks are created until both ends are up; every other scenario holds it shared over the same span, so that no other
// stack draws random bytes while the pinned value is installed (the source serves exactly one 4-byte request: the active
// opener's handshake.resetState, which runs in the protocol goroutine after Connect returned)
var issRW sync.RWMutex

func runPair(sc scenario) []M {
	pin := len(sc.A.ISS) == 2
	if pin {
		issRW.Lock()
	} else {
		issRW.RLock()
	}
	var relOnce sync.Once
	release := func() {
		relOnce.Do(func() {
			if pin {
				vrand.VerifSetSource(nil)
				issRW.Unlock()
			} else {
				issRW.RUnlock()
			}
		})
	}
	defer release()
	lg := &elog{t0: time.Now()}
	clock := wire.NewClock()
	mtu := uint32(sc.MTU)
	if mtu == 0 {
		mtu = 1500
	}
	mtuB := mtu
	if sc.MTUB > 0 {
		mtuB = uint32(sc.MTUB)
	}
	mk := func(name, a4, a6 string, m uint32) *wire.Host {
		return wire.NewHost(clock, name, []wire.NICSpec{{ID: 1, MTU: m, Addr4: []string{a4}, Addr6: []string{a6}}})
	}
	ha, hb := mk("a", "10.0.0.1", "fd00::1", mtu), mk("b", "10.0.0.2", "fd00::2", mtuB)
	for _, h := range []*wire.Host{ha, hb} {
		h.S.SetTransportProtocolOption(tcp.ProtocolNumber, tcp.SACKEnabled(sc.SACK))
		if sc.CC != "" {
			h.S.SetTransportProtocolOption(tcp.ProtocolNumber, tcp.CongestionControlOption(sc.CC))
		}
		h.S.SetTransportProtocolOption(tcp.ProtocolNumber, tcp.SendBufferSizeOption{Min: 1, Default: tcp.DefaultBufferSize, Max: tcp.DefaultBufferSize * 10})
		h.S.SetTransportProtocolOption(tcp.ProtocolNumber, tcp.ReceiveBufferSizeOption{Min: 1, Default: tcp.DefaultBufferSize, Max: tcp.DefaultBufferSize * 10})
	}
	// a receive buffer given in the scenario becomes the stack default of that host, so that the
	// accepted endpoint has it from its first advertisement on (listener options are not inherited)
	if sc.A.RcvBuf > 0 {
		ha.S.SetTransportProtocolOption(tcp.ProtocolNumber, tcp.ReceiveBufferSizeOption{Min: 1, Default: sc.A.RcvBuf, Max: tcp.DefaultBufferSize * 10})
	}
	if sc.B.RcvBuf > 0 {
		hb.S.SetTransportProtocolOption(tcp.ProtocolNumber, tcp.ReceiveBufferSizeOption{Min: 1, Default: sc.B.RcvBuf, Max: tcp.DefaultBufferSize * 10})
	}
	np := wire.ProtoIPv4
	aa, ab := wire.A4("10.0.0.1"), wire.A4("10.0.0.2")
	if sc.V == 6 {
		np = wire.ProtoIPv6
		aa, ab = wire.A6("fd00::1"), wire.A6("fd00::2")
	}
	p := &pair{sc: sc, log: lg, done: make(chan struct{})}
	p.a = &side{name: "a", d: 0, host: ha, link: ha.Links[1], addr: aa, cfg: sc.A}
	p.b = &side{name: "b", d: 1, host: hb, link: hb.Links[1], addr: ab, cfg: sc.B}
	p.ch[0], p.ch[1] = make(chan frameQ, 8192), make(chan frameQ, 8192)
	p.a.link.OnEmit = p.tap(p.a, p.b, 0)
	p.b.link.OnEmit = p.tap(p.b, p.a, 1)
	go p.deliver(0, p.b, sc.A2B, sc.Seed*7+1)
	go p.deliver(1, p.a, sc.B2A, sc.Seed*7+2)
	rs := M{"ev": "reset", "tag": sc.Tag, "mtu": int(mtu), "mtu_b": int(mtuB), "v": sc.V, "sack": sc.SACK, "cc": sc.CC,
		// (the largest receive buffer the application ever configures: the spec's "edge within the buffer" bound refers to it)
		"rcvbuf_a": maxInt(sc.A.RcvBuf, sc.A.RcvBuf2), "rcvbuf_b": maxInt(sc.B.RcvBuf, sc.B.RcvBuf2), "seed": int(sc.Seed), "sync": sc.Sync, "procev": sc.Sync}
	for k, v := range sc.Flags {
		rs[k] = v
	}
	lg.add(rs)
	finish := func(why string) []M {
		time.Sleep(30 * time.Millisecond)
		lg.add(M{"ev": "end", "why": why, "a": snap(p.a.ep, p.a, p.b), "b": snap(p.b.ep, p.b, p.a), "infl": int(atomic.LoadInt64(&p.infl))})
		close(p.done)
		p.a.link.OnEmit, p.b.link.OnEmit = nil, nil
		if p.a.ep != nil && !p.a.appClosed {
			p.a.ep.Close()
		}
		if p.b.ep != nil && !p.b.appClosed {
			p.b.ep.Close()
		}
		lg.mu.Lock()
		defer lg.mu.Unlock()
		return lg.evs
	}
	// listener on b
	lwq := &waiter.Queue{}
	lep, err := hb.S.NewEndpoint(tcp.ProtocolNumber, np, lwq)
	if err != nil {
		vh.Fatal("NewEndpoint: %v", err)
	}
	defer lep.Close()
	if err := lep.Bind(tcpip.FullAddress{Port: 80}, nil); err != nil {
		vh.Fatal("bind: %v", err)
	}
	if err := lep.Listen(4); err != nil {
		vh.Fatal("listen: %v", err)
	}
	// active open on a
	p.a.wq = &waiter.Queue{}
	p.a.ep, err = ha.S.NewEndpoint(tcp.ProtocolNumber, np, p.a.wq)
	if err != nil {
		vh.Fatal("NewEndpoint: %v", err)
	}
	if sc.A.RcvBuf > 0 {
		p.a.ep.SetSockOpt(tcpip.ReceiveBufferSizeOption(sc.A.RcvBuf))
	}
	if sc.A.SndBuf > 0 {
		p.a.ep.SetSockOpt(tcpip.SendBufferSizeOption(sc.A.SndBuf))
	}
	if sc.B.RcvBuf > 0 {
		lep.SetSockOpt(tcpip.ReceiveBufferSizeOption(sc.B.RcvBuf))
	}
	we, ch := waiter.NewChannelEntry(nil)
	p.a.wq.EventRegister(&we, waiter.EventOut|waiter.EventHUp|waiter.EventErr)
	lwe, lch := waiter.NewChannelEntry(nil)
	lwq.EventRegister(&lwe, waiter.EventIn)
	if pin {
		iss := uint32(sc.A.ISS[0])<<16 | uint32(sc.A.ISS[1])
		var served int32
		vrand.VerifSetSource(func(b []byte) bool {
			if len(b) != 4 || !atomic.CompareAndSwapInt32(&served, 0, 1) {
				return false
			}
			b[0], b[1], b[2], b[3] = byte(iss), byte(iss>>8), byte(iss>>16), byte(iss>>24)
			return true
		})
	}
	lg.add(M{"ev": "connect", "e": "a"})
	cerr := p.a.ep.Connect(tcpip.FullAddress{Addr: ab, Port: 80})
	deadline := time.Duration(sc.Deadline) * time.Millisecond
	if deadline == 0 {
		deadline = 30 * time.Second
	}
	tmo := time.After(deadline)
	if cerr == tcpip.ErrConnectStarted {
		select {
		case <-ch:
		case <-tmo:
			p.a.wq.EventUnregister(&we)
			return finish("connect-timeout")
		}
		var eo tcpip.ErrorOption
		cerr = p.a.ep.GetSockOpt(eo)
	}
	p.a.wq.EventUnregister(&we)
	lg.add(M{"ev": "up", "e": "a", "err": errS(cerr)})
	if cerr != nil {
		return finish("connect-failed")
	}
	for {
		ep, wq, aerr := lep.Accept()
		if aerr == nil {
			p.b.setEp(ep, wq)
			break
		}
		if aerr != tcpip.ErrWouldBlock {
			lg.add(M{"ev": "up", "e": "b", "err": aerr.String()})
			return finish("accept-failed")
		}
		select {
		case <-lch:
		case <-tmo:
			return finish("accept-timeout")
		}
	}
	lwq.EventUnregister(&lwe)
	lg.add(M{"ev": "up", "e": "b", "err": ""})
	release()
	var wg, wa, wb sync.WaitGroup
	wg.Add(2)
	wa.Add(2)
	wb.Add(2)
	go p.writer(p.a, &wa)
	go p.writer(p.b, &wb)
	go p.reader(p.a, &wa)
	go p.reader(p.b, &wb)
	// an application that is done with both directions (own writes + shutdown issued, reader returned) may Close() its
	// endpoint: the stack then forgets the connection as soon as its protocol goroutine has finished
	closer := func(s *side, swg *sync.WaitGroup) {
		defer wg.Done()
		swg.Wait()
		if s.cfg.Close {
			select {
			case <-p.done:
				return
			default:
			}
			if s.cfg.CloseAfterMS > 0 {
				p.nap(time.Duration(s.cfg.CloseAfterMS) * time.Millisecond)
			}
			lg.add(M{"ev": "close", "e": s.name})
			s.ep.Close()
			s.appClosed = true
		}
	}
	go closer(p.a, &wa)
	go closer(p.b, &wb)
	for _, s := range []*side{p.a, p.b} {
		if s.cfg.RcvBuf2 > 0 {
			s := s
			go func() {
				select {
				case <-time.After(time.Duration(s.cfg.RcvBuf2MS) * time.Millisecond):
				case <-p.done:
					return
				}
				err := s.ep.SetSockOpt(tcpip.ReceiveBufferSizeOption(s.cfg.RcvBuf2))
				lg.add(M{"ev": "note", "why": "rcvbuf changed", "e": s.name, "to": s.cfg.RcvBuf2, "err": errS(err)})
			}()
		}
	}
	appsDone := make(chan struct{})
	go func() { wg.Wait(); close(appsDone) }()
	// quiescence monitor: wire empty, both protocol goroutines idle, no timer armed, stable -> a state, not a timeout
	stable := 0
	lastEmits := int64(-1)
	tick := time.NewTicker(50 * time.Millisecond)
	defer tick.Stop()
	for {
		select {
		case <-appsDone:
			// let the closing exchange finish: wait until quiet
			for i := 0; i < 200; i++ {
				e0 := atomic.LoadInt64(&p.emits)
				time.Sleep(20 * time.Millisecond)
				if atomic.LoadInt64(&p.emits) == e0 && atomic.LoadInt64(&p.infl) == 0 {
					sa, sb := snap(p.a.ep, p.a, p.b), snap(p.b.ep, p.b, p.a)
					if sa["ok"] == true && sb["ok"] == true && sa["resend"] == false && sb["resend"] == false {
						break
					}
				}
			}
			return finish("done")
		case <-tmo:
			return finish("deadline")
		case <-tick.C:
			e := atomic.LoadInt64(&p.emits)
			if e != lastEmits || atomic.LoadInt64(&p.infl) != 0 || atomic.LoadInt64(&p.napping) != 0 {
				lastEmits, stable = e, 0
				continue
			}
			sa, sb := snap(p.a.ep, p.a, p.b), snap(p.b.ep, p.b, p.a)
			pendingTimer := func(m M) bool { return m["resend"] == true && m["deadtimer"] != true }
			if sa["ok"] != true || sb["ok"] != true || pendingTimer(sa) || pendingTimer(sb) || sa["segq"] == true || sb["segq"] == true {
				stable = 0
				continue
			}
			stable++
			if stable >= 8 { // 400 ms of provable quiet: nothing in flight, nothing queued, no retransmission timer armed
				lg.add(M{"ev": "quiesce", "a": sa, "b": sb})
				return finish("quiesce")
			}
		}
	}
}

func atoi(s string) int {
	n, err := strconv.Atoi(s)
	if err != nil {
		vh.Fatal("bad int %q", s)
	}
	return n
}

func main() {
	vh.Quiet()
	if len(os.Args) < 4 {
		vh.Fatal("usage: tcpd pair scenarios.json out.ndjson [parallel]")
	}
	switch os.Args[1] {
	case "pair":
		var scs []scenario
		vh.LoadJSON(os.Args[2], &scs)
		par := 32
		if len(os.Args) > 4 {
			par = atoi(os.Args[4])
		}
		res := make([][]M, len(scs))
		sem := make(chan struct{}, par)
		var wg sync.WaitGroup
		for i := range scs {
			wg.Add(1)
			sem <- struct{}{}
			go func(i int) {
				defer wg.Done()
				defer func() { <-sem }()
				defer func() {
					if r := recover(); r != nil {
						res[i] = append(res[i], M{"ev": "reset", "tag": scs[i].Tag}, M{"ev": "panic", "what": fmt.Sprint(r)})
					}
				}()
				res[i] = runPair(scs[i])
			}(i)
		}
		wg.Wait()
		tr := vh.NewTrace(os.Args[3])
		for i := range res {
			for _, e := range res[i] {
				e["sc"] = i
				tr.Log(e)
			}
		}
		tr.Close()
	default:
		vh.Fatal("unknown mode %s", os.Args[1])
	}
}

func maxInt(a, b int) int {
	if a > b {
		return a
	}
	return b
}
