package main

// Free-running stress (no gate scheduler): the verif hook injects pre-emption
// (runtime.Gosched) at the algorithm's atomic operations; meant to be built
// with -race.  Usage contract under test: a producer publishes work
// (produced[w]++) and then asserts waker w; the sleeper, whenever Fetch returns
// w, takes everything published for w so far.  After every producer has
// finished, a last "quit" waker is asserted; once the sleeper has fetched it
// and drained the rest with non-blocking fetches, it must have seen all the
// work (else a notification was lost).  A sleeper that stays parked although
// everybody has finished and quit is asserted is the lost wake-up as a STATE
// (observed, not timed out).

import (
	"runtime"
	"sync"
	"sync/atomic"
	"time"

	"github.com/brewlin/net-protocol/pkg/sleep"
)

// generous: a round normally takes well under a second
const stressWatchdog = 60 * time.Second

type stressOut struct {
	Goroutines int     `json:"goroutines"`
	Wakers     int     `json:"wakers"`
	Iters      int     `json:"iters"`
	Fetches    int     `json:"fetches"`
	Asserts    int64   `json:"asserts"`
	Clears     int64   `json:"clears_true"`
	Yields     uint64  `json:"yields"`
	Mismatch   [][]int `json:"mismatch"` // [waker, produced, consumed]
	Invented   []int   `json:"invented"` // ids returned although nothing was ever published for them
	Stuck      bool    `json:"stuck"`
	StuckHow   string  `json:"stuck_how,omitempty"`
	Reattach   bool    `json:"reattach_ok"`
}

func stress(ng, nw, iters, seed int) stressOut {
	resetSentinel()
	out := stressOut{Goroutines: ng, Wakers: nw, Iters: iters, Mismatch: [][]int{}, Invented: []int{}}
	var rnd, yields uint64 = uint64(seed)*2654435761 + 1, 0
	sleep.VerifSetHook(func(int) {
		x := atomic.AddUint64(&rnd, 0x9E3779B97F4A7C15)
		x ^= x >> 29
		if x%3 == 0 {
			atomic.AddUint64(&yields, 1)
			runtime.Gosched()
		}
	})
	defer sleep.VerifSetHook(nil)
	s := &sleep.Sleeper{}
	wk := make([]*sleep.Waker, nw+1) // wk[0] = quit
	for i := range wk {
		wk[i] = &sleep.Waker{}
		s.AddWaker(wk[i], i)
	}
	produced := make([]int64, nw+1)
	consumed := make([]int64, nw+1)
	var asserts, clears int64
	var wg sync.WaitGroup
	for g := 0; g < ng; g++ {
		wg.Add(1)
		go func(g int) {
			defer wg.Done()
			x := uint64(seed*131+g)*0x9E3779B97F4A7C15 + 7
			for i := 0; i < iters; i++ {
				x ^= x << 13
				x ^= x >> 7
				x ^= x << 17
				w := 1 + int(x%uint64(nw))
				atomic.AddInt64(&produced[w], 1)
				wk[w].Assert()
				atomic.AddInt64(&asserts, 1)
				if x>>20%8 == 0 && wk[w].Clear() {
					// took the notification away: hand it back
					atomic.AddInt64(&clears, 1)
					wk[w].Assert()
				}
			}
		}(g)
	}
	var done int32
	var fetches int
	var invented []int
	go func() {
		take := func(id int) {
			p := atomic.LoadInt64(&produced[id])
			if p == 0 && id != 0 {
				invented = append(invented, id)
			}
			consumed[id] = p
			fetches++
		}
		for {
			id, _ := s.Fetch(true)
			if id == 0 {
				break
			}
			take(id)
		}
		for {
			id, ok := s.Fetch(false)
			if !ok {
				break
			}
			take(id)
		}
		s.Done()
		atomic.StoreInt32(&done, 1)
	}()
	// watchdog: Assert and Clear never block, so the producers finish (normally well within a second)
	pdone := make(chan struct{})
	go func() { wg.Wait(); close(pdone) }()
	select {
	case <-pdone:
	case <-time.After(stressWatchdog):
		out.Stuck, out.StuckHow = true, "producer goroutines (Assert/Clear) did not return"
		return out
	}
	wk[0].Assert()
	t0 := time.Now()
	for atomic.LoadInt32(&done) == 0 {
		if time.Since(t0) > stressWatchdog {
			// every Assert has returned, quit is asserted: the fetch loop is obliged to end
			out.Stuck, out.StuckHow = true, "sleeper goroutine keeps running (Fetch/Done does not return) although all Asserts returned"
			break
		}
		if sleep.VerifWaitingG(s) == sleep.VerifGParked && wk[0].IsAsserted() {
			// nobody is in flight any more: nothing will ever wake it
			stuck := true
			for k := 0; k < 1000 && stuck; k++ { // the observation must be stable
				runtime.Gosched()
				stuck = atomic.LoadInt32(&done) == 0 && sleep.VerifWaitingG(s) == sleep.VerifGParked && wk[0].IsAsserted()
			}
			if stuck {
				out.Stuck, out.StuckHow = true, "sleeper parked although the quit waker is asserted and nobody is in flight"
				break
			}
		}
		runtime.Gosched()
	}
	out.Asserts, out.Clears, out.Yields = atomic.LoadInt64(&asserts), atomic.LoadInt64(&clears), atomic.LoadUint64(&yields)
	if out.Stuck {
		return out
	}
	out.Fetches, out.Invented = fetches, append(out.Invented, invented...)
	for w := 1; w <= nw; w++ {
		if consumed[w] != produced[w] {
			out.Mismatch = append(out.Mismatch, []int{w, int(produced[w]), int(consumed[w])})
		}
	}
	// after Done: every waker can serve a new sleeper, the old one stays silent
	s2 := &sleep.Sleeper{}
	out.Reattach = true
	for i := 1; i <= nw; i++ {
		s2.AddWaker(wk[i], 100+i)
	}
	for i := 1; i <= nw; i++ {
		wk[i].Clear()
		for {
			if _, ok := s2.Fetch(false); !ok {
				break
			}
		}
		wk[i].Assert()
		id, ok := s2.Fetch(false)
		_, ok2 := s2.Fetch(false)
		_, okOld := s.Fetch(false)
		if !ok || id != 100+i || ok2 || okOld {
			out.Reattach = false
		}
	}
	return out
}
