// Driver for C19: the real sleep.Sleeper / sleep.Waker under a gate scheduler.
//
//	explore CFG MAXSTATES          -> reachable graph of the real code (JSON on stdout)
//	random  CFG RUNS SEED OUT      -> seeded random schedules, P-level trace (ndjson)
//	replay  CFG MOVES.json         -> run one schedule, print events + states (JSON on stdout)
//	stress  NG NW ITERS SEED ROUNDS -> free-running stress with injected pre-emption (for -race builds)
//
// CFG = NW:TARGET:MAXG:MAXF:PRE[:OPTS], e.g. 2:1,1,2:2:2:1 (TARGET: waker of each
// waker goroutine; PRE=1: wakers attached before the schedule starts; TARGET
// "r<n>": n goroutines with targets drawn from the run's random source; OPTS,
// comma separated: a = the waker goroutines only Assert, q<k> = wakers 1..k are
// asserted, hence queued, before the schedule starts).
//
// Watchdog (sched.go): a call of the code under test that does not come back
// from a step is reported as a `stuck` event (spinning | parked), the history is
// abandoned and its goroutines are leaked; after maxSpinLeaks spinning leaks the
// driver stops making new histories (output marked aborted).
//
// Worker 0 is the sleeper goroutine (AddWaker / Fetch / Done all run on it:
// gopark and goready are per goroutine); workers 1..n are the waker goroutines.
// The state projection mirrors spec/sleep/Sleep.tla: the shared memory is read
// through the verif accessors, the goroutine-local variables of the algorithm
// (which waker a CAS loop holds, Done's pending set ...) are derived from the
// hook point reached and the shared state seen immediately before the step.
package main

import (
	"encoding/json"
	"fmt"
	"math/rand"
	"os"
	"strconv"
	"strings"

	"github.com/brewlin/net-protocol/pkg/sleep"
	"verifh/gate"
	"verifh/vh"
)

var pcSleeper = map[int]string{1: "AW1", 2: "AW2", 13: "SE1", 14: "SE2", 15: "SE3", 3: "L2", 8: "L2", 4: "L3", 5: "L4",
	6: "L4b", 7: "L5", 9: "Lswap", 10: "Fswap", 11: "D1", 12: "D2"}
var pcWaker = map[int]string{18: "A1", 19: "A2", 13: "E1", 14: "E2", 15: "E3", 16: "E4", 17: "E5", 20: "C1", 21: "C2"}
var wsName = map[int]string{sleep.VerifWNil: "nil", sleep.VerifWSleeper: "slp", sleep.VerifWAsserted: "asserted"}

type config struct {
	nw      int
	target  []int // waker (1-based) of waker goroutine g (index g-1)
	maxG    int
	maxF    int
	pre     bool
	noClear bool // option "a": the waker goroutines only Assert
	preQ    int  // option "q<k>": wakers 1..k asserted (and so queued) before the schedule starts; needs pre
}

func parseCfg(s string, r *rand.Rand) config {
	p := strings.Split(s, ":")
	if len(p) != 5 && len(p) != 6 {
		vh.Fatal("bad config %q", s)
	}
	c := config{nw: atoi(p[0]), maxG: atoi(p[2]), maxF: atoi(p[3]), pre: p[4] == "1"}
	if len(p) == 6 {
		for _, o := range strings.Split(p[5], ",") {
			switch {
			case o == "a":
				c.noClear = true
			case strings.HasPrefix(o, "q"):
				c.preQ = atoi(o[1:])
			case o == "":
			default:
				vh.Fatal("bad option %q in %q", o, s)
			}
		}
	}
	if strings.HasPrefix(p[1], "r") {
		n := atoi(p[1][1:])
		for i := 0; i < n; i++ {
			c.target = append(c.target, 1+r.Intn(c.nw))
		}
	} else {
		for _, t := range strings.Split(p[1], ",") {
			c.target = append(c.target, atoi(t))
		}
	}
	for _, t := range c.target {
		if t < 1 || t > c.nw {
			vh.Fatal("bad target in %q", s)
		}
	}
	return c
}

type gst struct {
	pc  string
	op  string
	ops int
	gv  int
	gg  int
}

type sys struct {
	c   config
	s   *sleep.Sleeper
	wk  []*sleep.Waker // index w-1
	idx map[*sleep.Waker]int
	sc  *sched

	// sleeper goroutine (shadow of its local variables)
	pcF      string
	fop      string
	fblock   bool
	fw       int
	fops     int
	nadd     int
	sp       string
	sv       int
	dq       []int
	pend     map[int]bool
	inDone   bool
	parked   bool
	parkReg  bool
	finished bool

	g []gst // index g-1

	lastObs  string
	frozen   map[string]interface{}
	off      bool // created after the driver gave up (aborted): does nothing
	hopeless bool // the re-attachment probe got stuck
}

const maxSpinLeaks = 3

var aborted bool // too many goroutines left spinning: no new histories
var stuckSeen int

func newSys(c config) *sys {
	if aborted {
		return &sys{c: c, off: true}
	}
	resetSentinel()
	s := &sys{c: c, s: &sleep.Sleeper{}, idx: map[*sleep.Waker]int{}, pcF: "idle", sp: "nil", pend: map[int]bool{}}
	for i := 0; i < c.nw; i++ {
		w := &sleep.Waker{}
		s.wk = append(s.wk, w)
		s.idx[w] = i + 1
	}
	s.g = make([]gst, len(c.target))
	for i := range s.g {
		s.g[i].pc = "idle"
	}
	s.sc = newSched(1 + len(c.target))
	sleep.VerifSetHook(s.sc.Hook)
	if c.pre {
		// attach on the sleeper goroutine, every step granted at once
		for s.nadd < c.nw {
			w := s.wk[s.nadd]
			id := s.nadd + 1
			sl := s.s
			p := s.sc.Start(0, func() interface{} { sl.AddWaker(w, id); return nil })
			for !p.Done && s.sc.stuckState == "" {
				p = s.sc.Grant(0)
			}
			if s.sc.stuckState != "" {
				vh.Fatal("AddWaker on a fresh sleeper does not return (%s)", s.sc.stuckState)
			}
			s.nadd++
		}
		for w := 0; w < c.preQ; w++ {
			s.wk[w].Assert() // harness goroutine: the hook lets it through
		}
	}
	s.lastObs = s.obsKey(s.obs())
	return s
}

func (s *sys) Close() {
	if s.off {
		return
	}
	sl := s.s
	s.sc.Abandon(func() { sleep.VerifForce(sl) }, func() bool {
		return sleep.VerifWaitingG(sl) == sleep.VerifGParked
	}, (s.parked && !s.parkReg) || s.sc.stuckState != "" || s.hopeless)
}

// ---- observation of the shared memory through the accessors

type memv struct {
	ws     []string // index w-1
	shared []int
	local  []int
	wg     int
}

func (s *sys) ids(l []*sleep.Waker) []int {
	out := []int{}
	for _, w := range l {
		if i, ok := s.idx[w]; ok {
			out = append(out, i)
		} else {
			out = append(out, -1)
		}
	}
	return out
}

func (s *sys) mem() memv {
	var m memv
	for _, w := range s.wk {
		cl, owner := sleep.VerifWakerState(w)
		n := wsName[cl]
		if cl == sleep.VerifWSleeper && owner != s.s {
			n = "other"
		}
		m.ws = append(m.ws, n)
	}
	sh, lo, _ := sleep.VerifSleeperLists(s.s, 2*s.c.nw+4)
	m.shared, m.local = s.ids(sh), s.ids(lo)
	m.wg, _, _, _ = sleep.VerifSleeperState(s.s)
	return m
}

func head(l []int) int {
	if len(l) == 0 {
		return 0
	}
	return l[0]
}

func rev(l []int) []int {
	out := make([]int, len(l))
	for i, x := range l {
		out[len(l)-1-i] = x
	}
	return out
}

// ---- moves

func (s *sys) quiescent() bool {
	for i := range s.g {
		if s.g[i].op != "" {
			return false
		}
	}
	return true
}

func (s *sys) Enabled() []gate.Move {
	var out []gate.Move
	if s.frozen != nil || s.off {
		return nil
	}
	switch {
	case s.finished || s.parked:
	case s.fop == "":
		if !s.inDone {
			if s.nadd < s.c.nw {
				out = append(out, gate.Move{W: 0, Op: "AddWaker"})
			} else {
				if s.fops < s.c.maxF {
					out = append(out, gate.Move{W: 0, Op: "FetchB"}, gate.Move{W: 0, Op: "FetchNB"})
				}
				out = append(out, gate.Move{W: 0, Op: "Done"})
			}
		}
	default:
		out = append(out, gate.Move{W: 0})
	}
	for i := range s.g {
		g := &s.g[i]
		if g.op == "" {
			if g.ops < s.c.maxG {
				out = append(out, gate.Move{W: i + 1, Op: "Assert"})
				if !s.c.noClear {
					out = append(out, gate.Move{W: i + 1, Op: "Clear"})
				}
			}
		} else {
			out = append(out, gate.Move{W: i + 1})
		}
	}
	return out
}

// afterSleeper updates the shadow of the sleeper goroutine after it moved from
// pc `prev` (with shared memory `pre` before the step) to position p.
func (s *sys) afterSleeper(prev string, pre memv, p gate.Pos) []gate.Event {
	var evs []gate.Event
	post := s.mem()
	// wakers popped from the local list during this step
	avail := pre.local
	if prev == "Lswap" {
		avail = append(rev(pre.shared), pre.local...)
	}
	npop := len(avail) - len(post.local)
	if npop < 0 || npop > len(avail) {
		npop = 0
	}
	popped := avail[:npop]
	// effects of the atomic operation just executed, as far as they are goroutine-local
	switch prev {
	case "AW1":
		s.sp = pre.ws[s.nadd]
		if s.sp == "asserted" {
			s.sp = "nil"
		}
	case "AW2":
		s.sp = "nil"
	case "SE1":
		s.sv = head(pre.shared)
	case "SE2":
		s.sv = 0
	case "D1":
		if len(s.dq) > 0 && pre.ws[s.dq[0]-1] != "slp" {
			s.pend[s.dq[0]] = true
			s.dq = s.dq[1:]
		}
	case "D2":
		if len(s.dq) > 0 && pre.ws[s.dq[0]-1] == "slp" {
			s.dq = s.dq[1:]
		}
	}
	if s.inDone {
		for _, w := range popped {
			delete(s.pend, w)
		}
	}
	s.fw = 0
	if p.Done {
		ev := gate.Event{"ev": "ret", "p": 0, "op": s.fop}
		switch s.fop {
		case "AddWaker":
			ev["w"] = s.nadd + 1
			s.nadd++
		case "Fetch":
			r := p.Ret.([2]int)
			ev["id"], ev["ok"], ev["block"] = r[0], r[1] == 1, s.fblock
			s.fblock = false
		case "Done":
			s.finished = true
		}
		evs = append(evs, ev)
		s.fop = ""
		s.pcF = "idle"
		if s.finished {
			s.pcF = "finished"
		}
		return evs
	}
	pc, ok := pcSleeper[p.Point]
	if !ok {
		vh.Fatal("sleeper at unknown hook point %d", p.Point)
	}
	s.pcF = pc
	if pc == "Fswap" && len(popped) > 0 {
		s.fw = popped[len(popped)-1]
	}
	return evs
}

func (s *sys) afterWaker(i int, prev string, pre memv, p gate.Pos) []gate.Event {
	g := &s.g[i]
	switch prev {
	case "E1":
		g.gv = head(pre.shared)
	case "E2":
		g.gv = 0
	case "E3":
		g.gg = pre.wg
	case "E4":
		if !(pre.wg == g.gg && g.gg == 2) {
			g.gg = 0
		}
	case "E5":
		g.gg = 0
	}
	if p.Done {
		ev := gate.Event{"ev": "ret", "p": i + 1, "op": g.op, "w": s.c.target[i]}
		if g.op == "Clear" {
			ev["ok"] = p.Ret.(bool)
		}
		g.op = ""
		g.pc = "idle"
		g.gv, g.gg = 0, 0
		return []gate.Event{ev}
	}
	pc, ok := pcWaker[p.Point]
	if !ok {
		vh.Fatal("waker goroutine at unknown hook point %d", p.Point)
	}
	g.pc = pc
	return nil
}

// Do executes one move.  Events of a move: [call] [obs of the state after the
// move] [ret].
func (s *sys) Do(m gate.Move) []gate.Event {
	if s.off || s.frozen != nil {
		return nil
	}
	evs, stuck := s.do(m)
	if stuck {
		// the watchdog fired: log it, freeze the projection at the state before the move, leak the goroutines
		wi := s.sc.stuckWorker
		op := s.fop
		if wi > 0 {
			op = s.g[wi-1].op
		}
		evs = append(evs, gate.Event{"ev": "stuck", "p": wi, "op": op, "state": s.sc.stuckState})
		s.frozen["stuck"] = fmt.Sprintf("%d:%s:%s after %s", wi, op, s.sc.stuckState, m.String())
		stuckSeen++
		if s.sc.stuckState == "spinning" {
			spinLeaks++
			if spinLeaks >= maxSpinLeaks {
				aborted = true
			}
		}
	}
	return evs
}

func (s *sys) do(m gate.Move) (evsOut []gate.Event, stuck bool) {
	var evs, rets []gate.Event
	pre := s.mem()
	defer func() {
		if s.sc.stuckState != "" {
			s.frozen = s.stateWith(pre)
			evsOut, stuck = evs, true
		}
	}()
	if m.W == 0 {
		prev := s.pcF
		var p gate.Pos
		sl := s.s
		switch m.Op {
		case "AddWaker":
			w, id := s.wk[s.nadd], s.nadd+1
			s.fop = "AddWaker"
			evs = append(evs, gate.Event{"ev": "call", "p": 0, "op": "AddWaker", "w": id})
			p = s.sc.Start(0, func() interface{} { sl.AddWaker(w, id); return nil })
		case "FetchB", "FetchNB":
			b := m.Op == "FetchB"
			s.fop, s.fblock = "Fetch", b
			s.fops++
			evs = append(evs, gate.Event{"ev": "call", "p": 0, "op": "Fetch", "block": b})
			p = s.sc.Start(0, func() interface{} {
				id, ok := sl.Fetch(b)
				r := [2]int{id, 0}
				if ok {
					r[1] = 1
				}
				return r
			})
		case "Done":
			s.fop, s.inDone, s.fblock = "Done", true, true
			for w := s.c.nw; w >= 1; w-- {
				s.dq = append(s.dq, w)
			}
			evs = append(evs, gate.Event{"ev": "call", "p": 0, "op": "Done"})
			p = s.sc.Start(0, func() interface{} { sl.Done(); return nil })
		case "":
			if s.pcF == "L5" {
				var parked, reg bool
				p, parked, reg = s.sc.GrantPark(0, func() bool { return sleep.VerifWaitingG(sl) == sleep.VerifGParked })
				if parked {
					s.parked, s.parkReg, s.pcF = true, reg, "parked"
					return append(evs, s.obsMaybe(false)...), false
				}
			} else {
				p = s.sc.Grant(0)
			}
		default:
			vh.Fatal("bad sleeper move %v", m)
		}
		if s.sc.stuckState != "" {
			return
		}
		rets = append(rets, s.afterSleeper(prev, pre, p)...)
	} else {
		i := m.W - 1
		g := &s.g[i]
		prev := g.pc
		var p gate.Pos
		w := s.wk[s.c.target[i]-1]
		switch m.Op {
		case "Assert":
			g.op = "Assert"
			g.ops++
			evs = append(evs, gate.Event{"ev": "call", "p": m.W, "op": "Assert", "w": s.c.target[i]})
			p = s.sc.Start(m.W, func() interface{} { w.Assert(); return nil })
		case "Clear":
			g.op = "Clear"
			g.ops++
			evs = append(evs, gate.Event{"ev": "call", "p": m.W, "op": "Clear", "w": s.c.target[i]})
			p = s.sc.Start(m.W, func() interface{} { return w.Clear() })
		case "":
			p = s.sc.Grant(m.W)
		default:
			vh.Fatal("bad waker move %v", m)
		}
		if s.sc.stuckState != "" {
			return
		}
		rets = append(rets, s.afterWaker(i, prev, pre, p)...)
		if prev == "E5" {
			// goready executed: the sleeper goroutine runs up to its next gate
			if !s.parked {
				vh.Fatal("goready step although the sleeper is not parked")
			}
			sp := s.sc.AwaitWake(0)
			if s.sc.stuckState != "" {
				return
			}
			s.parked = false
			rets = append(rets, s.afterSleeper("parked", s.mem(), sp)...)
		}
	}
	evs = append(evs, s.obsMaybe(len(evs)+len(rets) > 0)...)
	evs = append(evs, rets...)
	if s.finished && len(s.Enabled()) == 0 {
		s.frozen = s.State()
		evs = append(evs, s.reattachWatched()...)
	}
	return evs, false
}

// reattachWatched runs the re-attachment probe on a goroutine of its own, under the watchdog.
func (s *sys) reattachWatched() []gate.Event {
	ch := make(chan gate.Event, 1)
	gid := make(chan int64, 1)
	go func() { gid <- goid(); ch <- s.reattach() }()
	id := <-gid
	var ev gate.Event
	st := watch(id, 0, func() bool {
		select {
		case ev = <-ch:
			return true
		default:
			return false
		}
	})
	if st == "" {
		return []gate.Event{ev}
	}
	stuckSeen++
	if st == "spinning" {
		spinLeaks++
		if spinLeaks >= maxSpinLeaks {
			aborted = true
		}
	}
	s.frozen["stuck"] = "reattach:" + st
	s.hopeless = true // Close gives up at once
	return []gate.Event{{"ev": "stuck", "p": 0, "op": "reattach", "state": st}}
}

// ---- P-level observations

func (s *sys) obs() gate.Event {
	asserted := []int{}
	for i, w := range s.wk {
		if w.IsAsserted() {
			asserted = append(asserted, i+1)
		}
	}
	g, se, le, _ := sleep.VerifSleeperState(s.s)
	dirty := !se || !le || g != sleep.VerifGNone
	return gate.Event{"ev": "obs", "parked": s.parked, "asserted": asserted, "dirty": dirty}
}

func (s *sys) obsKey(e gate.Event) string {
	return fmt.Sprintf("%v|%v|%v", e["parked"], e["asserted"], e["dirty"])
}

// obsMaybe emits the observation if it differs from the one of the source
// state or if the move produced call/ret events (obs is a function of the state).
func (s *sys) obsMaybe(force bool) []gate.Event {
	e := s.obs()
	k := s.obsKey(e)
	if !force && k == s.lastObs {
		return nil
	}
	s.lastObs = k
	return []gate.Event{e}
}

// reattach runs in a terminal state after Done returned (every goroutine
// idle): through the public API only, the old sleeper must deliver nothing any
// more and a new sleeper must receive exactly the wakers' assertions.
func (s *sys) reattach() gate.Event {
	s2 := &sleep.Sleeper{}
	old := [][]interface{}{}
	neu := [][]interface{}{}
	probeOld := func() {
		if id, ok := s.s.Fetch(false); ok {
			old = append(old, []interface{}{id, ok})
		}
	}
	for i, w := range s.wk {
		s2.AddWaker(w, 100+i+1)
	}
	for _, w := range s.wk {
		w.Clear()
		probeOld()
	}
	for i, w := range s.wk {
		// whatever is still queued from before was cleared above: drain, then assert once
		for {
			if _, ok := s2.Fetch(false); !ok {
				break
			}
			neu = append(neu, []interface{}{i + 1, "stale"})
		}
		w.Assert()
		w.Assert()
		id, ok := s2.Fetch(false)
		id2, ok2 := s2.Fetch(false)
		neu = append(neu, []interface{}{i + 1, id, ok, id2, ok2})
		probeOld()
	}
	// (no s2.Done(): nothing here may block the harness goroutine)
	return gate.Event{"ev": "reattach", "old": old, "new": neu}
}

// ---- projection

func (s *sys) State() map[string]interface{} {
	if s.off {
		return map[string]interface{}{"aborted": true}
	}
	if s.frozen != nil {
		return s.frozen
	}
	return s.stateWith(s.mem())
}

func (s *sys) stateWith(m memv) map[string]interface{} {
	pcs, gvs, ggs, ops := []string{}, []int{}, []int{}, []int{}
	for i := range s.g {
		g := &s.g[i]
		pcs = append(pcs, g.pc)
		gv, gg := 0, 0
		if g.pc == "E2" {
			gv = g.gv
		}
		if g.pc == "E4" || g.pc == "E5" {
			gg = g.gg
		}
		gvs, ggs, ops = append(gvs, gv), append(ggs, gg), append(ops, g.ops)
	}
	pend := []int{}
	for w := 1; w <= s.c.nw; w++ {
		if s.pend[w] {
			pend = append(pend, w)
		}
	}
	sp, sv, fw, fb := "nil", 0, 0, false
	if s.pcF == "AW2" {
		sp = s.sp
	}
	if s.pcF == "SE2" {
		sv = s.sv
	}
	if s.pcF == "Fswap" {
		fw = s.fw
	}
	if s.fop == "Fetch" || s.inDone {
		fb = s.fblock
	}
	dq := append([]int{}, s.dq...)
	return map[string]interface{}{
		"ws": m.ws, "shared": m.shared, "local": m.local, "waitingG": m.wg, "parked": s.parked,
		"pcF": s.pcF, "fblock": fb, "fw": fw, "fops": s.fops, "nadd": s.nadd, "sp": sp, "sv": sv,
		"dq": dq, "pend": pend, "inDone": s.inDone,
		"pcG": pcs, "gv": gvs, "gg": ggs, "gops": ops,
	}
}

func keyOf(st map[string]interface{}) string {
	if st["aborted"] != nil {
		return "aborted"
	}
	return fmt.Sprint(st["stuck"]) + fmt.Sprintf("%v|%v|%v|%v|%v|%v|%v|%v|%v|%v|%v|%v|%v|%v|%v|%v|%v|%v|%v",
		st["ws"], st["shared"], st["local"], st["waitingG"], st["parked"],
		st["pcF"], st["fblock"], st["fw"], st["fops"], st["nadd"], st["sp"], st["sv"], st["dq"], st["pend"], st["inDone"],
		st["pcG"], st["gv"], st["gg"], st["gops"])
}

func (s *sys) Key() string { return keyOf(s.State()) }

func atoi(s string) int {
	n, err := strconv.Atoi(s)
	if err != nil {
		vh.Fatal("bad int %q", s)
	}
	return n
}

func main() {
	vh.Quiet()
	if len(os.Args) < 2 {
		vh.Fatal("usage: sleepd explore|random|replay ...")
	}
	switch os.Args[1] {
	case "explore":
		c := parseCfg(os.Args[2], nil)
		g := gate.Explore(func() gate.System { return newSys(c) }, atoi(os.Args[3]))
		vh.Emit(struct {
			*gate.GraphOut
			Aborted bool `json:"aborted"`
			Stuck   int  `json:"stuck"`
		}{g, aborted, stuckSeen})
	case "random":
		runs, seed := atoi(os.Args[3]), atoi(os.Args[4])
		tr := vh.NewTrace(os.Args[5])
		r := rand.New(rand.NewSource(int64(seed)))
		for k := 0; k < runs && !aborted; k++ {
			c := parseCfg(os.Args[2], r)
			if strings.HasSuffix(os.Args[2], ":r") {
				c.pre = r.Intn(2) == 0
			}
			evs, path := gate.RandomRun(func() gate.System { return newSys(c) }, r, 100000, nil)
			tg := []string{}
			for _, t := range c.target {
				tg = append(tg, strconv.Itoa(t))
			}
			pre := 0
			if c.pre {
				pre = 1
			}
			tr.Log(map[string]interface{}{"ev": "reset", "run": k, "nw": c.nw, "pre": c.pre, "preq": c.preQ, "moves": path,
				"config": fmt.Sprintf("%d:%s:%d:%d:%d", c.nw, strings.Join(tg, ","), c.maxG, c.maxF, pre)})
			for _, e := range evs {
				tr.Log(e)
			}
		}
		tr.Close()
	case "replay":
		c := parseCfg(os.Args[2], nil)
		var moves []gate.Move
		b, err := os.ReadFile(os.Args[3])
		if err != nil {
			vh.Fatal("read %s: %v", os.Args[3], err)
		}
		if err := json.Unmarshal(b, &moves); err != nil {
			vh.Fatal("decode moves: %v", err)
		}
		s := newSys(c)
		out := []map[string]interface{}{}
		for _, m := range moves {
			okm := false
			for _, e := range s.Enabled() {
				if e == m {
					okm = true
				}
			}
			if !okm {
				out = append(out, map[string]interface{}{"move": m.String(), "error": "not enabled"})
				break
			}
			evs := s.Do(m)
			out = append(out, map[string]interface{}{"move": m.String(), "events": evs, "state": s.State()})
		}
		s.Close()
		vh.Emit(map[string]interface{}{"steps": out})
	case "stress":
		// stress NG NW ITERS SEED ROUNDS
		ng, nw, it, seed, rounds := atoi(os.Args[2]), atoi(os.Args[3]), atoi(os.Args[4]), atoi(os.Args[5]), atoi(os.Args[6])
		res := []stressOut{}
		for k := 0; k < rounds; k++ {
			res = append(res, stress(ng, nw, it, seed+k))
			if res[k].Stuck {
				break // its goroutines are leaked (possibly spinning)
			}
		}
		vh.Emit(map[string]interface{}{"rounds": res})
	default:
		vh.Fatal("usage: sleepd explore|random|replay|stress ...")
	}
}
