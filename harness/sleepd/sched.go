package main

// Gate scheduler for pkg/sleep: a variant of verifh/gate.Sched (same protocol:
// controlled goroutines block inside the verif hook until granted one step)
// extended for the one step of the code under test that deschedules the
// goroutine itself: gopark.  GrantPark grants the step behind the gopark gate
// and returns as soon as the outcome is a STATE the harness can read: either
// the worker shows up at its next gate (commitSleep refused the sleep), or the
// goroutine is parked (waitingG holds a G; or, should the code park without
// having registered itself, the runtime's own goroutine status says so).  A
// parked worker is never waited for; AwaitWake collects it after a goready.

import (
	"bytes"
	"os"
	"runtime"
	"strconv"
	"strings"
	"sync"
	"sync/atomic"
	"syscall"
	"time"

	"verifh/gate"
)

type msg struct {
	point int
	done  bool
	ret   interface{}
}

type worker struct {
	id     int
	goid   int64
	cmd    chan func() interface{}
	msgs   chan msg
	grant  chan struct{}
	pos    gate.Pos
	inOp   bool
	parked bool
	exited int32
}

type sched struct {
	workers []*worker
	byGoid  sync.Map
	mu      sync.RWMutex
	dead    bool
	wg      sync.WaitGroup

	// watchdog verdict: worker stuckWorker did not come back from the step it was given
	stuckState  string // "" | "spinning" | "parked"
	stuckWorker int
}

// Watchdog.  Every step of the code under test between two gates is a handful
// of instructions, so a worker that has not shown up at its next gate (nor
// returned, nor parked in a way GrantPark understands) is stuck inside the code
// under test.  To keep a loaded machine from tripping it, the verdict needs
// wall time >= watchdogWall AND evidence from the runtime: the goroutine is
// running/runnable in several consecutive samples and the process has burnt
// >= watchdogCPU of CPU time since the step was granted ("spinning"), or it is
// descheduled inside pkg/sleep in two consecutive samples ("parked").  Anything else is waited
// for up to watchdogGiveUp and then reported as harness trouble (exit 3).
const (
	watchdogWall   = 5 * time.Second
	watchdogCPU    = 2 * time.Second
	watchdogGiveUp = 240 * time.Second
)

var spinLeaks int // goroutines left spinning by earlier verdicts

// spinning: the evidence needed for the verdict.  The goroutine has been seen running/runnable in `seen`
// consecutive samples (250 ms apart), `wall` after it was given the step, and the process has burnt `cpu` since.
// Once goroutines leaked by earlier verdicts burn CPU themselves the CPU figure proves less: wait twice as long.
func spinning(seen int, wall, cpu time.Duration) bool {
	if spinLeaks == 0 {
		return seen >= 4 && wall >= watchdogWall && cpu >= watchdogCPU
	}
	return seen >= 8 && wall >= 2*watchdogWall && cpu >= watchdogCPU
}

func cpuTime() time.Duration {
	var ru syscall.Rusage
	if syscall.Getrusage(syscall.RUSAGE_SELF, &ru) != nil {
		return 0
	}
	return time.Duration(ru.Utime.Nano() + ru.Stime.Nano())
}

// watch waits for arrived() to become true; returns "" then, else the verdict.
func watch(gid int64, already time.Duration, arrived func() bool) string {
	start, cpu0 := time.Now().Add(-already), cpuTime()
	parkedSeen, runningSeen := 0, 0
	for n := 0; ; n++ {
		if arrived() {
			return ""
		}
		el := time.Since(start)
		switch {
		case n < 200:
			runtime.Gosched()
		case el < watchdogWall:
			time.Sleep(200 * time.Microsecond)
		default:
			time.Sleep(250 * time.Millisecond)
			if arrived() {
				return ""
			}
			switch goroutineStatus(gid) {
			case "parked":
				parkedSeen++
				runningSeen = 0
				if parkedSeen >= 2 {
					return "parked"
				}
			case "running":
				parkedSeen = 0
				runningSeen++
				if spinning(runningSeen, time.Since(start), cpuTime()-cpu0) {
					return "spinning"
				}
			default:
				parkedSeen, runningSeen = 0, 0
			}
			if el > watchdogGiveUp {
				fatal("watchdog: a worker neither came back nor spins nor sleeps in pkg/sleep (harness or machine trouble)")
			}
		}
	}
}

// recv waits for the next message of worker w under the watchdog.
func (s *sched) recv(w *worker) (msg, bool) {
	select {
	case m := <-w.msgs:
		return m, true
	default:
	}
	t := time.NewTimer(watchdogWall)
	select {
	case m := <-w.msgs:
		t.Stop()
		return m, true
	case <-t.C:
	}
	var got msg
	st := watch(w.goid, watchdogWall, func() bool {
		select {
		case got = <-w.msgs:
			return true
		default:
			return false
		}
	})
	if st == "" {
		return got, true
	}
	s.stuckState, s.stuckWorker = st, w.id
	return msg{}, false
}

func goid() int64 {
	var buf [64]byte
	n := runtime.Stack(buf[:], false)
	b := buf[:n]
	b = b[len("goroutine "):]
	i := bytes.IndexByte(b, ' ')
	id, _ := strconv.ParseInt(string(b[:i]), 10, 64)
	return id
}

func newSched(n int) *sched {
	s := &sched{}
	for i := 0; i < n; i++ {
		w := &worker{id: i, cmd: make(chan func() interface{}), msgs: make(chan msg), grant: make(chan struct{})}
		s.workers = append(s.workers, w)
		ready := make(chan struct{})
		s.wg.Add(1)
		go func() {
			defer s.wg.Done()
			defer atomic.StoreInt32(&w.exited, 1)
			w.goid = goid()
			s.byGoid.Store(w.goid, w)
			close(ready)
			for f := range w.cmd {
				r := f()
				if s.isDead() {
					return
				}
				w.msgs <- msg{done: true, ret: r}
			}
		}()
		<-ready
	}
	return s
}

func (s *sched) isDead() bool {
	s.mu.RLock()
	d := s.dead
	s.mu.RUnlock()
	return d
}

// Hook is installed with sleep.VerifSetHook.
func (s *sched) Hook(point int) {
	v, ok := s.byGoid.Load(goid())
	if !ok {
		return // not a controlled goroutine (harness itself, or a worker of an abandoned system)
	}
	if s.isDead() {
		return
	}
	w := v.(*worker)
	w.msgs <- msg{point: point}
	<-w.grant
}

func (s *sched) take(w *worker, m msg) gate.Pos {
	if m.done {
		w.inOp = false
		w.pos = gate.Pos{Done: true, Ret: m.ret}
	} else {
		w.pos = gate.Pos{Point: m.point}
	}
	return w.pos
}

// Start makes idle worker i run f up to its first gate (or to completion).
func (s *sched) Start(i int, f func() interface{}) gate.Pos {
	w := s.workers[i]
	if w.inOp {
		panic("sched: Start on busy worker")
	}
	w.inOp = true
	w.cmd <- f
	m, ok := s.recv(w)
	if !ok {
		return gate.Pos{}
	}
	return s.take(w, m)
}

// Grant lets worker i perform the (non-blocking) step behind its gate.
func (s *sched) Grant(i int) gate.Pos {
	w := s.workers[i]
	if !w.inOp || w.pos.Done || w.parked {
		panic("sched: Grant on a worker that is not at a gate")
	}
	w.grant <- struct{}{}
	m, ok := s.recv(w)
	if !ok {
		return gate.Pos{}
	}
	return s.take(w, m)
}

// GrantPark grants the step behind the gopark gate.  registered() reports
// whether waitingG holds a parked G.  Returns parked=true (worker descheduled;
// reg tells whether it had registered itself) or the next position.
func (s *sched) GrantPark(i int, registered func() bool) (pos gate.Pos, parked bool, reg bool) {
	w := s.workers[i]
	if !w.inOp || w.pos.Done || w.parked {
		panic("sched: GrantPark on a worker that is not at a gate")
	}
	w.grant <- struct{}{}
	start, cpu0 := time.Now(), cpuTime()
	runningSeen := 0
	for n := 0; ; n++ {
		select {
		case m := <-w.msgs:
			return s.take(w, m), false, false
		default:
		}
		if n >= 1000 && n%500 == 0 && time.Since(start) > watchdogWall && goroutineStatus(w.goid) == "running" {
			el := time.Since(start)
			runningSeen++
			if spinning(runningSeen, el, cpuTime()-cpu0) {
				s.stuckState, s.stuckWorker = "spinning", w.id
				return gate.Pos{}, false, false
			}
			if el > watchdogGiveUp {
				fatal("watchdog: the sleeper neither parked nor came back nor spins (harness or machine trouble)")
			}
		}
		if registered() {
			w.parked = true
			return w.pos, true, true
		}
		if n >= 200 && n%100 == 0 && goroutineParkedInSleep(w.goid) {
			// descheduled inside the sleep package's gopark although waitingG does not hold its G
			if registered() {
				w.parked = true
				return w.pos, true, true
			}
			select {
			case m := <-w.msgs:
				return s.take(w, m), false, false
			default:
			}
			w.parked = true
			return w.pos, true, false
		}
		if n < 100 {
			runtime.Gosched()
		} else {
			time.Sleep(20 * time.Microsecond)
		}
	}
}

// AwaitWake collects a parked worker that a goready has made runnable: it
// runs up to its next gate.
func (s *sched) AwaitWake(i int) gate.Pos {
	w := s.workers[i]
	if !w.parked {
		panic("sched: AwaitWake on a worker that is not parked")
	}
	w.parked = false
	m, ok := s.recv(w)
	if !ok {
		return gate.Pos{}
	}
	return s.take(w, m)
}

// goroutineStatus inspects the runtime's own view (taken with the world
// stopped) of goroutine id: "running" (running or runnable), "parked" (waiting,
// and the frame that called into the runtime belongs to pkg/sleep -- a worker
// blocked at a gate is blocked in the scheduler's Hook instead), "other".
func goroutineStatus(id int64) string {
	buf := make([]byte, 1<<18)
	n := runtime.Stack(buf, true)
	for n == len(buf) { // truncated
		buf = make([]byte, 4*len(buf))
		n = runtime.Stack(buf, true)
	}
	hdr := "goroutine " + strconv.FormatInt(id, 10) + " ["
	for _, blk := range strings.Split(string(buf[:n]), "\n\n") {
		if !strings.HasPrefix(blk, hdr) {
			continue
		}
		lines := strings.Split(blk, "\n")
		st := lines[0][len(hdr):]
		if strings.HasPrefix(st, "running") || strings.HasPrefix(st, "runnable") {
			return "running"
		}
		if strings.HasPrefix(st, "syscall") {
			return "other"
		}
		// frames: function line, file line, ...; the innermost frame outside the runtime
		// (runtime frames are only listed at GOTRACEBACK=system)
		for k := 1; k < len(lines); k += 2 {
			if strings.HasPrefix(lines[k], "runtime.") {
				continue
			}
			if strings.Contains(lines[k], "/pkg/sleep.") {
				return "parked"
			}
			return "other"
		}
		return "other"
	}
	return "other"
}

func goroutineParkedInSleep(id int64) bool { return goroutineStatus(id) == "parked" }

func fatal(m string) {
	os.Stderr.WriteString("HARNESS-ERROR: " + m + "\n")
	os.Exit(3)
}

// Abandon releases every worker; hooks become pass-through; force() is called
// repeatedly (it must make a parked or blocking sleeper finish) until all
// workers have exited.  A worker that is parked inside pkg/sleep without having
// registered its G (only mutated code gets there) cannot be woken by anybody:
// it is leaked.  hopeless: the caller already knows that this is the case.
func (s *sched) Abandon(force func(), registered func() bool, hopeless bool) {
	s.mu.Lock()
	s.dead = true
	s.mu.Unlock()
	for _, w := range s.workers {
		close(w.cmd)
		if w.inOp && !w.pos.Done && !w.parked {
			select {
			case w.grant <- struct{}{}:
			default:
			}
		}
	}
	done := make(chan struct{})
	go func() { s.wg.Wait(); close(done) }()
	wakes := 0 // times force() found the sleeper parked
	start, cpu0, runSeen := time.Now(), cpuTime(), 0
	for i := 0; ; i++ {
		select {
		case <-done:
			return
		default:
		}
		for _, w := range s.workers {
			select {
			case <-w.msgs:
				select {
				case w.grant <- struct{}{}:
				default:
				}
			default:
			}
			select {
			case w.grant <- struct{}{}:
			default:
			}
		}
		if force != nil {
			if registered() {
				wakes++
			}
			force()
		}
		if i > 300 {
			time.Sleep(50 * time.Microsecond)
		} else {
			runtime.Gosched()
		}
		if i%100 == 99 && !hopeless {
			for _, w := range s.workers {
				if atomic.LoadInt32(&w.exited) == 0 && !registered() && goroutineParkedInSleep(w.goid) && !registered() {
					hopeless = true
				}
			}
		}
		if i%100 == 99 && !hopeless && time.Since(start) > 2*time.Second {
			// a released worker that keeps running (a step is a few instructions) spins inside the code under
			// test: leak it, and count it so that the driver stops before the machine is full of them
			running := false
			for _, w := range s.workers {
				if atomic.LoadInt32(&w.exited) == 0 && goroutineStatus(w.goid) == "running" {
					running = true
				}
			}
			if running {
				runSeen++
			} else {
				runSeen = 0
			}
			if runSeen >= 4 && cpuTime()-cpu0 >= time.Second {
				spinLeaks++
				if spinLeaks >= maxSpinLeaks {
					aborted = true
				}
				hopeless = true
			}
		}
		if wakes > 60 {
			// woken again and again and it still parks: it waits for something that will never
			// come (only mutated code: e.g. Done waiting for a waker that nobody queues)
			hopeless = true
		}
		if i > 200000 || hopeless {
			return // leak rather than hang the harness
		}
	}
}
