package main

// Gate scheduler for pkg/sleep: a variant of verifh/gate.Sched (same protocol:
// controlled goroutines block inside the verif hook until granted one step)
// extended for the one step of the code under test that deschedules the
// goroutine itself: gopark.  GrantPark grants the step behind the gopark gate
// and returns as soon as the outcome is a STATE the harness can read: either
// the worker shows up at its next gate (commitSleep refused the sleep), or the
// goroutine is parked (waitingG holds a G; or, should the code park without
// having registered itself, the runtime's own goroutine status says so).  A
// parked worker is never waited for; AwaitWake collects it after a goready.

import (
	"bytes"
	"runtime"
	"strconv"
	"strings"
	"sync"
	"sync/atomic"
	"time"

	"verifh/gate"
)

type msg struct {
	point int
	done  bool
	ret   interface{}
}

type worker struct {
	id     int
	goid   int64
	cmd    chan func() interface{}
	msgs   chan msg
	grant  chan struct{}
	pos    gate.Pos
	inOp   bool
	parked bool
	exited int32
}

type sched struct {
	workers []*worker
	byGoid  sync.Map
	mu      sync.RWMutex
	dead    bool
	wg      sync.WaitGroup
}

func goid() int64 {
	var buf [64]byte
	n := runtime.Stack(buf[:], false)
	b := buf[:n]
	b = b[len("goroutine "):]
	i := bytes.IndexByte(b, ' ')
	id, _ := strconv.ParseInt(string(b[:i]), 10, 64)
	return id
}

func newSched(n int) *sched {
	s := &sched{}
	for i := 0; i < n; i++ {
		w := &worker{id: i, cmd: make(chan func() interface{}), msgs: make(chan msg), grant: make(chan struct{})}
		s.workers = append(s.workers, w)
		ready := make(chan struct{})
		s.wg.Add(1)
		go func() {
			defer s.wg.Done()
			defer atomic.StoreInt32(&w.exited, 1)
			w.goid = goid()
			s.byGoid.Store(w.goid, w)
			close(ready)
			for f := range w.cmd {
				r := f()
				if s.isDead() {
					return
				}
				w.msgs <- msg{done: true, ret: r}
			}
		}()
		<-ready
	}
	return s
}

func (s *sched) isDead() bool {
	s.mu.RLock()
	d := s.dead
	s.mu.RUnlock()
	return d
}

// Hook is installed with sleep.VerifSetHook.
func (s *sched) Hook(point int) {
	v, ok := s.byGoid.Load(goid())
	if !ok {
		return // not a controlled goroutine (harness itself, or a worker of an abandoned system)
	}
	if s.isDead() {
		return
	}
	w := v.(*worker)
	w.msgs <- msg{point: point}
	<-w.grant
}

func (s *sched) take(w *worker, m msg) gate.Pos {
	if m.done {
		w.inOp = false
		w.pos = gate.Pos{Done: true, Ret: m.ret}
	} else {
		w.pos = gate.Pos{Point: m.point}
	}
	return w.pos
}

// Start makes idle worker i run f up to its first gate (or to completion).
func (s *sched) Start(i int, f func() interface{}) gate.Pos {
	w := s.workers[i]
	if w.inOp {
		panic("sched: Start on busy worker")
	}
	w.inOp = true
	w.cmd <- f
	return s.take(w, <-w.msgs)
}

// Grant lets worker i perform the (non-blocking) step behind its gate.
func (s *sched) Grant(i int) gate.Pos {
	w := s.workers[i]
	if !w.inOp || w.pos.Done || w.parked {
		panic("sched: Grant on a worker that is not at a gate")
	}
	w.grant <- struct{}{}
	return s.take(w, <-w.msgs)
}

// GrantPark grants the step behind the gopark gate.  registered() reports
// whether waitingG holds a parked G.  Returns parked=true (worker descheduled;
// reg tells whether it had registered itself) or the next position.
func (s *sched) GrantPark(i int, registered func() bool) (pos gate.Pos, parked bool, reg bool) {
	w := s.workers[i]
	if !w.inOp || w.pos.Done || w.parked {
		panic("sched: GrantPark on a worker that is not at a gate")
	}
	w.grant <- struct{}{}
	for n := 0; ; n++ {
		select {
		case m := <-w.msgs:
			return s.take(w, m), false, false
		default:
		}
		if registered() {
			w.parked = true
			return w.pos, true, true
		}
		if n >= 200 && n%100 == 0 && goroutineParkedInSleep(w.goid) {
			// descheduled inside the sleep package's gopark although waitingG does not hold its G
			if registered() {
				w.parked = true
				return w.pos, true, true
			}
			select {
			case m := <-w.msgs:
				return s.take(w, m), false, false
			default:
			}
			w.parked = true
			return w.pos, true, false
		}
		if n < 100 {
			runtime.Gosched()
		} else {
			time.Sleep(20 * time.Microsecond)
		}
	}
}

// AwaitWake collects a parked worker that a goready has made runnable: it
// runs up to its next gate.
func (s *sched) AwaitWake(i int) gate.Pos {
	w := s.workers[i]
	if !w.parked {
		panic("sched: AwaitWake on a worker that is not parked")
	}
	w.parked = false
	return s.take(w, <-w.msgs)
}

// goroutineParkedInSleep inspects the runtime's own view (taken with the world
// stopped): goroutine id is waiting (not running, runnable or in a syscall),
// and the frame that called into the runtime belongs to pkg/sleep -- a worker
// blocked at a gate is blocked in the scheduler's Hook instead.  Only used as a fallback, see GrantPark.
func goroutineParkedInSleep(id int64) bool {
	buf := make([]byte, 1<<18)
	n := runtime.Stack(buf, true)
	for n == len(buf) { // truncated
		buf = make([]byte, 4*len(buf))
		n = runtime.Stack(buf, true)
	}
	hdr := "goroutine " + strconv.FormatInt(id, 10) + " ["
	for _, blk := range strings.Split(string(buf[:n]), "\n\n") {
		if !strings.HasPrefix(blk, hdr) {
			continue
		}
		lines := strings.Split(blk, "\n")
		st := lines[0][len(hdr):]
		if strings.HasPrefix(st, "running") || strings.HasPrefix(st, "runnable") || strings.HasPrefix(st, "syscall") {
			return false
		}
		// frames: function line, file line, ...
		var fns []string
		for k := 1; k < len(lines); k += 2 {
			fns = append(fns, lines[k])
		}
		// the innermost frame outside the runtime (runtime frames are only listed at GOTRACEBACK=system)
		for _, f := range fns {
			if strings.HasPrefix(f, "runtime.") {
				continue
			}
			return strings.Contains(f, "/pkg/sleep.")
		}
		return false
	}
	return false
}

// Abandon releases every worker; hooks become pass-through; force() is called
// repeatedly (it must make a parked or blocking sleeper finish) until all
// workers have exited.  A worker that is parked inside pkg/sleep without having
// registered its G (only mutated code gets there) cannot be woken by anybody:
// it is leaked.  hopeless: the caller already knows that this is the case.
func (s *sched) Abandon(force func(), registered func() bool, hopeless bool) {
	s.mu.Lock()
	s.dead = true
	s.mu.Unlock()
	for _, w := range s.workers {
		close(w.cmd)
		if w.inOp && !w.pos.Done && !w.parked {
			select {
			case w.grant <- struct{}{}:
			default:
			}
		}
	}
	done := make(chan struct{})
	go func() { s.wg.Wait(); close(done) }()
	wakes := 0 // times force() found the sleeper parked
	for i := 0; ; i++ {
		select {
		case <-done:
			return
		default:
		}
		for _, w := range s.workers {
			select {
			case <-w.msgs:
				select {
				case w.grant <- struct{}{}:
				default:
				}
			default:
			}
			select {
			case w.grant <- struct{}{}:
			default:
			}
		}
		if force != nil {
			if registered() {
				wakes++
			}
			force()
		}
		if i > 300 {
			time.Sleep(50 * time.Microsecond)
		} else {
			runtime.Gosched()
		}
		if i%100 == 99 && !hopeless {
			for _, w := range s.workers {
				if atomic.LoadInt32(&w.exited) == 0 && !registered() && goroutineParkedInSleep(w.goid) && !registered() {
					hopeless = true
				}
			}
		}
		if wakes > 60 {
			// woken again and again and it still parks: it waits for something that will never
			// come (only mutated code: e.g. Done waiting for a waker that nobody queues)
			hopeless = true
		}
		if i > 200000 || hopeless {
			return // leak rather than hang the harness
		}
	}
}
