package main

import (
	_ "unsafe" // go:linkname

	"github.com/brewlin/net-protocol/pkg/sleep"
)

// The package keeps one global sentinel Sleeper (stored in asserted wakers).
// Correct code never writes it; code that does (a waker "queued" on the
// sentinel) would carry state from one history into the next ones and make
// them irreproducible, so every new history starts with a zeroed sentinel.
//
//go:linkname sleepSentinel github.com/brewlin/net-protocol/pkg/sleep.assertedSleeper
var sleepSentinel sleep.Sleeper

func resetSentinel() { sleepSentinel = sleep.Sleeper{} }
