package wire

import (
	"sync"
	"sync/atomic"
	"time"

	"github.com/brewlin/net-protocol/pkg/buffer"
	tcpip "github.com/brewlin/net-protocol/protocol"
	"github.com/brewlin/net-protocol/stack"
)

// Frame is one network-layer packet (no Ethernet header: the link hands the
// stack's header+payload as one byte string) seen at a link.
type Frame struct {
	Seq    int64 // global order (one counter per Clock)
	T      int64 // microseconds since Clock start
	Proto  tcpip.NetworkProtocolNumber
	Bytes  []byte
	Remote tcpip.LinkAddress // route's remote link address (emit) / source link address (inject)
	Local  tcpip.LinkAddress
	NextHop tcpip.Address
	Refused bool // the link refused the transmission (WritePacket returned an error): the frame never was on the wire
}

// Clock gives a global event order and relative time for one scenario.
type Clock struct {
	seq   int64
	start time.Time
}

func NewClock() *Clock { return &Clock{start: time.Now()} }
func (c *Clock) Next() (int64, int64) {
	return atomic.AddInt64(&c.seq, 1), int64(time.Since(c.start) / time.Microsecond)
}
func (c *Clock) NowUS() int64 { return int64(time.Since(c.start) / time.Microsecond) }

// Link is an in-memory link endpoint. OnEmit is called synchronously inside
// WritePacket (before the frame is visible to anybody else): the tap.
type Link struct {
	Name     string
	mtu      uint32
	addr     tcpip.LinkAddress
	caps     stack.LinkEndpointCapabilities
	hdrLen   uint16
	mu       sync.RWMutex
	disp     stack.NetworkDispatcher
	Clock    *Clock
	OnEmit   func(l *Link, f Frame)
	// Refuse, when set, may turn a transmission down: WritePacket then returns its error (as a link with a full
	// transmit queue does); the tap still sees the frame, marked Refused.
	Refuse   func(l *Link, f Frame) *tcpip.Error
	// transmit queue (SetRetain): like protocol/link/channel, the link keeps the header view it was handed BY REFERENCE until
	// Flush puts the frames on the wire (tap), so a sender that re-uses a header buffer corrupts frames that are still queued
	qmu    sync.Mutex
	retain bool
	held   []heldFrame
	ID       tcpip.LinkEndpointID
}

func NewLink(name string, mtu uint32, addr tcpip.LinkAddress, caps stack.LinkEndpointCapabilities, clock *Clock) *Link {
	l := &Link{Name: name, mtu: mtu, addr: addr, caps: caps, Clock: clock}
	l.ID = stack.RegisterLinkEndpoint(l)
	return l
}

func (l *Link) MTU() uint32                                   { return l.mtu }
func (l *Link) Capabilities() stack.LinkEndpointCapabilities { return l.caps }
func (l *Link) MaxHeaderLength() uint16                      { return l.hdrLen }
func (l *Link) LinkAddress() tcpip.LinkAddress               { return l.addr }
func (l *Link) Attach(d stack.NetworkDispatcher) {
	l.mu.Lock()
	l.disp = d
	l.mu.Unlock()
}
func (l *Link) IsAttached() bool {
	l.mu.RLock()
	defer l.mu.RUnlock()
	return l.disp != nil
}

type heldFrame struct {
	f    Frame
	h, p buffer.View
}

// SetRetain switches the transmit queue on or off (off does not flush).
func (l *Link) SetRetain(on bool) {
	l.qmu.Lock()
	l.retain = on
	l.qmu.Unlock()
}

// Held is the number of frames waiting in the transmit queue.
func (l *Link) Held() int {
	l.qmu.Lock()
	defer l.qmu.Unlock()
	return len(l.held)
}

// Flush puts the queued frames on the wire in order: their bytes are read NOW, through the retained references.
func (l *Link) Flush() {
	l.qmu.Lock()
	hs := l.held
	l.held = nil
	l.qmu.Unlock()
	for _, x := range hs {
		b := make([]byte, 0, len(x.h)+len(x.p))
		b = append(b, x.h...)
		b = append(b, x.p...)
		x.f.Bytes = b
		if l.OnEmit != nil {
			l.OnEmit(l, x.f)
		}
	}
}

func (l *Link) WritePacket(r *stack.Route, hdr buffer.Prependable, payload buffer.VectorisedView, protocol tcpip.NetworkProtocolNumber) *tcpip.Error {
	h := hdr.View()
	p := payload.ToView()
	b := make([]byte, 0, len(h)+len(p))
	b = append(b, h...)
	b = append(b, p...)
	seq, t := l.Clock.Next()
	f := Frame{Seq: seq, T: t, Proto: protocol, Bytes: b}
	if r != nil {
		f.Remote, f.Local, f.NextHop = r.RemoteLinkAddress, r.LocalLinkAddress, r.NextHop
	}
	l.qmu.Lock()
	if l.retain {
		l.held = append(l.held, heldFrame{f: f, h: h, p: p})
		l.qmu.Unlock()
		return nil
	}
	l.qmu.Unlock()
	var werr *tcpip.Error
	if l.Refuse != nil {
		if werr = l.Refuse(l, f); werr != nil {
			f.Refused = true
		}
	}
	if l.OnEmit != nil {
		l.OnEmit(l, f)
	}
	return werr
}

// Inject hands a packet to the stack (runs the whole ingress path on the
// caller's goroutine, as a real link's dispatch loop would).
func (l *Link) Inject(proto tcpip.NetworkProtocolNumber, b []byte, remote tcpip.LinkAddress) {
	l.mu.RLock()
	d := l.disp
	l.mu.RUnlock()
	if d == nil {
		return
	}
	c := make([]byte, len(b))
	copy(c, b)
	d.DeliverNetworkPacket(l, remote, l.addr, proto, buffer.View(c).ToVectorisedView())
}

// InjectViews delivers a packet split into several views (as fd-based links do).
func (l *Link) InjectViews(proto tcpip.NetworkProtocolNumber, parts [][]byte, remote tcpip.LinkAddress) {
	l.mu.RLock()
	d := l.disp
	l.mu.RUnlock()
	if d == nil {
		return
	}
	views := make([]buffer.View, 0, len(parts))
	size := 0
	for _, p := range parts {
		c := make([]byte, len(p))
		copy(c, p)
		views = append(views, buffer.View(c))
		size += len(c)
	}
	d.DeliverNetworkPacket(l, remote, l.addr, proto, buffer.NewVectorisedView(size, views))
}
