package wire

import (
	"sync"
	"sync/atomic"
	"time"

	"github.com/brewlin/net-protocol/pkg/buffer"
	tcpip "github.com/brewlin/net-protocol/protocol"
	"github.com/brewlin/net-protocol/stack"
)

// Frame is one network-layer packet (no Ethernet header: the link hands the
// stack's header+payload as one byte string) seen at a link.
type Frame struct {
	Seq    int64 // global order (one counter per Clock)
	T      int64 // microseconds since Clock start
	Proto  tcpip.NetworkProtocolNumber
	Bytes  []byte
	Remote tcpip.LinkAddress // route's remote link address (emit) / source link address (inject)
	Local  tcpip.LinkAddress
	NextHop tcpip.Address
}

// Clock gives a global event order and relative time for one scenario.
type Clock struct {
	seq   int64
	start time.Time
}

func NewClock() *Clock { return &Clock{start: time.Now()} }
func (c *Clock) Next() (int64, int64) {
	return atomic.AddInt64(&c.seq, 1), int64(time.Since(c.start) / time.Microsecond)
}
func (c *Clock) NowUS() int64 { return int64(time.Since(c.start) / time.Microsecond) }

// Link is an in-memory link endpoint. OnEmit is called synchronously inside
// WritePacket (before the frame is visible to anybody else): the tap.
type Link struct {
	Name     string
	mtu      uint32
	addr     tcpip.LinkAddress
	caps     stack.LinkEndpointCapabilities
	hdrLen   uint16
	mu       sync.RWMutex
	disp     stack.NetworkDispatcher
	Clock    *Clock
	OnEmit   func(l *Link, f Frame)
	ID       tcpip.LinkEndpointID
}

func NewLink(name string, mtu uint32, addr tcpip.LinkAddress, caps stack.LinkEndpointCapabilities, clock *Clock) *Link {
	l := &Link{Name: name, mtu: mtu, addr: addr, caps: caps, Clock: clock}
	l.ID = stack.RegisterLinkEndpoint(l)
	return l
}

func (l *Link) MTU() uint32                                   { return l.mtu }
func (l *Link) Capabilities() stack.LinkEndpointCapabilities { return l.caps }
func (l *Link) MaxHeaderLength() uint16                      { return l.hdrLen }
func (l *Link) LinkAddress() tcpip.LinkAddress               { return l.addr }
func (l *Link) Attach(d stack.NetworkDispatcher) {
	l.mu.Lock()
	l.disp = d
	l.mu.Unlock()
}
func (l *Link) IsAttached() bool {
	l.mu.RLock()
	defer l.mu.RUnlock()
	return l.disp != nil
}

func (l *Link) WritePacket(r *stack.Route, hdr buffer.Prependable, payload buffer.VectorisedView, protocol tcpip.NetworkProtocolNumber) *tcpip.Error {
	h := hdr.View()
	p := payload.ToView()
	b := make([]byte, 0, len(h)+len(p))
	b = append(b, h...)
	b = append(b, p...)
	seq, t := l.Clock.Next()
	f := Frame{Seq: seq, T: t, Proto: protocol, Bytes: b}
	if r != nil {
		f.Remote, f.Local, f.NextHop = r.RemoteLinkAddress, r.LocalLinkAddress, r.NextHop
	}
	if l.OnEmit != nil {
		l.OnEmit(l, f)
	}
	return nil
}

// Inject hands a packet to the stack (runs the whole ingress path on the
// caller's goroutine, as a real link's dispatch loop would).
func (l *Link) Inject(proto tcpip.NetworkProtocolNumber, b []byte, remote tcpip.LinkAddress) {
	l.mu.RLock()
	d := l.disp
	l.mu.RUnlock()
	if d == nil {
		return
	}
	c := make([]byte, len(b))
	copy(c, b)
	d.DeliverNetworkPacket(l, remote, l.addr, proto, buffer.View(c).ToVectorisedView())
}

// InjectViews delivers a packet split into several views (as fd-based links do).
func (l *Link) InjectViews(proto tcpip.NetworkProtocolNumber, parts [][]byte, remote tcpip.LinkAddress) {
	l.mu.RLock()
	d := l.disp
	l.mu.RUnlock()
	if d == nil {
		return
	}
	views := make([]buffer.View, 0, len(parts))
	size := 0
	for _, p := range parts {
		c := make([]byte, len(p))
		copy(c, p)
		views = append(views, buffer.View(c))
		size += len(c)
	}
	d.DeliverNetworkPacket(l, remote, l.addr, proto, buffer.NewVectorisedView(size, views))
}
