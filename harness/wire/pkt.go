// Package wire: the harness's OWN packet builders/decoders (deliberately not
// using /repo/protocol/header, so that a bug there is not shared), an
// in-memory link endpoint with a synchronous tap, and host set-up helpers.
package wire

import (
	"encoding/binary"
	"errors"
	"fmt"
)

var be = binary.BigEndian

// Sum1071 returns the 16-bit one's-complement sum of b (odd byte padded), folded, starting from init.
func Sum1071(b []byte, init uint32) uint16 {
	s := init
	for i := 0; i+1 < len(b); i += 2 {
		s += uint32(b[i])<<8 | uint32(b[i+1])
	}
	if len(b)%2 == 1 {
		s += uint32(b[len(b)-1]) << 8
	}
	for s>>16 != 0 {
		s = (s & 0xffff) + (s >> 16)
	}
	return uint16(s)
}

// Pseudo returns the pseudo-header sum seed for v4 (len(src)==4) or v6 (16).
func Pseudo(src, dst []byte, proto uint8, length int) uint32 {
	var s uint32
	add := func(b []byte) {
		for i := 0; i+1 < len(b); i += 2 {
			s += uint32(b[i])<<8 | uint32(b[i+1])
		}
	}
	add(src)
	add(dst)
	s += uint32(proto)
	s += uint32(length >> 16)
	s += uint32(length & 0xffff)
	return s
}

// ---------------------------------------------------------------- Ethernet
type Eth struct {
	Dst, Src []byte
	Type     uint16
	Payload  []byte
}

func BuildEth(dst, src []byte, typ uint16, payload []byte) []byte {
	b := make([]byte, 14+len(payload))
	copy(b[0:6], dst)
	copy(b[6:12], src)
	be.PutUint16(b[12:], typ)
	copy(b[14:], payload)
	return b
}

func ParseEth(b []byte) (Eth, error) {
	if len(b) < 14 {
		return Eth{}, errors.New("eth: short")
	}
	return Eth{Dst: b[0:6], Src: b[6:12], Type: be.Uint16(b[12:]), Payload: b[14:]}, nil
}

// --------------------------------------------------------------------- ARP
type ARP struct {
	HType, PType uint16
	HLen, PLen   uint8
	Op           uint16
	SHA, SPA     []byte
	THA, TPA     []byte
}

func BuildARP(op uint16, sha, spa, tha, tpa []byte) []byte {
	b := make([]byte, 28)
	be.PutUint16(b[0:], 1)
	be.PutUint16(b[2:], 0x0800)
	b[4], b[5] = 6, 4
	be.PutUint16(b[6:], op)
	copy(b[8:14], sha)
	copy(b[14:18], spa)
	copy(b[18:24], tha)
	copy(b[24:28], tpa)
	return b
}

func ParseARP(b []byte) (ARP, error) {
	if len(b) < 28 {
		return ARP{}, errors.New("arp: short")
	}
	return ARP{HType: be.Uint16(b[0:]), PType: be.Uint16(b[2:]), HLen: b[4], PLen: b[5], Op: be.Uint16(b[6:]),
		SHA: b[8:14], SPA: b[14:18], THA: b[18:24], TPA: b[24:28]}, nil
}

// -------------------------------------------------------------------- IPv4
type IPv4 struct {
	IHL      int
	TOS      uint8
	TotalLen int
	ID       uint16
	Flags    uint8 // 3 bits
	FragOff  int   // in bytes
	TTL      uint8
	Proto    uint8
	Checksum uint16
	Src, Dst []byte
	HdrOK    bool // header checksum verifies
	Payload  []byte
	Raw      []byte
}

type IPv4Opts struct {
	ID      uint16
	DF, MF  bool
	FragOff int // bytes (multiple of 8)
	TTL     uint8
	TOS     uint8
	Options []byte // padded to 4 by caller
	// overrides for malformed packets (0 = computed)
	ForceIHL      int
	ForceTotalLen int
	BadChecksum   bool
	Version       int
}

func BuildIPv4(src, dst []byte, proto uint8, payload []byte, o IPv4Opts) []byte {
	hl := 20 + len(o.Options)
	b := make([]byte, hl+len(payload))
	ver := 4
	if o.Version != 0 {
		ver = o.Version
	}
	ihl := hl / 4
	if o.ForceIHL != 0 {
		ihl = o.ForceIHL
	}
	b[0] = byte(ver<<4 | ihl&0xf)
	b[1] = o.TOS
	tl := len(b)
	if o.ForceTotalLen != 0 {
		tl = o.ForceTotalLen
	}
	be.PutUint16(b[2:], uint16(tl))
	be.PutUint16(b[4:], o.ID)
	fo := uint16(o.FragOff / 8)
	if o.DF {
		fo |= 0x4000
	}
	if o.MF {
		fo |= 0x2000
	}
	be.PutUint16(b[6:], fo)
	ttl := o.TTL
	if ttl == 0 {
		ttl = 64
	}
	b[8] = ttl
	b[9] = proto
	copy(b[12:16], src)
	copy(b[16:20], dst)
	copy(b[20:], o.Options)
	ck := ^Sum1071(b[:hl], 0)
	if o.BadChecksum {
		ck ^= 0x5555
	}
	be.PutUint16(b[10:], ck)
	copy(b[hl:], payload)
	return b
}

func ParseIPv4(b []byte) (IPv4, error) {
	if len(b) < 20 {
		return IPv4{}, errors.New("ipv4: short")
	}
	if b[0]>>4 != 4 {
		return IPv4{}, fmt.Errorf("ipv4: version %d", b[0]>>4)
	}
	h := IPv4{IHL: int(b[0]&0xf) * 4, TOS: b[1], TotalLen: int(be.Uint16(b[2:])), ID: be.Uint16(b[4:]),
		Flags: b[6] >> 5, FragOff: int(be.Uint16(b[6:])&0x1fff) * 8, TTL: b[8], Proto: b[9], Checksum: be.Uint16(b[10:]),
		Src: b[12:16], Dst: b[16:20], Raw: b}
	if h.IHL < 20 || h.IHL > len(b) {
		return h, errors.New("ipv4: bad ihl")
	}
	h.HdrOK = Sum1071(b[:h.IHL], 0) == 0xffff
	if h.TotalLen < h.IHL || h.TotalLen > len(b) {
		return h, fmt.Errorf("ipv4: total length %d vs actual %d", h.TotalLen, len(b))
	}
	h.Payload = b[h.IHL:h.TotalLen]
	return h, nil
}

// -------------------------------------------------------------------- IPv6
type IPv6 struct {
	TC         uint8
	Flow       uint32
	PayloadLen int
	Next       uint8
	Hop        uint8
	Src, Dst   []byte
	Payload    []byte
}

func BuildIPv6(src, dst []byte, next uint8, payload []byte, hop uint8) []byte {
	b := make([]byte, 40+len(payload))
	b[0] = 6 << 4
	be.PutUint16(b[4:], uint16(len(payload)))
	b[6] = next
	if hop == 0 {
		hop = 64
	}
	b[7] = hop
	copy(b[8:24], src)
	copy(b[24:40], dst)
	copy(b[40:], payload)
	return b
}

func ParseIPv6(b []byte) (IPv6, error) {
	if len(b) < 40 {
		return IPv6{}, errors.New("ipv6: short")
	}
	if b[0]>>4 != 6 {
		return IPv6{}, fmt.Errorf("ipv6: version %d", b[0]>>4)
	}
	h := IPv6{TC: b[0]<<4 | b[1]>>4, Flow: be.Uint32(b[0:]) & 0xfffff, PayloadLen: int(be.Uint16(b[4:])), Next: b[6], Hop: b[7],
		Src: b[8:24], Dst: b[24:40]}
	if 40+h.PayloadLen > len(b) {
		return h, fmt.Errorf("ipv6: payload length %d vs actual %d", h.PayloadLen, len(b)-40)
	}
	h.Payload = b[40 : 40+h.PayloadLen]
	return h, nil
}

// -------------------------------------------------------------------- ICMP
type ICMP struct {
	Type, Code uint8
	Checksum   uint16
	Ident, Seq uint16
	Body       []byte // after the 8-byte echo header (or after 4 bytes for non-echo: Rest)
	Rest       []byte // bytes 4..
	SumOK      bool
}

// BuildICMPv4Echo builds an echo request (8) or reply (0).
func BuildICMPv4Echo(typ uint8, ident, seq uint16, payload []byte) []byte {
	b := make([]byte, 8+len(payload))
	b[0] = typ
	be.PutUint16(b[4:], ident)
	be.PutUint16(b[6:], seq)
	copy(b[8:], payload)
	be.PutUint16(b[2:], ^Sum1071(b, 0))
	return b
}

func ParseICMPv4(b []byte) (ICMP, error) {
	if len(b) < 4 {
		return ICMP{}, errors.New("icmp: short")
	}
	m := ICMP{Type: b[0], Code: b[1], Checksum: be.Uint16(b[2:]), Rest: b[4:], SumOK: Sum1071(b, 0) == 0xffff}
	if len(b) >= 8 {
		m.Ident, m.Seq, m.Body = be.Uint16(b[4:]), be.Uint16(b[6:]), b[8:]
	}
	return m, nil
}

// BuildICMPv6 builds an ICMPv6 message (type, code, 4 bytes `rest`, body) with pseudo-header checksum.
func BuildICMPv6(src, dst []byte, typ, code uint8, rest [4]byte, body []byte) []byte {
	b := make([]byte, 8+len(body))
	b[0], b[1] = typ, code
	copy(b[4:8], rest[:])
	copy(b[8:], body)
	be.PutUint16(b[2:], ^Sum1071(b, Pseudo(src, dst, 58, len(b))))
	return b
}

func ParseICMPv6(src, dst, b []byte) (ICMP, error) {
	if len(b) < 4 {
		return ICMP{}, errors.New("icmp6: short")
	}
	m := ICMP{Type: b[0], Code: b[1], Checksum: be.Uint16(b[2:]), Rest: b[4:], SumOK: Sum1071(b, Pseudo(src, dst, 58, len(b))) == 0xffff}
	if len(b) >= 8 {
		m.Ident, m.Seq, m.Body = be.Uint16(b[4:]), be.Uint16(b[6:]), b[8:]
	}
	return m, nil
}

// --------------------------------------------------------------------- UDP
type UDP struct {
	SrcPort, DstPort uint16
	Len              int
	Checksum         uint16
	SumOK            bool // verifies (or is 0 on v4)
	Payload          []byte
}

type UDPOpts struct {
	ForceLen    int
	NoChecksum  bool
	BadChecksum bool
}

func BuildUDP(src, dst []byte, sport, dport uint16, payload []byte, o UDPOpts) []byte {
	b := make([]byte, 8+len(payload))
	be.PutUint16(b[0:], sport)
	be.PutUint16(b[2:], dport)
	l := len(b)
	if o.ForceLen != 0 {
		l = o.ForceLen
	}
	be.PutUint16(b[4:], uint16(l))
	copy(b[8:], payload)
	if !o.NoChecksum {
		ck := ^Sum1071(b, Pseudo(src, dst, 17, len(b)))
		if ck == 0 {
			ck = 0xffff
		}
		if o.BadChecksum {
			ck ^= 0x1111
		}
		be.PutUint16(b[6:], ck)
	}
	return b
}

func ParseUDP(src, dst, b []byte) (UDP, error) {
	if len(b) < 8 {
		return UDP{}, errors.New("udp: short")
	}
	u := UDP{SrcPort: be.Uint16(b[0:]), DstPort: be.Uint16(b[2:]), Len: int(be.Uint16(b[4:])), Checksum: be.Uint16(b[6:])}
	if u.Len < 8 || u.Len > len(b) {
		return u, fmt.Errorf("udp: length field %d vs actual %d", u.Len, len(b))
	}
	u.Payload = b[8:u.Len]
	if u.Checksum == 0 && len(src) == 4 {
		u.SumOK = true
	} else {
		u.SumOK = Sum1071(b[:u.Len], Pseudo(src, dst, 17, u.Len)) == 0xffff
	}
	return u, nil
}

// --------------------------------------------------------------------- TCP
const (
	FIN = 1
	SYN = 2
	RST = 4
	PSH = 8
	ACK = 16
	URG = 32
)

type SACKBlock struct{ Start, End uint32 }

type TCPOptions struct {
	HasMSS   bool
	MSS      uint16
	HasWS    bool
	WS       uint8
	SACKPerm bool
	HasTS    bool
	TSVal    uint32
	TSEcr    uint32
	SACK     []SACKBlock
	Unknown  []uint8
	WellOK   bool   // options parse exactly to the end with legal lengths
	Why      string // why not
}

type TCP struct {
	SrcPort, DstPort uint16
	Seq, Ack         uint32
	DataOff          int
	Flags            uint8
	Window           uint16
	Checksum         uint16
	Urgent           uint16
	RawOpts          []byte
	Opts             TCPOptions
	Payload          []byte
	SumOK            bool
}

type TCPFields struct {
	SrcPort, DstPort uint16
	Seq, Ack         uint32
	Flags            uint8
	Window           uint16
	Opts             []byte // raw option bytes (padded to 4 by caller or by PadOpts)
	ForceDataOff     int    // in 32-bit words, 0 = computed
	BadChecksum      bool
	Urgent           uint16
}

func PadOpts(o []byte) []byte {
	for len(o)%4 != 0 {
		o = append(o, 1) // NOP
	}
	return o
}

func OptMSS(m uint16) []byte  { return []byte{2, 4, byte(m >> 8), byte(m)} }
func OptWS(s uint8) []byte    { return []byte{3, 3, s} }
func OptSACKPerm() []byte     { return []byte{4, 2} }
func OptTS(v, e uint32) []byte {
	b := make([]byte, 10)
	b[0], b[1] = 8, 10
	be.PutUint32(b[2:], v)
	be.PutUint32(b[6:], e)
	return b
}
func OptSACK(bl []SACKBlock) []byte {
	b := make([]byte, 2+8*len(bl))
	b[0], b[1] = 5, byte(len(b))
	for i, x := range bl {
		be.PutUint32(b[2+8*i:], x.Start)
		be.PutUint32(b[6+8*i:], x.End)
	}
	return b
}

func BuildTCP(src, dst []byte, f TCPFields, payload []byte) []byte {
	hl := 20 + len(f.Opts)
	b := make([]byte, hl+len(payload))
	be.PutUint16(b[0:], f.SrcPort)
	be.PutUint16(b[2:], f.DstPort)
	be.PutUint32(b[4:], f.Seq)
	be.PutUint32(b[8:], f.Ack)
	do := hl / 4
	if f.ForceDataOff != 0 {
		do = f.ForceDataOff
	}
	b[12] = byte(do << 4)
	b[13] = f.Flags
	be.PutUint16(b[14:], f.Window)
	be.PutUint16(b[18:], f.Urgent)
	copy(b[20:], f.Opts)
	copy(b[hl:], payload)
	ck := ^Sum1071(b, Pseudo(src, dst, 6, len(b)))
	if f.BadChecksum {
		ck ^= 0x2222
	}
	be.PutUint16(b[16:], ck)
	return b
}

func ParseTCP(src, dst, b []byte) (TCP, error) {
	if len(b) < 20 {
		return TCP{}, errors.New("tcp: short")
	}
	t := TCP{SrcPort: be.Uint16(b[0:]), DstPort: be.Uint16(b[2:]), Seq: be.Uint32(b[4:]), Ack: be.Uint32(b[8:]),
		DataOff: int(b[12]>>4) * 4, Flags: b[13] & 0x3f, Window: be.Uint16(b[14:]), Checksum: be.Uint16(b[16:]), Urgent: be.Uint16(b[18:])}
	if t.DataOff < 20 || t.DataOff > len(b) {
		return t, fmt.Errorf("tcp: data offset %d vs segment %d", t.DataOff, len(b))
	}
	t.RawOpts = b[20:t.DataOff]
	t.Payload = b[t.DataOff:]
	t.SumOK = Sum1071(b, Pseudo(src, dst, 6, len(b))) == 0xffff
	t.Opts = ParseTCPOpts(t.RawOpts)
	return t, nil
}

// ParseTCPOpts is a strict RFC 793/1323/2018 option walk.
func ParseTCPOpts(o []byte) TCPOptions {
	r := TCPOptions{WellOK: true}
	bad := func(s string) TCPOptions { r.WellOK = false; r.Why = s; return r }
	if len(o)%4 != 0 {
		return bad("options not a multiple of 4")
	}
	i := 0
	for i < len(o) {
		k := o[i]
		if k == 0 { // EOL: rest must be padding (zeros)
			for _, x := range o[i:] {
				if x != 0 {
					return bad("non-zero after EOL")
				}
			}
			return r
		}
		if k == 1 {
			i++
			continue
		}
		if i+1 >= len(o) {
			return bad("option kind without length")
		}
		l := int(o[i+1])
		if l < 2 || i+l > len(o) {
			return bad(fmt.Sprintf("option %d length %d out of range", k, l))
		}
		d := o[i+2 : i+l]
		switch k {
		case 2:
			if l != 4 {
				return bad("MSS length")
			}
			r.HasMSS, r.MSS = true, be.Uint16(d)
		case 3:
			if l != 3 {
				return bad("WS length")
			}
			r.HasWS, r.WS = true, d[0]
		case 4:
			if l != 2 {
				return bad("SACKperm length")
			}
			r.SACKPerm = true
		case 5:
			if (l-2)%8 != 0 || l == 2 {
				return bad("SACK length")
			}
			for j := 0; j+8 <= len(d); j += 8 {
				r.SACK = append(r.SACK, SACKBlock{be.Uint32(d[j:]), be.Uint32(d[j+4:])})
			}
		case 8:
			if l != 10 {
				return bad("TS length")
			}
			r.HasTS, r.TSVal, r.TSEcr = true, be.Uint32(d), be.Uint32(d[4:])
		default:
			r.Unknown = append(r.Unknown, k)
		}
		i += l
	}
	return r
}

// Ints converts bytes to a JSON-friendly int slice.
func Ints(b []byte) []int {
	out := make([]int, len(b))
	for i, x := range b {
		out[i] = int(x)
	}
	return out
}

// Pattern returns n position-dependent bytes (so that misplaced bytes show).
func Pattern(seed, n int) []byte {
	b := make([]byte, n)
	x := uint32(seed)*2654435761 + 12345
	for i := range b {
		x = x*1664525 + 1013904223
		b[i] = byte(x>>24) ^ byte(i)
	}
	return b
}
