package wire

import (
	"fmt"
	"net"

	tcpip "github.com/brewlin/net-protocol/protocol"
	"github.com/brewlin/net-protocol/protocol/network/arp"
	"github.com/brewlin/net-protocol/protocol/network/ipv4"
	"github.com/brewlin/net-protocol/protocol/network/ipv6"
	"github.com/brewlin/net-protocol/protocol/transport/ping"
	"github.com/brewlin/net-protocol/protocol/transport/tcp"
	"github.com/brewlin/net-protocol/protocol/transport/udp"
	"github.com/brewlin/net-protocol/stack"
)

const (
	ProtoIPv4 = tcpip.NetworkProtocolNumber(0x0800)
	ProtoIPv6 = tcpip.NetworkProtocolNumber(0x86dd)
	ProtoARP  = tcpip.NetworkProtocolNumber(0x0806)
)

// A4 / A6 build addresses from text.
func A4(s string) tcpip.Address { return tcpip.Address(net.ParseIP(s).To4()) }
func A6(s string) tcpip.Address { return tcpip.Address(net.ParseIP(s).To16()) }
func MAC(s string) tcpip.LinkAddress {
	m, err := net.ParseMAC(s)
	if err != nil {
		panic(err)
	}
	return tcpip.LinkAddress(m)
}

// Host is one stack with its links.
type Host struct {
	S     *stack.Stack
	Links map[tcpip.NICID]*Link
	Clock *Clock
}

// NICSpec describes one interface.
type NICSpec struct {
	ID    tcpip.NICID
	MTU   uint32
	MAC   string // "" = no link address
	Caps  stack.LinkEndpointCapabilities
	Addr4 []string
	Addr6 []string
}

// NewHost creates a stack with ipv4, ipv6, arp / tcp, udp, ping and the given NICs; default routes via the first NIC.
func NewHost(clock *Clock, name string, nics []NICSpec) *Host {
	s := stack.New([]string{ipv4.ProtocolName, ipv6.ProtocolName, arp.ProtocolName},
		[]string{tcp.ProtocolName, udp.ProtocolName, ping.ProtocolName4}, stack.Options{})
	h := &Host{S: s, Links: map[tcpip.NICID]*Link{}, Clock: clock}
	for _, n := range nics {
		var la tcpip.LinkAddress
		if n.MAC != "" {
			la = MAC(n.MAC)
		}
		l := NewLink(fmt.Sprintf("%s/%d", name, n.ID), n.MTU, la, n.Caps, clock)
		if err := s.CreateNIC(n.ID, l.ID); err != nil {
			panic(fmt.Sprintf("CreateNIC: %v", err))
		}
		h.Links[n.ID] = l
		for _, a := range n.Addr4 {
			if err := s.AddAddress(n.ID, ipv4.ProtocolNumber, A4(a)); err != nil {
				panic(fmt.Sprintf("AddAddress: %v", err))
			}
		}
		for _, a := range n.Addr6 {
			if err := s.AddAddress(n.ID, ipv6.ProtocolNumber, A6(a)); err != nil {
				panic(fmt.Sprintf("AddAddress: %v", err))
			}
		}
		if n.Caps&stack.CapabilityResolutionRequired != 0 {
			if err := s.AddAddress(n.ID, arp.ProtocolNumber, arp.ProtocolAddress); err != nil {
				panic(fmt.Sprintf("AddAddress arp: %v", err))
			}
		}
	}
	if len(nics) > 0 {
		s.SetRouteTable([]tcpip.Route{
			{Destination: tcpip.Address(make([]byte, 4)), Mask: tcpip.AddressMask(make([]byte, 4)), NIC: nics[0].ID},
			{Destination: tcpip.Address(make([]byte, 16)), Mask: tcpip.AddressMask(make([]byte, 16)), NIC: nics[0].ID},
		})
	}
	return h
}
