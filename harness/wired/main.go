// wired: capture driver of C06 (every emitted frame is well-formed,
// checksummed and correctly addressed).
//
//	wired run <scenarios.json> <outdir> [parallel]     (one file seg-NNNNN.ndjson per scenario)
//
// A scenario is a small network of REAL stacks (hosts) with
//   - "ip" NICs: harness/wire.Link endpoints whose OnEmit tap sees the
//     network-layer packet exactly as the stack handed it to the link, or
//   - "eth" NICs: /repo/protocol/link/fdbased over a socketpair(2); the driver
//     reads the far end, i.e. the Ethernet frames the stack really wrote,
//
// optionally joined pairwise by wires (a delivery goroutine per direction
// hands every emitted frame to the peer, may hold frames back to reorder and
// may strip TCP options from SYNs like a middlebox), plus a script of socket
// API calls, packet injections and raw TCP peers played by the driver.
//
// Output: the capture format documented in tools/checks/c06.py (one segment
// per scenario): configuration events, socket events, `rx` (frame delivered to
// a host) and `emit` (frame emitted by a stack, raw bytes).  Nothing is judged
// here: the harness decoders (harness/wire) are used only to DRIVE (raw peers
// need the stack's sequence numbers) and for the coverage label `i`.
package main

import (
	"encoding/json"
	"fmt"
	"os"
	"strings"
	"sync"
	"sync/atomic"
	"syscall"
	"time"

	"github.com/brewlin/net-protocol/pkg/waiter"
	tcpip "github.com/brewlin/net-protocol/protocol"
	"github.com/brewlin/net-protocol/protocol/link/fdbased"
	"github.com/brewlin/net-protocol/protocol/network/arp"
	"github.com/brewlin/net-protocol/protocol/network/ipv4"
	"github.com/brewlin/net-protocol/protocol/network/ipv6"
	"github.com/brewlin/net-protocol/protocol/transport/ping"
	"github.com/brewlin/net-protocol/protocol/transport/tcp"
	"github.com/brewlin/net-protocol/protocol/transport/udp"
	"github.com/brewlin/net-protocol/stack"
	"verifh/vh"
	"verifh/wire"
)

type M = map[string]interface{}

// ------------------------------------------------------------------ scenario
type nicSpec struct {
	ID      int    `json:"id"`
	MTU     int    `json:"mtu"`
	MAC     string `json:"mac"`
	Kind    string `json:"kind"` // "ip" | "eth"
	Resolve bool   `json:"resolve"`
	Offload bool   `json:"offload"`
	// Responder: a peer on the wire of this NIC that answers every ARP request / neighbour
	// solicitation the stack emits: addresses listed in Table with their MAC, any other
	// address (proxy-ARP style) with Proxy when that is set.
	Responder *responderSpec `json:"responder"`
	Addr4     []string       `json:"addr4"`
	Addr6     []string       `json:"addr6"`
}
type responderSpec struct {
	Table map[string]string `json:"table"`
	Proxy string            `json:"proxy"`
}
type routeSpec struct {
	Dst  string `json:"dst"`
	Mask string `json:"mask"`
	Gw   string `json:"gw"`
	Nic  int    `json:"nic"`
}
type neighSpec struct {
	Nic  int    `json:"nic"`
	Addr string `json:"addr"`
	MAC  string `json:"mac"`
}
type hostSpec struct {
	ID     int         `json:"id"`
	Nics   []nicSpec   `json:"nics"`
	Routes []routeSpec `json:"routes"`
	Neigh  []neighSpec `json:"neigh"`
	Sack   bool        `json:"sack"`
}
type wireSpec struct {
	A         []int `json:"a"` // [host, nic]
	B         []int `json:"b"`
	StripTS   bool  `json:"stripts"`   // remove the timestamp option from SYNs in flight
	StripSack bool  `json:"stripsack"` // remove SACK-permitted from SYNs in flight
	Hold      []int `json:"hold"`      // indices (1-based, per direction a->b) of TCP data frames to hold back
	HoldBA    []int `json:"holdba"`    // same for direction b->a
	HoldMs    int   `json:"holdms"`    // how long a held frame is kept (default 15 ms)
}
type scenario struct {
	Name  string     `json:"name"`
	Hosts []hostSpec `json:"hosts"`
	Wires []wireSpec `json:"wires"`
	Ops   []M        `json:"ops"`
	State *bool      `json:"state"`
}

// ------------------------------------------------------------------ helpers
func addrOf(s string) tcpip.Address {
	if s == "" {
		return ""
	}
	if strings.Contains(s, ":") {
		return wire.A6(s)
	}
	return wire.A4(s)
}
func ints(b []byte) []int {
	if len(b) == 0 {
		return []int{}
	}
	return wire.Ints(b)
}
func geti(m M, k string, d int) int {
	if v, ok := m[k]; ok && v != nil {
		return vh.Int(v)
	}
	return d
}
func gets(m M, k string, d string) string {
	if v, ok := m[k]; ok && v != nil {
		return vh.Str(v)
	}
	return d
}
func getb(m M, k string) bool {
	if v, ok := m[k]; ok && v != nil {
		return vh.Bool(v)
	}
	return false
}

// payloadOf: the payload of a write / inject op: explicit bytes (`data`, crafted by the
// generator) or n position-dependent pseudo-random bytes.
func payloadOf(op M) []byte {
	if d, ok := op["data"]; ok && d != nil {
		l := vh.Ints(d)
		b := make([]byte, len(l))
		for i, x := range l {
			b[i] = byte(x)
		}
		return b
	}
	return wire.Pattern(geti(op, "seed", 0), geti(op, "n", 0))
}

func errStr(e *tcpip.Error) string {
	if e == nil {
		return ""
	}
	return e.String()
}

var flagBits = map[byte]uint8{'F': wire.FIN, 'S': wire.SYN, 'R': wire.RST, 'P': wire.PSH, 'A': wire.ACK, 'U': wire.URG}

func flagsOf(s string) uint8 {
	var f uint8
	for i := 0; i < len(s); i++ {
		f |= flagBits[s[i]]
	}
	return f
}
func flagStr(f uint8) string {
	s := ""
	for _, c := range "FSRPAU" {
		if f&flagBits[byte(c)] != 0 {
			s += string(c)
		}
	}
	return s
}

// ------------------------------------------------------------------ capture segment
// Events go to the segment's own file at once (one write per event), so that
// a crash of the process (a stack panicking on a frame its peer emitted) still
// leaves everything captured up to that point for the judge.
type segment struct {
	mu     sync.Mutex
	f      *os.File
	closed bool
	bytes  int
	nemit  int64
}

func (g *segment) log(ev M) {
	js, err := json.Marshal(ev)
	if err != nil {
		vh.Fatal("marshal: %v", err)
	}
	js = append(js, '\n')
	g.mu.Lock()
	if !g.closed {
		g.f.Write(js)
		g.bytes += len(js)
		if g.bytes > maxSegmentBytes { // a storm (e.g. two broken stacks resetting each other): enough is captured
			g.f.Write([]byte(`{"ev":"note","truncated":true}` + "\n"))
			g.closed = true
		}
	}
	g.mu.Unlock()
}

func (g *segment) isClosed() bool {
	g.mu.Lock()
	defer g.mu.Unlock()
	return g.closed
}

// maxSegmentBytes bounds one scenario's capture (about 4 bytes of JSON per frame byte).
const maxSegmentBytes = 6 << 20

// ------------------------------------------------------------------ runtime objects
type frame struct {
	proto tcpip.NetworkProtocolNumber // 0: b is an Ethernet frame
	b     []byte
	smac  tcpip.LinkAddress
}

type nicRT struct {
	spec  nicSpec
	host  *hostRT
	link  *wire.Link
	fdFar int
	mac   tcpip.LinkAddress
	peer  *nicRT
	w     *wireSpec
	hold  map[int]bool
	q     chan frame
	ndata int
	resp  map[string]tcpip.LinkAddress // responder table keyed by raw address bytes
	proxy tcpip.LinkAddress
	rq    chan frame // answers of the responder, delivered by its own goroutine
}

type sock struct {
	ep    tcpip.Endpoint
	wq    *waiter.Queue
	proto string
	v     int
}

type hostRT struct {
	id    int
	spec  hostSpec
	s     *stack.Stack
	nics  map[int]*nicRT
	socks map[int]*sock
}

type runner struct {
	sc    scenario
	seg   *segment
	hosts map[int]*hostRT
	clock *wire.Clock
	peers map[int]*rawPeer
	pmu   sync.Mutex
	done  chan struct{}
}

// label for coverage statistics (harness decoder; NOT a verdict)
func label(proto tcpip.NetworkProtocolNumber, b []byte) string {
	if proto == 0 {
		e, err := wire.ParseEth(b)
		if err != nil {
			return "eth?"
		}
		return "eth/" + label(tcpip.NetworkProtocolNumber(e.Type), e.Payload)
	}
	var src, dst, pl []byte
	var p uint8
	v := ""
	switch proto {
	case wire.ProtoARP:
		a, err := wire.ParseARP(b)
		if err != nil {
			return "arp?"
		}
		return fmt.Sprintf("arp op%d", a.Op)
	case wire.ProtoIPv4:
		ip, err := wire.ParseIPv4(b)
		if err != nil {
			return "ip4?"
		}
		src, dst, pl, p, v = ip.Src, ip.Dst, ip.Payload, ip.Proto, "4"
	case wire.ProtoIPv6:
		ip, err := wire.ParseIPv6(b)
		if err != nil {
			return "ip6?"
		}
		src, dst, pl, p, v = ip.Src, ip.Dst, ip.Payload, ip.Next, "6"
	default:
		return "?"
	}
	par := func(n int) string {
		if n == 0 {
			return "0"
		}
		if n%2 == 1 {
			return "odd"
		}
		return "even"
	}
	switch p {
	case 17:
		u, err := wire.ParseUDP(src, dst, pl)
		if err != nil {
			return "udp" + v + "?"
		}
		return "udp" + v + " pay=" + par(len(u.Payload))
	case 6:
		t, err := wire.ParseTCP(src, dst, pl)
		if err != nil {
			return "tcp" + v + "?"
		}
		o := ""
		if t.Opts.HasMSS {
			o += "M"
		}
		if t.Opts.SACKPerm {
			o += "P"
		}
		if t.Opts.HasTS {
			o += "T"
		}
		if t.Opts.HasWS {
			o += "W"
		}
		if n := len(t.Opts.SACK); n > 0 {
			o += fmt.Sprintf("K%d", n)
		}
		return "tcp" + v + " " + flagStr(t.Flags) + " o=" + o + " pay=" + par(len(t.Payload))
	case 1:
		m, err := wire.ParseICMPv4(pl)
		if err != nil {
			return "icmp4?"
		}
		return fmt.Sprintf("icmp4 t%d pay=%s", m.Type, par(len(m.Body)))
	case 58:
		m, err := wire.ParseICMPv6(src, dst, pl)
		if err != nil {
			return "icmp6?"
		}
		return fmt.Sprintf("icmp6 t%d pay=%s", m.Type, par(len(m.Body)))
	}
	return "ip" + v + " other"
}

// onEmit: a frame left the stack of nic n (tap of a wire.Link, or read from the far end of the socketpair).
func (r *runner) onEmit(n *nicRT, proto tcpip.NetworkProtocolNumber, b []byte, rmac tcpip.LinkAddress) {
	atomic.AddInt64(&r.seg.nemit, 1)
	r.seg.log(M{"ev": "emit", "host": n.host.id, "nic": n.spec.ID, "proto": int(proto), "raw": ints(b),
		"rmac": ints([]byte(rmac)), "i": label(proto, b)})
	r.observe(n, proto, b)
	if n.rq != nil {
		r.respond(n, proto, b)
	}
	if n.peer != nil {
		select {
		case n.q <- frame{proto: proto, b: b, smac: n.mac}:
		default: // queue full: the wire drops
		}
	}
}

// deliver: hand a frame to the stack behind nic n (logged first: answers are emitted after it).
func (r *runner) deliver(n *nicRT, f frame) {
	if n.spec.Kind == "eth" {
		b := f.b
		if f.proto != 0 {
			b = wire.BuildEth([]byte(n.mac), []byte(f.smac), uint16(f.proto), f.b)
		}
		r.seg.log(M{"ev": "rx", "host": n.host.id, "nic": n.spec.ID, "proto": 0, "raw": ints(b), "smac": []int{}})
		syscall.Write(n.fdFar, b)
		return
	}
	proto, b, smac := f.proto, f.b, f.smac
	if proto == 0 {
		e, err := wire.ParseEth(f.b)
		if err != nil {
			return
		}
		proto, b, smac = tcpip.NetworkProtocolNumber(e.Type), e.Payload, tcpip.LinkAddress(e.Src)
	}
	r.seg.log(M{"ev": "rx", "host": n.host.id, "nic": n.spec.ID, "proto": int(proto), "raw": ints(b), "smac": ints([]byte(smac))})
	n.link.Inject(proto, b, smac)
}

// tcpOf locates the TCP segment of a frame (harness decoder; for driving only).
func tcpOf(proto tcpip.NetworkProtocolNumber, b []byte) (src, dst []byte, t wire.TCP, l3off int, ok bool) {
	off := 0
	if proto == 0 {
		e, err := wire.ParseEth(b)
		if err != nil {
			return
		}
		proto, b, off = tcpip.NetworkProtocolNumber(e.Type), e.Payload, 14
	}
	var pl []byte
	switch proto {
	case wire.ProtoIPv4:
		ip, err := wire.ParseIPv4(b)
		if err != nil || ip.Proto != 6 || ip.FragOff != 0 {
			return
		}
		src, dst, pl = ip.Src, ip.Dst, ip.Payload
	case wire.ProtoIPv6:
		ip, err := wire.ParseIPv6(b)
		if err != nil || ip.Next != 6 {
			return
		}
		src, dst, pl = ip.Src, ip.Dst, ip.Payload
	default:
		return
	}
	tt, err := wire.ParseTCP(src, dst, pl)
	if err != nil {
		return
	}
	return src, dst, tt, off, true
}

// stripSynOpts rewrites a SYN in flight: the named option kinds become NOPs, TCP checksum recomputed.
func stripSynOpts(f frame, kinds map[byte]bool) frame {
	src, dst, t, off, ok := tcpOf(f.proto, f.b)
	if !ok || t.Flags&wire.SYN == 0 {
		return f
	}
	b := append([]byte(nil), f.b...)
	l3 := b[off:]
	ihl := 40
	if len(src) == 4 {
		ihl = int(l3[0]&0xf) * 4
	}
	seg := l3[ihl:]
	o := seg[20:t.DataOff]
	for i := 0; i < len(o); {
		k := o[i]
		if k == 0 {
			break
		}
		if k == 1 {
			i++
			continue
		}
		if i+1 >= len(o) || int(o[i+1]) < 2 || i+int(o[i+1]) > len(o) {
			break
		}
		l := int(o[i+1])
		if kinds[k] {
			for j := i; j < i+l; j++ {
				o[j] = 1
			}
		}
		i += l
	}
	seg[16], seg[17] = 0, 0
	ck := ^wire.Sum1071(seg, wire.Pseudo(src, dst, 6, len(seg)))
	seg[16], seg[17] = byte(ck>>8), byte(ck)
	return frame{proto: f.proto, b: b, smac: f.smac}
}

// deliveryLoop: one per wired NIC (= per direction).
func (r *runner) deliveryLoop(n *nicRT) {
	holdFor := time.Duration(n.w.HoldMs) * time.Millisecond
	if holdFor == 0 {
		holdFor = 15 * time.Millisecond
	}
	strip := map[byte]bool{}
	if n.w.StripTS {
		strip[8] = true
	}
	if n.w.StripSack {
		strip[4] = true
	}
	for {
		select {
		case <-r.done:
			return
		case f := <-n.q:
			if len(strip) > 0 {
				f = stripSynOpts(f, strip)
			}
			if len(n.hold) > 0 {
				if _, _, t, _, ok := tcpOf(f.proto, f.b); ok && len(t.Payload) > 0 {
					n.ndata++
					if n.hold[n.ndata] {
						ff := f
						time.AfterFunc(holdFor, func() {
							select {
							case <-r.done:
							default:
								r.deliver(n.peer, ff)
							}
						})
						continue
					}
				}
			}
			r.deliver(n.peer, f)
		}
	}
}

// ------------------------------------------------------------------ raw TCP peer (played by the driver)
type rawPeer struct {
	r        *runner
	nic      *nicRT
	v        int
	me, them []byte // me = the address the driver plays, them = the stack's address
	mport    uint16
	tport    uint16 // 0 until learnt from the stack's SYN
	smac     tcpip.LinkAddress
	mu       sync.Mutex
	isn      uint32
	iss      uint32
	haveISS  bool
	rcvNxt   uint32
	ts       bool
	offerTS  bool
	stackTS  bool
	tsRecent uint32
	myTS     uint32
	autoack  bool
	kick     chan struct{}
	snd      uint32
	haveSnd  bool
}

// respond: the responder on n's wire sees an emitted frame; an ARP request / neighbour solicitation
// is answered (never synchronously: the answer goes through the responder's goroutine).
func (r *runner) respond(n *nicRT, proto tcpip.NetworkProtocolNumber, b []byte) {
	if proto == 0 {
		e, err := wire.ParseEth(b)
		if err != nil {
			return
		}
		proto, b = tcpip.NetworkProtocolNumber(e.Type), e.Payload
	}
	macFor := func(a []byte) tcpip.LinkAddress {
		if m, ok := n.resp[string(a)]; ok {
			return m
		}
		return n.proxy
	}
	var f frame
	switch proto {
	case wire.ProtoARP:
		a, err := wire.ParseARP(b)
		if err != nil || a.Op != 1 {
			return
		}
		m := macFor(a.TPA)
		if m == "" {
			return
		}
		f = frame{proto: wire.ProtoARP, b: wire.BuildARP(2, []byte(m), a.TPA, a.SHA, a.SPA), smac: m}
	case wire.ProtoIPv6:
		ip, err := wire.ParseIPv6(b)
		if err != nil || ip.Next != 58 {
			return
		}
		ic, err := wire.ParseICMPv6(ip.Src, ip.Dst, ip.Payload)
		if err != nil || ic.Type != 135 || len(ic.Rest) < 20 {
			return
		}
		target := append([]byte(nil), ic.Rest[4:20]...)
		m := macFor(target)
		if m == "" {
			return
		}
		var rest [4]byte
		rest[0] = 0x60
		body := append(append([]byte{}, target...), append([]byte{2, 1}, []byte(m)...)...)
		l4 := wire.BuildICMPv6(target, ip.Src, 136, 0, rest, body)
		f = frame{proto: wire.ProtoIPv6, b: wire.BuildIPv6(target, ip.Src, 58, l4, 255), smac: m}
	default:
		return
	}
	select {
	case n.rq <- f:
	default:
	}
}

func (r *runner) responderLoop(n *nicRT) {
	for {
		select {
		case <-r.done:
			return
		case f := <-n.rq:
			r.deliver(n, f)
		}
	}
}

func (r *runner) observe(n *nicRT, proto tcpip.NetworkProtocolNumber, b []byte) {
	r.pmu.Lock()
	np := len(r.peers)
	r.pmu.Unlock()
	if np == 0 {
		return
	}
	src, dst, t, _, ok := tcpOf(proto, b)
	if !ok {
		return
	}
	r.pmu.Lock()
	defer r.pmu.Unlock()
	for _, p := range r.peers {
		if p.nic != n || string(p.me) != string(dst) || p.mport != t.DstPort || string(p.them) != string(src) {
			continue
		}
		p.mu.Lock()
		if p.tport == 0 && t.Flags&wire.SYN != 0 {
			p.tport = t.SrcPort
		}
		if p.tport != t.SrcPort {
			p.mu.Unlock()
			continue
		}
		if t.Flags&wire.SYN != 0 {
			p.iss, p.haveISS = t.Seq, true
			p.stackTS = t.Opts.HasTS
			if p.rcvNxt == 0 {
				p.rcvNxt = t.Seq + 1
			}
		}
		end := t.Seq + uint32(len(t.Payload))
		if t.Flags&wire.SYN != 0 {
			end++
		}
		if t.Flags&wire.FIN != 0 {
			end++
		}
		if p.haveISS && int32(end-p.rcvNxt) > 0 {
			p.rcvNxt = end
		}
		if t.Opts.HasTS {
			p.tsRecent = t.Opts.TSVal
		}
		aa := p.autoack && (len(t.Payload) > 0 || t.Flags&wire.FIN != 0)
		p.mu.Unlock()
		if aa {
			select {
			case p.kick <- struct{}{}:
			default:
			}
		}
	}
}

func (p *rawPeer) send(flags uint8, seq uint32, ack uint32, opts []byte, data []byte) {
	p.mu.Lock()
	if p.ts && flags&wire.SYN == 0 {
		p.myTS++
		opts = append(append([]byte{1, 1}, wire.OptTS(p.myTS, p.tsRecent)...), opts...)
	}
	tport := p.tport
	p.mu.Unlock()
	l4 := wire.BuildTCP(p.me, p.them, wire.TCPFields{SrcPort: p.mport, DstPort: tport, Seq: seq, Ack: ack, Flags: flags,
		Window: 65535, Opts: wire.PadOpts(opts)}, data)
	var pkt []byte
	proto := wire.ProtoIPv4
	if p.v == 6 {
		pkt = wire.BuildIPv6(p.me, p.them, 6, l4, 64)
		proto = wire.ProtoIPv6
	} else {
		pkt = wire.BuildIPv4(p.me, p.them, 6, l4, wire.IPv4Opts{ID: uint16(seq)})
	}
	p.r.deliver(p.nic, frame{proto: proto, b: pkt, smac: p.smac})
}

func (p *rawPeer) ackLoop() {
	for {
		select {
		case <-p.r.done:
			return
		case <-p.kick:
			seq := p.curSnd()
			p.mu.Lock()
			a := p.rcvNxt
			p.mu.Unlock()
			p.send(wire.ACK, seq, a, nil, nil)
		}
	}
}

// curSnd: the peer's next sequence number (p.mu NOT held by the caller)
func (p *rawPeer) curSnd() uint32 {
	p.mu.Lock()
	defer p.mu.Unlock()
	if p.haveSnd {
		return p.snd
	}
	return p.isn + 1
}
func (p *rawPeer) setSndNxt(v uint32) {
	p.mu.Lock()
	if !p.haveSnd || int32(v-p.snd) > 0 {
		p.snd, p.haveSnd = v, true
	}
	p.mu.Unlock()
}

func synOpts(o M) (opts []byte, ts bool) {
	if o == nil {
		return nil, false
	}
	if x := geti(o, "mss", -1); x >= 0 {
		opts = append(opts, wire.OptMSS(uint16(x))...)
	}
	if getb(o, "sackperm") {
		opts = append(opts, wire.OptSACKPerm()...)
	}
	if getb(o, "ts") {
		opts = append(opts, wire.OptTS(uint32(geti(o, "tsval", 1000)), uint32(geti(o, "tsecr", 0)))...)
		ts = true
	}
	if x := geti(o, "ws", -1); x >= 0 {
		opts = append(opts, wire.OptWS(uint8(x))...)
	}
	return opts, ts
}

func waitFor(cond func() bool, max time.Duration) bool {
	dl := time.Now().Add(max)
	for !cond() {
		if time.Now().After(dl) {
			return false
		}
		time.Sleep(200 * time.Microsecond)
	}
	return true
}

// ------------------------------------------------------------------ set-up
func (r *runner) setup() {
	r.hosts = map[int]*hostRT{}
	for _, hs := range r.sc.Hosts {
		st := stack.New([]string{ipv4.ProtocolName, ipv6.ProtocolName, arp.ProtocolName},
			[]string{tcp.ProtocolName, udp.ProtocolName, ping.ProtocolName4, ping.ProtocolName6}, stack.Options{})
		if hs.Sack {
			st.SetTransportProtocolOption(tcp.ProtocolNumber, tcp.SACKEnabled(true))
		}
		h := &hostRT{id: hs.ID, spec: hs, s: st, nics: map[int]*nicRT{}, socks: map[int]*sock{}}
		r.hosts[hs.ID] = h
		for _, ns := range hs.Nics {
			n := &nicRT{spec: ns, host: h}
			if ns.MAC != "" {
				n.mac = wire.MAC(ns.MAC)
			}
			mtu := ns.MTU
			if mtu == 0 {
				mtu = 1500
			}
			var lid tcpip.LinkEndpointID
			if ns.Kind == "eth" {
				fds, err := syscall.Socketpair(syscall.AF_UNIX, syscall.SOCK_SEQPACKET, 0)
				if err != nil {
					vh.Fatal("socketpair: %v", err)
				}
				for _, fd := range fds {
					syscall.SetsockoptInt(fd, syscall.SOL_SOCKET, syscall.SO_SNDBUF, 1<<20)
					syscall.SetsockoptInt(fd, syscall.SOL_SOCKET, syscall.SO_RCVBUF, 1<<20)
				}
				n.fdFar = fds[1]
				lid = fdbased.New(&fdbased.Options{FD: fds[0], MTU: uint32(mtu), Address: n.mac,
					ResolutionRequired: ns.Resolve, ChecksumOffload: ns.Offload})
				go r.ethReader(n)
			} else {
				var caps stack.LinkEndpointCapabilities
				if ns.Resolve {
					caps |= stack.CapabilityResolutionRequired
				}
				if ns.Offload {
					caps |= stack.CapabilityChecksumOffload
				}
				n.link = wire.NewLink(fmt.Sprintf("h%d/%d", hs.ID, ns.ID), uint32(mtu), n.mac, caps, r.clock)
				nn := n
				n.link.OnEmit = func(l *wire.Link, f wire.Frame) { r.onEmit(nn, f.Proto, f.Bytes, f.Remote) }
				lid = n.link.ID
			}
			if err := st.CreateNIC(tcpip.NICID(ns.ID), lid); err != nil {
				vh.Fatal("CreateNIC: %v", err)
			}
			h.nics[ns.ID] = n
			if ns.Responder != nil {
				n.resp = map[string]tcpip.LinkAddress{}
				for a, m := range ns.Responder.Table {
					n.resp[string(addrOf(a))] = wire.MAC(m)
				}
				if ns.Responder.Proxy != "" {
					n.proxy = wire.MAC(ns.Responder.Proxy)
				}
				n.rq = make(chan frame, 256)
				go r.responderLoop(n)
			}
			kind := ns.Kind
			if kind == "" {
				kind = "ip"
			}
			r.seg.log(M{"ev": "nic", "host": hs.ID, "nic": ns.ID, "kind": kind, "mac": ints([]byte(n.mac)), "mtu": mtu,
				"resolve": ns.Resolve, "offload": ns.Offload})
			for _, a := range append(append([]string{}, ns.Addr4...), ns.Addr6...) {
				ad := addrOf(a)
				np := ipv4.ProtocolNumber
				if len(ad) == 16 {
					np = ipv6.ProtocolNumber
				}
				if err := st.AddAddress(tcpip.NICID(ns.ID), np, ad); err != nil {
					vh.Fatal("AddAddress: %v", err)
				}
				r.seg.log(M{"ev": "addr", "host": hs.ID, "nic": ns.ID, "addr": ints([]byte(ad))})
				if len(ad) == 16 {
					// join the solicited-node group of the address (receive only, never a source), as the
					// stack's users must do for neighbour discovery to reach it
					sn := tcpip.Address([]byte{0xff, 2, 0, 0, 0, 0, 0, 0, 0, 0, 0, 1, 0xff, ad[13], ad[14], ad[15]})
					st.AddAddressWithOptions(tcpip.NICID(ns.ID), np, sn, stack.NeverPrimaryEndpoint)
				}
			}
			if ns.Resolve {
				if err := st.AddAddress(tcpip.NICID(ns.ID), arp.ProtocolNumber, arp.ProtocolAddress); err != nil {
					vh.Fatal("AddAddress arp: %v", err)
				}
			}
		}
		var rt []tcpip.Route
		lr := []M{}
		for _, x := range hs.Routes {
			d, m, g := addrOf(x.Dst), addrOf(x.Mask), addrOf(x.Gw)
			rt = append(rt, tcpip.Route{Destination: d, Mask: tcpip.AddressMask(m), Gateway: g, NIC: tcpip.NICID(x.Nic)})
			lr = append(lr, M{"dst": ints([]byte(d)), "mask": ints([]byte(m)), "gw": ints([]byte(g)), "nic": x.Nic})
		}
		st.SetRouteTable(rt)
		r.seg.log(M{"ev": "routes", "host": hs.ID, "routes": lr})
		for _, x := range hs.Neigh {
			a, m := addrOf(x.Addr), wire.MAC(x.MAC)
			st.AddLinkAddress(tcpip.NICID(x.Nic), a, m)
			r.seg.log(M{"ev": "neigh", "host": hs.ID, "nic": x.Nic, "addr": ints([]byte(a)), "mac": ints([]byte(m))})
		}
	}
	for i := range r.sc.Wires {
		w := &r.sc.Wires[i]
		a, b := r.hosts[w.A[0]].nics[w.A[1]], r.hosts[w.B[0]].nics[w.B[1]]
		a.peer, b.peer, a.w, b.w = b, a, w, w
		a.q, b.q = make(chan frame, 8192), make(chan frame, 8192)
		a.hold, b.hold = map[int]bool{}, map[int]bool{}
		for _, k := range w.Hold {
			a.hold[k] = true
		}
		for _, k := range w.HoldBA {
			b.hold[k] = true
		}
		go r.deliveryLoop(a)
		go r.deliveryLoop(b)
	}
}

func (r *runner) ethReader(n *nicRT) {
	buf := make([]byte, 1<<17)
	for {
		k, err := syscall.Read(n.fdFar, buf)
		if err != nil {
			if err == syscall.EINTR {
				continue
			}
			return
		}
		if k <= 0 {
			return
		}
		select {
		case <-r.done:
			continue // scenario over: drain and drop
		default:
		}
		r.onEmit(n, 0, append([]byte(nil), buf[:k]...), "")
	}
}

func (r *runner) settle(quiet time.Duration) {
	last := int64(-1)
	for i := 0; i < 300 && !r.seg.isClosed(); i++ {
		n := atomic.LoadInt64(&r.seg.nemit)
		if n == last {
			return
		}
		last = n
		time.Sleep(quiet)
	}
}

// ------------------------------------------------------------------ ops
func protoNum(p string) int {
	switch p {
	case "tcp":
		return 6
	case "udp":
		return 17
	case "ping4":
		return 1
	case "ping6":
		return 58
	}
	vh.Fatal("proto %q", p)
	return 0
}

func (r *runner) logLocal(h *hostRT, sid int, s *sock) {
	la, err := s.ep.GetLocalAddress()
	if err != nil {
		return
	}
	r.seg.log(M{"ev": "local", "host": h.id, "s": sid, "addr": ints([]byte(la.Addr)), "port": int(la.Port)})
}

func (r *runner) note(op M, kv ...interface{}) {
	ev := M{"ev": "note"}
	for k, v := range op {
		if k != "ev" && k != "data" {
			ev[k] = v
		}
	}
	for i := 0; i+1 < len(kv); i += 2 {
		ev[kv[i].(string)] = kv[i+1]
	}
	r.seg.log(ev)
}

func (r *runner) do(op M) {
	name := vh.Str(op["op"])
	h := r.hosts[geti(op, "h", 1)]
	if h == nil {
		vh.Fatal("script: no host %v", op["h"])
	}
	sid := geti(op, "s", -1)
	sk := func() *sock { return h.socks[sid] }
	switch name {
	case "bind", "connect", "connect_wait", "listen", "accept", "write", "read", "shutdown", "close":
		if sk() == nil { // an earlier step failed (e.g. accept timed out): skip, leave a note
			r.note(op, "skipped", "no socket")
			return
		}
	}
	full := func(m M) tcpip.FullAddress {
		return tcpip.FullAddress{NIC: tcpip.NICID(geti(m, "nic", 0)), Addr: addrOf(gets(m, "addr", "")), Port: uint16(geti(m, "port", 0))}
	}
	switch name {
	case "sock":
		p := gets(op, "proto", "udp")
		v := geti(op, "v", 4)
		np := wire.ProtoIPv4
		if v == 6 {
			np = wire.ProtoIPv6
		}
		var tp tcpip.TransportProtocolNumber
		switch p {
		case "tcp":
			tp = tcp.ProtocolNumber
		case "udp":
			tp = udp.ProtocolNumber
		case "ping4":
			tp = ping.ProtocolNumber4
		case "ping6":
			tp = ping.ProtocolNumber6
		}
		wq := &waiter.Queue{}
		ep, err := h.s.NewEndpoint(tp, np, wq)
		if err != nil {
			vh.Fatal("NewEndpoint %s: %v", p, err)
		}
		h.socks[sid] = &sock{ep: ep, wq: wq, proto: p, v: v}
		r.seg.log(M{"ev": "sock", "host": h.id, "s": sid, "proto": protoNum(p)})
	case "bind":
		fa := full(op)
		err := sk().ep.Bind(fa, nil)
		if err != nil {
			r.note(op, "err", errStr(err))
			return
		}
		la, _ := sk().ep.GetLocalAddress()
		r.seg.log(M{"ev": "bind", "host": h.id, "s": sid, "nic": int(fa.NIC), "addr": ints([]byte(fa.Addr)), "port": int(la.Port)})
	case "connect":
		fa := full(op)
		r.seg.log(M{"ev": "connect", "host": h.id, "s": sid, "nic": int(fa.NIC), "addr": ints([]byte(fa.Addr)), "port": int(fa.Port)})
		err := sk().ep.Connect(fa)
		if err == nil || err == tcpip.ErrConnectStarted {
			r.logLocal(h, sid, sk())
		}
		r.note(op, "err", errStr(err))
		if getb(op, "wait") && sk().proto == "tcp" {
			ok := waitFor(func() bool { return sk().ep.Readiness(waiter.EventOut|waiter.EventHUp|waiter.EventErr) != 0 }, 5*time.Second)
			r.note(M{"what": "connected"}, "ok", ok)
		}
	case "connect_wait":
		ok := waitFor(func() bool { return sk().ep.Readiness(waiter.EventOut|waiter.EventHUp|waiter.EventErr) != 0 }, 5*time.Second)
		r.note(op, "ok", ok)
	case "listen":
		err := sk().ep.Listen(geti(op, "backlog", 8))
		r.note(op, "err", errStr(err))
	case "accept":
		var ep tcpip.Endpoint
		var wq *waiter.Queue
		ok := waitFor(func() bool {
			var err *tcpip.Error
			ep, wq, err = sk().ep.Accept()
			return err == nil
		}, 5*time.Second)
		if ok {
			h.socks[geti(op, "as", -1)] = &sock{ep: ep, wq: wq, proto: "tcp", v: sk().v}
		}
		r.note(op, "ok", ok)
	case "write":
		s := sk()
		data := payloadOf(op)
		if s.proto == "ping4" || s.proto == "ping6" {
			// echo request: type, code, checksum(0), ident(set by the stack), seq, payload
			hd := []byte{8, 0, 0, 0, 0, 0, byte(geti(op, "seq", 1) >> 8), byte(geti(op, "seq", 1))}
			if s.proto == "ping6" {
				hd[0] = 128
			}
			data = append(hd, data...)
		}
		var wo tcpip.WriteOptions
		if to, ok := op["to"].(map[string]interface{}); ok && to != nil {
			fa := full(to)
			wo.To = &fa
			r.seg.log(M{"ev": "sendto", "host": h.id, "s": sid, "nic": int(fa.NIC), "addr": ints([]byte(fa.Addr)), "port": int(fa.Port)})
		}
		written := 0
		answered := false
		var lastErr *tcpip.Error
		dl := time.Now().Add(8 * time.Second)
		for written < len(data) || len(data) == 0 {
			n, ch, err := s.ep.Write(tcpip.SlicePayload(data[written:]), wo)
			lastErr = err
			if err == nil {
				written += int(n)
				if s.proto != "tcp" || len(data) == 0 {
					break
				}
				continue
			}
			if ch != nil { // link address resolution in progress
				if ans, ok := op["answer"].(map[string]interface{}); ok && !answered {
					answered = true
					r.settle(3 * time.Millisecond) // the request has left
					r.inject(h, ans)
				}
				select {
				case <-ch:
				case <-time.After(3 * time.Second):
				}
				if time.Now().After(dl) {
					break
				}
				continue
			}
			if err == tcpip.ErrWouldBlock && s.proto == "tcp" && time.Now().Before(dl) {
				time.Sleep(300 * time.Microsecond)
				continue
			}
			break
		}
		if s.proto != "tcp" {
			r.logLocal(h, sid, s)
		}
		if wo.To != nil {
			r.seg.log(M{"ev": "wend", "host": h.id, "s": sid}) // the write with an explicit destination is over
		}
		r.note(op, "err", errStr(lastErr), "wn", written)
	case "read":
		// drain up to n bytes (tcp) or one datagram
		s := sk()
		want := geti(op, "n", 1)
		got := 0
		eof := false
		waitFor(func() bool {
			v, _, err := s.ep.Read(nil)
			if err == nil {
				got += len(v)
			} else if err == tcpip.ErrClosedForReceive {
				eof = true
				return true
			} else if err != tcpip.ErrWouldBlock {
				return true
			}
			return got >= want
		}, time.Duration(geti(op, "ms", 3000))*time.Millisecond)
		r.note(op, "got", got, "eof", eof)
	case "shutdown":
		err := sk().ep.Shutdown(tcpip.ShutdownWrite)
		r.note(op, "err", errStr(err))
	case "close":
		sk().ep.Close()
		delete(h.socks, sid)
	case "sleep":
		time.Sleep(time.Duration(geti(op, "ms", 1)) * time.Millisecond)
	case "settle":
		r.settle(time.Duration(geti(op, "ms", 10)) * time.Millisecond)
	case "inject":
		r.inject(h, op)
	case "rpeer", "rsyn", "rsynack", "rack", "rdata", "rackall", "rfin", "rrst", "rwait":
		r.rawOp(h, name, op)
	default:
		vh.Fatal("script: unknown op %q", name)
	}
}

func (r *runner) inject(h *hostRT, op M) {
	n := h.nics[geti(op, "nic", 1)]
	if n == nil {
		vh.Fatal("inject: no nic")
	}
	src, dst := []byte(addrOf(gets(op, "src", ""))), []byte(addrOf(gets(op, "dst", "")))
	smac := tcpip.LinkAddress("")
	if m := gets(op, "smac", ""); m != "" {
		smac = wire.MAC(m)
	}
	v := 4
	if len(src) == 16 {
		v = 6
	}
	var l4 []byte
	var proto uint8
	switch gets(op, "kind", "") {
	case "udp":
		l4 = wire.BuildUDP(src, dst, uint16(geti(op, "sport", 0)), uint16(geti(op, "dport", 0)), payloadOf(op), wire.UDPOpts{})
		proto = 17
	case "tcp":
		var opts []byte
		if o, ok := op["opts"].(map[string]interface{}); ok {
			opts, _ = synOpts(o)
		}
		seq := uint32(geti(op, "seqhi", 0))<<16 | uint32(geti(op, "seqlo", 0))
		ack := uint32(geti(op, "ackhi", 0))<<16 | uint32(geti(op, "acklo", 0))
		l4 = wire.BuildTCP(src, dst, wire.TCPFields{SrcPort: uint16(geti(op, "sport", 0)), DstPort: uint16(geti(op, "dport", 0)), Seq: seq, Ack: ack,
			Flags: flagsOf(gets(op, "flags", "")), Window: uint16(geti(op, "win", 65535)), Opts: wire.PadOpts(opts)}, payloadOf(op))
		proto = 6
	case "echo":
		data := payloadOf(op)
		if v == 4 {
			l4 = wire.BuildICMPv4Echo(8, uint16(geti(op, "ident", 1)), uint16(geti(op, "seq", 1)), data)
			proto = 1
		} else {
			var rest [4]byte
			rest[0], rest[1] = byte(geti(op, "ident", 1)>>8), byte(geti(op, "ident", 1))
			rest[2], rest[3] = byte(geti(op, "seq", 1)>>8), byte(geti(op, "seq", 1))
			l4 = wire.BuildICMPv6(src, dst, 128, 0, rest, data)
			proto = 58
		}
	case "arp":
		sha := []byte(wire.MAC(gets(op, "sha", "02:00:00:00:09:09")))
		if smac == "" {
			smac = tcpip.LinkAddress(sha)
		}
		pkt := wire.BuildARP(uint16(geti(op, "arpop", 1)), sha, []byte(addrOf(gets(op, "spa", ""))),
			[]byte(wire.MAC(gets(op, "tha", "00:00:00:00:00:00"))), []byte(addrOf(gets(op, "tpa", ""))))
		r.deliver(n, frame{proto: wire.ProtoARP, b: pkt, smac: smac})
		return
	case "ns", "na":
		// neighbour solicitation for `target` (to its solicited-node address) / advertisement of `target`
		target := []byte(addrOf(gets(op, "target", "")))
		ll := []byte(smac)
		var body []byte
		typ := uint8(135)
		var rest [4]byte
		if gets(op, "kind", "") == "ns" {
			body = append(append([]byte{}, target...), append([]byte{1, 1}, ll...)...)
			if len(dst) == 0 {
				dst = []byte{0xff, 2, 0, 0, 0, 0, 0, 0, 0, 0, 0, 1, 0xff, target[13], target[14], target[15]}
			}
		} else {
			typ = 136
			rest[0] = 0x60
			body = append(append([]byte{}, target...), append([]byte{2, 1}, ll...)...)
		}
		l4 = wire.BuildICMPv6(src, dst, typ, 0, rest, body)
		r.deliver(n, frame{proto: wire.ProtoIPv6, b: wire.BuildIPv6(src, dst, 58, l4, 255), smac: smac})
		return
	default:
		vh.Fatal("inject kind %v", op["kind"])
	}
	if v == 6 {
		r.deliver(n, frame{proto: wire.ProtoIPv6, b: wire.BuildIPv6(src, dst, proto, l4, 64), smac: smac})
		return
	}
	r.deliver(n, frame{proto: wire.ProtoIPv4, b: wire.BuildIPv4(src, dst, proto, l4, wire.IPv4Opts{ID: uint16(geti(op, "ipid", 7))}), smac: smac})
}

func (r *runner) rawOp(h *hostRT, name string, op M) {
	pid := geti(op, "p", 0)
	if name == "rpeer" {
		n := h.nics[geti(op, "nic", 1)]
		p := &rawPeer{r: r, nic: n, me: []byte(addrOf(gets(op, "src", ""))), them: []byte(addrOf(gets(op, "dst", ""))),
			mport: uint16(geti(op, "sport", 0)), tport: uint16(geti(op, "dport", 0)), isn: uint32(geti(op, "isn", 1000)),
			autoack: getb(op, "autoack"), kick: make(chan struct{}, 1), v: 4}
		if len(p.me) == 16 {
			p.v = 6
		}
		if m := gets(op, "smac", ""); m != "" {
			p.smac = wire.MAC(m)
		}
		r.pmu.Lock()
		r.peers[pid] = p
		r.pmu.Unlock()
		go p.ackLoop()
		return
	}
	r.pmu.Lock()
	p := r.peers[pid]
	r.pmu.Unlock()
	if p == nil {
		vh.Fatal("script: no raw peer %d", pid)
	}
	o, _ := op["opts"].(map[string]interface{})
	switch name {
	case "rsyn": // passive side test: the driver opens
		opts, ts := synOpts(o)
		p.mu.Lock()
		p.offerTS = ts
		p.mu.Unlock()
		p.send(wire.SYN, p.isn, 0, opts, nil)
		ok := waitFor(func() bool { p.mu.Lock(); defer p.mu.Unlock(); return p.haveISS }, 3*time.Second)
		p.mu.Lock()
		p.ts = p.offerTS && p.stackTS
		p.mu.Unlock()
		r.note(op, "synack", ok)
	case "rsynack": // active side test: the stack has sent its SYN
		ok := waitFor(func() bool { p.mu.Lock(); defer p.mu.Unlock(); return p.haveISS }, 3*time.Second)
		if !ok {
			r.note(op, "syn", false)
			return
		}
		opts, ts := synOpts(o)
		p.mu.Lock()
		a := p.iss + 1
		tsr := p.tsRecent
		p.mu.Unlock()
		if ts { // echo the SYN's timestamp
			o2 := M{}
			for k, v := range o {
				o2[k] = v
			}
			o2["tsecr"] = int(tsr & 0x7fffffff)
			opts, _ = synOpts(o2)
		}
		p.send(wire.SYN|wire.ACK, p.isn, a, opts, nil)
		p.mu.Lock()
		p.ts = ts && p.stackTS
		p.mu.Unlock()
	case "rack":
		p.mu.Lock()
		a := p.rcvNxt
		p.mu.Unlock()
		p.send(wire.ACK, p.isn+1, a, nil, nil)
	case "rackall":
		p.mu.Lock()
		a := p.rcvNxt
		p.mu.Unlock()
		p.send(wire.ACK, p.curSnd(), a, nil, nil)
	case "rdata":
		off, nb := uint32(geti(op, "off", 0)), geti(op, "n", 1)
		p.mu.Lock()
		a := p.rcvNxt
		p.mu.Unlock()
		p.send(wire.ACK|wire.PSH, p.isn+1+off, a, nil, wire.Pattern(geti(op, "seed", 0), nb))
		if getb(op, "adv") {
			p.setSndNxt(p.isn + 1 + off + uint32(nb))
		}
	case "rfin":
		p.mu.Lock()
		a := p.rcvNxt
		p.mu.Unlock()
		s := p.curSnd()
		p.send(wire.FIN|wire.ACK, s, a, nil, nil)
		p.setSndNxt(s + 1)
	case "rrst":
		p.mu.Lock()
		a := p.rcvNxt
		p.mu.Unlock()
		p.send(wire.RST|wire.ACK, p.curSnd(), a, nil, nil)
	case "rwait": // wait until the stack has sent `bytes` bytes (the ack loop keeps it going)
		want := uint32(geti(op, "bytes", 0))
		ok := waitFor(func() bool { p.mu.Lock(); defer p.mu.Unlock(); return p.haveISS && p.rcvNxt-(p.iss+1) >= want }, 5*time.Second)
		r.note(op, "ok", ok)
	}
}

func runScenario(sc scenario, path string) *segment {
	f, err := os.Create(path)
	if err != nil {
		vh.Fatal("create %s: %v", path, err)
	}
	seg := &segment{f: f}
	r := &runner{sc: sc, seg: seg, clock: wire.NewClock(), peers: map[int]*rawPeer{}, done: make(chan struct{})}
	st := true
	if sc.State != nil {
		st = *sc.State
	}
	seg.log(M{"ev": "reset", "name": sc.Name, "state": st})
	r.setup()
	for _, op := range sc.Ops {
		if seg.isClosed() {
			break
		}
		r.do(op)
	}
	if !seg.isClosed() {
		r.settle(10 * time.Millisecond)
	}
	for _, h := range r.hosts {
		for _, s := range h.socks {
			s.ep.Close()
		}
	}
	if !seg.isClosed() {
		r.settle(10 * time.Millisecond)
	}
	seg.mu.Lock()
	seg.closed = true
	seg.f.Close()
	seg.mu.Unlock()
	close(r.done)
	return seg
}

func main() {
	vh.Quiet()
	if len(os.Args) < 4 || os.Args[1] != "run" {
		vh.Fatal("usage: wired run scenarios.json outdir [parallel]")
	}
	var scs []scenario
	vh.LoadJSON(os.Args[2], &scs)
	par := 6
	if len(os.Args) > 4 {
		fmt.Sscan(os.Args[4], &par)
	}
	if err := os.MkdirAll(os.Args[3], 0755); err != nil {
		vh.Fatal("mkdir: %v", err)
	}
	segs := make([]*segment, len(scs))
	var wg sync.WaitGroup
	sem := make(chan struct{}, par)
	for i := range scs {
		wg.Add(1)
		sem <- struct{}{}
		go func(i int) {
			defer wg.Done()
			segs[i] = runScenario(scs[i], fmt.Sprintf("%s/seg-%05d.ndjson", os.Args[3], i))
			<-sem
		}(i)
	}
	wg.Wait()
	nemit := 0
	for _, g := range segs {
		nemit += int(g.nemit)
	}
	vh.Emit(M{"scenarios": len(scs), "emits": nemit})
}
