// Driver for C18: the real tmutex.Mutex under the gate scheduler.
//   explore N MAXOPS MAXSTATES  -> reachable graph of the real code (JSON on stdout)
//   random  N MAXOPS RUNS SEED OUT.ndjson -> seeded random schedules, P-level trace
package main

import (
	"fmt"
	"math/rand"
	"os"
	"strconv"

	"github.com/brewlin/net-protocol/pkg/tmutex"
	"verifh/gate"
	"verifh/vh"
)

var pcOf = map[int]string{1: "lock_add", 2: "lock_load", 4: "lock_recv", 5: "unlock_swap", 6: "unlock_send", 7: "try_load", 8: "try_cas"}

type wst struct {
	pc   string
	ops  int
	op   string
	held bool
}

type sys struct {
	m      *tmutex.Mutex
	sc     *gate.Sched
	w      []wst
	maxOps int
}

func newSys(n, maxOps int) gate.System {
	s := &sys{m: &tmutex.Mutex{}, maxOps: maxOps}
	s.m.Init()
	s.sc = gate.New(n)
	tmutex.VerifSetHook(s.sc.Hook)
	s.w = make([]wst, n)
	for i := range s.w {
		s.w[i].pc = "idle"
	}
	return s
}

func (s *sys) Close() {
	m := s.m
	s.sc.Abandon(func() { tmutex.VerifForce(m) })
}

func (s *sys) Enabled() []gate.Move {
	var out []gate.Move
	_, chl := tmutex.VerifState(s.m)
	for i := range s.w {
		w := &s.w[i]
		switch {
		case w.pc == "idle":
			if w.ops < s.maxOps {
				out = append(out, gate.Move{W: i, Op: "Lock"}, gate.Move{W: i, Op: "Try"})
			}
		case w.pc == "held":
			out = append(out, gate.Move{W: i, Op: "Unlock"})
		case w.pc == "lock_recv":
			if chl > 0 {
				out = append(out, gate.Move{W: i})
			}
		default:
			out = append(out, gate.Move{W: i})
		}
	}
	return out
}

func (s *sys) after(i int, p gate.Pos) []gate.Event {
	w := &s.w[i]
	var evs []gate.Event
	if p.Done {
		ok := true
		switch w.op {
		case "Lock":
			w.held = true
		case "Try":
			ok = p.Ret.(bool)
			w.held = ok
		case "Unlock":
		}
		evs = append(evs, gate.Event{"ev": "ret", "p": i, "op": w.op, "ok": ok})
		if w.held {
			w.pc = "held"
		} else {
			w.pc = "idle"
		}
		w.op = ""
	} else {
		pc, ok := pcOf[p.Point]
		if !ok {
			// a hook point the model does not know (code under test was changed): still a well-defined position
			pc = fmt.Sprintf("point%d", p.Point)
		}
		w.pc = pc
	}
	return evs
}

func (s *sys) obs() gate.Event {
	_, chl := tmutex.VerifState(s.m)
	waiting := [][]interface{}{}
	inflight := []int{}
	for i := range s.w {
		w := &s.w[i]
		if w.op == "" {
			continue
		}
		if w.pc == "lock_recv" && chl == 0 {
			waiting = append(waiting, []interface{}{i, w.op})
		} else {
			inflight = append(inflight, i)
		}
	}
	return gate.Event{"ev": "obs", "waiting": waiting, "inflight": inflight}
}

func (s *sys) Do(m gate.Move) []gate.Event {
	w := &s.w[m.W]
	var evs []gate.Event
	if m.Op != "" {
		mu := s.m
		w.op = m.Op
		evs = append(evs, gate.Event{"ev": "call", "p": m.W, "op": m.Op})
		var f func() interface{}
		switch m.Op {
		case "Lock":
			w.ops++
			f = func() interface{} { mu.Lock(); return nil }
		case "Try":
			w.ops++
			f = func() interface{} { return mu.TryLock() }
		case "Unlock":
			w.held = false
			f = func() interface{} { mu.Unlock(); return nil }
		}
		evs = append(evs, s.after(m.W, s.sc.Start(m.W, f))...)
	} else {
		evs = append(evs, s.after(m.W, s.sc.Grant(m.W))...)
	}
	return append(evs, s.obs())
}

func (s *sys) State() map[string]interface{} {
	v, chl := tmutex.VerifState(s.m)
	pcs := []string{}
	ops := []int{}
	holder := []int{}
	for i := range s.w {
		pcs = append(pcs, s.w[i].pc)
		ops = append(ops, s.w[i].ops)
		if s.w[i].pc == "held" {
			holder = append(holder, i)
		}
	}
	return map[string]interface{}{"v": int(v), "ch": chl, "pc": pcs, "ops": ops, "holder": holder}
}

func (s *sys) Key() string {
	st := s.State()
	return fmt.Sprintf("%v|%v|%v|%v", st["v"], st["ch"], st["pc"], st["ops"])
}

func atoi(s string) int {
	n, err := strconv.Atoi(s)
	if err != nil {
		vh.Fatal("bad int %q", s)
	}
	return n
}

func main() {
	vh.Quiet()
	switch os.Args[1] {
	case "explore":
		n, mo, ms := atoi(os.Args[2]), atoi(os.Args[3]), atoi(os.Args[4])
		g := gate.Explore(func() gate.System { return newSys(n, mo) }, ms)
		vh.Emit(g)
	case "random":
		n, mo, runs, seed := atoi(os.Args[2]), atoi(os.Args[3]), atoi(os.Args[4]), atoi(os.Args[5])
		tr := vh.NewTrace(os.Args[6])
		r := rand.New(rand.NewSource(int64(seed)))
		for k := 0; k < runs; k++ {
			evs, path := gate.RandomRun(func() gate.System { return newSys(n, mo) }, r, 100000, nil)
			tr.Log(map[string]interface{}{"ev": "reset", "run": k, "moves": len(path)})
			for _, e := range evs {
				tr.Log(e)
			}
		}
		tr.Close()
	default:
		vh.Fatal("usage")
	}
}
