// Driver for C13: injects echo requests (IPv4 plain/fragmented/multi-view,
// IPv6) into a real stack and records requests and emitted replies.
//
//	icmpd run <scenarios.json> <out.ndjson>
package main

import (
	"os"
	"sync"
	"time"

	"verifh/vh"
	"verifh/wire"
)

type reqSpec struct {
	V     int    `json:"v"`
	Dst   string `json:"dst"` // own1 own2 foreign
	Ident int    `json:"ident"`
	Seq   int    `json:"seq"`
	PLen  int    `json:"plen"`
	Cuts  []int  `json:"cuts"`  // fragment boundaries in the ICMP message (multiples of 8), v4 only
	Order []int  `json:"order"` // delivery order of fragments
	Split int    `json:"split"` // >0: deliver the packet as two views split at this byte
	Pad   int    `json:"pad"`   // >0: trailing link-layer padding after the IP packet (frame longer than the IP length)
	Dup   bool   `json:"dup"`   // duplicate one fragment
}

// burstCtl: what happens around burst i (same index as Bursts).
type burstCtl struct {
	Queue  bool   `json:"queue"`  // the link queues the frames of this burst (header views kept by reference, as protocol/link/channel does) and transmits them afterwards
	Stall  bool   `json:"stall"`  // the link's transmit path is stalled while the burst is injected (the echo queue fills up)
	RmAddr string `json:"rmaddr"` // after the burst has quiesced: remove this address (own1/own2) from the interface
}

type scenario struct {
	Bursts [][]reqSpec `json:"bursts"`
	Ctl    []burstCtl  `json:"ctl"`
	MTU    int         `json:"mtu"`
}

var addr4 = map[string]string{"own1": "10.0.0.1", "own2": "10.0.0.2", "foreign": "10.0.0.77", "peer": "10.0.0.9"}
var addr6 = map[string]string{"own1": "fd00::1", "own2": "fd00::2", "foreign": "fd00::77", "peer": "fd00::9"}

func pay(b []byte) map[string]interface{} {
	h, t := b, b
	if len(h) > 48 {
		h = h[:48]
	}
	if len(t) > 48 {
		t = t[len(t)-48:]
	}
	return map[string]interface{}{"n": len(b), "h": wire.Ints(h), "t": wire.Ints(t), "s": int(wire.Sum1071(b, 0))}
}

func ipstr(b []byte) string {
	s := ""
	for i, x := range b {
		if i > 0 {
			s += "."
		}
		s += itoa(int(x))
	}
	return s
}

func itoa(n int) string {
	if n == 0 {
		return "0"
	}
	s := ""
	for n > 0 {
		s = string(rune('0'+n%10)) + s
		n /= 10
	}
	return s
}

type key struct{ v, ident, seq int }

func runScenario(si int, sc scenario, tr *vh.Trace, shortWait *bool) {
	clock := wire.NewClock()
	mtu := uint32(sc.MTU)
	if mtu == 0 {
		mtu = 1500
	}
	h := wire.NewHost(clock, "h", []wire.NICSpec{{ID: 1, MTU: mtu, Addr4: []string{addr4["own1"], addr4["own2"]}, Addr6: []string{addr6["own1"], addr6["own2"]}}})
	link := h.Links[1]
	var mu sync.Mutex
	owed := map[key]bool{}
	pendingCnt := 0
	pendingKeys := map[key]bool{}
	cond := sync.NewCond(&mu)
	tr.Log(map[string]interface{}{"ev": "reset", "scenario": si})
	var stallCh chan struct{}
	assigned := map[string]bool{"own1": true, "own2": true}
	link.OnEmit = func(l *wire.Link, f wire.Frame) {
		mu.Lock()
		g := stallCh
		mu.Unlock()
		if g != nil {
			<-g // transmit path stalled: the sender (the echo replier goroutine) blocks here
		}
		ev := map[string]interface{}{"ev": "reply", "raw": len(f.Bytes)}
		switch f.Proto {
		case wire.ProtoIPv4:
			ip, err := wire.ParseIPv4(f.Bytes)
			if err != nil || ip.Proto != 1 {
				tr.Log(map[string]interface{}{"ev": "other", "why": "not icmp4"})
				return
			}
			m, err := wire.ParseICMPv4(ip.Payload)
			if err != nil || len(ip.Payload) < 8 {
				tr.Log(map[string]interface{}{"ev": "other", "why": "short icmp"})
				return
			}
			if m.Type != 0 {
				tr.Log(map[string]interface{}{"ev": "other", "why": "icmp type", "type": int(m.Type)})
				return
			}
			ev["v"], ev["src"], ev["dst"] = 4, ipstr(ip.Src), ipstr(ip.Dst)
			ev["ident"], ev["seq"], ev["pay"], ev["sumok"], ev["iphdrok"] = int(m.Ident), int(m.Seq), pay(m.Body), m.SumOK && m.Code == 0, ip.HdrOK && ip.TotalLen == len(f.Bytes)
		case wire.ProtoIPv6:
			ip, err := wire.ParseIPv6(f.Bytes)
			if err != nil || ip.Next != 58 {
				tr.Log(map[string]interface{}{"ev": "other", "why": "not icmp6"})
				return
			}
			m, err := wire.ParseICMPv6(ip.Src, ip.Dst, ip.Payload)
			if err != nil || len(ip.Payload) < 8 {
				tr.Log(map[string]interface{}{"ev": "other", "why": "short icmp6"})
				return
			}
			if m.Type != 129 {
				tr.Log(map[string]interface{}{"ev": "other", "why": "icmp6 type", "type": int(m.Type)})
				return
			}
			ev["v"], ev["src"], ev["dst"] = 6, ipstr(ip.Src), ipstr(ip.Dst)
			ev["ident"], ev["seq"], ev["pay"], ev["sumok"], ev["iphdrok"] = int(m.Ident), int(m.Seq), pay(m.Body), m.SumOK && m.Code == 0, ip.PayloadLen == len(f.Bytes)-40
		default:
			return
		}
		mu.Lock()
		tr.Log(ev)
		k := key{ev["v"].(int), ev["ident"].(int), ev["seq"].(int)}
		if pendingKeys[k] {
			delete(pendingKeys, k)
			pendingCnt--
		}
		delete(owed, k)
		cond.Broadcast()
		mu.Unlock()
	}
	id := 0
	for bi, burst := range sc.Bursts {
		var ctl burstCtl
		if bi < len(sc.Ctl) {
			ctl = sc.Ctl[bi]
		}
		if ctl.Queue {
			link.SetRetain(true)
			tr.Log(map[string]interface{}{"ev": "note", "why": "tx queued"})
		}
		if ctl.Stall {
			mu.Lock()
			stallCh = make(chan struct{})
			tr.Log(map[string]interface{}{"ev": "note", "why": "tx stalled"})
			mu.Unlock()
		}
		unstall := func() {
			mu.Lock()
			if stallCh != nil {
				close(stallCh)
				stallCh = nil
			}
			mu.Unlock()
		}
		finishBurst := func() {
			if ctl.RmAddr != "" {
				h.S.RemoveAddress(1, wire.A4(addr4[ctl.RmAddr]))
				h.S.RemoveAddress(1, wire.A6(addr6[ctl.RmAddr]))
				assigned[ctl.RmAddr] = false
				mu.Lock()
				tr.Log(map[string]interface{}{"ev": "note", "why": "address removed", "which": ctl.RmAddr})
				mu.Unlock()
			}
		}
		for _, r := range burst {
			id++
			payload := wire.Pattern(si*1000+id, r.PLen)
			own := assigned[r.Dst]
			k := key{r.V, r.Ident, r.Seq}
			ev := map[string]interface{}{"ev": "req", "id": id, "v": r.V, "own": own, "ident": r.Ident, "seq": r.Seq, "pay": pay(payload)}
			if r.V == 4 {
				src, dst := []byte(wire.A4(addr4["peer"])), []byte(wire.A4(addr4[r.Dst]))
				ev["src"], ev["dst"] = ipstr(src), ipstr(dst)
				mu.Lock()
				if own {
					if pendingCnt < 10 {
						owed[k] = true
					}
					pendingCnt++
					pendingKeys[k] = true
				}
				tr.Log(ev)
				mu.Unlock()
				msg := wire.BuildICMPv4Echo(8, uint16(r.Ident), uint16(r.Seq), payload)
				if len(r.Cuts) == 0 {
					pkt := wire.BuildIPv4(src, dst, 1, msg, wire.IPv4Opts{ID: uint16(id)})
					pkt = append(pkt, wire.Pattern(r.Seq+3, r.Pad)...)
					if r.Split > 0 && r.Split < len(pkt) {
						link.InjectViews(wire.ProtoIPv4, [][]byte{pkt[:r.Split], pkt[r.Split:]}, "")
					} else {
						link.Inject(wire.ProtoIPv4, pkt, "")
					}
				} else {
					bounds := append([]int{0}, r.Cuts...)
					bounds = append(bounds, len(msg))
					var frags [][]byte
					for i := 0; i+1 < len(bounds); i++ {
						frags = append(frags, wire.BuildIPv4(src, dst, 1, msg[bounds[i]:bounds[i+1]],
							wire.IPv4Opts{ID: uint16(id), FragOff: bounds[i], MF: i+2 < len(bounds)}))
					}
					order := r.Order
					if len(order) != len(frags) {
						order = nil
						for i := range frags {
							order = append(order, i)
						}
					}
					for n, i := range order {
						link.Inject(wire.ProtoIPv4, append(append([]byte{}, frags[i]...), wire.Pattern(r.Seq+i, r.Pad)...), "")
						if r.Dup && n == 0 {
							link.Inject(wire.ProtoIPv4, frags[i], "")
						}
					}
				}
			} else {
				src, dst := []byte(wire.A6(addr6["peer"])), []byte(wire.A6(addr6[r.Dst]))
				ev["src"], ev["dst"] = ipstr(src), ipstr(dst)
				mu.Lock()
				if own {
					owed[k] = true
					pendingCnt++
					pendingKeys[k] = true
				}
				tr.Log(ev)
				mu.Unlock()
				var rest [4]byte
				rest[0], rest[1], rest[2], rest[3] = byte(r.Ident>>8), byte(r.Ident), byte(r.Seq>>8), byte(r.Seq)
				msg := wire.BuildICMPv6(src, dst, 128, 0, rest, payload)
				pkt := wire.BuildIPv6(src, dst, 58, msg, 64)
				pkt = append(pkt, wire.Pattern(r.Seq+5, r.Pad)...)
				if r.Split > 0 && r.Split < len(pkt) {
					link.InjectViews(wire.ProtoIPv6, [][]byte{pkt[:r.Split], pkt[r.Split:]}, "")
				} else {
					link.Inject(wire.ProtoIPv6, pkt, "")
				}
			}
		}
		if ctl.Stall {
			time.Sleep(2 * time.Millisecond)
			unstall()
		}
		if ctl.Queue {
			// let the repliers work the burst off into the queue (until the queue length is stable), then transmit
			last, same := -1, 0
			for i := 0; i < 600 && same < 10; i++ {
				n := link.Held()
				if n == last {
					same++
				} else {
					last, same = n, 0
				}
				time.Sleep(5 * time.Millisecond)
			}
			link.SetRetain(false)
			link.Flush()
		}
		// wait for the replies that are owed (state-based; the deadline is only a give-up bound)
		deadline := 10 * time.Second
		if *shortWait {
			deadline = 1500 * time.Millisecond
		}
		done := make(chan struct{})
		go func() {
			mu.Lock()
			for len(owed) > 0 {
				cond.Wait()
			}
			mu.Unlock()
			close(done)
		}()
		select {
		case <-done:
		case <-time.After(deadline):
			*shortWait = true
			mu.Lock()
			owed = map[key]bool{}
			cond.Broadcast()
			mu.Unlock()
			<-done
			mu.Lock()
			tr.Log(map[string]interface{}{"ev": "note", "why": "gave up waiting"})
			mu.Unlock()
			// fallthrough to quiesce with the state as the trace shows it
			mu.Lock()
			tr.Log(map[string]interface{}{"ev": "quiesce", "gaveup": true})
			mu.Unlock()
			finishBurst()
			continue
		}
		// let late (unsolicited/duplicate) replies show up before the next burst
		time.Sleep(5 * time.Millisecond)
		mu.Lock()
		tr.Log(map[string]interface{}{"ev": "quiesce"})
		mu.Unlock()
		finishBurst()
	}
	link.OnEmit = nil
}

func main() {
	vh.Quiet()
	if len(os.Args) < 4 || os.Args[1] != "run" {
		vh.Fatal("usage: icmpd run scenarios.json out.ndjson")
	}
	var scs []scenario
	vh.LoadJSON(os.Args[2], &scs)
	tr := vh.NewTrace(os.Args[3])
	// injections are synchronous calls into the stack; waiting for owed replies gives up after 10 s and logs: 60 s of silence
	// means an injection did not return
	tr.Watchdog(60 * time.Second)
	short := false
	for i, sc := range scs {
		runScenario(i, sc, tr, &short)
	}
	tr.Close()
}
