// Driver for C15: binds the TLA+ reference spec/codec (evaluated by TLC) to
// the real protocol/header package.
//
//	codecd vec   out.json                       expected encodings from TLC vs library Encode/setters/getters
//	codecd sweep out.json seed maxwidth         per-field exhaustive sweep driven by the exported layout table
//	codecd opts  job.json                       TLC state dumps (lazy cylinders / eager / encoder sequences) vs real parsers
//	codecd sum   cases.json                     checksum expectations from TLC + sweeps against the spec's definition
//
// Trusted pieces (stated in the evidence): pack/unpack (generic bit packer
// interpreting the layout table), refCombine/refSum (the spec's Combine /
// Sum1071 re-implemented in 8 lines; cross-checked against every TLC value),
// and the glue that maps RFC field units to the library's API units.
package main

import (
	"bufio"
	"bytes"
	"encoding/binary"
	"encoding/json"
	"fmt"
	"math/rand"
	"os"
	"runtime/debug"
	"sort"
	"strconv"
	"strings"
	"sync"
	"sync/atomic"

	"github.com/brewlin/net-protocol/pkg/seqnum"
	tcpip "github.com/brewlin/net-protocol/protocol"
	"github.com/brewlin/net-protocol/protocol/header"
	"verifh/vh"
)

// ---------------------------------------------------------------- values
// A field value: number (width <= nummax) or byte string (wider fields).
type val struct {
	n uint64
	b []byte
}

func (v val) String() string {
	if v.b != nil {
		return fmt.Sprintf("%x", v.b)
	}
	return strconv.FormatUint(v.n, 10)
}
func (v val) eq(w val) bool {
	if (v.b != nil) != (w.b != nil) {
		return false
	}
	if v.b != nil {
		return bytes.Equal(v.b, w.b)
	}
	return v.n == w.n
}
func num(n uint64) val  { return val{n: n} }
func bs(b []byte) val   { return val{b: append([]byte{}, b...)} }
func u32b(x uint32) val { b := make([]byte, 4); binary.BigEndian.PutUint32(b, x); return val{b: b} }
func be32(v val) uint32 { return binary.BigEndian.Uint32(v.b) }
func ints(b []byte) []int {
	o := make([]int, len(b))
	for i, x := range b {
		o[i] = int(x)
	}
	return o
}

type field struct {
	Byte   int    `json:"byte"`
	Bit    int    `json:"bit"`
	Width  int    `json:"width"`
	Endian string `json:"endian"`
}
type layout struct {
	Size   int              `json:"size"`
	Fields map[string]field `json:"fields"`
}
type vector struct {
	Rec   map[string]json.RawMessage `json:"rec"`
	Bytes []int                      `json:"bytes"`
}
type instance struct {
	Op    []json.RawMessage `json:"op"`
	Bytes []int             `json:"bytes"`
}
type tlcOut struct {
	Layouts map[string]layout          `json:"layouts"`
	Fixed   map[string]json.RawMessage `json:"fixed"`
	NumMax  int                        `json:"nummax"`
	Vectors map[string][]vector        `json:"vectors"`
	DNSQ    []struct {
		Labels [][]int `json:"labels"`
		QType  int     `json:"qtype"`
		QClass int     `json:"qclass"`
		Bytes  []int   `json:"bytes"`
	} `json:"dnsq"`
	SackFit   [][][]int  `json:"sackfit"` // [n][room] -> bytes the reference encodes for n SACK blocks into room bytes
	InstSmall []instance `json:"inst_small"`
	InstBig   []instance `json:"inst_big"`
}

func toBytes(x []int) []byte {
	o := make([]byte, len(x))
	for i, v := range x {
		o[i] = byte(v)
	}
	return o
}

func parseVal(raw json.RawMessage) val {
	s := strings.TrimSpace(string(raw))
	if strings.HasPrefix(s, "[") {
		var a []int
		if err := json.Unmarshal(raw, &a); err != nil {
			vh.Fatal("bad value %s", s)
		}
		b := toBytes(a)
		if b == nil {
			b = []byte{}
		}
		return val{b: b}
	}
	n, err := strconv.ParseUint(s, 10, 64)
	if err != nil {
		vh.Fatal("bad value %s", s)
	}
	return val{n: n}
}
func parseRec(m map[string]json.RawMessage) map[string]val {
	o := map[string]val{}
	for k, v := range m {
		o[k] = parseVal(v)
	}
	return o
}
func parseFixed(raw json.RawMessage) map[string]val {
	if strings.HasPrefix(strings.TrimSpace(string(raw)), "[") {
		return map[string]val{}
	}
	var m map[string]json.RawMessage
	if err := json.Unmarshal(raw, &m); err != nil {
		vh.Fatal("bad fixed table: %v", err)
	}
	return parseRec(m)
}
func recJSON(r map[string]val) map[string]interface{} {
	o := map[string]interface{}{}
	for k, v := range r {
		if v.b != nil {
			o[k] = ints(v.b)
		} else {
			o[k] = v.n
		}
	}
	return o
}

// ------------------------------------------------- trusted: generic bit packer
// Bit p of a header is bit (7 - p%8) of byte p/8; a field occupies bits
// [8*byte+bit, 8*byte+bit+width), most significant bit first.
func pack(L layout, rec map[string]val) []byte {
	out := make([]byte, L.Size)
	for name, f := range L.Fields {
		v := rec[name]
		start := 8*f.Byte + f.Bit
		for k := 0; k < f.Width; k++ {
			var bit byte
			if v.b != nil {
				bit = (v.b[k/8] >> uint(7-k%8)) & 1
			} else {
				bit = byte(v.n>>uint(f.Width-1-k)) & 1
			}
			p := start + k
			out[p/8] |= bit << uint(7-p%8)
		}
	}
	return out
}

func unpack(L layout, b []byte, nummax int) map[string]val {
	out := map[string]val{}
	for name, f := range L.Fields {
		start := 8*f.Byte + f.Bit
		if f.Width > nummax {
			out[name] = bs(b[f.Byte : f.Byte+f.Width/8])
			continue
		}
		var n uint64
		for k := 0; k < f.Width; k++ {
			p := start + k
			n = n<<1 | uint64((b[p/8]>>uint(7-p%8))&1)
		}
		out[name] = num(n)
	}
	return out
}

// --------------------------------------------------------------- library glue
// lib builds header h from the record with the library's Encode / setters
// and reads every field back with the getters. alt holds the same header
// built a second way (individual setters); fails lists failed predicates.
// Units: IPv4Fields.IHL, TCPFields.DataOffset are bytes (field value * 4),
// IPv4 FragmentOffset is bytes (field value * 8), IPv6 fragment offset is
// the field value itself.
func lib(h string, L layout, rec map[string]val) (enc []byte, got map[string]val, alt [][]byte, fails []string) {
	got = map[string]val{}
	n := func(k string) uint64 {
		v, ok := rec[k]
		if !ok || v.b != nil {
			vh.Fatal("%s: numeric field %s missing", h, k)
		}
		return v.n
	}
	b := func(k string) []byte {
		v, ok := rec[k]
		if !ok || v.b == nil {
			vh.Fatal("%s: byte field %s missing", h, k)
		}
		return v.b
	}
	switch h {
	case "eth":
		buf := make([]byte, header.EtheernetMinimumsize)
		e := header.Ethernet(buf)
		e.Encode(&header.EthernetFields{SrcAddr: tcpip.LinkAddress(b("src")), DstAddr: tcpip.LinkAddress(b("dst")),
			Type: tcpip.NetworkProtocolNumber(n("type"))})
		got["src"], got["dst"], got["type"] = bs([]byte(e.SourceAddress())), bs([]byte(e.DestinationAddress())), num(uint64(e.Type()))
		enc = buf
	case "arp":
		buf := make([]byte, header.ARPSize)
		a := header.ARP(buf)
		a.SetIpv4OverEthernet()
		a.SetOp(header.ARPOp(n("oper")))
		copy(a.HardwareAddressSender(), b("sha"))
		copy(a.ProtocolAddressSender(), b("spa"))
		copy(a.HardwareAddressTarget(), b("tha"))
		copy(a.ProtocolAddressTarget(), b("tpa"))
		got["oper"] = num(uint64(a.Op()))
		got["sha"], got["spa"] = bs(a.HardwareAddressSender()), bs(a.ProtocolAddressSender())
		got["tha"], got["tpa"] = bs(a.HardwareAddressTarget()), bs(a.ProtocolAddressTarget())
		if !a.IsValid() {
			fails = append(fails, "ARP.IsValid() is false for an Ethernet/IPv4 packet")
		}
		enc = buf
	case "ipv4":
		f := header.IPv4Fields{IHL: uint8(4 * n("ihl")), TOS: uint8(n("tos")), TotalLength: uint16(n("totlen")), ID: uint16(n("id")),
			Flags: uint8(n("flags")), FragmentOffset: uint16(8 * n("fragoff")), TTL: uint8(n("ttl")), Protocol: uint8(n("proto")),
			Checksum: uint16(n("cksum")), SrcAddr: tcpip.Address(b("src")), DstAddr: tcpip.Address(b("dst"))}
		buf := make([]byte, header.IPv4MinimumSize)
		ip := header.IPv4(buf)
		ip.Encode(&f)
		got["version"] = num(uint64(header.IPVersion(buf)))
		hl := ip.HeaderLength()
		got["ihl"] = num(uint64(hl / 4))
		if hl%4 != 0 {
			fails = append(fails, "IPv4.HeaderLength() not a multiple of 4")
		}
		tos, _ := ip.TOS()
		got["tos"], got["totlen"], got["id"] = num(uint64(tos)), num(uint64(ip.TotalLength())), num(uint64(ip.ID()))
		got["flags"] = num(uint64(ip.Flags()))
		fo := ip.FragmentOffset()
		got["fragoff"] = num(uint64(fo / 8))
		if fo%8 != 0 {
			fails = append(fails, "IPv4.FragmentOffset() not a multiple of 8")
		}
		got["ttl"], got["proto"], got["cksum"] = num(uint64(ip.TTL())), num(uint64(ip.Protocol())), num(uint64(ip.Checksum()))
		got["src"], got["dst"] = bs([]byte(ip.SourceAddress())), bs([]byte(ip.DestinationAddress()))
		if uint64(ip.TransportProtocol()) != n("proto") {
			fails = append(fails, "IPv4.TransportProtocol() != protocol field")
		}
		// second construction: Encode the fields without setters, then the setters
		g := f
		g.TOS, g.TotalLength, g.Checksum, g.Flags, g.FragmentOffset = 0, 0, 0, 0, 0
		g.SrcAddr, g.DstAddr = "\x00\x00\x00\x00", "\x00\x00\x00\x00"
		b2 := make([]byte, header.IPv4MinimumSize)
		ip2 := header.IPv4(b2)
		ip2.Encode(&g)
		ip2.SetTOS(f.TOS, 0)
		ip2.SetTotalLength(f.TotalLength)
		ip2.SetChecksum(f.Checksum)
		ip2.SetFlagsFragmentOffset(f.Flags, f.FragmentOffset)
		ip2.SetSourceAddress(f.SrcAddr)
		ip2.SetDestinationAddress(f.DstAddr)
		alt = append(alt, b2)
		enc = buf
	case "ipv6":
		f := header.IPv6Fields{TrafficClass: uint8(n("tclass")), FlowLabel: uint32(n("flow")), PayloadLength: uint16(n("plen")),
			NextHeader: uint8(n("nexthdr")), HopLimit: uint8(n("hoplimit")), SrcAddr: tcpip.Address(b("src")), DstAddr: tcpip.Address(b("dst"))}
		buf := make([]byte, header.IPv6MinimumSize)
		ip := header.IPv6(buf)
		ip.Encode(&f)
		got["version"] = num(uint64(header.IPVersion(buf)))
		tc, fl := ip.TOS()
		got["tclass"], got["flow"] = num(uint64(tc)), num(uint64(fl))
		got["plen"], got["nexthdr"], got["hoplimit"] = num(uint64(ip.PayloadLength())), num(uint64(ip.NextHeader())), num(uint64(ip.HopLimit()))
		got["src"], got["dst"] = bs([]byte(ip.SourceAddress())), bs([]byte(ip.DestinationAddress()))
		if uint64(ip.TransportProtocol()) != n("nexthdr") {
			fails = append(fails, "IPv6.TransportProtocol() != next header field")
		}
		zero16 := tcpip.Address(make([]byte, 16))
		b2 := make([]byte, header.IPv6MinimumSize)
		ip2 := header.IPv6(b2)
		ip2.Encode(&header.IPv6Fields{HopLimit: f.HopLimit, SrcAddr: zero16, DstAddr: zero16})
		ip2.SetTOS(f.TrafficClass, f.FlowLabel)
		ip2.SetPayloadLength(f.PayloadLength)
		ip2.SetNextHeader(f.NextHeader)
		ip2.SetSourceAddress(f.SrcAddr)
		ip2.SetDestinationAddress(f.DstAddr)
		alt = append(alt, b2)
		enc = buf
	case "ipv6frag":
		buf := make([]byte, header.IPv6FragmentHeaderSize)
		fr := header.IPv6Fragment(buf)
		fr.Encode(&header.IPv6FragmentFields{NextHeader: uint8(n("nexthdr")), FragmentOffset: uint16(n("fragoff")), M: n("m") == 1,
			Identification: be32(rec["ident"])})
		got["nexthdr"], got["fragoff"] = num(uint64(fr.NextHeader())), num(uint64(fr.FragmentOffset()))
		m := uint64(0)
		if fr.More() {
			m = 1
		}
		got["m"], got["ident"] = num(m), u32b(fr.ID())
		if !fr.IsValid() || uint64(fr.TransportProtocol()) != n("nexthdr") {
			fails = append(fails, "IPv6Fragment.IsValid()/TransportProtocol()")
		}
		enc = buf
	case "icmp4echo", "icmp4unreach":
		// the library knows type/code/checksum only; the rest of the message is payload laid out by the caller
		body := map[string]val{}
		for k, v := range rec {
			body[k] = v
		}
		body["type"], body["code"], body["cksum"] = num(0), num(0), num(0)
		buf := pack(L, body)
		want4 := append([]byte{}, buf[4:]...)
		ic := header.ICMPv4(buf)
		ic.SetType(header.ICMPv4Type(n("type")))
		ic.SetCode(byte(n("code")))
		ic.SetChecksum(uint16(n("cksum")))
		got["type"], got["code"], got["cksum"] = num(uint64(ic.Type())), num(uint64(ic.Code())), num(uint64(ic.Checksum()))
		if !bytes.Equal(ic.Payload(), want4) {
			fails = append(fails, "ICMPv4.Payload() is not the message after the 4-byte header")
		}
		enc = buf
	case "icmp6echo", "icmp6unreach", "icmp6ns", "icmp6na":
		body := map[string]val{}
		for k, v := range rec {
			body[k] = v
		}
		body["type"], body["code"], body["cksum"] = num(0), num(0), num(0)
		buf := pack(L, body)
		want4 := append([]byte{}, buf[4:]...)
		ic := header.ICMPv6(buf)
		ic.SetType(header.ICMPv6Type(n("type")))
		ic.SetCode(byte(n("code")))
		ic.SetChecksum(uint16(n("cksum")))
		got["type"], got["code"], got["cksum"] = num(uint64(ic.Type())), num(uint64(ic.Code())), num(uint64(ic.Checksum()))
		if !bytes.Equal(ic.Payload(), want4) {
			fails = append(fails, "ICMPv6.Payload() is not the message after the 4-byte header")
		}
		enc = buf
	case "udp":
		f := header.UDPFields{SrcPort: uint16(n("sport")), DstPort: uint16(n("dport")), Length: uint16(n("length")), Checksum: uint16(n("cksum"))}
		buf := make([]byte, header.UDPMinimumSize)
		u := header.UDP(buf)
		u.Encode(&f)
		got["sport"], got["dport"] = num(uint64(u.SourcePort())), num(uint64(u.DestinationPort()))
		got["length"], got["cksum"] = num(uint64(u.Length())), num(uint64(u.Checksum()))
		b2 := make([]byte, header.UDPMinimumSize)
		u2 := header.UDP(b2)
		u2.Encode(&header.UDPFields{Length: f.Length})
		u2.SetSourcePort(f.SrcPort)
		u2.SetDestinationPort(f.DstPort)
		u2.SetChecksum(f.Checksum)
		alt = append(alt, b2)
		enc = buf
	case "tcp":
		f := header.TCPFields{SrcPort: uint16(n("sport")), DstPort: uint16(n("dport")), SeqNum: be32(rec["seq"]), AckNum: be32(rec["ack"]),
			DataOffset: uint8(4 * n("doff")), Flags: uint8(n("flags")), WindowSize: uint16(n("window")), Checksum: uint16(n("cksum")),
			UrgentPointer: uint16(n("urgptr"))}
		buf := make([]byte, header.TCPMinimumSize)
		t := header.TCP(buf)
		t.Encode(&f)
		got["sport"], got["dport"] = num(uint64(t.SourcePort())), num(uint64(t.DestinationPort()))
		got["seq"], got["ack"] = u32b(t.SequenceNumber()), u32b(t.AckNumber())
		do := t.DataOffset()
		got["doff"] = num(uint64(do / 4))
		if do%4 != 0 {
			fails = append(fails, "TCP.DataOffset() not a multiple of 4")
		}
		got["flags"], got["window"], got["cksum"] = num(uint64(t.Flags())), num(uint64(t.WindowSize())), num(uint64(t.Checksum()))
		g := f
		g.SrcPort, g.DstPort, g.Checksum = 0, 0, 0
		b2 := make([]byte, header.TCPMinimumSize)
		t2 := header.TCP(b2)
		t2.Encode(&g)
		t2.SetSourcePort(f.SrcPort)
		t2.SetDestinationPort(f.DstPort)
		t2.SetChecksum(f.Checksum)
		alt = append(alt, b2)
		enc = buf
	case "dns":
		buf := make([]byte, 12)
		d := header.DNS(buf)
		d.Setheader(uint16(n("id")))
		d.SetCount(uint16(n("qdcount")), uint16(n("ancount")), uint16(n("nscount")), uint16(n("arcount")))
		got["id"], got["qdcount"] = num(uint64(d.GetId())), num(uint64(d.GetQDCount()))
		got["ancount"], got["nscount"], got["arcount"] = num(uint64(d.GetANCount())), num(uint64(d.GetNSCount())), num(uint64(d.GetARCount()))
		enc = buf
	default:
		vh.Fatal("no glue for header %q", h)
	}
	return
}

type mismatch struct {
	Kind   string      `json:"kind"` // encode | decode | setter | predicate | harness | panic | result | sum ...
	Header string      `json:"header,omitempty"`
	Field  string      `json:"field,omitempty"`
	What   string      `json:"what"`
	Rec    interface{} `json:"rec,omitempty"`
	Want   interface{} `json:"want,omitempty"`
	Got    interface{} `json:"got,omitempty"`
	Input  interface{} `json:"input,omitempty"`
	Extra  interface{} `json:"extra,omitempty"`
}

type report struct {
	mu         sync.Mutex
	Cases      int64      `json:"cases"`
	Mismatches []mismatch `json:"mismatches"`
	NMismatch  int        `json:"n_mismatch"`
	nm         int64
	perKind    map[string]int
	Extra      map[string]interface{} `json:"extra"`
}

// add records a mismatch; details are kept for the first 8 of each kind, so
// that many mismatches of one kind (e.g. drift) never hide another kind (panic).
func (r *report) add(m mismatch) {
	atomic.AddInt64(&r.nm, 1)
	r.mu.Lock()
	r.NMismatch++
	if r.perKind == nil {
		r.perKind = map[string]int{}
	}
	r.perKind[m.Kind]++
	if r.perKind[m.Kind] <= 8 {
		r.Mismatches = append(r.Mismatches, m)
	}
	r.mu.Unlock()
}

// safely runs f and reports a panic (index out of range inside header/*) as a string.
func safely(f func()) (p string) {
	defer func() {
		if e := recover(); e != nil {
			p = fmt.Sprint(e)
		}
	}()
	f()
	return ""
}

// checkOne compares the library against the expected bytes and record.
func checkOne(r *report, h string, L layout, rec map[string]val, want []byte) {
	atomic.AddInt64(&r.Cases, 1)
	var enc []byte
	var got map[string]val
	var alt [][]byte
	var fails []string
	if p := safely(func() { enc, got, alt, fails = lib(h, L, rec) }); p != "" {
		r.add(mismatch{Kind: "panic", Header: h, What: "library panicked: " + p, Rec: recJSON(rec)})
		return
	}
	if !bytes.Equal(enc, want) {
		r.add(mismatch{Kind: "encode", Header: h, What: "encoded bytes differ from the RFC layout", Rec: recJSON(rec), Want: ints(want), Got: ints(enc)})
	}
	for i, a := range alt {
		if !bytes.Equal(a, want) {
			r.add(mismatch{Kind: "setter", Header: h, What: fmt.Sprintf("header built with setters (variant %d) differs from the RFC layout", i), Rec: recJSON(rec), Want: ints(want), Got: ints(a)})
		}
	}
	for name, g := range got {
		if w, ok := rec[name]; ok && !g.eq(w) {
			r.add(mismatch{Kind: "decode", Header: h, Field: name, What: "getter returns a different value than was encoded", Rec: recJSON(rec), Want: w.String(), Got: g.String()})
		}
	}
	for _, f := range fails {
		r.add(mismatch{Kind: "predicate", Header: h, What: f, Rec: recJSON(rec)})
	}
}

func loadOut(path string) *tlcOut {
	var o tlcOut
	f, err := os.Open(path)
	if err != nil {
		vh.Fatal("open %s: %v", path, err)
	}
	defer f.Close()
	if err := json.NewDecoder(bufio.NewReaderSize(f, 1<<20)).Decode(&o); err != nil {
		vh.Fatal("decode %s: %v", path, err)
	}
	return &o
}

func hdrNames(o *tlcOut) []string {
	var hs []string
	for h := range o.Layouts {
		hs = append(hs, h)
	}
	sort.Strings(hs)
	return hs
}

// ------------------------------------------------------------------ vec
func cmdVec(path string) {
	o := loadOut(path)
	r := &report{Mismatches: []mismatch{}, Extra: map[string]interface{}{}}
	per := map[string]int{}
	getters := map[string][]string{}
	for _, h := range hdrNames(o) {
		L := o.Layouts[h]
		for _, v := range o.Vectors[h] {
			rec := parseRec(v.Rec)
			want := toBytes(v.Bytes)
			// harness self-check: the trusted packer agrees with TLC's Enc, the unpacker with the record
			if p := pack(L, rec); !bytes.Equal(p, want) {
				r.add(mismatch{Kind: "harness", Header: h, What: "generic packer disagrees with TLC Enc", Rec: recJSON(rec), Want: ints(want), Got: ints(p)})
				continue
			}
			for name, u := range unpack(L, want, o.NumMax) {
				if !u.eq(rec[name]) {
					r.add(mismatch{Kind: "harness", Header: h, Field: name, What: "generic unpacker disagrees with the record"})
				}
			}
			checkOne(r, h, L, rec, want)
			per[h]++
		}
		if len(o.Vectors[h]) > 0 {
			_, got, _, _ := lib(h, L, parseRec(o.Vectors[h][0].Rec))
			for k := range got {
				getters[h] = append(getters[h], k)
			}
			sort.Strings(getters[h])
		}
	}
	// DNS question section
	for _, q := range o.DNSQ {
		r.Cases++
		var labels []string
		nameLen := 1
		for _, l := range q.Labels {
			labels = append(labels, string(toBytes(l)))
			nameLen += 1 + len(l)
		}
		want := toBytes(q.Bytes)
		var gotb []byte
		var dl int
		p := safely(func() {
			d := header.DNS(make([]byte, 12))
			d.Setheader(0x1234)
			(&d).SetQuestion(strings.Join(labels, "."), uint16(q.QType), uint16(q.QClass))
			gotb = append([]byte{}, d[12:]...)
			dl = d.GetDomainLen()
		})
		if p != "" {
			r.add(mismatch{Kind: "panic", Header: "dnsq", What: "library panicked: " + p, Input: labels})
			continue
		}
		if !bytes.Equal(gotb, want) {
			r.add(mismatch{Kind: "encode", Header: "dnsq", What: "DNS question section differs from RFC 1035 4.1.2", Input: labels, Want: q.Bytes, Got: ints(gotb)})
		}
		if dl != nameLen {
			r.add(mismatch{Kind: "decode", Header: "dnsq", Field: "GetDomainLen", What: "QNAME length", Input: labels, Want: nameLen, Got: dl})
		}
		per["dnsq"]++
	}
	// SACK blocks into limited option space: the leading blocks that fit, read back by the option parser; never a panic
	for n, row := range o.SackFit {
		for room, wantI := range row {
			r.Cases++
			want := toBytes(wantI)
			var blocks []header.SACKBlock
			for i := 1; i <= n; i++ {
				blocks = append(blocks, header.SACKBlock{Start: seqnum.Value(uint32(i)<<24 | 0x010203), End: seqnum.Value(uint32(i)<<24 | 0x050600 | uint32(7+i))})
			}
			arena := make([]byte, room+16)
			for k := range arena {
				arena[k] = 0xEE
			}
			var got int
			var back header.TCPOptions
			in := map[string]int{"blocks": n, "room": room}
			p := safely(func() {
				got = header.EncodeSACKBlocks(blocks, arena[8:8+room:8+room])
				back = header.ParseTCPOptions(arena[8 : 8+got])
			})
			if p != "" {
				r.add(mismatch{Kind: "panic", Header: "tcp-sack", What: "EncodeSACKBlocks / ParseTCPOptions panicked: " + p, Input: in})
				continue
			}
			if got != len(want) || !bytes.Equal(arena[8:8+got], want) {
				r.add(mismatch{Kind: "encode", Header: "tcp-sack", What: "SACK option for the blocks that fit differs from RFC 2018", Input: in, Want: wantI, Got: ints(arena[8 : 8+got])})
				continue
			}
			for k := 0; k < 8; k++ {
				if arena[k] != 0xEE || arena[8+room+k] != 0xEE {
					r.add(mismatch{Kind: "encode", Header: "tcp-sack", What: "EncodeSACKBlocks wrote outside its buffer", Input: in})
					break
				}
			}
			nb := (len(want) - 2) / 8
			if len(want) == 0 {
				nb = 0
			}
			if len(back.SACKBlocks) != nb {
				r.add(mismatch{Kind: "decode", Header: "tcp-sack", What: "parser does not recover the encoded SACK blocks", Input: in, Want: nb, Got: len(back.SACKBlocks)})
				continue
			}
			for i := 0; i < nb; i++ {
				if back.SACKBlocks[i] != blocks[i] {
					r.add(mismatch{Kind: "decode", Header: "tcp-sack", What: "parser returns a different SACK block", Input: in, Want: i})
				}
			}
			per["tcp-sack-fit"]++
		}
	}
	r.Extra["per_header"] = per
	r.Extra["fields_with_getters"] = getters
	r.Extra["size_constants"] = map[string]int{"EtheernetMinimumsize": header.EtheernetMinimumsize, "ARPSize": header.ARPSize,
		"IPv4MinimumSize": header.IPv4MinimumSize, "IPv6MinimumSize": header.IPv6MinimumSize, "IPv6FragmentHeaderSize": header.IPv6FragmentHeaderSize,
		"UDPMinimumSize": header.UDPMinimumSize, "TCPMinimumSize": header.TCPMinimumSize, "ICMPv4EchoMinimumSize": header.ICMPv4EchoMinimumSize,
		"ICMPv4DstUnreachableMinimumSize": header.ICMPv4DstUnreachableMinimumSize, "ICMPv6EchoMinimumSize": header.ICMPv6EchoMinimumSize,
		"ICMPv6DstUnreachableMinimumSize": header.ICMPv6DstUnreachableMinimumSize, "ICMPv6NeighborSolicitMinimumSize": header.ICMPv6NeighborSolicitMinimumSize}
	vh.Emit(r)
}

// ---------------------------------------------------------------- sweep
func randVal(rng *rand.Rand, f field, nummax int) val {
	if f.Width > nummax {
		b := make([]byte, f.Width/8)
		rng.Read(b)
		return val{b: b}
	}
	return num(rng.Uint64() & (1<<uint(f.Width) - 1))
}

func cmdSweep(path string, seed int64, maxw int, workers int) {
	o := loadOut(path)
	r := &report{Mismatches: []mismatch{}, Extra: map[string]interface{}{}}
	swept := map[string][]string{}
	type task struct {
		h, name string
		base    int
	}
	var tasks []task
	for _, h := range hdrNames(o) {
		L := o.Layouts[h]
		fixed := parseFixed(o.Fixed[h])
		var names []string
		for name := range L.Fields {
			names = append(names, name)
		}
		sort.Strings(names)
		for _, name := range names {
			f := L.Fields[name]
			if _, fx := fixed[name]; fx || f.Width > maxw {
				continue
			}
			swept[h] = append(swept[h], fmt.Sprintf("%s/%d", name, f.Width))
			tasks = append(tasks, task{h, name, 0}, task{h, name, 1})
		}
	}
	if workers < 1 {
		workers = 1
	}
	ch := make(chan int)
	var wg sync.WaitGroup
	for w := 0; w < workers; w++ {
		wg.Add(1)
		go func() {
			defer wg.Done()
			for ti := range ch {
				t := tasks[ti]
				L := o.Layouts[t.h]
				fixed := parseFixed(o.Fixed[t.h])
				f := L.Fields[t.name]
				rng := rand.New(rand.NewSource(seed*7919 + int64(ti)))
				rec := map[string]val{} // base record: all zero (base 0) or seeded random (base 1)
				for k, g := range L.Fields {
					if v, fx := fixed[k]; fx {
						rec[k] = v
					} else if t.base == 0 {
						if g.Width > o.NumMax {
							rec[k] = val{b: make([]byte, g.Width/8)}
						} else {
							rec[k] = num(0)
						}
					} else {
						rec[k] = randVal(rng, g, o.NumMax)
					}
				}
				bad := 0
				for v := uint64(0); v < 1<<uint(f.Width) && bad < 3; v++ { // one field, one defect: do not flood
					rec[t.name] = num(v)
					before := atomic.LoadInt64(&r.nm)
					checkOne(r, t.h, L, rec, pack(L, rec))
					if atomic.LoadInt64(&r.nm) != before {
						bad++
					}
				}
			}
		}()
	}
	for i := range tasks {
		ch <- i
	}
	close(ch)
	wg.Wait()
	r.Extra["swept"] = swept
	vh.Emit(r)
}

// ----------------------------------------------------------------- opts
// TLA value parser for TLC's state dump (tuples of ints / strings / tuples).
type tlaParser struct {
	s string
	p int
}

func (t *tlaParser) ws() {
	for t.p < len(t.s) && (t.s[t.p] == ' ' || t.s[t.p] == '\n' || t.s[t.p] == '\t') {
		t.p++
	}
}
func (t *tlaParser) value() interface{} {
	t.ws()
	if strings.HasPrefix(t.s[t.p:], "<<") {
		t.p += 2
		out := []interface{}{}
		for {
			t.ws()
			if strings.HasPrefix(t.s[t.p:], ">>") {
				t.p += 2
				return out
			}
			out = append(out, t.value())
			t.ws()
			if t.p < len(t.s) && t.s[t.p] == ',' {
				t.p++
			}
		}
	}
	if t.s[t.p] == '"' {
		e := strings.IndexByte(t.s[t.p+1:], '"')
		v := t.s[t.p+1 : t.p+1+e]
		t.p += e + 2
		return v
	}
	st := t.p
	for t.p < len(t.s) && (t.s[t.p] == '-' || (t.s[t.p] >= '0' && t.s[t.p] <= '9')) {
		t.p++
	}
	if st == t.p {
		vh.Fatal("cannot parse TLA value at %q", t.s[st:])
	}
	n, _ := strconv.Atoi(t.s[st:t.p])
	return n
}
func parseTLA(s string) interface{} { p := &tlaParser{s: s}; return p.value() }

func tInts(v interface{}) []int {
	l := v.([]interface{})
	o := make([]int, len(l))
	for i, x := range l {
		o[i] = x.(int)
	}
	return o
}

type state struct {
	md        string // "lazy" | "eager" | "enc"
	pz, d, mx int
	o         []int
	r         interface{}
	sq        []interface{}
}

// readDump streams the terminal states (d != 0) of a TLC -dump file.
func readDump(path string, emit func(*state)) (total, terminal int) {
	f, err := os.Open(path)
	if err != nil {
		vh.Fatal("open %s: %v", path, err)
	}
	defer f.Close()
	sc := bufio.NewScanner(f)
	sc.Buffer(make([]byte, 1<<20), 1<<26)
	vars := map[string]string{}
	cur := ""
	flush := func() {
		if len(vars) == 0 {
			return
		}
		total++
		if strings.TrimSpace(vars["d"]) != "0" {
			terminal++
			st := &state{}
			st.md = strings.Trim(strings.TrimSpace(vars["md"]), "\"")
			st.pz, _ = strconv.Atoi(strings.TrimSpace(vars["pz"]))
			st.d, _ = strconv.Atoi(strings.TrimSpace(vars["d"]))
			st.mx, _ = strconv.Atoi(strings.TrimSpace(vars["mx"]))
			st.o = tInts(parseTLA(vars["o"]))
			st.r = parseTLA(vars["r"])
			st.sq = parseTLA(vars["sq"]).([]interface{})
			emit(st)
		}
		vars = map[string]string{}
		cur = ""
	}
	for sc.Scan() {
		ln := sc.Text()
		switch {
		case strings.HasPrefix(ln, "State "):
			flush()
		case strings.HasPrefix(ln, "/\\ "):
			eq := strings.Index(ln, " = ")
			cur = ln[3:eq]
			vars[cur] = ln[eq+3:]
		case strings.TrimSpace(ln) == "":
		default:
			if cur != "" {
				vars[cur] += " " + ln
			}
		}
	}
	flush()
	return
}

func b4(v interface{}) uint32 {
	x := tInts(v)
	return uint32(x[0])<<24 | uint32(x[1])<<16 | uint32(x[2])<<8 | uint32(x[3])
}

// canonical result strings (spec side from the r tuple, code side from the structs)
func specResult(pz int, r interface{}) string {
	t := r.([]interface{})
	if pz == 0 {
		s := fmt.Sprintf("ts=%d val=%08x ecr=%08x blocks=", t[0].(int), b4(t[1]), b4(t[2]))
		for _, blk := range t[3].([]interface{}) {
			x := tInts(blk)
			s += fmt.Sprintf("[%02x%02x%02x%02x-%02x%02x%02x%02x]", x[0], x[1], x[2], x[3], x[4], x[5], x[6], x[7])
		}
		return s
	}
	return fmt.Sprintf("mss=%d ws=%d ts=%d val=%08x ecr=%08x sackperm=%d", t[0].(int), t[1].(int), t[2].(int), b4(t[3]), b4(t[4]), t[5].(int))
}
func mkDefault(pz int) interface{} {
	z := []interface{}{0, 0, 0, 0}
	if pz == 0 {
		return []interface{}{0, z, z, []interface{}{}}
	}
	return []interface{}{536, -1, 0, z, z, 0}
}
func b2i(b bool) int {
	if b {
		return 1
	}
	return 0
}
func realResult(pz int, in []byte) string {
	if pz == 0 {
		o := header.ParseTCPOptions(in)
		s := fmt.Sprintf("ts=%d val=%08x ecr=%08x blocks=", b2i(o.TS), o.TSVal, o.TSEcr)
		for _, b := range o.SACKBlocks {
			s += fmt.Sprintf("[%08x-%08x]", uint32(b.Start), uint32(b.End))
		}
		return s
	}
	o := header.ParseSynOptions(in, pz == 2)
	return fmt.Sprintf("mss=%d ws=%d ts=%d val=%08x ecr=%08x sackperm=%d", o.MSS, o.WS, b2i(o.TS), o.TSVal, o.TSEcr, b2i(o.SACKPermitted))
}

// fast comparison for the bulk enumeration: parsed spec result vs structs, no formatting
type fastWant struct {
	pz       int
	mss, ws  int
	ts, sp   bool
	val, ecr uint32
	blocks   []header.SACKBlock
}

func mkWant(pz int, r interface{}) fastWant {
	t := r.([]interface{})
	w := fastWant{pz: pz}
	if pz == 0 {
		w.ts, w.val, w.ecr = t[0].(int) == 1, b4(t[1]), b4(t[2])
		for _, blk := range t[3].([]interface{}) {
			x := blk.([]interface{})
			w.blocks = append(w.blocks, header.SACKBlock{Start: seqnum.Value(b4(x[0:4])), End: seqnum.Value(b4(x[4:8]))})
		}
		return w
	}
	w.mss, w.ws, w.ts, w.val, w.ecr, w.sp = t[0].(int), t[1].(int), t[2].(int) == 1, b4(t[3]), b4(t[4]), t[5].(int) == 1
	return w
}
func (w *fastWant) matches(in []byte) bool {
	if w.pz == 0 {
		o := header.ParseTCPOptions(in)
		if o.TS != w.ts || o.TSVal != w.val || o.TSEcr != w.ecr || len(o.SACKBlocks) != len(w.blocks) {
			return false
		}
		for i := range w.blocks {
			if o.SACKBlocks[i] != w.blocks[i] {
				return false
			}
		}
		return true
	}
	o := header.ParseSynOptions(in, w.pz == 2)
	return int(o.MSS) == w.mss && o.WS == w.ws && o.TS == w.ts && o.TSVal == w.val && o.TSEcr == w.ecr && o.SACKPermitted == w.sp
}

type optsJob struct {
	Alphabet []int  `json:"alphabet"`
	Dump     string `json:"dump"` // TLC -dump of an OptParse run (any mix of modes)
	Out      string `json:"out"`  // TLC out.json (instance tables; needed for mode enc)
	Big      bool   `json:"big"`
	Cap      int    `json:"cap"` // fills per cylinder above which fills are sampled
	Seed     int64  `json:"seed"`
	Workers  int    `json:"workers"`
}

func pow(a, n int) float64 {
	x := 1.0
	for i := 0; i < n; i++ {
		x *= float64(a)
	}
	return x
}

func cmdOpts(path string) {
	var job optsJob
	vh.LoadJSON(path, &job)
	r := &report{Mismatches: []mismatch{}, Extra: map[string]interface{}{}}
	alpha := make([]byte, len(job.Alphabet))
	for i, a := range job.Alphabet {
		alpha[i] = byte(a)
	}
	A := len(alpha)
	const smallLen = 3           // strings up to this length are remembered for the eager/lazy cross-check
	small := map[string]string{} // (pz, string) -> spec result of the lazy cylinder containing it
	var smallMu sync.Mutex
	lazyPz := map[int]bool{} // parsers covered by the lazy part
	var inst []instance
	if job.Out != "" {
		o := loadOut(job.Out)
		inst = o.InstSmall
		if job.Big {
			inst = o.InstBig
		}
	}

	report1 := func(kind string, st *state, in []byte, want, got string, extra interface{}) {
		r.add(mismatch{Kind: kind, What: fmt.Sprintf("parser %d on %v", st.pz, ints(in)), Input: ints(in), Want: want, Got: got,
			Extra: map[string]interface{}{"md": st.md, "pz": st.pz, "d": st.d, "wellformed": st.d == 1 || st.d == 2, "class": st.o, "r": st.r, "sq": st.sq, "info": extra}})
	}
	run1 := func(st *state, w *fastWant, in []byte) {
		ok := false
		if p := safely(func() { ok = w.matches(in) }); p != "" {
			report1("panic", st, in, specResult(st.pz, st.r), "panic: "+p, nil)
			return
		}
		if !ok {
			got := ""
			safely(func() { got = realResult(st.pz, in) })
			report1("result", st, in, specResult(st.pz, st.r), got, nil)
		}
	}

	type cnt struct{ classes, strings, sampled float64 }
	var mu sync.Mutex
	per := map[string]*cnt{} // "pz/len"
	var nstr, nsampled, nenc, nfull int64

	// one cylinder: run every fill of the unread positions (or Cap sampled fills)
	lazyOne := func(st *state, rng *rand.Rand) {
		var free []int
		in := make([]byte, len(st.o))
		for i, x := range st.o {
			if x < 0 {
				free = append(free, i)
			} else {
				in[i] = byte(x)
			}
		}
		want := mkWant(st.pz, st.r)
		fills := pow(A, len(free))
		key := fmt.Sprintf("%d/%d", st.pz, len(st.o))
		mu.Lock()
		c := per[key]
		if c == nil {
			c = &cnt{}
			per[key] = c
		}
		c.classes++
		c.strings += fills
		mu.Unlock()
		var ls, lsamp int64
		if fills <= float64(job.Cap) {
			idx := make([]int, len(free))
			for {
				for k, p := range free {
					in[p] = alpha[idx[k]]
				}
				run1(st, &want, in)
				ls++
				if len(in) <= smallLen {
					smallMu.Lock()
					small[fmt.Sprintf("%d/%v", st.pz, in)] = specResult(st.pz, st.r)
					smallMu.Unlock()
				}
				k := 0
				for k < len(idx) {
					idx[k]++
					if idx[k] < A {
						break
					}
					idx[k] = 0
					k++
				}
				if k == len(idx) {
					break
				}
			}
		} else {
			for a := 0; a < A; a++ { // constant fills
				for _, p := range free {
					in[p] = alpha[a]
				}
				run1(st, &want, in)
			}
			for n := A; n < job.Cap; n++ {
				for _, p := range free {
					in[p] = alpha[rng.Intn(A)]
				}
				run1(st, &want, in)
			}
			ls, lsamp = int64(job.Cap), int64(job.Cap)
			mu.Lock()
			c.sampled++
			mu.Unlock()
		}
		atomic.AddInt64(&nstr, ls)
		atomic.AddInt64(&nsampled, lsamp)
	}
	// one encoder sequence: the real encoders produce the reference bytes, the real parser recovers the options
	encOne := func(st *state) {
		atomic.AddInt64(&nenc, 1)
		ids := tInts(st.sq[0])
		pm, cut := st.sq[1].(int), st.sq[2].(int)
		want := toBytes(st.o)
		var encd []byte
		if p := safely(func() { encd = realEncode(inst, ids, pm) }); p != "" {
			report1("panic", st, want, "", "encoder panic: "+p, nil)
			return
		}
		if cut <= len(encd) {
			encd = encd[:len(encd)-cut]
		}
		if !bytes.Equal(encd, want) {
			report1("encode", st, want, fmt.Sprint(ints(want)), fmt.Sprint(ints(encd)), "option encoders differ from the RFC encoding")
		}
		if cut == 0 {
			atomic.AddInt64(&nfull, 1)
		}
		w := mkWant(st.pz, st.r)
		run1(st, &w, want)
	}

	ch := make(chan *state, 1024)
	var wg sync.WaitGroup
	nw := job.Workers
	if nw < 1 {
		nw = 1
	}
	for w := 0; w < nw; w++ {
		wg.Add(1)
		go func(w int) {
			defer wg.Done()
			rng := rand.New(rand.NewSource(job.Seed*1000 + int64(w)))
			for st := range ch {
				if st.md == "enc" {
					encOne(st)
				} else {
					lazyOne(st, rng)
				}
			}
		}(w)
	}
	var eager []*state
	samples := []interface{}{}
	nsam := map[string]int{}
	ends := map[string]int{} // vacuity guard: terminal states per mode/parser/end kind
	feat := map[string]int{} //                terminal states whose result carries each option
	total, term := readDump(job.Dump, func(st *state) {
		// a few terminal states, written out for the evidence file
		if nsam[st.md] < 2 && ((st.md == "lazy" && st.d == 1 && len(st.o) >= 6 && st.o[len(st.o)-1] >= 0 && specResult(st.pz, st.r) != specResult(st.pz, mkDefault(st.pz))) ||
			(st.md == "enc" && len(st.sq[0].([]interface{})) == 3 && st.sq[2].(int) == 0 && st.pz == 0 && specResult(0, st.r) != specResult(0, mkDefault(0)))) {
			nsam[st.md]++
			samples = append(samples, map[string]interface{}{"mode": st.md, "parser": st.pz, "bytes_minus1_is_unread": st.o, "end": st.d,
				"spec_result": specResult(st.pz, st.r), "encoder_sequence": st.sq})
		}
		ends[fmt.Sprintf("%s/%d/%d", st.md, st.pz, st.d)]++
		if t := st.r.([]interface{}); st.pz == 0 {
			feat["tcp.ts"] += t[0].(int)
			feat["tcp.sack"] += b2i(len(t[3].([]interface{})) > 0)
		} else {
			feat["syn.mss"] += b2i(t[0].(int) != 536)
			feat["syn.ws"] += b2i(t[1].(int) >= 0)
			feat["syn.ts"] += t[2].(int)
			feat["syn.sackperm"] += t[5].(int)
		}
		switch st.md {
		case "lazy":
			lazyPz[st.pz] = true
			ch <- st
		case "enc":
			if inst == nil {
				vh.Fatal("encoder sequences in the dump but no instance table")
			}
			ch <- st
		case "eager":
			eager = append(eager, st)
		default:
			vh.Fatal("state without mode: %q", st.md)
		}
	})
	close(ch)
	wg.Wait()

	// partition check: the cylinders of length n tile Alphabet^n exactly
	part := map[string]interface{}{}
	okAll := true
	for k, c := range per {
		var n int
		fmt.Sscanf(k[strings.Index(k, "/")+1:], "%d", &n)
		ok := c.strings == pow(A, n)
		okAll = okAll && ok
		part[k] = map[string]interface{}{"classes": c.classes, "strings": c.strings, "tiles": ok, "sampled_classes": c.sampled}
	}
	r.Extra["dump"] = map[string]interface{}{"states": total, "terminal": term}
	r.Extra["samples"] = samples
	r.Extra["ends"] = ends
	r.Extra["features"] = feat
	r.Extra["lazy"] = map[string]interface{}{"cylinders": len(per) > 0, "strings_run": nstr, "strings_sampled": nsampled, "partition_ok": okAll, "per_parser_len": part}

	// eager: the literal enumeration must agree with the cylinders (model self-consistency) and with the code
	bad, emax := 0, 0
	for _, st := range eager {
		in := toBytes(st.o)
		if len(in) > emax {
			emax = len(in)
		}
		want := mkWant(st.pz, st.r)
		run1(st, &want, in)
		if lazyPz[st.pz] && len(in) <= smallLen {
			if s, ok := small[fmt.Sprintf("%d/%v", st.pz, in)]; !ok || s != specResult(st.pz, st.r) {
				bad++
				r.add(mismatch{Kind: "model", What: "eager and lazy spec runs disagree", Input: st.o, Want: specResult(st.pz, st.r), Got: s})
			}
		}
	}
	r.Extra["eager"] = map[string]interface{}{"strings": len(eager), "max_len": emax, "disagree_with_lazy": bad}
	r.Extra["enc"] = map[string]interface{}{"sequences": nenc, "untruncated": nfull, "instances": len(inst)}
	r.Cases = nstr + int64(len(eager)) + nenc
	vh.Emit(r)
}

// realEncode builds the option bytes of an instance sequence with the library's encoders.
func realEncode(inst []instance, ids []int, pm int) []byte {
	buf := make([]byte, 256)
	off := 0
	for _, id := range ids {
		in := inst[id-1]
		var kind string
		json.Unmarshal(in.Op[0], &kind)
		switch kind {
		case "mss":
			var v uint32
			json.Unmarshal(in.Op[1], &v)
			off += header.EncodeMSSOption(v, buf[off:])
		case "ws":
			var v int
			json.Unmarshal(in.Op[1], &v)
			off += header.EncodeWSOption(v, buf[off:])
		case "ts":
			off += header.EncodeTSOption(be32(parseVal(in.Op[1])), be32(parseVal(in.Op[2])), buf[off:])
		case "sackperm":
			off += header.EncodeSACKPermittedOption(buf[off:])
		case "sack":
			var blocks [][]int
			json.Unmarshal(in.Op[1], &blocks)
			var sb []header.SACKBlock
			for _, b := range blocks {
				x := toBytes(b)
				sb = append(sb, header.SACKBlock{Start: seqnum.Value(binary.BigEndian.Uint32(x[0:4])), End: seqnum.Value(binary.BigEndian.Uint32(x[4:8]))})
			}
			off += header.EncodeSACKBlocks(sb, buf[off:])
		case "nop":
			off += header.EncodeNOP(buf[off:])
		case "eol": // no library encoder: the kind byte itself
			buf[off] = header.TCPOptionEOL
			off++
		case "unk": // no library encoder: raw bytes of the reference
			off += copy(buf[off:], toBytes(in.Bytes))
		default:
			vh.Fatal("unknown option instance %q", kind)
		}
	}
	switch pm {
	case 2: // NOP padding, what the stack does
		off += header.AddTCPOptionPadding(buf, off)
	case 3: // EOL + zero bytes
		for off%4 != 0 {
			buf[off] = header.TCPOptionEOL
			off++
		}
	}
	return buf[:off]
}

// ------------------------------------------------------------------ sum
// The spec's definition, re-implemented (trusted, cross-checked against every TLC value):
//
//	Combine(a, b) == LET s == a + b IN IF s > 65535 THEN s - 65535 ELSE s
//	Sum1071(bytes, init) == FoldLeft(Combine, init, Words(bytes))
func refCombine(a, b uint32) uint32 {
	s := a + b
	if s > 65535 {
		s -= 65535
	}
	return s
}
func refSum(buf []byte, init uint16) uint16 {
	acc := uint32(init)
	for k := 0; k < len(buf); k += 2 {
		w := uint32(buf[k]) << 8
		if k+1 < len(buf) {
			w |= uint32(buf[k+1])
		}
		acc = refCombine(acc, w)
	}
	return uint16(acc)
}

// equal as one's-complement numbers (0x0000 and 0xffff both denote zero)
func sameOC(a, b uint16) bool { return a == b || (a == 0 && b == 0xffff) || (a == 0xffff && b == 0) }

type sumJob struct {
	Sums []struct {
		Buf  []int `json:"buf"`
		Init int   `json:"init"`
		Want int   `json:"want"`
	} `json:"sums"`
	Pkts []struct {
		Kind    string `json:"kind"`
		Src     []int  `json:"src"`
		Dst     []int  `json:"dst"`
		Hdr     []int  `json:"hdr"`
		Payload []int  `json:"payload"`
		Want    int    `json:"want"`
		Pseudo  int    `json:"pseudo"`
	} `json:"pkts"`
	GridA    []int   `json:"grid_a"`
	GridB    []int   `json:"grid_b"`
	Grid     [][]int `json:"grid"`
	FullGrid bool    `json:"full_grid"` // sweep ChecksumCombine over all 2^32 pairs (else 2^16 x 64)
	Seed     int64   `json:"seed"`
	Workers  int     `json:"workers"`
}

func cmdSum(path string) {
	var job sumJob
	vh.LoadJSON(path, &job)
	r := &report{Mismatches: []mismatch{}, Extra: map[string]interface{}{}}
	zeroRep := 0
	cmp := func(kind, what string, got, want uint16, input interface{}) {
		if got == want {
			return
		}
		if sameOC(got, want) {
			zeroRep++ // both are zero in one's-complement arithmetic: not a property violation by itself
			return
		}
		r.add(mismatch{Kind: kind, What: what, Want: want, Got: got, Input: input})
	}
	short := func(b []byte) interface{} {
		if len(b) <= 80 {
			return ints(b)
		}
		return map[string]interface{}{"len": len(b), "head": ints(b[:32])}
	}
	// (1) TLC expectations for Checksum
	var bufs [][]byte
	for _, c := range job.Sums {
		r.Cases++
		buf := toBytes(c.Buf)
		if rs := refSum(buf, uint16(c.Init)); rs != uint16(c.Want) {
			r.add(mismatch{Kind: "harness", What: "refSum disagrees with TLC Sum1071", Want: c.Want, Got: rs, Input: short(buf)})
			continue
		}
		var got uint16
		if p := safely(func() { got = header.Checksum(buf, uint16(c.Init)) }); p != "" {
			r.add(mismatch{Kind: "panic", What: "Checksum panicked: " + p, Input: short(buf)})
			continue
		}
		cmp("sum", fmt.Sprintf("Checksum(len %d, init %#04x) differs from Sum1071", len(buf), c.Init), got, uint16(c.Want),
			map[string]interface{}{"buf": short(buf), "init": c.Init})
		bufs = append(bufs, buf)
	}
	// (2) ChecksumCombine grid from TLC
	for i, a := range job.GridA {
		for j, b := range job.GridB {
			r.Cases++
			want := uint16(job.Grid[i][j])
			if uint16(refCombine(uint32(a), uint32(b))) != want {
				r.add(mismatch{Kind: "harness", What: "refCombine disagrees with TLC Combine", Input: []int{a, b}})
				continue
			}
			cmp("combine", fmt.Sprintf("ChecksumCombine(%#04x, %#04x) differs from Combine", a, b), header.ChecksumCombine(uint16(a), uint16(b)), want, []int{a, b})
		}
	}
	// (3) packets: pseudo-header sum, transport / IPv4 header checksum fields, verification, partial encoders
	for _, p := range job.Pkts {
		r.Cases++
		hdr, payload := toBytes(p.Hdr), toBytes(p.Payload)
		in := map[string]interface{}{"kind": p.Kind, "src": p.Src, "dst": p.Dst, "hdr": p.Hdr, "payload": short(payload)}
		pn := safely(func() {
			switch p.Kind {
			case "ip4":
				ip := header.IPv4(append([]byte{}, hdr...))
				ip.SetChecksum(0)
				c := ^ip.CalculateChecksum()
				cmp("sum", "IPv4 header checksum differs from the RFC 791 value", c, uint16(p.Want), in)
				ip.SetChecksum(c)
				if v := ip.CalculateChecksum(); v != 0xffff {
					r.add(mismatch{Kind: "verify", What: "IPv4 header carrying the complemented sum does not verify", Got: v, Want: 0xffff, Input: in})
				}
				// EncodePartial: partial sum over the header with total length and checksum zero
				ip2 := header.IPv4(append([]byte{}, hdr...))
				tl := ip2.TotalLength()
				ip2.SetTotalLength(0)
				ip2.SetChecksum(0)
				partial := header.Checksum(ip2[:ip2.HeaderLength()], 0)
				ip2.EncodePartial(partial, tl)
				cmp("sum", "IPv4.EncodePartial checksum differs from the RFC 791 value", ip2.Checksum(), uint16(p.Want), in)
				if ip2.TotalLength() != tl || refSum(ip2[:ip2.HeaderLength()], 0) != 0xffff {
					r.add(mismatch{Kind: "verify", What: "header produced by IPv4.EncodePartial does not verify / wrong total length", Input: in})
				}
			case "tcp", "udp":
				proto := header.TCPProtocolNumber
				if p.Kind == "udp" {
					proto = header.UDPProtocolNumber
				}
				src, dst := tcpip.Address(toBytes(p.Src)), tcpip.Address(toBytes(p.Dst))
				xsum := header.PseudoHeaderChecksum(proto, src, dst)
				cmp("sum", "PseudoHeaderChecksum differs from Sum1071 over src,dst,0,proto", xsum, uint16(p.Pseudo), in)
				total := uint16(len(hdr) + len(payload))
				xsum = header.Checksum(payload, xsum)
				h2 := append([]byte{}, hdr...)
				var c, v uint16
				if p.Kind == "tcp" {
					t := header.TCP(h2)
					t.SetChecksum(0)
					c = ^t.CalculateChecksum(xsum, total)
					t.SetChecksum(c)
					v = t.CalculateChecksum(xsum, total)
				} else {
					u := header.UDP(h2)
					u.SetChecksum(0)
					c = ^u.CalculateChecksum(xsum, total)
					u.SetChecksum(c)
					v = u.CalculateChecksum(xsum, total)
				}
				cmp("sum", p.Kind+" checksum (pseudo-header + header + payload) differs from the RFC value", c, uint16(p.Want), in)
				if v != 0xffff {
					r.add(mismatch{Kind: "verify", What: p.Kind + " segment carrying the complemented sum does not verify", Got: v, Want: 0xffff, Input: in})
				}
				if p.Kind == "tcp" {
					// EncodePartial: partial = pseudo + payload + header with seq, ack, flags, window, checksum zeroed
					t := header.TCP(append([]byte{}, hdr...))
					seq, ack, fl, wnd := t.SequenceNumber(), t.AckNumber(), t.Flags(), t.WindowSize()
					z := header.TCP(append([]byte{}, hdr...))
					for _, k := range []int{4, 5, 6, 7, 8, 9, 10, 11, 13, 14, 15, 16, 17} {
						z[k] = 0
					}
					partial := header.Checksum(z, header.Checksum(payload, header.PseudoHeaderChecksum(proto, src, dst)))
					z.EncodePartial(partial, total, seq, ack, fl, wnd)
					cmp("sum", "TCP.EncodePartial checksum differs from the RFC value", z.Checksum(), uint16(p.Want), in)
					t.SetChecksum(z.Checksum())
					if !bytes.Equal(z, t) {
						r.add(mismatch{Kind: "encode", What: "TCP.EncodePartial changed bytes other than seq/ack/flags/window/checksum", Want: ints(t), Got: ints(z), Input: in})
					}
				}
			default:
				vh.Fatal("unknown packet kind %q", p.Kind)
			}
		})
		if pn != "" {
			r.add(mismatch{Kind: "panic", What: "library panicked: " + pn, Input: in})
		}
	}
	// (4) sweeps against the Go re-implementation of the spec's definition:
	//     all 2^16 initial values on 8 buffers (odd/even, zeros/ones/ramp/random), incl. "the complemented sum verifies"
	rng := rand.New(rand.NewSource(job.Seed))
	ramp := make([]byte, 1501)
	for i := range ramp {
		ramp[i] = byte(i)
	}
	rnd1, rnd2, rnd3 := make([]byte, 64), make([]byte, 1499), make([]byte, 65534)
	rng.Read(rnd1)
	rng.Read(rnd2)
	rng.Read(rnd3)
	pick := [][]byte{{}, {0xff}, bytes.Repeat([]byte{0}, 40), bytes.Repeat([]byte{0xff}, 63), ramp[:255], ramp, rnd1, rnd2}
	long := [][]byte{bytes.Repeat([]byte{0xff}, 65535), rnd3}
	someInits := []int{0, 1, 0xfffe, 0xffff}
	for len(someInits) < 64 {
		someInits = append(someInits, rng.Intn(65536))
	}
	sweep := 0
	one := func(buf []byte, init int) {
		sweep++
		got := header.Checksum(buf, uint16(init))
		cmp("sum", fmt.Sprintf("Checksum(len %d, init %#04x) differs from the definition of Sum1071", len(buf), init), got, refSum(buf, uint16(init)),
			map[string]interface{}{"buf": short(buf), "init": init})
		if len(buf) >= 2 {
			at := 2 * ((len(buf) / 2) / 2) // an even offset in the middle
			b2 := append([]byte{}, buf...)
			b2[at], b2[at+1] = 0, 0
			c := ^header.Checksum(b2, uint16(init))
			b2[at], b2[at+1] = byte(c>>8), byte(c)
			if v := header.Checksum(b2, uint16(init)); v != 0xffff || refSum(b2, uint16(init)) != 0xffff {
				r.add(mismatch{Kind: "verify", What: "buffer carrying the complemented sum does not verify", Got: v, Want: 0xffff,
					Input: map[string]interface{}{"buf": short(buf), "init": init, "at": at}})
			}
		}
	}
	for _, buf := range pick {
		for init := 0; init < 65536 && r.NMismatch <= 40; init++ {
			one(buf, init)
		}
	}
	for _, buf := range long {
		for _, init := range someInits {
			one(buf, init)
		}
	}
	// incremental use (as the stack does): Checksum(y, Checksum(x, i)) for even len(x)
	for _, buf := range bufs {
		for cut := 0; cut <= len(buf); cut += 2 {
			sweep++
			got := header.Checksum(buf[cut:], header.Checksum(buf[:cut], 0x1234))
			cmp("sum", "chunked Checksum over an even split differs from Sum1071 of the whole", got, refSum(buf, 0x1234), map[string]interface{}{"buf": short(buf), "cut": cut})
		}
	}
	r.Extra["init_sweep_evals"] = sweep
	// ChecksumCombine: 2^16 x 64 grid, or all 2^32 pairs
	var bs []uint32
	if job.FullGrid {
		bs = make([]uint32, 65536)
		for i := range bs {
			bs[i] = uint32(i)
		}
	} else {
		for _, b := range []uint32{0, 1, 2, 0xff, 0x100, 0x7fff, 0x8000, 0xfeff, 0xfffe, 0xffff} {
			bs = append(bs, b)
		}
		for len(bs) < 64 {
			bs = append(bs, uint32(rng.Intn(65536)))
		}
	}
	nw := job.Workers
	if nw < 1 {
		nw = 1
	}
	var wg sync.WaitGroup
	var bad sync.Map
	for w := 0; w < nw; w++ {
		wg.Add(1)
		go func(w int) {
			defer wg.Done()
			for k := w; k < len(bs); k += nw {
				b := bs[k]
				for a := uint32(0); a < 65536; a++ {
					got, want := header.ChecksumCombine(uint16(a), uint16(b)), uint16(refCombine(a, b))
					if got != want && !sameOC(got, want) {
						bad.Store([2]uint32{a, b}, got)
						return
					}
				}
			}
		}(w)
	}
	wg.Wait()
	bad.Range(func(k, v interface{}) bool {
		ab := k.([2]uint32)
		r.add(mismatch{Kind: "combine", What: fmt.Sprintf("ChecksumCombine(%#04x, %#04x) differs from the definition of Combine", ab[0], ab[1]),
			Got: v, Want: refCombine(ab[0], ab[1]), Input: []uint32{ab[0], ab[1]}})
		return true
	})
	r.Extra["combine_pairs"] = len(bs) * 65536
	r.Extra["zero_representation_differences"] = zeroRep
	vh.Emit(r)
}

func main() {
	vh.Quiet()
	debug.SetGCPercent(800) // the sweeps allocate many small short-lived maps
	if len(os.Args) < 3 {
		vh.Fatal("usage: codecd vec|sweep|opts|sum file [args]")
	}
	switch os.Args[1] {
	case "vec":
		cmdVec(os.Args[2])
	case "sweep":
		seed, _ := strconv.ParseInt(os.Args[3], 10, 64)
		mw, _ := strconv.Atoi(os.Args[4])
		nw := 1
		if len(os.Args) > 5 {
			nw, _ = strconv.Atoi(os.Args[5])
		}
		cmdSweep(os.Args[2], seed, mw, nw)
	case "opts":
		cmdOpts(os.Args[2])
	case "sum":
		cmdSum(os.Args[2])
	default:
		vh.Fatal("unknown command %s", os.Args[1])
	}
}
