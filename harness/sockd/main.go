// sockd: script interpreter over a real stack (sockets API + packet
// injection + link tap).  Used by C09 (demux), C10 (socket-level port
// reservations), C11 (UDP), C03 (handshake/strays), C06 (emitted frames).
//   sockd run <scenarios.json> <out.ndjson>
// Every op produces one `op` event (with its observable results); every
// frame the stack emits produces one `emit` event, logged synchronously in
// the link tap, so the file order is the causal order.
package main

import (
	"fmt"
	"os"
	"sort"
	"strconv"
	"strings"
	"sync"
	"time"

	"github.com/brewlin/net-protocol/pkg/waiter"
	tcpip "github.com/brewlin/net-protocol/protocol"
	"github.com/brewlin/net-protocol/protocol/transport/tcp"
	"github.com/brewlin/net-protocol/protocol/transport/udp"
	"github.com/brewlin/net-protocol/stack"
	"verifh/vh"
	"verifh/wire"
)

type M = map[string]interface{}

type scenario struct {
	Nics   []nicSpec `json:"nics"`
	Ops    []M       `json:"ops"`
	RawLog bool      `json:"rawlog"` // include raw frame bytes in emit events (C06)
	Fwd    bool      `json:"forwarding"`
	Routes []M       `json:"routes"`
}

type nicSpec struct {
	ID    int      `json:"id"`
	MTU   int      `json:"mtu"`
	MAC   string   `json:"mac"`
	Res   bool     `json:"resolve"` // CapabilityResolutionRequired
	Addr4 []string `json:"addr4"`
	Addr6 []string `json:"addr6"`
}

type sock struct {
	ep  tcpip.Endpoint
	wq  *waiter.Queue
	typ string
	v   int
}

func addrOf(s string) tcpip.Address {
	if s == "" {
		return ""
	}
	for _, c := range s {
		if c == ':' {
			return wire.A6(s)
		}
	}
	return wire.A4(s)
}

func addrStr(a []byte) string {
	if len(a) == 0 {
		return ""
	}
	s := ""
	for i, x := range a {
		if i > 0 {
			s += "."
		}
		s += fmt.Sprint(int(x))
	}
	return s
}

func pay(b []byte) M {
	h, t := b, b
	if len(h) > 48 {
		h = h[:48]
	}
	if len(t) > 48 {
		t = t[len(t)-48:]
	}
	return M{"n": len(b), "h": wire.Ints(h), "t": wire.Ints(t), "s": int(wire.Sum1071(b, 0))}
}

// canonAddrs rewrites textual addresses in a logged event to the canonical
// dotted-bytes form used everywhere in traces (so "fd00::9" == "253.0...9").
func canonAddrs(m M) {
	for _, k := range []string{"addr", "src", "dst", "spa", "tpa"} {
		if s, ok := m[k].(string); ok && strings.Contains(s, ":") {
			a := []byte(addrOf(s))
			m[k] = addrStr(a)
			if k == "addr" && len(a) == 16 && strings.HasPrefix(string(a), "\x00\x00\x00\x00\x00\x00\x00\x00\x00\x00\xff\xff") {
				// a v4-mapped IPv6 address: traffic to it travels over IPv4 to the embedded address
				m["eaddr"] = addrStr(a[12:])
			}
		}
	}
	if to, ok := m["to"].(map[string]interface{}); ok && to != nil {
		c := M{}
		for k, v := range to {
			c[k] = v
		}
		canonAddrs(c)
		m["to"] = c
	}
}

func errStr(e *tcpip.Error) string {
	if e == nil {
		return ""
	}
	return e.String()
}

// lastPort remembers the local port each socket id got (for {"lportof": s} references)
var lastPort = map[int]int{}

func geti(m M, k string, d int) int {
	if v, ok := m[k]; ok && v != nil {
		if ref, isRef := v.(map[string]interface{}); isRef {
			p, ok := lastPort[vh.Int(ref["lportof"])]
			if !ok {
				return vh.Int(ref["else"])
			}
			return p
		}
		return vh.Int(v)
	}
	return d
}
func gets(m M, k string, d string) string {
	if v, ok := m[k]; ok && v != nil {
		return vh.Str(v)
	}
	return d
}
func getb(m M, k string) bool {
	if v, ok := m[k]; ok && v != nil {
		return vh.Bool(v)
	}
	return false
}

var flagBits = map[byte]uint8{'F': wire.FIN, 'S': wire.SYN, 'R': wire.RST, 'P': wire.PSH, 'A': wire.ACK, 'U': wire.URG}

func flagsOf(s string) uint8 {
	var f uint8
	for i := 0; i < len(s); i++ {
		f |= flagBits[s[i]]
	}
	return f
}
func flagStr(f uint8) string {
	s := ""
	for _, c := range "FSRPAU" {
		if f&flagBits[byte(c)] != 0 {
			s += string(c)
		}
	}
	return s
}

// decodeFrame turns an emitted network-layer packet into an event (own decoder).
func decodeFrame(f wire.Frame, nic int, raw bool) M {
	ev := M{"ev": "emit", "nic": nic, "t": f.T, "len": len(f.Bytes), "proto": int(f.Proto),
		"rmac": addrStr([]byte(f.Remote)), "lmac": addrStr([]byte(f.Local)), "nexthop": addrStr([]byte(f.NextHop))}
	if raw {
		ev["raw"] = wire.Ints(f.Bytes)
	}
	var src, dst, payload []byte
	var proto uint8
	switch f.Proto {
	case wire.ProtoARP:
		a, err := wire.ParseARP(f.Bytes)
		if err != nil {
			ev["kind"], ev["err"] = "bad", err.Error()
			return ev
		}
		ev["kind"], ev["arpop"] = "arp", int(a.Op)
		ev["sha"], ev["spa"], ev["tha"], ev["tpa"] = addrStr(a.SHA), addrStr(a.SPA), addrStr(a.THA), addrStr(a.TPA)
		ev["arpok"] = a.HType == 1 && a.PType == 0x0800 && a.HLen == 6 && a.PLen == 4 && len(f.Bytes) == 28
		return ev
	case wire.ProtoIPv4:
		ip, err := wire.ParseIPv4(f.Bytes)
		if err != nil {
			ev["kind"], ev["err"] = "bad", err.Error()
			return ev
		}
		ev["v"], ev["ipid"], ev["ttl"], ev["iphdrok"] = 4, int(ip.ID), int(ip.TTL), ip.HdrOK && ip.TotalLen == len(f.Bytes) && ip.IHL >= 20
		ev["fragoff"], ev["mf"] = ip.FragOff, ip.Flags&1 != 0
		src, dst, payload, proto = ip.Src, ip.Dst, ip.Payload, ip.Proto
	case wire.ProtoIPv6:
		ip, err := wire.ParseIPv6(f.Bytes)
		if err != nil {
			ev["kind"], ev["err"] = "bad", err.Error()
			return ev
		}
		ev["v"], ev["ipid"], ev["ttl"], ev["iphdrok"] = 6, 0, int(ip.Hop), ip.PayloadLen == len(f.Bytes)-40
		src, dst, payload, proto = ip.Src, ip.Dst, ip.Payload, ip.Next
	default:
		ev["kind"] = "unknown"
		return ev
	}
	ev["src"], ev["dst"], ev["ipproto"] = addrStr(src), addrStr(dst), int(proto)
	switch proto {
	case 17:
		u, err := wire.ParseUDP(src, dst, payload)
		if err != nil {
			ev["kind"], ev["err"] = "badudp", err.Error()
			return ev
		}
		ev["kind"], ev["sport"], ev["dport"], ev["pay"] = "udp", int(u.SrcPort), int(u.DstPort), pay(u.Payload)
		ev["sumok"], ev["lenok"] = u.SumOK, u.Len == len(payload)
	case 6:
		t, err := wire.ParseTCP(src, dst, payload)
		if err != nil {
			ev["kind"], ev["err"] = "badtcp", err.Error()
			return ev
		}
		ev["kind"], ev["sport"], ev["dport"] = "tcp", int(t.SrcPort), int(t.DstPort)
		ev["flags"], ev["seqhi"], ev["seqlo"], ev["ackhi"], ev["acklo"], ev["win"] = flagStr(t.Flags), int(t.Seq>>16), int(t.Seq&0xffff), int(t.Ack>>16), int(t.Ack&0xffff), int(t.Window)
		ev["pay"], ev["sumok"], ev["optok"], ev["optwhy"] = pay(t.Payload), t.SumOK, t.Opts.WellOK, t.Opts.Why
		o := M{"mss": -1, "ws": -1, "sackperm": t.Opts.SACKPerm, "ts": t.Opts.HasTS, "nsack": len(t.Opts.SACK)}
		if t.Opts.HasMSS {
			o["mss"] = int(t.Opts.MSS)
		}
		if t.Opts.HasWS {
			o["ws"] = int(t.Opts.WS)
		}
		ev["opts"] = o
	case 1:
		m, err := wire.ParseICMPv4(payload)
		if err != nil {
			ev["kind"], ev["err"] = "badicmp", err.Error()
			return ev
		}
		ev["kind"], ev["itype"], ev["icode"], ev["sumok"], ev["ident"], ev["seq"] = "icmp4", int(m.Type), int(m.Code), m.SumOK, int(m.Ident), int(m.Seq)
	case 58:
		m, err := wire.ParseICMPv6(src, dst, payload)
		if err != nil {
			ev["kind"], ev["err"] = "badicmp6", err.Error()
			return ev
		}
		ev["kind"], ev["itype"], ev["icode"], ev["sumok"], ev["ident"], ev["seq"] = "icmp6", int(m.Type), int(m.Code), m.SumOK, int(m.Ident), int(m.Seq)
		if (m.Type == 135 || m.Type == 136) && len(m.Rest) >= 20 {
			ev["target"] = addrStr(m.Rest[4:20])
			if len(m.Rest) >= 28 {
				ev["optmac"] = addrStr(m.Rest[22:28])
			}
		}
	default:
		ev["kind"] = "ipother"
	}
	return ev
}

type runner struct {
	h     *wire.Host
	tr    *vh.Trace
	socks map[int]*sock
	mu    sync.Mutex
	sc    scenario
	nemit int
	// emits during a TCP connect call are logged after the call's event; sequence number of the last SYN per local port
	hold   bool
	held   []M
	synSeq map[int]uint32
	mark   int // nemit at the last injection
}

func (r *runner) isTCP(sid int) bool {
	s, ok := r.socks[sid]
	return ok && s.typ == "tcp"
}

func (r *runner) netProto(v int) tcpip.NetworkProtocolNumber {
	if v == 6 {
		return wire.ProtoIPv6
	}
	return wire.ProtoIPv4
}

func (r *runner) readOne(s *sock) M {
	var fa tcpip.FullAddress
	v, _, err := s.ep.Read(&fa)
	if err != nil {
		return M{"ok": false, "err": err.String()}
	}
	return M{"ok": true, "pay": pay(v), "src": addrStr([]byte(fa.Addr)), "sport": int(fa.Port), "nic": int(fa.NIC)}
}

func (r *runner) do(op M) M {
	name := vh.Str(op["op"])
	res := M{"ev": "op", "op": name}
	for k, v := range op {
		if k != "op" {
			res[k] = v
		}
	}
	st := r.h.S
	sk := func() *sock {
		s, ok := r.socks[geti(op, "s", -1)]
		if !ok {
			vh.Fatal("script: no socket %v", op["s"])
		}
		return s
	}
	switch name {
	case "udp", "tcp":
		v := geti(op, "v", 4)
		wq := &waiter.Queue{}
		tp := tcpip.TransportProtocolNumber(udp.ProtocolNumber)
		if name == "tcp" {
			tp = tcp.ProtocolNumber
		}
		ep, err := st.NewEndpoint(tp, r.netProto(v), wq)
		if err != nil {
			vh.Fatal("NewEndpoint: %v", err)
		}
		r.socks[geti(op, "s", -1)] = &sock{ep: ep, wq: wq, typ: name, v: v}
		res["err"] = ""
	case "bind":
		err := sk().ep.Bind(tcpip.FullAddress{NIC: tcpip.NICID(geti(op, "nic", 0)), Addr: addrOf(gets(op, "addr", "")), Port: uint16(geti(op, "port", 0))}, nil)
		res["err"] = errStr(err)
		if err == nil {
			la, _ := sk().ep.GetLocalAddress()
			res["lport"] = int(la.Port)
		}
	case "connect":
		err := sk().ep.Connect(tcpip.FullAddress{NIC: tcpip.NICID(geti(op, "nic", 0)), Addr: addrOf(gets(op, "addr", "")), Port: uint16(geti(op, "port", 0))})
		res["err"] = errStr(err)
		la, e2 := sk().ep.GetLocalAddress()
		if e2 == nil {
			res["lport"], res["laddr"] = int(la.Port), addrStr([]byte(la.Addr))
		}
	case "listen":
		res["err"] = errStr(sk().ep.Listen(geti(op, "backlog", 5)))
	case "accept":
		ep, wq, err := sk().ep.Accept()
		// wait_ms: a blocking accept (the handshake is completed by a protocol goroutine)
		for dl := time.Now().Add(time.Duration(geti(op, "wait_ms", 0)) * time.Millisecond); err == tcpip.ErrWouldBlock && time.Now().Before(dl); {
			time.Sleep(2 * time.Millisecond)
			ep, wq, err = sk().ep.Accept()
		}
		res["err"] = errStr(err)
		if err == nil {
			r.socks[geti(op, "as", -1)] = &sock{ep: ep, wq: wq, typ: "tcp", v: sk().v}
			ra, _ := ep.GetRemoteAddress()
			la, _ := ep.GetLocalAddress()
			res["raddr"], res["rport"], res["laddr"], res["lport"] = addrStr([]byte(ra.Addr)), int(ra.Port), addrStr([]byte(la.Addr)), int(la.Port)
		}
	case "write":
		data := wire.Pattern(geti(op, "seed", 0), geti(op, "n", 0))
		var wo tcpip.WriteOptions
		if to, ok := op["to"].(map[string]interface{}); ok && to != nil {
			wo.To = &tcpip.FullAddress{NIC: tcpip.NICID(geti(to, "nic", 0)), Addr: addrOf(gets(to, "addr", "")), Port: uint16(geti(to, "port", 0))}
		}
		res["pay"] = pay(data)
		n, ch, err := sk().ep.Write(tcpip.SlicePayload(data), wo)
		if err == tcpip.ErrWouldBlock && ch != nil {
			// resolution in progress: wait for it (state-based: channel closes on resolution or failure) and retry once
			select {
			case <-ch:
			case <-time.After(10 * time.Second):
			}
			n, _, err = sk().ep.Write(tcpip.SlicePayload(data), wo)
			res["resolved_retry"] = true
		}
		res["err"], res["wn"] = errStr(err), int(n)
		la, e2 := sk().ep.GetLocalAddress()
		if e2 == nil {
			res["lport"] = int(la.Port)
		}
	case "read":
		for k, v := range r.readOne(sk()) {
			res[k] = v
		}
	case "readall":
		ids := []int{}
		for id := range r.socks {
			ids = append(ids, id)
		}
		sort.Ints(ids)
		got := []M{}
		for _, id := range ids {
			s := r.socks[id]
			if s.typ == "tcp" {
				// only connected tcp sockets are readable; listeners/initial return errors
				for i := 0; i < 64; i++ {
					v, _, err := s.ep.Read(nil)
					if err != nil {
						break
					}
					got = append(got, M{"s": id, "pay": pay(v), "src": "", "sport": 0})
				}
				continue
			}
			for i := 0; i < 1024; i++ {
				x := r.readOne(s)
				if !x["ok"].(bool) {
					break
				}
				x["s"] = id
				delete(x, "ok")
				got = append(got, x)
			}
		}
		res["got"] = got
	case "shutdown":
		var fl tcpip.ShutdownFlags
		how := gets(op, "how", "rw")
		for _, c := range how {
			if c == 'r' {
				fl |= tcpip.ShutdownRead
			}
			if c == 'w' {
				fl |= tcpip.ShutdownWrite
			}
		}
		res["err"] = errStr(sk().ep.Shutdown(fl))
	case "close":
		sk().ep.Close()
		delete(r.socks, geti(op, "s", -1))
		res["err"] = ""
	case "setopt":
		var err *tcpip.Error
		switch gets(op, "opt", "") {
		case "rcvbuf":
			err = sk().ep.SetSockOpt(tcpip.ReceiveBufferSizeOption(geti(op, "val", 0)))
		case "v6only":
			err = sk().ep.SetSockOpt(tcpip.V6OnlyOption(geti(op, "val", 0)))
		default:
			vh.Fatal("setopt %v", op["opt"])
		}
		res["err"] = errStr(err)
	case "avail":
		out := []bool{}
		logged := []interface{}{}
		for _, t := range vh.List(op["tuples"]) {
			tt := vh.List(t)
			var nets []tcpip.NetworkProtocolNumber
			for _, n := range vh.Ints(tt[0]) {
				nets = append(nets, r.netProto(n))
			}
			tp := tcpip.TransportProtocolNumber(udp.ProtocolNumber)
			if vh.Str(tt[1]) == "tcp" {
				tp = tcp.ProtocolNumber
			}
			port := geti(M{"p": tt[3]}, "p", 0)
			out = append(out, st.IsPortAvailable(nets, tp, addrOf(vh.Str(tt[2])), uint16(port)))
			logged = append(logged, []interface{}{tt[0], tt[1], tt[2], port})
		}
		res["avail"] = out
		res["tuples"] = logged
	case "addaddr":
		a := addrOf(gets(op, "addr", ""))
		np := wire.ProtoIPv4
		if len(a) == 16 {
			np = wire.ProtoIPv6
		}
		res["err"] = errStr(st.AddAddress(tcpip.NICID(geti(op, "nic", 1)), np, a))
	case "rmaddr":
		res["err"] = errStr(st.RemoveAddress(tcpip.NICID(geti(op, "nic", 1)), addrOf(gets(op, "addr", ""))))
	case "addsubnet", "rmsubnet":
		// a byte-aligned IPv4 subnet given as a textual prefix ("10.1." = 10.1.0.0/16): the interface then accepts every
		// destination inside it. The event carries key = "net:" + prefix for the trace spec.
		// ... or any IPv4 prefix as cidr = "a.b.c.d/len" (key = "cidr:" + that text; which destinations lie inside is told to
		// the trace spec by the scenario: field innets of the injections)
		pre := gets(op, "prefix", "")
		parts := strings.Split(strings.TrimSuffix(pre, "."), ".")
		ab, mb := make([]byte, 4), make([]byte, 4)
		key := "net:" + pre
		if c := gets(op, "cidr", ""); c != "" {
			key = "cidr:" + c
			sl := strings.Split(c, "/")
			copy(ab, []byte(addrOf(sl[0])))
			bits, _ := strconv.Atoi(sl[1])
			for i := 0; i < bits && i < 32; i++ {
				mb[i/8] |= 0x80 >> uint(i%8)
			}
		} else {
			for i, p := range parts {
				if i < 4 {
					n, _ := strconv.Atoi(p)
					ab[i], mb[i] = byte(n), 0xff
				}
			}
		}
		sn, serr := tcpip.NewSubnet(tcpip.Address(ab), tcpip.AddressMask(mb))
		if serr != nil {
			vh.Fatal("subnet %q: %v", key, serr)
		}
		res["key"] = key
		if name == "addsubnet" {
			res["err"] = errStr(st.AddSubnet(tcpip.NICID(geti(op, "nic", 1)), wire.ProtoIPv4, sn))
		} else {
			res["err"] = errStr(st.RemoveSubnet(tcpip.NICID(geti(op, "nic", 1)), sn))
		}
	case "promisc":
		res["err"] = errStr(st.SetPromiscuousMode(tcpip.NICID(geti(op, "nic", 1)), getb(op, "on")))
	case "sleep":
		time.Sleep(time.Duration(geti(op, "ms", 1)) * time.Millisecond)
	case "settle":
		// wait until no frame has been emitted for `ms` (default 20) milliseconds; await_ms: first wait (at most that long)
		// for a frame emitted since the last injection (a reply that comes from a protocol goroutine: state-based, not timed)
		if aw := geti(op, "await_ms", 0); aw > 0 {
			dl := time.Now().Add(time.Duration(aw) * time.Millisecond)
			for time.Now().Before(dl) {
				r.mu.Lock()
				seen := r.nemit != r.mark
				r.mu.Unlock()
				if seen {
					break
				}
				time.Sleep(2 * time.Millisecond)
			}
		}
		r.settle(time.Duration(geti(op, "ms", 20)) * time.Millisecond)
	case "inject":
		r.inject(op, res)
	default:
		vh.Fatal("script: unknown op %q", name)
	}
	canonAddrs(res)
	return res
}

func (r *runner) settle(quiet time.Duration) {
	last := -1
	for i := 0; i < 2000; i++ {
		r.mu.Lock()
		n := r.nemit
		r.mu.Unlock()
		if n == last {
			return
		}
		last = n
		time.Sleep(quiet)
	}
}

func (r *runner) inject(op M, res M) {
	nic := tcpip.NICID(geti(op, "nic", 1))
	link := r.h.Links[nic]
	if link == nil {
		vh.Fatal("inject: no nic %d", nic)
	}
	v := geti(op, "v", 4)
	src, dst := []byte(addrOf(gets(op, "src", ""))), []byte(addrOf(gets(op, "dst", "")))
	rmac := tcpip.LinkAddress("")
	if m := gets(op, "rmac", ""); m != "" {
		rmac = wire.MAC(m)
	}
	var l4 []byte
	var proto uint8
	switch gets(op, "kind", "") {
	case "udp":
		data := wire.Pattern(geti(op, "seed", 0), geti(op, "n", 0))
		res["pay"] = pay(data)
		l4 = wire.BuildUDP(src, dst, uint16(geti(op, "sport", 0)), uint16(geti(op, "dport", 0)), data,
			wire.UDPOpts{ForceLen: geti(op, "forcelen", 0), NoChecksum: getb(op, "nosum")})
		proto = 17
	case "tcp":
		data := wire.Pattern(geti(op, "seed", 0), geti(op, "n", 0))
		res["pay"] = pay(data)
		var opts []byte
		if o, ok := op["opts"].(map[string]interface{}); ok && o != nil {
			if x := geti(o, "mss", -1); x >= 0 {
				opts = append(opts, wire.OptMSS(uint16(x))...)
			}
			if x := geti(o, "ws", -1); x >= 0 {
				opts = append(opts, wire.OptWS(uint8(x))...)
			}
			if getb(o, "sackperm") {
				opts = append(opts, wire.OptSACKPerm()...)
			}
			if getb(o, "ts") {
				opts = append(opts, wire.OptTS(uint32(geti(o, "tsval", 1)), uint32(geti(o, "tsecr", 0)))...)
			}
			if rb, ok := o["rawbytes"]; ok && rb != nil {
				for _, b := range vh.Ints(rb) {
					opts = append(opts, byte(b))
				}
			}
			opts = wire.PadOpts(opts)
		}
		seq := uint32(geti(op, "seqhi", 0))<<16 | uint32(geti(op, "seqlo", 0))
		ack := uint32(geti(op, "ackhi", 0))<<16 | uint32(geti(op, "acklo", 0))
		l4 = wire.BuildTCP(src, dst, wire.TCPFields{SrcPort: uint16(geti(op, "sport", 0)), DstPort: uint16(geti(op, "dport", 0)),
			Seq: seq, Ack: ack, Flags: flagsOf(gets(op, "flags", "")), Window: uint16(geti(op, "win", 65535)), Opts: opts}, data)
		proto = 6
	case "arp":
		pkt := wire.BuildARP(uint16(geti(op, "arpop", 1)), []byte(wire.MAC(gets(op, "sha", "02:00:00:00:00:09"))), []byte(addrOf(gets(op, "spa", ""))),
			[]byte(wire.MAC(gets(op, "tha", "00:00:00:00:00:00"))), []byte(addrOf(gets(op, "tpa", ""))))
		if n := geti(op, "trunc", 0); n > 0 && n < len(pkt) {
			pkt = pkt[:n]
		}
		link.Inject(wire.ProtoARP, pkt, rmac)
		return
	case "raw":
		var b []byte
		for _, x := range vh.Ints(op["bytes"]) {
			b = append(b, byte(x))
		}
		link.Inject(tcpip.NetworkProtocolNumber(geti(op, "proto", 0x0800)), b, rmac)
		return
	default:
		vh.Fatal("inject kind %v", op["kind"])
	}
	// pad: trailing link-layer padding after the IP packet (a frame longer than the IP total length, e.g. the Ethernet minimum)
	padded := func(b []byte) []byte {
		if n := geti(op, "pad", 0); n > 0 {
			return append(append([]byte{}, b...), wire.Pattern(geti(op, "seed", 0)+77, n)...)
		}
		return b
	}
	if v == 6 {
		link.Inject(wire.ProtoIPv6, padded(wire.BuildIPv6(src, dst, proto, l4, 64)), rmac)
		return
	}
	cuts := []int{}
	if c, ok := op["cuts"]; ok && c != nil {
		cuts = vh.Ints(c)
	}
	id := uint16(geti(op, "ipid", 1))
	if len(cuts) == 0 {
		// dup: the same frame again, back to back (a retransmission that arrives before the first copy has been processed)
		frame := padded(wire.BuildIPv4(src, dst, proto, l4, wire.IPv4Opts{ID: id}))
		for i := 0; i <= geti(op, "dup", 0); i++ {
			link.Inject(wire.ProtoIPv4, append([]byte{}, frame...), rmac)
		}
		return
	}
	bounds := append([]int{0}, cuts...)
	bounds = append(bounds, len(l4))
	var frags [][]byte
	for i := 0; i+1 < len(bounds); i++ {
		frags = append(frags, wire.BuildIPv4(src, dst, proto, l4[bounds[i]:bounds[i+1]], wire.IPv4Opts{ID: id, FragOff: bounds[i], MF: i+2 < len(bounds)}))
	}
	order := []int{}
	if o, ok := op["order"]; ok && o != nil {
		order = vh.Ints(o)
	}
	if len(order) != len(frags) {
		order = nil
		for i := range frags {
			order = append(order, i)
		}
	}
	for _, i := range order {
		link.Inject(wire.ProtoIPv4, padded(frags[i]), rmac)
	}
}

// fragmix injects the IPv4 fragments of SEVERAL UDP datagrams interleaved in a given order
// (op fields: dgrams: [{src,sport,dst,dport,n,seed,ipid,cuts,proto?}], order: [[dgram index, fragment index], ...]).
// One `inject` event per datagram is logged immediately before the fragment that completes it.
func (r *runner) fragmix(op M, tr *vh.Trace) {
	link := r.h.Links[tcpip.NICID(geti(op, "nic", 1))]
	type dg struct {
		spec  M
		frags [][]byte
		left  int
	}
	var dgs []*dg
	for _, x := range vh.List(op["dgrams"]) {
		m := vh.Map(x)
		src, dst := []byte(addrOf(gets(m, "src", ""))), []byte(addrOf(gets(m, "dst", "")))
		data := wire.Pattern(geti(m, "seed", 0), geti(m, "n", 0))
		l4 := wire.BuildUDP(src, dst, uint16(geti(m, "sport", 0)), uint16(geti(m, "dport", 0)), data, wire.UDPOpts{})
		bounds := append([]int{0}, vh.Ints(m["cuts"])...)
		bounds = append(bounds, len(l4))
		d := &dg{spec: m}
		for i := 0; i+1 < len(bounds); i++ {
			d.frags = append(d.frags, wire.BuildIPv4(src, dst, uint8(geti(m, "proto", 17)), l4[bounds[i]:bounds[i+1]],
				wire.IPv4Opts{ID: uint16(geti(m, "ipid", 1)), FragOff: bounds[i], MF: i+2 < len(bounds)}))
		}
		d.left = len(d.frags)
		dgs = append(dgs, d)
	}
	for _, o := range vh.List(op["order"]) {
		oi := vh.Ints(o)
		d := dgs[oi[0]]
		d.left--
		if d.left == 0 && geti(d.spec, "proto", 17) == 17 {
			ev := M{"ev": "op", "op": "inject", "kind": "udp", "v": 4, "nic": geti(op, "nic", 1), "frags": len(d.frags)}
			for _, k := range []string{"src", "sport", "dst", "dport", "n", "seed", "ipid"} {
				ev[k] = d.spec[k]
			}
			ev["pay"] = pay(wire.Pattern(geti(d.spec, "seed", 0), geti(d.spec, "n", 0)))
			canonAddrs(ev)
			tr.Log(ev)
		}
		link.Inject(wire.ProtoIPv4, d.frags[oi[1]], "")
	}
}

func runScenario(si int, sc scenario, tr *vh.Trace) {
	clock := wire.NewClock()
	var specs []wire.NICSpec
	for _, n := range sc.Nics {
		mtu := n.MTU
		if mtu == 0 {
			mtu = 1500
		}
		var caps stack.LinkEndpointCapabilities
		if n.Res {
			caps |= stack.CapabilityResolutionRequired
		}
		specs = append(specs, wire.NICSpec{ID: tcpip.NICID(n.ID), MTU: uint32(mtu), MAC: n.MAC, Caps: caps, Addr4: n.Addr4, Addr6: n.Addr6})
	}
	h := wire.NewHost(clock, "h", specs)
	if len(sc.Routes) > 0 {
		var rt []tcpip.Route
		for _, x := range sc.Routes {
			d := addrOf(gets(x, "dst", ""))
			m := tcpip.AddressMask(addrOf(gets(x, "mask", "")))
			rt = append(rt, tcpip.Route{Destination: d, Mask: m, Gateway: addrOf(gets(x, "gw", "")), NIC: tcpip.NICID(geti(x, "nic", 1))})
		}
		h.S.SetRouteTable(rt)
	}
	if sc.Fwd {
		h.S.SetForwarding(true)
	}
	r := &runner{h: h, tr: tr, socks: map[int]*sock{}, sc: sc, synSeq: map[int]uint32{}}
	addrs := [][]interface{}{}
	for _, n := range sc.Nics {
		for _, a := range n.Addr4 {
			addrs = append(addrs, []interface{}{n.ID, a})
		}
		for _, a := range n.Addr6 {
			addrs = append(addrs, []interface{}{n.ID, addrStr([]byte(wire.A6(a)))})
		}
	}
	lastPort = map[int]int{}
	tr.Log(M{"ev": "reset", "scenario": si, "addrs": addrs})
	for id, l := range h.Links {
		nic := int(id)
		l.OnEmit = func(l *wire.Link, f wire.Frame) {
			ev := decodeFrame(f, nic, sc.RawLog)
			r.mu.Lock()
			r.nemit++
			if ev["kind"] == "tcp" && (ev["flags"] == "S" || ev["flags"] == "SA") {
				// the SYN of an active open: scripts refer to its sequence number (inject ... ackofport)
				r.synSeq[vh.Int(ev["sport"])<<16|vh.Int(ev["dport"])] = uint32(vh.Int(ev["seqhi"]))<<16 | uint32(vh.Int(ev["seqlo"]))
			}
			if r.hold {
				// emitted while a TCP connect call is in progress: logged after the call's own event
				r.held = append(r.held, ev)
				r.mu.Unlock()
				return
			}
			r.mu.Unlock()
			tr.Log(ev)
		}
	}
	for _, op := range sc.Ops {
		// inject ops are logged BEFORE the injection (replies may be emitted synchronously)
		if vh.Str(op["op"]) == "inject" {
			res := M{"ev": "op", "op": "inject"}
			for k, v := range op {
				if k != "op" {
					res[k] = v
				}
			}
			if _, ok := op["ackofport"]; ok {
				// acknowledge exactly the SYN this stack sent from that local port
				r.mu.Lock()
				a := r.synSeq[geti(op, "ackofport", 0)<<16|geti(op, "sport", 0)] + 1
				r.mu.Unlock()
				op["ackhi"], op["acklo"] = int(a>>16), int(a&0xffff)
				res["ackhi"], res["acklo"] = op["ackhi"], op["acklo"]
			}
			for _, k := range []string{"sport", "dport"} {
				if _, ok := op[k]; ok {
					op[k] = geti(op, k, 0)
					res[k] = op[k]
				}
			}
			if k := gets(op, "kind", ""); k == "udp" || k == "tcp" {
				res["pay"] = pay(wire.Pattern(geti(op, "seed", 0), geti(op, "n", 0)))
			}
			canonAddrs(res)
			tr.Log(res)
			r.mu.Lock()
			r.mark = r.nemit
			r.mu.Unlock()
			r.inject(op, M{})
			continue
		}
		if vh.Str(op["op"]) == "fragmix" {
			r.fragmix(op, tr)
			continue
		}
		holdEmits := vh.Str(op["op"]) == "connect" && r.isTCP(geti(op, "s", -1))
		if holdEmits {
			r.mu.Lock()
			r.hold = true
			r.mu.Unlock()
		}
		res := r.do(op)
		if holdEmits {
			tr.Log(res)
			r.mu.Lock()
			r.hold = false
			held := r.held
			r.held = nil
			r.mu.Unlock()
			for _, ev := range held {
				tr.Log(ev)
			}
			continue
		}
		if lp, ok := res["lport"]; ok {
			if sid, ok2 := res["s"]; ok2 && res["err"] == "" {
				lastPort[vh.Int(sid)] = lp.(int)
			}
		}
		tr.Log(res)
	}
	// close everything that is left so that goroutines/timers die
	for _, s := range r.socks {
		s.ep.Close()
	}
	for _, l := range h.Links {
		l.OnEmit = nil
	}
}

func main() {
	vh.Quiet()
	if len(os.Args) < 4 || os.Args[1] != "run" {
		vh.Fatal("usage: sockd run scenarios.json out.ndjson")
	}
	var scs []scenario
	vh.LoadJSON(os.Args[2], &scs)
	tr := vh.NewTrace(os.Args[3])
	// every operation of a script is a non-blocking call into the stack: 40 s of silence means one of them does not return
	tr.Watchdog(40 * time.Second)
	for i, sc := range scs {
		runScenario(i, sc, tr)
	}
	tr.Close()
}
