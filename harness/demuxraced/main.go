// demuxraced: registrations racing deliveries on ONE real stack (E4 for C09).
// Seeded random concurrent histories, all call/ret events in one totally
// ordered log (vh.Trace.Log: `call` before invoking, `ret` after return):
//   lifecycle goroutines: new UDP socket -> Bind(port P; wildcard / specific address; NIC 0 / 1) [-> Connect(peer)]
//                         -> hold -> drain (Read until would-block) -> Close, repeat with a fresh socket id;
//                         several of them contend for the same port(s): binds fail with "port is in use"
//   injector goroutines:  UDP datagrams with unique ids to those ports/addresses through link.Inject
//                         (synchronous: demuxer lookup and endpoint HandlePacket run inside the call)
//   tcp goroutine:        a TCP listener lifecycle (Bind, Listen, Close) on the SAME port number, and
//   tcp injectors:        SYNs with unique source ports to that port: RST when no
//                         listener is registered, SYN-ACK (later) or silence when one is
// No hooks in /repo: schedules vary through GOMAXPROCS > 1, Gosched, spins and tiny sleeps from the seeded RNG,
// and a bounded rendezvous (meet) that lets registrations and injections start at about the same instant.
//   demuxraced run <out.ndjson> <seed> <histories> [stress]
package main

import (
	"encoding/binary"
	"math/rand"
	"net"
	"os"
	"runtime"
	"strconv"
	"sync"
	"sync/atomic"
	"time"

	"github.com/brewlin/net-protocol/pkg/waiter"
	tcpip "github.com/brewlin/net-protocol/protocol"
	"github.com/brewlin/net-protocol/protocol/transport/tcp"
	"github.com/brewlin/net-protocol/protocol/transport/udp"
	"verifh/vh"
	"verifh/wire"
)

type M = map[string]interface{}

func atoi(s string) int {
	n, err := strconv.Atoi(s)
	if err != nil {
		vh.Fatal("bad int %q", s)
	}
	return n
}

func ipstr(a tcpip.Address) string {
	if len(a) == 0 {
		return ""
	}
	return net.IP([]byte(a)).String()
}

var sink uint64

// jitter varies the schedule: nothing / yield / spin / tiny sleep.
func jitter(r *rand.Rand) {
	switch r.Intn(6) {
	case 0, 1:
	case 2, 3:
		runtime.Gosched()
	case 4:
		n := r.Intn(400)
		x := uint64(1)
		for i := 0; i < n; i++ {
			x = x*6364136223846793005 + 1442695040888963407
		}
		atomic.AddUint64(&sink, x)
	case 5:
		time.Sleep(time.Duration(r.Intn(30)) * time.Microsecond)
	}
}

// meet makes racing likely without hooks in the stack: the caller announces itself on `mine` and, half of the
// time, waits (bounded spin) until somebody of the other kind announces an operation on `theirs`, so that
// registrations and deliveries start at about the same instant.
func meet(r *rand.Rand, mine, theirs *int32) {
	if r.Intn(2) == 0 {
		t0 := atomic.LoadInt32(theirs)
		for i := 0; i < 4000 && atomic.LoadInt32(theirs) == t0; i++ {
			if i%128 == 127 {
				runtime.Gosched()
			}
		}
	}
	atomic.AddInt32(mine, 1)
}

var locals = []string{"10.0.0.1", "10.0.0.2"}

type peer struct {
	addr string
	port int
}

var peers = []peer{{"10.0.0.9", 7}, {"10.0.0.8", 7}, {"10.0.0.9", 8}}

func pickPeer(r *rand.Rand) peer {
	if r.Intn(2) == 0 {
		return peers[0]
	}
	return peers[r.Intn(len(peers))]
}

func main() {
	vh.Quiet()
	if len(os.Args) < 5 || os.Args[1] != "run" {
		vh.Fatal("usage: demuxraced run <out.ndjson> <seed> <histories> [stress]")
	}
	if runtime.NumCPU() >= 6 {
		runtime.GOMAXPROCS(6)
	} else if runtime.NumCPU() >= 2 {
		runtime.GOMAXPROCS(runtime.NumCPU())
	}
	tr := vh.NewTrace(os.Args[2])
	seed, hists := int64(atoi(os.Args[3])), atoi(os.Args[4])
	stress := len(os.Args) > 5 && os.Args[5] == "stress"
	var nops int64
	for h := 0; h < hists; h++ {
		hr := rand.New(rand.NewSource(seed*1000003 + int64(h)*7919 + 17))
		clock := wire.NewClock()
		host := wire.NewHost(clock, "h", []wire.NICSpec{{ID: 1, MTU: 1500, Addr4: locals}})
		link := host.Links[1]
		// shape of the history: <= 6 concurrent goroutines, ~40 operations
		nlife := 2 + hr.Intn(2)
		ninj := 2 + hr.Intn(2)
		ntcp := 0
		ntinj := 0
		if nlife+ninj < 6 && hr.Intn(2) == 0 {
			ntcp = 1
			if nlife+ninj+ntcp < 6 {
				ntinj = 1
			} else {
				ninj--
				ntinj = 1
			}
		}
		ports := []int{5000}
		if hr.Intn(3) == 0 {
			ports = []int{5000, 5001}
		}
		cycles := 2
		if nlife == 2 {
			cycles = 3
		}
		perinj := 5
		if stress {
			cycles, perinj = 6, 12
		}
		var over int32 // set when the history is finished: late timer-driven frames are not part of it
		var emu sync.RWMutex
		var sockid int32
		var regEpoch, injEpoch int32 // announcements of registration operations / of injections (see meet)
		newid := func() int { return int(atomic.AddInt32(&sockid, 1)) - 1 }
		tr.Log(M{"ev": "reset", "hist": h, "addrs": locals, "ports": ports, "life": nlife, "inj": ninj, "tcp": ntcp, "tinj": ntinj})
		// the tap: TCP answers (RST / SYN-ACK) to the unique source ports of the injected SYNs
		link.OnEmit = func(l *wire.Link, f wire.Frame) {
			emu.RLock()
			defer emu.RUnlock()
			if atomic.LoadInt32(&over) != 0 || f.Proto != wire.ProtoIPv4 {
				return
			}
			ip, err := wire.ParseIPv4(f.Bytes)
			if err != nil || ip.Proto != 6 {
				return
			}
			t, err := wire.ParseTCP(ip.Src, ip.Dst, ip.Payload)
			if err != nil {
				return
			}
			kind := "other"
			if t.Flags&0x04 != 0 {
				kind = "rst"
			} else if t.Flags&0x12 == 0x12 {
				kind = "synack"
			}
			tr.Log(M{"ev": "emit", "kind": kind, "id": int(t.DstPort), "from": ipstr(tcpip.Address(ip.Src)), "port": int(t.SrcPort)})
		}
		var wg sync.WaitGroup
		start := make(chan struct{})
		g := 0
		// ---- UDP socket lifecycles
		for i := 0; i < nlife; i++ {
			wg.Add(1)
			go func(g int) {
				defer wg.Done()
				r := rand.New(rand.NewSource(seed*7919 + int64(h)*131 + int64(g)))
				<-start
				for c := 0; c < cycles; c++ {
					s := newid()
					ep, err := host.S.NewEndpoint(udp.ProtocolNumber, wire.ProtoIPv4, &waiter.Queue{})
					if err != nil {
						vh.Fatal("NewEndpoint: %v", err)
					}
					addr := []string{"", "10.0.0.1", "10.0.0.2"}[r.Intn(3)]
					port := ports[r.Intn(len(ports))]
					nic := []int{0, 0, 1}[r.Intn(3)]
					bound := false
					for try := 0; try < 2 && !bound; try++ {
						fa := tcpip.FullAddress{NIC: tcpip.NICID(nic), Port: uint16(port)}
						if addr != "" {
							fa.Addr = wire.A4(addr)
						}
						meet(r, &regEpoch, &injEpoch)
						tr.Log(M{"ev": "call", "g": g, "op": "bind", "s": s, "addr": addr, "port": port, "nic": nic})
						e := ep.Bind(fa, nil)
						if e != nil {
							tr.Log(M{"ev": "ret", "g": g, "ok": false, "err": e.String()})
						} else {
							tr.Log(M{"ev": "ret", "g": g, "ok": true})
							bound = true
						}
						atomic.AddInt64(&nops, 1)
						jitter(r)
					}
					read := func() bool {
						tr.Log(M{"ev": "call", "g": g, "op": "read", "s": s})
						var fa tcpip.FullAddress
						v, _, e := ep.Read(&fa)
						atomic.AddInt64(&nops, 1)
						if e != nil {
							tr.Log(M{"ev": "ret", "g": g, "ok": false, "err": e.String()})
							return false
						}
						id := -1
						if len(v) >= 4 {
							id = int(binary.BigEndian.Uint32(v[:4]))
						}
						tr.Log(M{"ev": "ret", "g": g, "ok": true, "id": id, "n": len(v), "src": ipstr(fa.Addr), "sport": int(fa.Port), "sum": int(wire.Sum1071(v, 0))})
						return true
					}
					if bound {
						if r.Intn(3) == 0 {
							p := pickPeer(r)
							meet(r, &regEpoch, &injEpoch)
							tr.Log(M{"ev": "call", "g": g, "op": "connect", "s": s, "raddr": p.addr, "rport": p.port})
							e := ep.Connect(tcpip.FullAddress{Addr: wire.A4(p.addr), Port: uint16(p.port)})
							atomic.AddInt64(&nops, 1)
							if e != nil {
								tr.Log(M{"ev": "ret", "g": g, "ok": false, "err": e.String()})
							} else {
								la, _ := ep.GetLocalAddress()
								tr.Log(M{"ev": "ret", "g": g, "ok": true, "laddr": ipstr(la.Addr)})
							}
						}
						for k := 1 + r.Intn(3); k > 0; k-- {
							jitter(r)
						}
						if r.Intn(3) == 0 { // a read in mid-life
							read()
							jitter(r)
						}
						for read() { // drain
						}
						if r.Intn(2) == 0 {
							jitter(r)
						}
					}
					meet(r, &regEpoch, &injEpoch)
					tr.Log(M{"ev": "call", "g": g, "op": "close", "s": s})
					ep.Close()
					tr.Log(M{"ev": "ret", "g": g})
					atomic.AddInt64(&nops, 1)
					jitter(r)
				}
			}(g)
			g++
		}
		// ---- UDP injectors
		for i := 0; i < ninj; i++ {
			wg.Add(1)
			go func(g int) {
				defer wg.Done()
				r := rand.New(rand.NewSource(seed*7919 + int64(h)*131 + int64(g)))
				<-start
				for k := 0; k < perinj; k++ {
					id := g*1000 + k
					n := []int{0, 1, 9, 40}[r.Intn(4)]
					pl := make([]byte, 4, 4+n)
					binary.BigEndian.PutUint32(pl, uint32(id))
					pl = append(pl, wire.Pattern(id, n)...)
					p := pickPeer(r)
					dst := locals[r.Intn(len(locals))]
					if r.Intn(16) == 0 {
						dst = "10.0.0.77" // not assigned to the interface: nobody
					}
					dport := ports[r.Intn(len(ports))]
					if r.Intn(16) == 0 {
						dport = 5009 // nobody binds it
					}
					src, d := []byte(wire.A4(p.addr)), []byte(wire.A4(dst))
					pkt := wire.BuildIPv4(src, d, 17, wire.BuildUDP(src, d, uint16(p.port), uint16(dport), pl, wire.UDPOpts{}), wire.IPv4Opts{ID: uint16(id + 1)})
					meet(r, &injEpoch, &regEpoch)
					tr.Log(M{"ev": "call", "g": g, "op": "inject", "id": id, "n": len(pl), "src": p.addr, "sport": p.port, "dst": dst, "dport": dport, "sum": int(wire.Sum1071(pl, 0))})
					link.Inject(wire.ProtoIPv4, pkt, "")
					tr.Log(M{"ev": "ret", "g": g})
					atomic.AddInt64(&nops, 1)
					jitter(r)
				}
			}(g)
			g++
		}
		// ---- TCP listener lifecycle on the same port number
		for i := 0; i < ntcp; i++ {
			wg.Add(1)
			go func(g int) {
				defer wg.Done()
				r := rand.New(rand.NewSource(seed*7919 + int64(h)*131 + int64(g)))
				<-start
				for c := 0; c < cycles; c++ {
					s := newid()
					ep, err := host.S.NewEndpoint(tcp.ProtocolNumber, wire.ProtoIPv4, &waiter.Queue{})
					if err != nil {
						vh.Fatal("NewEndpoint tcp: %v", err)
					}
					addr := []string{"", "", "10.0.0.1"}[r.Intn(3)]
					port := ports[0]
					fa := tcpip.FullAddress{Port: uint16(port)}
					if addr != "" {
						fa.Addr = wire.A4(addr)
					}
					tr.Log(M{"ev": "call", "g": g, "op": "tbind", "s": s, "addr": addr, "port": port})
					e := ep.Bind(fa, nil)
					if e != nil {
						tr.Log(M{"ev": "ret", "g": g, "ok": false, "err": e.String()})
					} else {
						tr.Log(M{"ev": "ret", "g": g, "ok": true})
					}
					atomic.AddInt64(&nops, 1)
					if e == nil {
						jitter(r)
						meet(r, &regEpoch, &injEpoch)
						tr.Log(M{"ev": "call", "g": g, "op": "listen", "s": s, "addr": addr, "port": port})
						e = ep.Listen(4)
						if e != nil {
							tr.Log(M{"ev": "ret", "g": g, "ok": false, "err": e.String()})
						} else {
							tr.Log(M{"ev": "ret", "g": g, "ok": true})
						}
						atomic.AddInt64(&nops, 1)
						for k := 1 + r.Intn(3); k > 0; k-- {
							jitter(r)
						}
					}
					meet(r, &regEpoch, &injEpoch)
					tr.Log(M{"ev": "call", "g": g, "op": "tclose", "s": s})
					ep.Close()
					tr.Log(M{"ev": "ret", "g": g})
					atomic.AddInt64(&nops, 1)
					jitter(r)
				}
			}(g)
			g++
		}
		// ---- TCP SYN injectors (unique source port = id)
		for i := 0; i < ntinj; i++ {
			wg.Add(1)
			go func(g int) {
				defer wg.Done()
				r := rand.New(rand.NewSource(seed*7919 + int64(h)*131 + int64(g)))
				<-start
				for k := 0; k < perinj; k++ {
					id := 20000 + g*1000 + k
					p := peers[r.Intn(2)]
					dst := locals[r.Intn(len(locals))]
					dport := ports[0]
					src, d := []byte(wire.A4(p.addr)), []byte(wire.A4(dst))
					seg := wire.BuildTCP(src, d, wire.TCPFields{SrcPort: uint16(id), DstPort: uint16(dport), Seq: uint32(1000 * (k + 1)), Flags: 0x02, Window: 30000,
						Opts: wire.PadOpts(wire.OptMSS(1460))}, nil)
					pkt := wire.BuildIPv4(src, d, 6, seg, wire.IPv4Opts{ID: uint16(id)})
					meet(r, &injEpoch, &regEpoch)
					tr.Log(M{"ev": "call", "g": g, "op": "syn", "id": id, "src": p.addr, "dst": dst, "dport": dport})
					link.Inject(wire.ProtoIPv4, pkt, "")
					tr.Log(M{"ev": "ret", "g": g})
					atomic.AddInt64(&nops, 1)
					jitter(r)
				}
			}(g)
			g++
		}
		close(start)
		wg.Wait()
		if ntinj > 0 {
			// let the listeners' goroutines answer what they accepted (late SYN-ACKs are legal, not required)
			time.Sleep(300 * time.Microsecond)
		}
		emu.Lock()
		atomic.StoreInt32(&over, 1)
		tr.Log(M{"ev": "end"})
		emu.Unlock()
	}
	tr.Close()
	vh.Emit(M{"histories": hists, "events": tr.N, "ops": nops, "gomaxprocs": runtime.GOMAXPROCS(0)})
}
