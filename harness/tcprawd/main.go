// tcprawd: ONE real stack (endpoint "a", 10.0.0.1 / fd00::1) against a
// SCRIPTED raw peer (endpoint "b", 10.0.0.2 / fd00::2) for C04 / C05.
//
//	tcprawd pair <scenarios.json> <out.ndjson> [parallel]
//
// "a" runs real applications on the sockets API exactly as in tcpd (stream
// content = Byte(d, i)).  "b" is a script: it fabricates the SYN / SYN-ACK
// (MSS, window scale, SACK-permitted, timestamps of the scenario's choosing)
// and then reacts to every segment of "a" with a seeded ACK policy:
// cumulative ACK every k-th segment, delayed delivery (emulated RTT),
// duplicate-ACK bursts, prefix acceptance (ACK in the middle of a segment),
// pretended loss, SACK blocks (valid / D-SACK / nonsense), window changes
// (zero, tiny, shrinking, scaled, re-opening), silence, ACKs of data not yet
// sent, old ACKs, own data and FIN.
//
// The event schema is the one of tcpd, so spec/tcp/TraceTcp.tla judges the
// real stack unchanged: every frame "a" emits is logged synchronously in the
// link tap (`emit` e="a") and then `arrive` to="b" (or `drop` when the script
// pretends not to have received it); every frame of the script is logged as
// `emit` e="b" when it is generated and `arrive` to="a" when it is handed to
// the stack.  The hand-over is SYNCHRONOUS ("sync": true in the reset event):
// the next frame is handed over only after tcp.VerifState reports an empty
// segment queue and an idle protocol goroutine, so log order = causal order.
// The reset event carries "raw_b": true: endpoint b is scripted, the clauses
// of the spec constrain endpoint a only.
package main

import (
	"fmt"
	"math/rand"
	"os"
	"runtime"
	"sort"
	"strconv"
	"sync"
	"sync/atomic"
	"time"

	"github.com/brewlin/net-protocol/pkg/waiter"
	tcpip "github.com/brewlin/net-protocol/protocol"
	"github.com/brewlin/net-protocol/protocol/transport/tcp"
	"verifh/vh"
	"verifh/wire"
)

type M = map[string]interface{}

type app struct {
	Writes      []int `json:"writes"`        // chunk sizes, written in order
	Shutdown    bool  `json:"shutdown"`      // Shutdown(Write) after the last write
	ReadMax     int   `json:"read_max"`      // stop reading after this many bytes (0 = until EOS)
	ReadDelayUS int   `json:"read_delay_us"` // pause between reads
	ReadStartMS int   `json:"read_start_ms"` // do not read before this
	WriteGapUS  int   `json:"write_gap_us"`
	RcvBuf      int   `json:"rcvbuf"`
	SndBuf      int   `json:"sndbuf"`
	ShutAfterMS int   `json:"shut_after_ms"`
	NoRead      bool  `json:"noread"`
	Passive     bool  `json:"passive"` // a listens, the script opens the connection
}

type dropOff struct {
	Off   int `json:"off"`   // stream offset a data segment starts at
	Times int `json:"times"` // how many transmissions starting there are "lost"
}

// prule: one scripted behaviour, fired once.
type prule struct {
	On    string `json:"on"`       // data: after the N-th data segment a emitted (retransmissions counted) was handled; ms: N ms after the connection came up; rcvd: once N in-order bytes are held; fin: a's FIN arrived; up: handshake done; zero: the N-th time the peer advertised a zero window
	N     int    `json:"n"`        //
	After int    `json:"after_ms"` // the action happens this long after the trigger
	Do    string `json:"do"`       // dupacks partial wnd ackfuture oldack silent write fin ack
	Count int    `json:"count"`    // dupacks/ackfuture/oldack/wnd: number of ACKs
	Wnd   int    `json:"wnd"`      // wnd: new window in bytes; oldack/ackfuture: window of that ACK (-1: unchanged)
	Step  int    `json:"step"`     // dupacks: the window of each successive duplicate ACK differs by this many bytes (0: identical windows)
	Bytes int    `json:"bytes"`    // partial: prefix kept; ackfuture: distance beyond what a has sent; oldack: distance below the current ACK; write: size
	MS    int    `json:"ms"`       // silent: duration
	GapMS int    `json:"gap_ms"`
	Sack  string `json:"sack"` // overrides the scenario's SACK mode for this rule's ACKs
	done  bool
}

type peer struct {
	ISS       []int     `json:"iss"`        // [hi, lo]; default: from the seed
	MSS       int       `json:"mss"`        // MSS option of the SYN / SYN-ACK (0: no option)
	WS        int       `json:"ws"`         // window scale option (-1: none)
	SackPerm  bool      `json:"sackperm"`   // SACK-permitted option
	TS        bool      `json:"ts"`         // timestamp option
	SynWnd    int       `json:"synwnd"`     // window field of the SYN / SYN-ACK (never scaled)
	Wnd       int       `json:"wnd"`        // receive window in bytes offered after the handshake (field = wnd >> ws)
	AckEvery  int       `json:"ack_every"`  // cumulative ACK for every k-th in-order data segment
	DelackMS  int       `json:"delack_ms"`  // in-order data is acknowledged at the latest after this long
	DelayMS   int       `json:"delay_ms"`   // every frame of the script reaches a this long after it was generated (emulated RTT)
	Sack      string    `json:"sack"`       // "", valid, dsack, nonsense
	Quiet     bool      `json:"quiet_ooo"`  // no duplicate ACK for out-of-order arrivals
	FixedEdge bool      `json:"fixed_edge"` // the window is a buffer: the right edge stays where it is until a `wnd` rule moves it (the window closes as data arrives)
	Drop      []int     `json:"drop"`       // ordinals (1-based, over ALL data segments a emits) the peer pretends not to receive
	DropOff   []dropOff `json:"drop_off"`
	Rules     []prule   `json:"rules"`
}

type scenario struct {
	V        int    `json:"v"`
	MTU      int    `json:"mtu"`
	SACK     bool   `json:"sack"`
	CC       string `json:"cc"`
	A        app    `json:"a"`
	Peer     peer   `json:"peer"`
	Seed     int64  `json:"seed"`
	Deadline int    `json:"deadline_ms"`
	RunMS    int    `json:"run_ms"` // cut the scenario off after this long (end why="script-end"); 0: run until the applications are done
	Tag      string `json:"tag"`
	Flags    M      `json:"flags"`
	Cookie   bool   `json:"cookie"` // the listener answers every SYN with a SYN cookie (tcp.SynRcvdCountThreshold = 0: process-global, so such scenarios form batches of their own)
}

// Byte is the content of stream d (0: a->b, 1: b->a) at offset i; TraceTcp.tla has the same function.
func Byte(d, i int) byte { return byte((i*31 + d*101 + (i>>8)*7 + 17) & 0xff) }

type elog struct {
	mu  sync.Mutex
	evs []M
	t0  time.Time
}

func (l *elog) add(ev M) {
	l.mu.Lock()
	ev["t"] = int(time.Since(l.t0) / time.Microsecond)
	l.evs = append(l.evs, ev)
	l.mu.Unlock()
}

// rside: what the decoder knows about one end.
type rside struct {
	name  string
	d     int
	iss   uint32
	haveI bool
	wsOpt int
	idx   int
}

type frameQ struct {
	t    wire.TCP
	ok   bool
	info M
}

type timed struct {
	due time.Time
	fn  func()
}

type conn struct {
	sc    scenario
	log   *elog
	link  *wire.Link
	a, b  *rside
	epMu  sync.Mutex
	ep    tcpip.Endpoint
	wq    *waiter.Queue
	ch    chan frameQ
	kick  chan struct{}
	done  chan struct{}
	emits int64
	infl  int64 // frames of a not yet handled by the script + frames of the script not yet handed over
	np    tcpip.NetworkProtocolNumber
	aaddr []byte
	baddr []byte
	aport uint16
	bport uint16
	rng   *rand.Rand

	// ---- script state (script goroutine only)
	tq         []timed
	iss        uint32
	estab      bool
	upAt       time.Time
	rcvNxt     int // in-order bytes of a's stream held by the peer
	finRcvd    bool
	ooo        [][2]int // out-of-order intervals held, most recently touched first
	pending    int
	delackGen  int
	wnd        int // bytes currently offered
	edge       int // fixed_edge: right edge (stream offset of a) currently offered
	lastField  int // window field of the last non-SYN segment sent
	zeros      int // how many times the window went to zero
	aMax       int // highest stream offset a has emitted
	aFinSeen   bool
	nData      int
	silentTill time.Time
	tsOn       bool
	sackOn     bool
	tsRecent   uint32
	wsEff      uint
	aScale     uint
	aMSS       int
	aSynSeen   bool
	dropSet    map[int]bool
	dropOffs   map[int]int
	partial    map[int]int
	lastDup    [2]int // the duplicate range received last (for D-SACK)
	haveDup    bool
	// own stream
	bWritten int
	bSent    int
	bWantFin bool
	bFinSent bool
	aEdge    int // right edge a advertised (offset in b's stream)
}

func (c *conn) getEp() tcpip.Endpoint {
	c.epMu.Lock()
	defer c.epMu.Unlock()
	return c.ep
}

func (c *conn) setEp(ep tcpip.Endpoint, wq *waiter.Queue) {
	c.epMu.Lock()
	c.ep, c.wq = ep, wq
	c.epMu.Unlock()
}

func segKind(fl uint8, n int) string {
	switch {
	case fl&wire.RST != 0:
		return "rst"
	case fl&wire.SYN != 0 && fl&wire.ACK != 0:
		return "synack"
	case fl&wire.SYN != 0:
		return "syn"
	case fl&wire.FIN != 0:
		return "fin"
	case n > 0:
		return "data"
	}
	return "ack"
}

func flagStr(f uint8) string {
	s := ""
	for i, c := range "FSRPAU" {
		if f&(1<<uint(i)) != 0 {
			s += string(c)
		}
	}
	return s
}

func rel(x, base uint32) int { return int(int32(x - base)) }

// decode builds the event fields of a TCP segment emitted by side s (same fields as tcpd).
func decode(proto tcpip.NetworkProtocolNumber, b []byte, s, peer *rside) (M, wire.TCP, bool) {
	var src, dst, l4 []byte
	var ipproto uint8
	ipok := true
	if proto == wire.ProtoIPv4 {
		ip, err := wire.ParseIPv4(b)
		if err != nil {
			return M{"bad": err.Error()}, wire.TCP{}, false
		}
		src, dst, l4, ipproto = ip.Src, ip.Dst, ip.Payload, ip.Proto
		ipok = ip.HdrOK
	} else if proto == wire.ProtoIPv6 {
		ip, err := wire.ParseIPv6(b)
		if err != nil {
			return M{"bad": err.Error()}, wire.TCP{}, false
		}
		src, dst, l4, ipproto = ip.Src, ip.Dst, ip.Payload, ip.Next
	} else {
		return M{"bad": "proto"}, wire.TCP{}, false
	}
	if ipproto != 6 {
		return M{"bad": "not tcp", "ipproto": int(ipproto)}, wire.TCP{}, false
	}
	t, err := wire.ParseTCP(src, dst, l4)
	if err != nil {
		return M{"bad": err.Error()}, wire.TCP{}, false
	}
	if t.Flags&wire.SYN != 0 && !s.haveI {
		s.iss, s.haveI = t.Seq, true
		s.wsOpt = -1
		if t.Opts.HasWS {
			s.wsOpt = int(t.Opts.WS)
		}
	}
	ev := M{"e": s.name, "flags": flagStr(t.Flags), "len": len(t.Payload), "wnd": int(t.Window),
		"sumok": t.SumOK && ipok, "optok": t.Opts.WellOK, "iplen": len(b)}
	if s.haveI {
		ev["seq"] = rel(t.Seq, s.iss)
	} else {
		ev["seq"] = -999999
	}
	if t.Flags&wire.ACK != 0 && peer.haveI {
		ev["ack"] = rel(t.Ack, peer.iss)
	} else {
		ev["ack"] = -999999
	}
	ev["pay"] = wire.Ints(t.Payload)
	ev["mss"], ev["ws"], ev["ts"], ev["sackperm"] = -1, -1, t.Opts.HasTS, t.Opts.SACKPerm
	if t.Opts.HasMSS {
		ev["mss"] = int(t.Opts.MSS)
	}
	if t.Opts.HasWS {
		ev["ws"] = int(t.Opts.WS)
	}
	sb := [][]int{}
	for _, x := range t.Opts.SACK {
		if peer.haveI {
			sb = append(sb, []int{rel(x.Start, peer.iss), rel(x.End, peer.iss)})
		}
	}
	ev["sack"] = sb
	ev["kind"] = segKind(t.Flags, len(t.Payload))
	ev["seqraw_hi"], ev["seqraw_lo"] = int(t.Seq>>16), int(t.Seq&0xffff)
	s.idx++
	ev["idx"] = s.idx
	return ev, t, true
}

func cp(m M) M {
	o := M{}
	for k, v := range m {
		o[k] = v
	}
	return o
}

// tap: every frame the real stack emits (synchronously inside WritePacket).
func (c *conn) tap(l *wire.Link, f wire.Frame) {
	ev, t, ok := decode(f.Proto, f.Bytes, c.a, c.b)
	ev["ev"] = "emit"
	atomic.AddInt64(&c.emits, 1)
	c.log.add(ev)
	if !ok {
		return
	}
	atomic.AddInt64(&c.infl, 1)
	select {
	case c.ch <- frameQ{t, ok, cp(ev)}:
	default:
		atomic.AddInt64(&c.infl, -1)
		info := cp(ev)
		info["ev"], info["why"] = "drop", "queue"
		c.log.add(info)
	}
}

// ---------------------------------------------------------------- the script
func (c *conn) after(d time.Duration, fn func()) {
	due := time.Now().Add(d)
	i := sort.Search(len(c.tq), func(i int) bool { return c.tq[i].due.After(due) })
	c.tq = append(c.tq, timed{})
	copy(c.tq[i+1:], c.tq[i:])
	c.tq[i] = timed{due, fn}
}

func (c *conn) syncWait() {
	ep := c.getEp()
	if ep == nil && !c.estab {
		return // passive open, SYN handed to the listener: there is no endpoint to wait for yet
	}
	if ep == nil {
		// passive open: the accepted endpoint becomes known when Accept returns
		for i := 0; i < 4000 && ep == nil; i++ {
			select {
			case <-c.done:
				return
			default:
			}
			time.Sleep(500 * time.Microsecond)
			ep = c.getEp()
		}
		if ep == nil {
			return
		}
	}
	for i := 0; i < 20000; i++ {
		st, ok := tcp.VerifState(ep)
		if ok && !st.SegQueue {
			return
		}
		if i < 100 {
			runtime.Gosched()
		} else {
			time.Sleep(20 * time.Microsecond)
		}
	}
}

func (c *conn) wndField() int {
	wb := c.wnd
	if c.sc.Peer.FixedEdge {
		wb = c.edge - c.rcvNxt
		if wb < 0 {
			wb = 0
		}
	}
	w := wb >> c.wsEff
	if w > 65535 {
		w = 65535
	}
	if w < 0 {
		w = 0
	}
	return w
}

// curAck / curSeq: relative numbers of an ordinary segment of the peer.
func (c *conn) curAck() int {
	a := 1 + c.rcvNxt
	if c.finRcvd {
		a++
	}
	return a
}

func (c *conn) curSeq() int {
	s := 1 + c.bSent
	if c.bFinSent {
		s++
	}
	return s
}

// sackBlocks returns the SACK blocks (relative to a's ISS) for an ACK in the given mode.
func (c *conn) sackBlocks(mode string) [][2]int {
	max := 4
	if c.tsOn {
		max = 3
	}
	var out [][2]int
	switch mode {
	case "valid", "dsack":
		if mode == "dsack" {
			// a D-SACK-like first block: a range at or below the cumulative ACK (RFC 2883)
			if c.haveDup {
				out = append(out, [2]int{1 + c.lastDup[0], 1 + c.lastDup[1]})
			} else if c.rcvNxt > 0 {
				lo := c.rcvNxt - 1 - c.rng.Intn(1+c.rcvNxt/2)
				if lo < 0 {
					lo = 0
				}
				out = append(out, [2]int{1 + lo, 1 + c.rcvNxt})
			}
		}
		for _, iv := range c.ooo {
			if len(out) >= max {
				break
			}
			out = append(out, [2]int{1 + iv[0], 1 + iv[1]})
		}
	case "nonsense":
		n := 1 + c.rng.Intn(max)
		for i := 0; i < n; i++ {
			base := 1 + c.rcvNxt
			switch c.rng.Intn(6) {
			case 0: // far beyond anything a has sent
				out = append(out, [2]int{base + 1000000 + i*10, base + 1000100 + i*10})
			case 1: // empty block
				out = append(out, [2]int{base + 5, base + 5})
			case 2: // reversed
				out = append(out, [2]int{base + 300, base + 100})
			case 3: // covers the cumulative ACK point and everything outstanding
				out = append(out, [2]int{base - 50, 1 + c.aMax + 1})
			case 4: // below the ISS
				out = append(out, [2]int{-5000, -4000})
			case 5: // exactly the outstanding data (claims to hold what it keeps asking for)
				out = append(out, [2]int{base, 1 + c.aMax})
			}
		}
	}
	return out
}

// send builds one segment of the script, logs `emit` e="b" and schedules the hand-over (`arrive` to="a").
func (c *conn) send(fl uint8, relSeq, relAck, wndField int, sack [][2]int, pay []byte, how string) {
	if time.Now().Before(c.silentTill) {
		return // deaf and mute
	}
	var opts []byte
	if fl&wire.SYN != 0 {
		p := c.sc.Peer
		if p.MSS > 0 {
			opts = append(opts, wire.OptMSS(uint16(p.MSS))...)
		}
		if p.SackPerm {
			opts = append(opts, wire.OptSACKPerm()...)
			opts = append(opts, 1, 1)
		}
		if p.TS && (c.aSynSeen == false || c.tsOn) {
			opts = append(opts, 1, 1)
			opts = append(opts, wire.OptTS(c.tsVal(), c.tsRecent)...)
		}
		if p.WS >= 0 {
			opts = append(opts, 1)
			opts = append(opts, wire.OptWS(uint8(p.WS))...)
		}
	} else {
		if c.tsOn {
			opts = append(opts, 1, 1)
			opts = append(opts, wire.OptTS(c.tsVal(), c.tsRecent)...)
		}
		if len(sack) > 0 {
			bl := make([]wire.SACKBlock, 0, len(sack))
			for _, s := range sack {
				bl = append(bl, wire.SACKBlock{Start: c.a.iss + uint32(int32(s[0])), End: c.a.iss + uint32(int32(s[1]))})
			}
			opts = append(opts, 1, 1)
			opts = append(opts, wire.OptSACK(bl)...)
		}
	}
	opts = wire.PadOpts(opts)
	var ack uint32
	if fl&wire.ACK != 0 {
		ack = c.a.iss + uint32(int32(relAck))
	}
	l4 := wire.BuildTCP(c.baddr, c.aaddr, wire.TCPFields{SrcPort: c.bport, DstPort: c.aport, Seq: c.iss + uint32(int32(relSeq)), Ack: ack,
		Flags: fl, Window: uint16(wndField), Opts: opts}, pay)
	var frame []byte
	if c.sc.V == 6 {
		frame = wire.BuildIPv6(c.baddr, c.aaddr, 6, l4, 64)
	} else {
		frame = wire.BuildIPv4(c.baddr, c.aaddr, 6, l4, wire.IPv4Opts{ID: 0x5252})
	}
	ev, _, ok := decode(c.np, frame, c.b, c.a)
	if !ok {
		vh.Fatal("script built an undecodable frame: %v", ev)
	}
	ev["ev"] = "emit"
	c.log.add(ev)
	info := cp(ev)
	if fl&wire.SYN == 0 {
		was := c.lastField
		c.lastField = wndField
		if wndField == 0 && was != 0 {
			c.zeros++
			defer c.fire("zero", c.zeros)
		}
	}
	atomic.AddInt64(&c.infl, 1)
	c.after(time.Duration(c.sc.Peer.DelayMS)*time.Millisecond, func() {
		info["ev"], info["to"], info["how"] = "arrive", "a", how
		c.log.add(info)
		c.link.Inject(c.np, frame, "")
		c.syncWait()
		atomic.AddInt64(&c.infl, -1)
	})
}

func (c *conn) tsVal() uint32 {
	return uint32(time.Since(c.log.t0)/time.Millisecond) + 0x01000000
}

// ackNow sends the ordinary cumulative ACK (current window, SACK blocks of the scenario's mode).
func (c *conn) ackNow(how string) {
	c.pending = 0
	c.delackGen++
	mode := c.sc.Peer.Sack
	var sb [][2]int
	if mode != "" && (c.sackOn || mode == "nonsense") {
		sb = c.sackBlocks(mode)
	}
	c.send(wire.ACK, c.curSeq(), c.curAck(), c.wndField(), sb, nil, how)
}

func (c *conn) armDelack() {
	d := c.sc.Peer.DelackMS
	if d <= 0 {
		return
	}
	c.delackGen++
	g := c.delackGen
	c.after(time.Duration(d)*time.Millisecond, func() {
		if g == c.delackGen && c.pending > 0 {
			c.ackNow("delack")
		}
	})
}

func (c *conn) addOOO(lo, hi int) {
	// merge with everything it touches, put the result first (RFC 2018: most recently changed block first)
	out := c.ooo[:0:0]
	for _, iv := range c.ooo {
		if iv[1] < lo || iv[0] > hi {
			out = append(out, iv)
			continue
		}
		if iv[0] < lo {
			lo = iv[0]
		}
		if iv[1] > hi {
			hi = iv[1]
		}
	}
	c.ooo = append([][2]int{{lo, hi}}, out...)
}

func (c *conn) absorb() {
	for changed := true; changed; {
		changed = false
		out := c.ooo[:0:0]
		for _, iv := range c.ooo {
			if iv[0] <= c.rcvNxt {
				if iv[1] > c.rcvNxt {
					c.rcvNxt = iv[1]
				}
				changed = true
				continue
			}
			out = append(out, iv)
		}
		c.ooo = out
	}
}

// receive: the peer's receiver for a data / FIN segment of a that "arrived".
func (c *conn) receive(t wire.TCP, n int) {
	off := rel(t.Seq, c.a.iss) - 1
	ln := len(t.Payload)
	fin := t.Flags&wire.FIN != 0
	cut := false
	if pb, ok := c.partial[n]; ok && ln > pb && pb > 0 {
		ln, fin, cut = pb, false, true // only a prefix of this segment is kept (a receiver short of buffer)
	}
	end := off + ln
	switch {
	case ln == 0 && !fin:
		return
	case ln > 0 && end <= c.rcvNxt: // duplicate
		c.lastDup, c.haveDup = [2]int{off, end}, true
		c.ackNow("dup")
	case off <= c.rcvNxt: // in order
		hadHole := len(c.ooo) > 0
		if ln > 0 {
			c.rcvNxt = end
			c.absorb()
		}
		gotFin := false
		if fin && end == c.rcvNxt && !c.finRcvd {
			c.finRcvd, gotFin = true, true
		}
		if gotFin || hadHole || cut {
			c.ackNow("pass")
		} else {
			c.pending++
			k := c.sc.Peer.AckEvery
			if k <= 1 || c.pending >= k {
				c.ackNow("pass")
			} else {
				c.armDelack()
			}
		}
		if gotFin {
			c.fire("fin", 0)
		}
	default: // beyond a hole
		if ln > 0 {
			c.addOOO(off, end)
		}
		if !c.sc.Peer.Quiet {
			c.ackNow("dupack")
		}
	}
}

// fire runs the rules of one trigger.
func (c *conn) fire(on string, n int) {
	for i := range c.sc.Peer.Rules {
		r := &c.sc.Peer.Rules[i]
		if r.done || r.On != on {
			continue
		}
		switch on {
		case "data", "zero":
			if r.N != n {
				continue
			}
		case "rcvd":
			if c.rcvNxt < r.N {
				continue
			}
		}
		r.done = true
		if r.After > 0 {
			rr := r
			c.after(time.Duration(r.After)*time.Millisecond, func() { c.act(rr); c.pump() })
		} else {
			c.act(r)
		}
	}
}

func (c *conn) ruleSack(r *prule) [][2]int {
	mode := r.Sack
	if mode == "" {
		mode = c.sc.Peer.Sack
	}
	if mode == "" || !(c.sackOn || mode == "nonsense") {
		return nil
	}
	return c.sackBlocks(mode)
}

func (c *conn) act(r *prule) {
	cnt := r.Count
	switch r.Do {
	case "dupacks":
		for i := 0; i < cnt; i++ {
			if r.Step != 0 {
				c.wnd += r.Step
				c.edge += r.Step
				if c.wnd < 0 {
					c.wnd = 0
				}
			}
			c.send(wire.ACK, c.curSeq(), c.curAck(), c.wndField(), c.ruleSack(r), nil, "dupburst")
		}
	case "wnd":
		c.wnd = r.Wnd
		c.edge = c.rcvNxt + r.Wnd
		for i := 0; i < cnt; i++ {
			if i == 0 || r.GapMS <= 0 {
				c.ackNow("wndupdate")
			} else {
				c.after(time.Duration(i*r.GapMS)*time.Millisecond, func() { c.ackNow("wndupdate") })
			}
		}
	case "ackfuture":
		if cnt <= 0 {
			cnt = 1
		}
		for i := 0; i < cnt; i++ {
			// beyond anything a can ever have sent (its whole stream and its FIN): what the script has seen of a's
			// emissions lags behind what a has really sent
			tot := 0
			for _, w := range c.sc.A.Writes {
				tot += w
			}
			a := 2 + tot + r.Bytes
			w := c.wndField()
			if r.Wnd >= 0 {
				w = r.Wnd >> c.wsEff
			}
			c.send(wire.ACK, c.curSeq(), a, w, c.ruleSack(r), nil, "ackfuture")
		}
	case "oldack":
		if cnt <= 0 {
			cnt = 1
		}
		for i := 0; i < cnt; i++ {
			a := c.curAck() - r.Bytes
			if a < 1 {
				a = 1
			}
			w := c.wndField()
			if r.Wnd >= 0 {
				w = r.Wnd >> c.wsEff
			}
			c.send(wire.ACK, c.curSeq(), a, w, c.ruleSack(r), nil, "oldack")
		}
	case "silent":
		c.silentTill = time.Now().Add(time.Duration(r.MS) * time.Millisecond)
		c.after(time.Duration(r.MS+1)*time.Millisecond, func() { c.pump() })
	case "write":
		if r.Bytes > 0 && !c.bWantFin {
			c.log.add(M{"ev": "wcall", "e": "b", "off": c.bWritten, "n": r.Bytes})
			c.log.add(M{"ev": "wret", "e": "b", "n": r.Bytes, "err": ""})
			c.bWritten += r.Bytes
		}
	case "fin":
		c.bWantFin = true
	case "ack":
		c.ackNow("forced")
	default:
		vh.Fatal("unknown rule action %q", r.Do)
	}
}

// pump sends the peer's own data (never beyond the window a advertised, never above a's MSS) and its FIN.
func (c *conn) pump() {
	if !c.estab || time.Now().Before(c.silentTill) {
		return // (a mute peer sends nothing; pump runs again when the silence ends)
	}
	lim := c.aMSS - 12
	if lim < 1 {
		lim = 1
	}
	for c.bSent < c.bWritten {
		n := c.bWritten - c.bSent
		if n > lim {
			n = lim
		}
		if room := c.aEdge - c.bSent; n > room {
			n = room
		}
		if n <= 0 {
			return
		}
		pl := make([]byte, n)
		for i := range pl {
			pl[i] = Byte(1, c.bSent+i)
		}
		c.send(wire.ACK|wire.PSH, 1+c.bSent, c.curAck(), c.wndField(), nil, pl, "pass")
		c.bSent += n
		c.pending = 0 // the data segment carried the cumulative ACK
	}
	if c.bWantFin && !c.bFinSent && c.bSent == c.bWritten {
		c.log.add(M{"ev": "shutw", "e": "b", "at": c.bWritten})
		c.send(wire.ACK|wire.FIN, 1+c.bSent, c.curAck(), c.wndField(), nil, nil, "pass")
		c.bFinSent = true
	}
}

func (c *conn) established() {
	if c.estab {
		return
	}
	c.estab = true
	c.upAt = time.Now()
	c.wnd = c.sc.Peer.Wnd
	c.edge = c.rcvNxt + c.sc.Peer.Wnd
	c.lastField = -1
	c.log.add(M{"ev": "up", "e": "b", "err": ""})
	for i := range c.sc.Peer.Rules {
		r := &c.sc.Peer.Rules[i]
		if r.On == "ms" {
			rr := r
			c.after(time.Duration(r.N)*time.Millisecond, func() {
				if !rr.done {
					rr.done = true
					c.act(rr)
					c.pump()
				}
			})
		}
	}
	c.fire("up", 0)
}

// fromA: one frame of the real stack reaches the script.
func (c *conn) fromA(q frameQ) {
	defer atomic.AddInt64(&c.infl, -1)
	if !q.ok {
		// passive a: the script opens the connection
		c.send(wire.SYN, 0, 0, c.sc.Peer.SynWnd, nil, nil, "pass")
		return
	}
	t := q.t
	ln := len(t.Payload)
	isData := ln > 0
	if isData {
		c.nData++
	}
	n := c.nData
	if t.Flags&wire.SYN != 0 && !c.aSynSeen {
		c.aSynSeen = true
		c.aport = t.SrcPort
		c.aMSS = 536
		if t.Opts.HasMSS {
			c.aMSS = int(t.Opts.MSS)
		}
		p := c.sc.Peer
		c.tsOn = p.TS && t.Opts.HasTS
		c.sackOn = p.SackPerm && t.Opts.SACKPerm
		if p.WS >= 0 && t.Opts.HasWS {
			c.wsEff = uint(p.WS)
			if c.wsEff > 14 {
				c.wsEff = 14
			}
			c.aScale = uint(t.Opts.WS)
		}
	}
	// pretended loss
	why := ""
	off := rel(t.Seq, c.a.iss) - 1
	if time.Now().Before(c.silentTill) {
		why = "silent"
	} else if isData && c.dropSet[n] {
		why = "script"
	} else if isData && c.dropOffs[off] > 0 {
		c.dropOffs[off]--
		why = "script"
	}
	if isData && off+ln > c.aMax {
		c.aMax = off + ln
	}
	if t.Flags&wire.FIN != 0 {
		c.aFinSeen = true
	}
	if why != "" {
		ev := q.info
		ev["ev"], ev["why"] = "drop", why
		c.log.add(ev)
		if isData {
			c.fire("data", n)
			c.pump()
		}
		return
	}
	ev := q.info
	ev["ev"], ev["to"], ev["how"] = "arrive", "b", "pass"
	c.log.add(ev)
	if t.Opts.HasTS {
		c.tsRecent = t.Opts.TSVal
	}
	if t.Flags&wire.RST != 0 {
		return
	}
	if t.Flags&wire.ACK != 0 && t.Flags&wire.SYN == 0 {
		if e := rel(t.Ack, c.iss) - 1 + int(t.Window)<<c.aScale; e > c.aEdge {
			c.aEdge = e
		}
	}
	switch {
	case t.Flags&wire.SYN != 0 && t.Flags&wire.ACK == 0:
		// a opens actively: answer with the scripted SYN-ACK
		c.send(wire.SYN|wire.ACK, 0, 1, c.sc.Peer.SynWnd, nil, nil, "pass")
	case t.Flags&wire.SYN != 0:
		// a's SYN-ACK (passive a): complete the handshake
		if e := rel(t.Ack, c.iss) - 1 + int(t.Window); e > c.aEdge {
			c.aEdge = e
		}
		c.wnd, c.edge = c.sc.Peer.Wnd, c.sc.Peer.Wnd
		c.send(wire.ACK, 1, 1, c.wndField(), nil, nil, "pass")
		c.established()
	default:
		c.established()
		if isData || t.Flags&wire.FIN != 0 {
			c.receive(t, n)
		}
	}
	if isData {
		c.fire("data", n)
		c.fire("rcvd", 0)
	}
	c.pump()
}

func (c *conn) script() {
	timer := time.NewTimer(time.Hour)
	defer timer.Stop()
	for {
		now := time.Now()
		for len(c.tq) > 0 && !c.tq[0].due.After(now) {
			f := c.tq[0].fn
			c.tq = c.tq[1:]
			f()
			now = time.Now()
			select {
			case <-c.done:
				return
			default:
			}
		}
		// frames of a that are already waiting are handled before sleeping
		select {
		case <-c.done:
			return
		case q := <-c.ch:
			c.fromA(q)
			continue
		default:
		}
		d := time.Hour
		if len(c.tq) > 0 {
			d = c.tq[0].due.Sub(now)
			if d < 0 {
				d = 0
			}
		}
		if !timer.Stop() {
			select {
			case <-timer.C:
			default:
			}
		}
		timer.Reset(d)
		select {
		case <-c.done:
			return
		case q := <-c.ch:
			c.fromA(q)
		case <-c.kick:
		case <-timer.C:
		}
	}
}

// ---------------------------------------------------------------- applications of a (as in tcpd)
func errS(e *tcpip.Error) string {
	if e == nil {
		return ""
	}
	return e.String()
}

func (c *conn) nap(d time.Duration) {
	select {
	case <-time.After(d):
	case <-c.done:
	}
}

func (c *conn) writer(wg *sync.WaitGroup) {
	defer wg.Done()
	cfg := c.sc.A
	ep, wq := c.ep, c.wq
	off := 0
	we, ch := waiter.NewChannelEntry(nil)
	wq.EventRegister(&we, waiter.EventOut|waiter.EventHUp|waiter.EventErr)
	defer wq.EventUnregister(&we)
	for _, n := range cfg.Writes {
		rem := n
		for rem > 0 {
			buf := make([]byte, rem)
			for i := range buf {
				buf[i] = Byte(0, off+i)
			}
			c.log.add(M{"ev": "wcall", "e": "a", "off": off, "n": rem})
			got, _, err := ep.Write(tcpip.SlicePayload(buf), tcpip.WriteOptions{})
			c.log.add(M{"ev": "wret", "e": "a", "n": int(got), "err": errS(err)})
			off += int(got)
			rem -= int(got)
			if err != nil && err != tcpip.ErrWouldBlock {
				return
			}
			if rem > 0 {
				select {
				case <-ch:
				case <-time.After(50 * time.Millisecond):
				case <-c.done:
					return
				}
			}
		}
		if cfg.WriteGapUS > 0 {
			c.nap(time.Duration(cfg.WriteGapUS) * time.Microsecond)
		}
	}
	if cfg.ShutAfterMS > 0 {
		c.nap(time.Duration(cfg.ShutAfterMS) * time.Millisecond)
	}
	if cfg.Shutdown {
		c.log.add(M{"ev": "shutw", "e": "a", "at": off})
		err := ep.Shutdown(tcpip.ShutdownWrite)
		c.log.add(M{"ev": "shutret", "e": "a", "err": errS(err)})
	}
}

func (c *conn) reader(wg *sync.WaitGroup) {
	defer wg.Done()
	cfg := c.sc.A
	if cfg.NoRead {
		return
	}
	ep, wq := c.ep, c.wq
	we, ch := waiter.NewChannelEntry(nil)
	wq.EventRegister(&we, waiter.EventIn|waiter.EventHUp|waiter.EventErr)
	defer wq.EventUnregister(&we)
	if cfg.ReadStartMS > 0 {
		c.nap(time.Duration(cfg.ReadStartMS) * time.Millisecond)
	}
	total := 0
	polled := false
	for {
		select {
		case <-c.done:
			return
		default:
		}
		v, _, err := ep.Read(nil)
		if err == tcpip.ErrWouldBlock {
			// sleep on the readiness notification; the 2 s poll is a rescue, and a rescue that finds something to read for
			// which no notification arrives within 300 ms is logged (see tcpd)
			polled = false
			select {
			case <-ch:
			case <-time.After(2 * time.Second):
				polled = true
			case <-c.done:
				return
			}
			continue
		}
		if polled {
			polled = false
			select {
			case <-ch:
			case <-time.After(300 * time.Millisecond):
				c.log.add(M{"ev": "missedwake", "e": "a", "what": "readable", "at": total})
			case <-c.done:
				return
			}
		}
		if err != nil {
			if err == tcpip.ErrClosedForReceive {
				c.log.add(M{"ev": "eos", "e": "a", "at": total})
			} else {
				c.log.add(M{"ev": "rerr", "e": "a", "err": err.String(), "at": total})
			}
			return
		}
		c.log.add(M{"ev": "read", "e": "a", "off": total, "n": len(v), "pay": wire.Ints(v)})
		total += len(v)
		if cfg.ReadMax > 0 && total >= cfg.ReadMax {
			c.log.add(M{"ev": "readstop", "e": "a", "at": total})
			return
		}
		if cfg.ReadDelayUS > 0 {
			c.nap(time.Duration(cfg.ReadDelayUS) * time.Microsecond)
		}
	}
}

func (c *conn) snapA() M {
	ep := c.getEp()
	if ep == nil {
		return M{"ok": false, "state": -1, "err": ""}
	}
	st, ok := tcp.VerifState(ep)
	if !ok {
		return M{"ok": false, "state": st.State, "err": st.HardError, "worker": st.Worker}
	}
	if st.Ssthresh > 1<<30 {
		st.Ssthresh = 1 << 30
	}
	m := M{"ok": true, "state": st.State, "err": st.HardError, "cwnd": st.Cwnd, "ssthresh": st.Ssthresh, "outstanding": st.Outstanding,
		"rto": int(st.RTOms), "resend": st.ResendArmed, "sndclosed": st.SndClosed, "sndbufused": st.SndBufUsed, "sndqueued": st.SndQueued,
		"unsent": st.Unsent, "rcvclosed": st.RcvClosed, "rcvbufused": st.RcvBufUsed, "pending": st.Pending, "segq": st.SegQueue,
		"sndwnd": st.SndWnd, "sndwndscale": st.SndWndScale, "maxpayload": st.MaxPayload, "worker": st.Worker, "dupack": st.DupAck, "fr": st.FRActive}
	if c.a.haveI {
		m["snduna"], m["sndnxt"] = rel(st.SndUna, c.a.iss), rel(st.SndNxt, c.a.iss)
	}
	if c.b.haveI {
		m["rcvnxt"] = rel(st.RcvNxt, c.b.iss)
	}
	return m
}

func runOne(sc scenario) []M {
	lg := &elog{t0: time.Now()}
	clock := wire.NewClock()
	mtu := uint32(sc.MTU)
	if mtu == 0 {
		mtu = 1500
	}
	ha := wire.NewHost(clock, "a", []wire.NICSpec{{ID: 1, MTU: mtu, Addr4: []string{"10.0.0.1"}, Addr6: []string{"fd00::1"}}})
	ha.S.SetTransportProtocolOption(tcp.ProtocolNumber, tcp.SACKEnabled(sc.SACK))
	if sc.CC != "" {
		ha.S.SetTransportProtocolOption(tcp.ProtocolNumber, tcp.CongestionControlOption(sc.CC))
	}
	ha.S.SetTransportProtocolOption(tcp.ProtocolNumber, tcp.SendBufferSizeOption{Min: 1, Default: tcp.DefaultBufferSize, Max: tcp.DefaultBufferSize * 10})
	ha.S.SetTransportProtocolOption(tcp.ProtocolNumber, tcp.ReceiveBufferSizeOption{Min: 1, Default: tcp.DefaultBufferSize, Max: tcp.DefaultBufferSize * 10})
	if sc.A.RcvBuf > 0 {
		ha.S.SetTransportProtocolOption(tcp.ProtocolNumber, tcp.ReceiveBufferSizeOption{Min: 1, Default: sc.A.RcvBuf, Max: tcp.DefaultBufferSize * 10})
	}
	c := &conn{sc: sc, log: lg, link: ha.Links[1], done: make(chan struct{}), ch: make(chan frameQ, 8192), kick: make(chan struct{}, 1),
		a: &rside{name: "a", d: 0, wsOpt: -1}, b: &rside{name: "b", d: 1, wsOpt: -1}, rng: rand.New(rand.NewSource(sc.Seed*11 + 5)),
		dropSet: map[int]bool{}, dropOffs: map[int]int{}, partial: map[int]int{}}
	c.np, c.aaddr, c.baddr = wire.ProtoIPv4, []byte(wire.A4("10.0.0.1")), []byte(wire.A4("10.0.0.2"))
	if sc.V == 6 {
		c.np, c.aaddr, c.baddr = wire.ProtoIPv6, []byte(wire.A6("fd00::1")), []byte(wire.A6("fd00::2"))
	}
	if len(sc.Peer.ISS) == 2 {
		c.iss = uint32(sc.Peer.ISS[0])<<16 | uint32(sc.Peer.ISS[1])
	} else {
		c.iss = uint32(c.rng.Int63())
	}
	for _, n := range sc.Peer.Drop {
		c.dropSet[n] = true
	}
	for _, d := range sc.Peer.DropOff {
		c.dropOffs[d.Off] += d.Times
	}
	for i := range sc.Peer.Rules {
		r := &c.sc.Peer.Rules[i]
		if r.Do == "partial" {
			c.partial[r.N] = r.Bytes
			r.done = true
		}
	}
	c.aEdge = 0
	c.link.OnEmit = c.tap
	rs := M{"ev": "reset", "tag": sc.Tag, "mtu": int(mtu), "v": sc.V, "sack": sc.SACK, "cc": sc.CC, "rcvbuf_a": sc.A.RcvBuf, "rcvbuf_b": 0,
		"seed": int(sc.Seed & 0x3fffffff), "sync": true, "raw_b": true, "passive_a": sc.A.Passive,
		"peer": M{"mss": sc.Peer.MSS, "ws": sc.Peer.WS, "sackperm": sc.Peer.SackPerm, "ts": sc.Peer.TS, "synwnd": sc.Peer.SynWnd, "wnd": sc.Peer.Wnd,
			"ack_every": sc.Peer.AckEvery, "delay_ms": sc.Peer.DelayMS, "sack": sc.Peer.Sack}}
	for k, v := range sc.Flags {
		rs[k] = v
	}
	lg.add(rs)
	go c.script()
	finish := func(why string) []M {
		time.Sleep(30 * time.Millisecond)
		lg.add(M{"ev": "end", "why": why, "a": c.snapA(), "b": M{"ok": false, "state": -1, "err": ""}, "infl": int(atomic.LoadInt64(&c.infl))})
		close(c.done)
		c.link.OnEmit = nil
		if ep := c.getEp(); ep != nil {
			ep.Close()
		}
		lg.mu.Lock()
		defer lg.mu.Unlock()
		return lg.evs
	}
	deadline := time.Duration(sc.Deadline) * time.Millisecond
	if deadline == 0 {
		deadline = 30 * time.Second
	}
	tmo := time.After(deadline)
	var cut <-chan time.Time
	if sc.RunMS > 0 {
		cut = time.After(time.Duration(sc.RunMS) * time.Millisecond)
	}
	if !sc.A.Passive {
		c.bport = 80
		wq := &waiter.Queue{}
		ep, err := ha.S.NewEndpoint(tcp.ProtocolNumber, c.np, wq)
		if err != nil {
			vh.Fatal("NewEndpoint: %v", err)
		}
		if sc.A.RcvBuf > 0 {
			ep.SetSockOpt(tcpip.ReceiveBufferSizeOption(sc.A.RcvBuf))
		}
		if sc.A.SndBuf > 0 {
			ep.SetSockOpt(tcpip.SendBufferSizeOption(sc.A.SndBuf))
		}
		c.setEp(ep, wq)
		we, ch := waiter.NewChannelEntry(nil)
		wq.EventRegister(&we, waiter.EventOut|waiter.EventHUp|waiter.EventErr)
		lg.add(M{"ev": "connect", "e": "a"})
		cerr := ep.Connect(tcpip.FullAddress{Addr: tcpip.Address(c.baddr), Port: 80})
		if cerr == tcpip.ErrConnectStarted {
			select {
			case <-ch:
			case <-tmo:
				wq.EventUnregister(&we)
				return finish("connect-timeout")
			}
			var eo tcpip.ErrorOption
			cerr = ep.GetSockOpt(eo)
		}
		wq.EventUnregister(&we)
		lg.add(M{"ev": "up", "e": "a", "err": errS(cerr)})
		if cerr != nil {
			return finish("connect-failed")
		}
	} else {
		c.bport, c.aport = 40000, 80
		lwq := &waiter.Queue{}
		lep, err := ha.S.NewEndpoint(tcp.ProtocolNumber, c.np, lwq)
		if err != nil {
			vh.Fatal("NewEndpoint: %v", err)
		}
		defer lep.Close()
		if sc.A.RcvBuf > 0 {
			lep.SetSockOpt(tcpip.ReceiveBufferSizeOption(sc.A.RcvBuf))
		}
		if err := lep.Bind(tcpip.FullAddress{Port: 80}, nil); err != nil {
			vh.Fatal("bind: %v", err)
		}
		if err := lep.Listen(4); err != nil {
			vh.Fatal("listen: %v", err)
		}
		lwe, lch := waiter.NewChannelEntry(nil)
		lwq.EventRegister(&lwe, waiter.EventIn)
		lg.add(M{"ev": "connect", "e": "b"})
		// the script opens: its SYN is sent by the script goroutine
		atomic.AddInt64(&c.infl, 1)
		c.ch <- frameQ{ok: false, info: M{"start": true}}
		for {
			ep, wq, aerr := lep.Accept()
			if aerr == nil {
				if sc.A.SndBuf > 0 {
					ep.SetSockOpt(tcpip.SendBufferSizeOption(sc.A.SndBuf))
				}
				c.setEp(ep, wq)
				break
			}
			if aerr != tcpip.ErrWouldBlock {
				lg.add(M{"ev": "up", "e": "a", "err": aerr.String()})
				return finish("accept-failed")
			}
			select {
			case <-lch:
			case <-tmo:
				return finish("accept-timeout")
			}
		}
		lwq.EventUnregister(&lwe)
		lg.add(M{"ev": "up", "e": "a", "err": ""})
	}
	var wg sync.WaitGroup
	wg.Add(2)
	go c.writer(&wg)
	go c.reader(&wg)
	appsDone := make(chan struct{})
	go func() { wg.Wait(); close(appsDone) }()
	select {
	case <-appsDone:
		// let the closing exchange finish: wait until quiet
		for i := 0; i < 200; i++ {
			e0 := atomic.LoadInt64(&c.emits)
			time.Sleep(20 * time.Millisecond)
			if atomic.LoadInt64(&c.emits) == e0 && atomic.LoadInt64(&c.infl) == 0 {
				sa := c.snapA()
				if sa["ok"] == true && sa["resend"] == false {
					break
				}
			}
		}
		return finish("done")
	case <-cut:
		return finish("script-end")
	case <-tmo:
		return finish("deadline")
	}
}

func atoi(s string) int {
	n, err := strconv.Atoi(s)
	if err != nil {
		vh.Fatal("bad int %q", s)
	}
	return n
}

func main() {
	vh.Quiet()
	if len(os.Args) < 4 || os.Args[1] != "pair" {
		vh.Fatal("usage: tcprawd pair scenarios.json out.ndjson [parallel]")
	}
	var scs []scenario
	vh.LoadJSON(os.Args[2], &scs)
	par := 32
	if len(os.Args) > 4 {
		par = atoi(os.Args[4])
	}
	for i := range scs {
		if scs[i].Cookie {
			tcp.SynRcvdCountThreshold = 0 // as under a SYN flood: no half-open endpoint, the connection is created from the cookie
		}
	}
	res := make([][]M, len(scs))
	sem := make(chan struct{}, par)
	var wg sync.WaitGroup
	for i := range scs {
		wg.Add(1)
		sem <- struct{}{}
		go func(i int) {
			defer wg.Done()
			defer func() { <-sem }()
			defer func() {
				if r := recover(); r != nil {
					res[i] = append(res[i], M{"ev": "reset", "tag": scs[i].Tag}, M{"ev": "panic", "what": fmt.Sprint(r)})
				}
			}()
			res[i] = runOne(scs[i])
		}(i)
	}
	wg.Wait()
	tr := vh.NewTrace(os.Args[3])
	for i := range res {
		for _, e := range res[i] {
			e["sc"] = i
			tr.Log(e)
		}
	}
	tr.Close()
}
