// udpraced: concurrent histories on one UDP socket of a real stack (E4 for
// C11/C09): injector goroutines deliver datagrams (unique payloads) while
// reader goroutines Read; a second socket on another port must never see
// them.  call/ret events in one totally ordered log.
//   udpraced run <out.ndjson> <seed> <histories> <injectors> <readers> <ops>
package main

import (
	"math/rand"
	"os"
	"runtime"
	"strconv"
	"sync"

	"github.com/brewlin/net-protocol/pkg/waiter"
	tcpip "github.com/brewlin/net-protocol/protocol"
	"github.com/brewlin/net-protocol/protocol/transport/udp"
	"verifh/vh"
	"verifh/wire"
)

type M = map[string]interface{}

func atoi(s string) int {
	n, err := strconv.Atoi(s)
	if err != nil {
		vh.Fatal("bad int %q", s)
	}
	return n
}

func main() {
	vh.Quiet()
	if len(os.Args) < 8 {
		vh.Fatal("usage")
	}
	tr := vh.NewTrace(os.Args[2])
	seed, hists, ninj, nrd, ops := int64(atoi(os.Args[3])), atoi(os.Args[4]), atoi(os.Args[5]), atoi(os.Args[6]), atoi(os.Args[7])
	for h := 0; h < hists; h++ {
		clock := wire.NewClock()
		host := wire.NewHost(clock, "h", []wire.NICSpec{{ID: 1, MTU: 1500, Addr4: []string{"10.0.0.1"}}})
		link := host.Links[1]
		mk := func(port uint16) tcpip.Endpoint {
			ep, err := host.S.NewEndpoint(udp.ProtocolNumber, wire.ProtoIPv4, &waiter.Queue{})
			if err != nil {
				vh.Fatal("NewEndpoint: %v", err)
			}
			if err := ep.Bind(tcpip.FullAddress{Port: port}, nil); err != nil {
				vh.Fatal("Bind: %v", err)
			}
			return ep
		}
		rcvbuf := []int{0, 0, 64, 200}[h%4]
		ep := mk(5000)
		if rcvbuf > 0 {
			ep.SetSockOpt(tcpip.ReceiveBufferSizeOption(rcvbuf))
		}
		other := mk(5001)
		tr.Log(M{"ev": "reset", "hist": h, "rcvbuf": rcvbuf})
		var wg sync.WaitGroup
		start := make(chan struct{})
		for g := 0; g < ninj; g++ {
			wg.Add(1)
			go func(g int) {
				defer wg.Done()
				<-start
				r := rand.New(rand.NewSource(seed*7919 + int64(h)*131 + int64(g)))
				for k := 0; k < ops; k++ {
					id := g*100 + k
					n := []int{0, 1, 20, 90}[r.Intn(4)]
					pl := wire.Pattern(id, n)
					src := []byte(wire.A4("10.0.0.9"))
					pkt := wire.BuildIPv4(src, []byte(wire.A4("10.0.0.1")), 17,
						wire.BuildUDP(src, []byte(wire.A4("10.0.0.1")), uint16(1000+g), 5000, pl, wire.UDPOpts{}), wire.IPv4Opts{ID: uint16(id + 1)})
					tr.Log(M{"ev": "call", "g": g, "op": "inject", "id": id, "n": n, "sport": 1000 + g, "sum": int(wire.Sum1071(pl, 0))})
					link.Inject(wire.ProtoIPv4, pkt, "")
					tr.Log(M{"ev": "ret", "g": g})
					runtime.Gosched()
				}
			}(g)
		}
		for g := 0; g < nrd; g++ {
			wg.Add(1)
			go func(g int) {
				defer wg.Done()
				<-start
				for k := 0; k < ops+1; k++ {
					if k%2 == 1 {
						runtime.Gosched()
					}
					tr.Log(M{"ev": "call", "g": 10 + g, "op": "read"})
					var fa tcpip.FullAddress
					v, _, err := ep.Read(&fa)
					if err != nil {
						tr.Log(M{"ev": "ret", "g": 10 + g, "ok": false, "err": err.String()})
					} else {
						tr.Log(M{"ev": "ret", "g": 10 + g, "ok": true, "n": len(v), "sport": int(fa.Port), "sum": int(wire.Sum1071(v, 0))})
					}
				}
			}(g)
		}
		close(start)
		wg.Wait()
		// drain both sockets sequentially: what is left, in order; the other socket must hold nothing
		for {
			tr.Log(M{"ev": "call", "g": 10, "op": "read"})
			var fa tcpip.FullAddress
			v, _, err := ep.Read(&fa)
			if err != nil {
				tr.Log(M{"ev": "ret", "g": 10, "ok": false, "err": err.String()})
				break
			}
			tr.Log(M{"ev": "ret", "g": 10, "ok": true, "n": len(v), "sport": int(fa.Port), "sum": int(wire.Sum1071(v, 0))})
		}
		_, _, err := other.Read(nil)
		tr.Log(M{"ev": "other", "empty": err == tcpip.ErrWouldBlock})
		ep.Close()
		other.Close()
	}
	tr.Close()
}
