// Driver for C08: the real fragmentation.Fragmentation at its exported API.
//
//	graph   SCRIPT.json            replay every path of the single-caller TLC graph (Frag.tla, Atomic) with
//	                               real bytes in several block->byte variants; compare (done, payload) with the
//	                               P-expectation carried by the model states, and the I-level projection
//	seq     OUT.ndjson SEED N      seeded sequential histories (cuts, orders, duplicates, overlaps, several keys,
//	                               some inconsistent) logged as call/ret events for TraceFrag
//	gate    SCENARIO.json          2 callers under the gate scheduler (hook H7): complete interleaving graph of
//	                               the real code at critical-section granularity, with P-level events per edge
//	long    OUT.ndjson SEED N [thorough]  datagrams of 16..40 fragments (hole list outgrows its capacity), re-sends, tail withheld
//	race    OUT.ndjson SEED H G K  free-running goroutines, call/ret history for linearizability by TLC
//	timeout OUT.ndjson SEED N      400 ms reassembly timeout, timed arrivals (creeping / one long gap / fast), t0/t1 per call
//	steps / gatepath IN OUT        re-run one recorded sequence / gate schedule (vcheck --replay)
//
// Every call of Process runs under recover(); a panic is reported, never fatal.
package main

import (
	"fmt"
	"math/rand"
	"os"
	"sort"
	"strconv"
	"sync"
	"time"

	"github.com/brewlin/net-protocol/pkg/buffer"
	"github.com/brewlin/net-protocol/protocol/network/fragmentation"
	"verifh/gate"
	"verifh/vh"
)

const bigMem = 1 << 30

var longTimeout = time.Hour

// pat is the content of byte p of the datagram of key k sent in epoch ep:
// distinct per position (p < 251), per key and per epoch at every position.
func pat(k, ep, p int) byte { return byte((p*7 + k*61 + ep*29 + 13) % 251) }

func keyID(k int) uint32 { return uint32(k) * 0x9E3779B1 }

// frag is a fragment in block units (the units of the model).
type frag struct {
	K     int  `json:"k"`
	First int  `json:"first"`
	Last  int  `json:"last"`
	More  bool `json:"more"`
}

// variant: how blocks become bytes.
type variant struct {
	Name     string `json:"name"`
	Scale    int    `json:"scale"`    // bytes per block
	Views    int    `json:"views"`    // max number of views per fragment (<=1: single view)
	Tail     int    `json:"tail"`     // bytes in the final block of a more=false fragment (0: full block)
	ICompare bool   `json:"icompare"` // compare the I-level projection with the model state
	Recycle  bool   `json:"recycle"`  // the caller recycles its []buffer.View slice like the fdbased link endpoint
	rc       *recycler
}

// recycler is the buffer discipline of link/fdbased's dispatch loop: one
// []buffer.View slice lives as long as the endpoint; for every frame its
// first `used` slots are filled with freshly allocated views, the
// VectorisedView handed up is built directly on that slice, and after the
// upcall returns the slots are set to nil (and refilled for the next frame).
// The byte arrays themselves are new for every frame.
type recycler struct {
	slots []buffer.View
	used  int
}

func newRecycler() *recycler { return &recycler{slots: make([]buffer.View, 6)} }

func (rc *recycler) wrap(pieces []buffer.View, n int) buffer.VectorisedView {
	rc.used = copy(rc.slots, pieces)
	return buffer.NewVectorisedView(n, rc.slots[:rc.used])
}

func (rc *recycler) release() {
	if rc == nil {
		return
	}
	for i := 0; i < rc.used; i++ {
		rc.slots[i] = nil
	}
	rc.used = 0
}

// withRecycler returns v with its own recycler when v.Recycle is set.
func (v variant) withRecycler() variant {
	if v.Recycle {
		v.rc = newRecycler()
	}
	return v
}

func (v variant) byteRange(f frag) (int, int) {
	first := f.First * v.Scale
	last := (f.Last+1)*v.Scale - 1
	if !f.More && v.Tail > 0 {
		last = f.Last*v.Scale + v.Tail - 1
	}
	return first, last
}

func mkvv(k, ep, first, last, views int, rc *recycler) (buffer.VectorisedView, []byte) {
	n := last - first + 1
	b := make([]byte, n)
	for i := range b {
		b[i] = pat(k, ep, first+i)
	}
	ref := append([]byte{}, b...)
	var vs []buffer.View
	if views <= 1 {
		vs = []buffer.View{buffer.View(b)}
	} else {
		off, sz := 0, 1
		for off < n && len(vs) < views-1 {
			e := off + sz
			if e > n {
				e = n
			}
			vs = append(vs, buffer.View(b[off:e]))
			off = e
			sz = sz*2 + 1
		}
		if off < n {
			vs = append(vs, buffer.View(b[off:]))
		}
	}
	if rc != nil {
		return rc.wrap(vs, n), ref
	}
	return buffer.NewVectorisedView(n, vs), ref
}

type result struct {
	Done    bool
	Payload []byte
	Size    int // the size field of the returned VectorisedView
	Panic   string
}

func call(f *fragmentation.Fragmentation, id uint32, first, last int, more bool, vv buffer.VectorisedView, rc *recycler) (r result) {
	defer rc.release() // after the upcall (and whatever it handed up has been consumed), as fdbased does
	defer func() {
		if e := recover(); e != nil {
			r = result{Panic: fmt.Sprint(e)}
		}
	}()
	out, done := f.Process(id, uint16(first), uint16(last), more, vv)
	r.Done = done
	r.Size = out.Size()
	for _, v := range out.Views() {
		r.Payload = append(r.Payload, v...)
	}
	return r
}

func ints(b []byte) []int {
	out := make([]int, len(b))
	for i, x := range b {
		out[i] = int(x)
	}
	return out
}

// ---------------------------------------------------------------- graph

type gscript struct {
	vh.Graph
	Variants []variant `json:"variants"`
	High     int       `json:"high"` // blocks; >= 99: unlimited
	Low      int       `json:"low"`
	NKeys    int       `json:"nkeys"`
	INF      int       `json:"inf"`
}

func fragOf(a []interface{}) frag {
	m := vh.Map(a[1])
	return frag{K: vh.Int(a[0]), First: vh.Int(m["first"]), Last: vh.Int(m["last"]), More: vh.Bool(m["more"])}
}

// iproj renders the I-level projection of the real state in model units.
func iproj(st fragmentation.VerifFragState, v variant, keyOf map[uint32]int) string {
	s := fmt.Sprintf("fsize=%d lru=[", st.Size)
	for _, r := range st.List {
		s += fmt.Sprintf("%d ", keyOf[r.ID])
	}
	s += "]"
	rs := append([]fragmentation.VerifReassembler{}, st.List...)
	sort.Slice(rs, func(i, j int) bool { return keyOf[rs[i].ID] < keyOf[rs[j].ID] })
	for _, r := range rs {
		s += fmt.Sprintf(" k%d{holes=", keyOf[r.ID])
		for _, h := range r.Holes {
			s += fmt.Sprintf("(%d,%d,%v)", h.First, h.Last, h.Deleted)
		}
		hp := [][2]int{}
		for _, e := range r.Heap {
			hp = append(hp, e)
		}
		sort.Slice(hp, func(i, j int) bool { return hp[i][0] < hp[j][0] || (hp[i][0] == hp[j][0] && hp[i][1] < hp[j][1]) })
		s += fmt.Sprintf(" del=%d heap=%v size=%d}", r.Deleted, hp, r.Size)
	}
	return s
}

// mproj renders the same projection from a model state (block units scaled to bytes).
func mproj(st map[string]interface{}, v variant, inf int) string {
	sc := v.Scale
	s := fmt.Sprintf("fsize=%d lru=[", vh.Int(st["fsize"])*sc)
	for _, k := range vh.List(st["lru"]) {
		s += fmt.Sprintf("%d ", vh.Int(k))
	}
	s += "]"
	for i, o := range vh.List(st["obj"]) {
		m := vh.Map(o)
		if !vh.Bool(m["live"]) {
			continue
		}
		s += fmt.Sprintf(" k%d{holes=", i+1)
		for _, h := range vh.List(m["holes"]) {
			hm := vh.Map(h)
			last := (vh.Int(hm["last"])+1)*sc - 1
			if vh.Int(hm["last"]) == inf {
				last = 65535
			}
			s += fmt.Sprintf("(%d,%d,%v)", vh.Int(hm["first"])*sc, last, vh.Bool(hm["del"]))
		}
		hp := [][2]int{}
		for _, e := range vh.List(m["heap"]) {
			em := vh.Map(e)
			hp = append(hp, [2]int{vh.Int(em["off"]) * sc, vh.Int(em["len"]) * sc})
		}
		sort.Slice(hp, func(i, j int) bool { return hp[i][0] < hp[j][0] || (hp[i][0] == hp[j][0] && hp[i][1] < hp[j][1]) })
		s += fmt.Sprintf(" del=%d heap=%v size=%d}", vh.Int(m["del"]), hp, vh.Int(m["size"])*sc)
	}
	return s
}

func graph(path string) {
	var g gscript
	vh.LoadJSON(path, &g)
	res := vh.Result{Mismatches: []vh.Mismatch{}, Extra: map[string]interface{}{}}
	keyOf := map[uint32]int{}
	for k := 1; k <= 8; k++ {
		keyOf[keyID(k)] = k
	}
	calls, delivered, panics, crashIncons, drifts := 0, 0, 0, 0, 0
	var sample []interface{}
	nprop, ndrift := 0, 0
	add := func(pi, si int, kind, what string, want, got interface{}) {
		// separate caps: I-level drift must not crowd out P-level mismatches
		if kind == "drift" {
			ndrift++
			if ndrift > 6 {
				return
			}
		} else {
			nprop++
			if nprop > 40 {
				return
			}
		}
		res.Mismatches = append(res.Mismatches, vh.Mismatch{Path: pi, Step: si, Kind: kind, What: what, Want: want, Got: got})
	}
	for pi, p := range g.Paths {
		for _, v := range g.Variants {
			v = v.withRecycler()
			hi, lo := bigMem, bigMem/2
			if g.High < 99 {
				hi, lo = g.High*v.Scale, g.Low*v.Scale
			}
			f := fragmentation.NewFragmentation(hi, lo, longTimeout)
			drifted := false
			for si, st := range p {
				if st.Act != "Arrive" {
					vh.Fatal("unexpected action %s", st.Act)
				}
				fr := fragOf(st.Args)
				first, last := v.byteRange(fr)
				vv, _ := mkvv(fr.K, 0, first, last, v.Views, v.rc)
				r := call(f, keyID(fr.K), first, last, fr.More, vv, v.rc)
				calls++
				res.Steps++
				ms := g.States[st.Dst]
				exp := vh.Map(ms["exp"])
				cons, complete, must := vh.Bool(exp["cons"]), vh.Bool(exp["complete"]), vh.Bool(exp["must"])
				got := map[string]interface{}{"variant": v.Name, "done": r.Done, "len": len(r.Payload), "panic": r.Panic}
				if r.Panic != "" {
					panics++
					if !cons {
						crashIncons++
						add(pi, si, "property", "crash_on_inconsistent", nil, got)
					} else {
						add(pi, si, "property", "panic on a consistent fragment sequence", nil, got)
					}
					break
				}
				if r.Done {
					delivered++
				}
				if r.Size != len(r.Payload) {
					add(pi, si, "property", "returned VectorisedView size field differs from its content", r.Size, got)
				}
				switch {
				case r.Done && !complete:
					add(pi, si, "property", "handed up before a complete set (incl. last fragment) arrived", false, got)
				case must && !r.Done:
					add(pi, si, "property", "complete consistent set not delivered", true, got)
				case !r.Done && len(r.Payload) != 0:
					add(pi, si, "property", "payload handed up without done", 0, got)
				case r.Done && cons:
					n := vh.Int(exp["len"]) * v.Scale
					if v.Tail > 0 {
						n = (vh.Int(exp["len"])-1)*v.Scale + v.Tail
					}
					ok := len(r.Payload) == n
					badAt := -1
					for i := 0; ok && i < n; i++ {
						if r.Payload[i] != pat(fr.K, 0, i) {
							ok = false
							badAt = i
						}
					}
					if !ok {
						got["bad_at"] = badAt
						got["payload"] = ints(r.Payload)
						add(pi, si, "property", "payload is not byte-for-byte the original datagram", n, got)
					}
				case r.Done && !cons:
					// inconsistent sender: only "never mixed" applies - every byte is content of this key
					pool := map[byte]bool{}
					for i := 0; i < 251; i++ {
						pool[pat(fr.K, 0, i)] = true
					}
					for i, b := range r.Payload {
						if !pool[b] {
							got["bad_at"] = i
							add(pi, si, "property", "payload contains bytes that are not content of this key", nil, got)
							break
						}
					}
				}
				if v.ICompare && !drifted {
					want := mproj(ms, v, g.INF)
					have := iproj(fragmentation.VerifState(f), v, keyOf)
					if want != have {
						drifted = true
						drifts++
						add(pi, si, "drift", "I-level projection ("+v.Name+")", want, have)
					}
				}
				if len(sample) < 3 && r.Done && si >= 2 {
					sample = append(sample, map[string]interface{}{"variant": v.Name, "path": pi, "last": fr, "done": true, "payload": ints(r.Payload)})
				}
			}
		}
		res.Paths++
	}
	res.Extra["calls"] = calls
	res.Extra["delivered"] = delivered
	res.Extra["panics"] = panics
	res.Extra["crash_on_inconsistent"] = crashIncons
	res.Extra["drifts"] = drifts
	res.Extra["property_mismatches"] = nprop
	res.Extra["samples"] = sample
	vh.Emit(res)
}

// ---------------------------------------------------------------- workloads

// cut returns a consistent fragment set for a datagram of d blocks of key k:
// a random partition plus duplicates and overlapping extra fragments.
func cut(r *rand.Rand, k, d int) []frag {
	var fs []frag
	for b := 0; b < d; {
		e := b + r.Intn(d-b)
		if r.Intn(3) == 0 {
			e = b
		}
		fs = append(fs, frag{K: k, First: b, Last: e, More: e < d-1})
		b = e + 1
	}
	n := len(fs)
	for i := 0; i < n; i++ {
		if r.Intn(4) == 0 {
			fs = append(fs, fs[i]) // duplicate
		}
	}
	if r.Intn(3) == 0 { // overlapping extra fragment, content agrees by construction
		a := r.Intn(d)
		b := a + r.Intn(d-a)
		fs = append(fs, frag{K: k, First: a, Last: b, More: b < d-1})
	}
	r.Shuffle(len(fs), func(i, j int) { fs[i], fs[j] = fs[j], fs[i] })
	return fs
}

func anyFrags(r *rand.Rand, k, nb, n int) []frag {
	var fs []frag
	for i := 0; i < n; i++ {
		a := r.Intn(nb)
		b := a + r.Intn(nb-a)
		fs = append(fs, frag{K: k, First: a, Last: b, More: r.Intn(2) == 0})
	}
	return fs
}

// interleave merges per-key lists keeping nothing but randomness.
func interleave(r *rand.Rand, lists [][]frag) []frag {
	var out []frag
	for {
		var nz []int
		for i, l := range lists {
			if len(l) > 0 {
				nz = append(nz, i)
			}
		}
		if len(nz) == 0 {
			return out
		}
		i := nz[r.Intn(len(nz))]
		out = append(out, lists[i][0])
		lists[i] = lists[i][1:]
	}
}

var seqVariants = []variant{
	{Name: "x1", Scale: 1}, {Name: "x8", Scale: 8}, {Name: "x8v3", Scale: 8, Views: 3},
	{Name: "x24v4", Scale: 24, Views: 4}, {Name: "x8tail3", Scale: 8, Views: 2, Tail: 3},
}

func callEv(g int, fr frag, v variant, ep int) (map[string]interface{}, int, int, buffer.VectorisedView) {
	first, last := v.byteRange(fr)
	vv, ref := mkvv(fr.K, ep, first, last, v.Views, v.rc)
	return map[string]interface{}{"ev": "call", "g": g, "k": fr.K, "first": first, "last": last, "more": fr.More,
		"bytes": ints(ref), "ep": ep, "t0": 0, "t1": 0}, first, last, vv
}

func retEv(g int, r result) map[string]interface{} {
	if r.Panic != "" {
		return map[string]interface{}{"ev": "panic", "g": g, "panic": r.Panic}
	}
	if r.Size != len(r.Payload) {
		return map[string]interface{}{"ev": "badsize", "g": g, "size": r.Size, "payload": ints(r.Payload)}
	}
	return map[string]interface{}{"ev": "ret", "g": g, "done": r.Done, "payload": ints(r.Payload)}
}

func seq(out string, seed int64, n int) {
	tr := vh.NewTrace(out)
	r := rand.New(rand.NewSource(seed))
	for h := 0; h < n; h++ {
		v := seqVariants[r.Intn(len(seqVariants))]
		nk := 1 + r.Intn(3)
		incons := r.Intn(5) == 0
		if incons && v.Tail > 0 {
			v.Tail = 0
		}
		var lists [][]frag
		for k := 1; k <= nk; k++ {
			d := 1 + r.Intn(5)
			if incons {
				lists = append(lists, anyFrags(r, k, 5, 2+r.Intn(4)))
			} else {
				lists = append(lists, cut(r, k, d))
			}
		}
		fs := interleave(r, lists)
		if len(fs) > 14 {
			fs = fs[:14]
		}
		f := fragmentation.NewFragmentation(bigMem, bigMem/2, longTimeout)
		v.Recycle = h%2 == 1
		v = v.withRecycler()
		tr.Log(map[string]interface{}{"ev": "reset", "mode": "strict", "hist": h, "variant": v.Name, "inconsistent": incons, "recycle": v.Recycle})
		for _, fr := range fs {
			ev, first, last, vv := callEv(0, fr, v, 0)
			tr.Log(ev)
			res := call(f, keyID(fr.K), first, last, fr.More, vv, v.rc)
			tr.Log(retEv(0, res))
			if res.Panic != "" {
				break
			}
		}
	}
	tr.Close()
}

// longMode: datagrams of MANY 8-byte fragments (16..40), so that the hole list of
// the reassembler grows past its initial capacity, with the tail withheld until
// the end.  Two families, all sequential, mode "strict":
//
//	skip   systematic: in-order prefix F0..F(j-1), then F(j+2), then F(j), then a re-send around j
//	       (exact duplicate of F(j) / 16-byte fragment F(j-1)+F(j) / 16-byte fragment F(j)+F(j+1), same
//	       content), then the rest in order, for every position j in a window, D = 20 and 36 (thorough: more)
//	rand   seeded: base order in-order / every second fragment first / reversed chunks / random inserts,
//	       after each arrival sometimes a duplicate or an overlapping re-send of a recently received range
//
// Nothing may be handed up before the withheld tail arrives; then exactly the datagram.
func longMode(out string, seed int64, n int, thorough bool) {
	tr := vh.NewTrace(out)
	r := rand.New(rand.NewSource(seed))
	v0 := variant{Name: "x8", Scale: 8}
	nhist := 0
	one := func(k, b, d int) frag { return frag{K: k, First: b, Last: b, More: b < d-1} }
	span := func(k, a, b, d int) frag { return frag{K: k, First: a, Last: b, More: b < d-1} }
	run := func(info map[string]interface{}, fs []frag) {
		f := fragmentation.NewFragmentation(bigMem, bigMem/2, longTimeout)
		v := v0
		v.Recycle = nhist%2 == 1
		if nhist%4 >= 2 {
			v.Views = 3
		}
		nhist++
		v = v.withRecycler()
		ev := map[string]interface{}{"ev": "reset", "mode": "strict", "variant": v.Name, "calls": len(fs), "recycle": v.Recycle, "views": v.Views}
		for k, x := range info {
			ev[k] = x
		}
		tr.Log(ev)
		for _, fr := range fs {
			ce, first, last, vv := callEv(0, fr, v, 0)
			tr.Log(ce)
			res := call(f, keyID(fr.K), first, last, fr.More, vv, v.rc)
			tr.Log(retEv(0, res))
			if res.Panic != "" {
				return
			}
		}
	}
	// ---- skip family
	type win struct{ d, lo, hi int }
	wins := []win{{20, 8, 15}, {36, 27, 31}}
	if thorough {
		wins = []win{{18, 1, 14}, {20, 1, 16}, {24, 1, 20}, {36, 1, 32}, {40, 1, 36}}
	}
	for _, w := range wins {
		for j := w.lo; j <= w.hi; j++ {
			for kind := 0; kind < 3; kind++ {
				k := 1 + (j+kind)%3
				tail := 1 + (j+kind)%3
				var fs []frag
				for b := 0; b < j; b++ {
					fs = append(fs, one(k, b, w.d))
				}
				fs = append(fs, one(k, j+2, w.d), one(k, j, w.d))
				switch kind {
				case 0:
					fs = append(fs, one(k, j, w.d))
				case 1:
					fs = append(fs, span(k, j-1, j, w.d))
				case 2:
					fs = append(fs, span(k, j, j+1, w.d))
				}
				fs = append(fs, one(k, j+1, w.d))
				for b := j + 3; b < w.d; b++ {
					if b < w.d-tail {
						fs = append(fs, one(k, b, w.d))
					}
				}
				for b := w.d - tail; b < w.d; b++ { // the withheld tail
					if b > j+2 {
						fs = append(fs, one(k, b, w.d))
					}
				}
				run(map[string]interface{}{"family": "skip", "d": w.d, "j": j, "kind": kind}, fs)
			}
		}
	}
	// ---- seeded family
	for h := 0; h < n; h++ {
		d := 16 + r.Intn(25)
		k := 1 + r.Intn(3)
		tail := 1 + r.Intn(4)
		body := d - tail
		var order []int
		shape := []string{"inorder", "evens-first", "rev-chunks", "inserts"}[h%4]
		switch shape {
		case "inorder":
			for b := 0; b < body; b++ {
				order = append(order, b)
			}
		case "evens-first":
			for b := 0; b < body; b += 2 {
				order = append(order, b)
			}
			for b := 1; b < body; b += 2 {
				order = append(order, b)
			}
		case "rev-chunks":
			c := 2 + r.Intn(4)
			for a := 0; a < body; a += c {
				e := a + c
				if e > body {
					e = body
				}
				for b := e - 1; b >= a; b-- {
					order = append(order, b)
				}
			}
		case "inserts":
			for b := 0; b < body; b++ {
				order = append(order, b)
			}
			for x := 0; x < body/3; x++ { // move some fragments a few places later
				i := r.Intn(body - 1)
				j := i + 1 + r.Intn(3)
				if j >= body {
					j = body - 1
				}
				order[i], order[j] = order[j], order[i]
			}
		}
		var fs []frag
		got := map[int]bool{}
		var recent []int
		for _, b := range order {
			fs = append(fs, one(k, b, d))
			got[b] = true
			recent = append(recent, b)
			if len(recent) > 4 {
				recent = recent[1:]
			}
			if r.Intn(4) == 0 { // re-send around a recently received block
				c := recent[r.Intn(len(recent))]
				switch x := r.Intn(3); {
				case x == 0:
					fs = append(fs, one(k, c, d))
				case x == 1 && c > 0 && got[c-1]:
					fs = append(fs, span(k, c-1, c, d))
				case c+1 < body && got[c+1]:
					fs = append(fs, span(k, c, c+1, d))
				default:
					fs = append(fs, one(k, c, d))
				}
			}
		}
		for b := body; b < d; b++ {
			fs = append(fs, one(k, b, d))
		}
		run(map[string]interface{}{"family": "rand", "d": d, "shape": shape}, fs)
	}
	tr.Close()
}

// race: G goroutines deliver the fragments of several datagrams concurrently.
func race(out string, seed int64, hists, G, K int) {
	fragmentation.VerifSetHook(nil)
	tr := vh.NewTrace(out)
	r := rand.New(rand.NewSource(seed))
	for h := 0; h < hists; h++ {
		v := seqVariants[1+r.Intn(3)]
		nk := 2 + r.Intn(2)
		var all []frag
		for k := 1; k <= nk; k++ {
			all = append(all, cut(r, k, 1+r.Intn(4))...)
		}
		r.Shuffle(len(all), func(i, j int) { all[i], all[j] = all[j], all[i] })
		if len(all) > G*K {
			all = all[:G*K]
		}
		per := make([][]frag, G)
		for i, fr := range all {
			per[i%G] = append(per[i%G], fr)
		}
		f := fragmentation.NewFragmentation(bigMem, bigMem/2, longTimeout)
		v.Recycle = h%2 == 1
		tr.Log(map[string]interface{}{"ev": "reset", "mode": "strict", "hist": h, "variant": v.Name, "recycle": v.Recycle})
		start := make(chan struct{})
		var wg sync.WaitGroup
		for g := 0; g < G; g++ {
			wg.Add(1)
			go func(g int, fs []frag) {
				defer wg.Done()
				gv := v.withRecycler() // every goroutine is its own "link endpoint"
				<-start
				for _, fr := range fs {
					ev, first, last, vv := callEv(g, fr, gv, 0)
					tr.Log(ev)
					res := call(f, keyID(fr.K), first, last, fr.More, vv, gv.rc)
					tr.Log(retEv(g, res))
				}
			}(g, per[g])
		}
		close(start)
		wg.Wait()
	}
	tr.Close()
}

// timeoutMode: real-clock histories on a Fragmentation with a short reassembly
// timeout T.  Every call is logged with the harness clock read before the
// call (t0, rounded down) and after its return (t1, rounded up); the trace
// spec derives from them which fragments are certainly older / certainly
// younger than T when a later fragment is processed, so scheduling jitter can
// only make the verdict weaker, never wrong.  Shapes:
//
//	creep  some fragments at 0, one at 0.6 T, the last one (content of a later datagram that reuses
//	       the id) at 1.25 T: every gap is shorter than T, first-to-last is longer
//	gap    fragments, one pause of 1.3 T, the rest
//	fast   all fragments well inside T: must be delivered
//
// and afterwards the early fragments again with the later content.
const timeoutMS = 400

func timeoutMode(out string, seed int64, n int) {
	tr := vh.NewTrace(out)
	r := rand.New(rand.NewSource(seed))
	T := time.Duration(timeoutMS) * time.Millisecond
	type tcase struct {
		v      variant
		shape  string
		k, d   int
		fs     []frag
		events []map[string]interface{}
	}
	shapes := []string{"creep", "creep", "gap", "fast"}
	cases := make([]*tcase, n)
	for i := range cases {
		c := &tcase{v: seqVariants[1+r.Intn(2)], shape: shapes[i%len(shapes)], k: 1 + r.Intn(3), d: 3 + r.Intn(2)}
		for b := 0; b < c.d; b++ {
			c.fs = append(c.fs, frag{K: c.k, First: b, Last: b, More: b < c.d-1})
		}
		// the true last fragment is sent last; the others in random order
		r.Shuffle(c.d-1, func(x, y int) { c.fs[x], c.fs[y] = c.fs[y], c.fs[x] })
		cases[i] = c
	}
	var wg sync.WaitGroup
	for i, c := range cases {
		wg.Add(1)
		go func(i int, c *tcase) {
			defer wg.Done()
			f := fragmentation.NewFragmentation(bigMem, bigMem/2, T)
			c.v.Recycle = (i/len(shapes))%2 == 1
			c.v = c.v.withRecycler()
			c.events = append(c.events, map[string]interface{}{"ev": "reset", "mode": "timed", "case": i, "shape": c.shape,
				"variant": c.v.Name, "timeout_ms": timeoutMS, "recycle": c.v.Recycle})
			start := time.Now()
			send := func(fr frag, ep int) {
				ev, first, last, vv := callEv(0, fr, c.v, ep)
				ev["t0"] = int(time.Since(start) / time.Millisecond) // rounded down
				res := call(f, keyID(fr.K), first, last, fr.More, vv, c.v.rc)
				ev["t1"] = int((time.Since(start) + time.Millisecond - 1) / time.Millisecond) // rounded up
				c.events = append(c.events, ev, retEv(0, res))
			}
			n := len(c.fs)
			switch c.shape {
			case "creep":
				for _, fr := range c.fs[:n-2] {
					send(fr, 0)
				}
				time.Sleep(T * 60 / 100)
				send(c.fs[n-2], 0)
				time.Sleep(T * 65 / 100)
				send(c.fs[n-1], 1)
			case "gap":
				for _, fr := range c.fs[:n-1] {
					send(fr, 0)
				}
				time.Sleep(T * 130 / 100)
				send(c.fs[n-1], 1)
			case "fast":
				for _, fr := range c.fs {
					send(fr, 0)
					time.Sleep(T * 5 / 100)
				}
			}
			for _, fr := range c.fs[:n-1] { // the early fragments again, with the later datagram's content
				send(fr, 1)
			}
		}(i, c)
	}
	wg.Wait()
	for _, c := range cases {
		for _, e := range c.events {
			tr.Log(e)
		}
	}
	tr.Close()
}

// ---------------------------------------------------------------- gate

type scenario struct {
	Callers [][]frag `json:"callers"`
	V       variant  `json:"variant"`
	Max     int      `json:"max_states"`
}

type gw struct {
	pc       string
	pos      int
	ptr      uintptr
	consumed int
	rel      bool
}

type gsys struct {
	wv []variant // per worker: its own recycler when the scenario asks for it
	f  *fragmentation.Fragmentation
	sc *gate.Sched
	sn *scenario
	w  []gw
}

func newGsys(sn *scenario) gate.System {
	s := &gsys{f: fragmentation.NewFragmentation(bigMem, bigMem/2, longTimeout), sn: sn}
	s.sc = gate.New(len(sn.Callers))
	fragmentation.VerifSetHook(s.sc.Hook)
	s.w = make([]gw, len(sn.Callers))
	for i := range s.w {
		s.w[i].pc = "idle"
		s.wv = append(s.wv, sn.V.withRecycler())
	}
	return s
}

func (s *gsys) Close() { s.sc.Abandon(nil) }

func (s *gsys) Enabled() []gate.Move {
	var out []gate.Move
	for i := range s.w {
		if s.w[i].pc == "idle" {
			if s.w[i].pos < len(s.sn.Callers[i]) {
				out = append(out, gate.Move{W: i, Op: "P"})
			}
		} else {
			out = append(out, gate.Move{W: i})
		}
	}
	return out
}

func find(st fragmentation.VerifFragState, ptr uintptr) *fragmentation.VerifReassembler {
	for i := range st.List {
		if st.List[i].Ptr == ptr {
			return &st.List[i]
		}
	}
	return nil
}

func (s *gsys) after(i int, p gate.Pos, before fragmentation.VerifFragState) []gate.Event {
	w := &s.w[i]
	if p.Done {
		w.pc, w.ptr, w.consumed, w.rel = "idle", 0, 0, false
		return []gate.Event{gate.Event(retEv(i, p.Ret.(result)))}
	}
	now := fragmentation.VerifState(s.f)
	switch p.Point {
	case 1:
		w.pc = "work"
		id := keyID(s.sn.Callers[i][w.pos-1].K)
		for _, r := range now.List {
			if r.ID == id {
				w.ptr = r.Ptr
			}
		}
	case 2:
		w.pc = "acct"
		b, a := find(before, w.ptr), find(now, w.ptr)
		if b != nil && a != nil {
			w.consumed = a.Size - b.Size
			w.rel = w.consumed > 0 && a.Deleted == len(a.Holes)
		}
	default:
		vh.Fatal("unknown hook point %d", p.Point)
	}
	return nil
}

func (s *gsys) Do(m gate.Move) []gate.Event {
	w := &s.w[m.W]
	before := fragmentation.VerifState(s.f)
	if m.Op != "" {
		fr := s.sn.Callers[m.W][w.pos]
		w.pos++
		wv := s.wv[m.W]
		ev, first, last, vv := callEv(m.W, fr, wv, 0)
		f := s.f
		p := s.sc.Start(m.W, func() interface{} { return call(f, keyID(fr.K), first, last, fr.More, vv, wv.rc) })
		return append([]gate.Event{gate.Event(ev)}, s.after(m.W, p, before)...)
	}
	return s.after(m.W, s.sc.Grant(m.W), before)
}

func (s *gsys) State() map[string]interface{} {
	st := fragmentation.VerifState(s.f)
	keyOf := map[uint32]int{}
	for k := 1; k <= 8; k++ {
		keyOf[keyID(k)] = k
	}
	ws := []interface{}{}
	for i := range s.w {
		w := &s.w[i]
		stale := w.pc != "idle" && find(st, w.ptr) == nil
		ws = append(ws, fmt.Sprintf("%s/%d/%v/%d/%v", w.pc, w.pos, stale, w.consumed, w.rel))
	}
	sizes := 0
	for _, r := range st.List {
		sizes += r.Size
	}
	return map[string]interface{}{"f": iproj(st, s.sn.V, keyOf), "w": ws, "fsize": st.Size, "sum_sizes": sizes, "inmap": st.InMap, "inlist": len(st.List)}
}

func (s *gsys) Key() string {
	st := s.State()
	return fmt.Sprintf("%v|%v", st["f"], st["w"])
}

func gateMode(path string) {
	var sn scenario
	vh.LoadJSON(path, &sn)
	if sn.Max == 0 {
		sn.Max = 200000
	}
	g := gate.Explore(func() gate.System { return newGsys(&sn) }, sn.Max)
	fragmentation.VerifSetHook(nil)
	vh.Emit(g)
}

// ---------------------------------------------------------------- replay of recorded cases

type stepsIn struct {
	V     variant `json:"variant"`
	High  int     `json:"high"`
	Low   int     `json:"low"`
	Steps []frag  `json:"steps"`
}

// stepsMode runs one recorded sequential fragment sequence and logs it.
func stepsMode(in, out string) {
	var si stepsIn
	vh.LoadJSON(in, &si)
	hi, lo := bigMem, bigMem/2
	mode := "strict"
	if si.High > 0 && si.High < 99 {
		hi, lo = si.High*si.V.Scale, si.Low*si.V.Scale
		mode = "safety"
	}
	f := fragmentation.NewFragmentation(hi, lo, longTimeout)
	tr := vh.NewTrace(out)
	si.V = si.V.withRecycler()
	tr.Log(map[string]interface{}{"ev": "reset", "mode": mode, "variant": si.V.Name, "recycle": si.V.Recycle})
	for _, fr := range si.Steps {
		ev, first, last, vv := callEv(0, fr, si.V, 0)
		tr.Log(ev)
		res := call(f, keyID(fr.K), first, last, fr.More, vv, si.V.rc)
		tr.Log(retEv(0, res))
		if res.Panic != "" {
			break
		}
	}
	tr.Close()
}

type gatePathIn struct {
	scenario
	Moves []gate.Move `json:"moves"`
}

// gatePath replays one recorded schedule under the gate scheduler.
func gatePath(in, out string) {
	var gp gatePathIn
	vh.LoadJSON(in, &gp)
	s := newGsys(&gp.scenario)
	tr := vh.NewTrace(out)
	tr.Log(map[string]interface{}{"ev": "reset", "mode": "strict"})
	for _, m := range gp.Moves {
		ok := false
		for _, e := range s.Enabled() {
			if e == m {
				ok = true
			}
		}
		if !ok {
			break // the schedule no longer applies (e.g. an operation ended early in a panic)
		}
		for _, e := range s.Do(m) {
			tr.Log(e)
		}
	}
	s.Close()
	fragmentation.VerifSetHook(nil)
	tr.Close()
}

func atoi(s string) int {
	n, err := strconv.Atoi(s)
	if err != nil {
		vh.Fatal("bad int %q", s)
	}
	return n
}

func main() {
	vh.Quiet()
	if len(os.Args) < 3 {
		vh.Fatal("usage: fragd graph|seq|gate|race|timeout ...")
	}
	switch os.Args[1] {
	case "graph":
		graph(os.Args[2])
	case "seq":
		seq(os.Args[2], int64(atoi(os.Args[3])), atoi(os.Args[4]))
	case "gate":
		gateMode(os.Args[2])
	case "race":
		race(os.Args[2], int64(atoi(os.Args[3])), atoi(os.Args[4]), atoi(os.Args[5]), atoi(os.Args[6]))
	case "timeout":
		timeoutMode(os.Args[2], int64(atoi(os.Args[3])), atoi(os.Args[4]))
	case "long":
		longMode(os.Args[2], int64(atoi(os.Args[3])), atoi(os.Args[4]), len(os.Args) > 5 && os.Args[5] == "thorough")
	case "steps":
		stepsMode(os.Args[2], os.Args[3])
	case "gatepath":
		gatePath(os.Args[2], os.Args[3])
	default:
		vh.Fatal("unknown mode %s", os.Args[1])
	}
}
