// Driver for C17: the real waiter.Queue (pkg/waiter over pkg/ilist).
//
//	graph <script.json>                     replay every path of the TLC state graph of MCWaiter on a
//	                                        fresh Queue with callback entries (counting) and channel
//	                                        entries (waiter.NewChannelEntry); compare after every step
//	race <out.ndjson> <seed> <hists> <G> <K> seeded histories of G goroutines x K operations (G = 1:
//	                                        sequential, observation after every operation) -> ndjson
//
// No operation of the code under test is ever waited for with a deadline that
// decides a verdict: an operation that does not return is reported only when
// its goroutine is parked in a blocking primitive while nothing else in the
// process could wake it (a quiescent state); a spinning one is reported as
// "spinning" (the check treats that as inconclusive).
package main

import (
	"bytes"
	"fmt"
	"math/rand"
	"os"
	"regexp"
	"runtime"
	"runtime/debug"
	"strconv"
	"strings"
	"sync"
	"sync/atomic"
	"time"

	"github.com/brewlin/net-protocol/pkg/ilist"
	"github.com/brewlin/net-protocol/pkg/waiter"
	"verifh/vh"
)

var evBit = map[string]waiter.EventMask{
	"in": waiter.EventIn, "pri": waiter.EventPri, "out": waiter.EventOut,
	"err": waiter.EventErr, "hup": waiter.EventHUp, "nval": waiter.EventNVal,
}
var evNames = []string{"in", "pri", "out", "err", "hup", "nval"}

func maskOf(names []string) waiter.EventMask {
	var m waiter.EventMask
	for _, s := range names {
		b, ok := evBit[s]
		if !ok {
			vh.Fatal("unknown event %q", s)
		}
		m |= b
	}
	return m
}

func goid() int64 {
	var buf [64]byte
	n := runtime.Stack(buf[:], false)
	b := buf[:n]
	b = b[len("goroutine "):]
	i := bytes.IndexByte(b, ' ')
	id, _ := strconv.ParseInt(string(b[:i]), 10, 64)
	return id
}

// ---------------------------------------------------------------- goroutine states

var blockedStates = map[string]bool{
	"chan send": true, "chan receive": true, "select": true, "select (no cases)": true,
	"semacquire": true, "sync.Mutex.Lock": true, "sync.RWMutex.Lock": true, "sync.RWMutex.RLock": true,
	"sync.Cond.Wait": true, "sync.WaitGroup.Wait": true, "chan send (nil chan)": true, "chan receive (nil chan)": true,
}

var hdrRe = regexp.MustCompile(`(?m)^goroutine (\d+) \[([^\]]*)\]:$`)

// goroutineStates returns id -> (state, stack text) for all goroutines.
func goroutineStates() (map[int64]string, map[int64]string) {
	buf := make([]byte, 1<<20)
	n := runtime.Stack(buf, true)
	txt := string(buf[:n])
	st := map[int64]string{}
	stk := map[int64]string{}
	idx := hdrRe.FindAllStringSubmatchIndex(txt, -1)
	for k, m := range idx {
		id, _ := strconv.ParseInt(txt[m[2]:m[3]], 10, 64)
		s := txt[m[4]:m[5]]
		if c := strings.IndexByte(s, ','); c >= 0 {
			s = s[:c]
		}
		end := len(txt)
		if k+1 < len(idx) {
			end = idx[k+1][0]
		}
		st[id] = s
		stk[id] = txt[m[0]:end]
	}
	return st, stk
}

func inWaiterCode(stack string) bool {
	return strings.Contains(stack, "net-protocol/pkg/waiter.") || strings.Contains(stack, "net-protocol/pkg/ilist.")
}

func shortStack(s string) string {
	lines := strings.Split(s, "\n")
	if len(lines) > 30 {
		lines = lines[:30]
	}
	return strings.Join(lines, "\n")
}

// ---------------------------------------------------------------- entries

type abortWalk struct{ name string }

type ent struct {
	name string
	isCh bool
	e    waiter.Entry
	ch   chan struct{} // the channel this entry allocated (named after it); the entry may later be re-created on another one
	n    int64 // callback invocations (cumulative)
	cur  int64 // invocations during the current operation (graph mode)
	hook func(*ent)
}

// Callback implements waiter.EntryCallback for callback entries.
func (x *ent) Callback(e *waiter.Entry) {
	atomic.AddInt64(&x.n, 1)
	if x.hook != nil {
		x.hook(x)
	}
}

func newEnt(name string, hook func(*ent)) *ent {
	x := &ent{name: name, isCh: strings.HasPrefix(name, "h"), hook: hook}
	if x.isCh {
		x.e, x.ch = waiter.NewChannelEntry(nil)
	} else {
		x.e = waiter.Entry{Callback: x}
	}
	return x
}

// ---------------------------------------------------------------- graph replay

type script struct {
	vh.Graph
	Cb []string `json:"cb"`
	Ch []string `json:"ch"`
}

// runOp runs f on its own goroutine.  Returns "" when f returned, else
// "panic", "blocked" (parked in a blocking primitive, nobody left to wake it)
// or "spinning", plus a detail string.
func runOp(f func(), spinPolls int) (string, string) {
	done := make(chan string, 1)
	var id int64
	go func() {
		atomic.StoreInt64(&id, goid())
		defer func() {
			if r := recover(); r != nil {
				if a, ok := r.(abortWalk); ok {
					done <- "abort:" + a.name
					return
				}
				done <- "panic:" + fmt.Sprint(r) + "\n" + shortStack(string(debug.Stack()))
				return
			}
		}()
		f()
		done <- ""
	}()
	tick := time.NewTimer(50 * time.Millisecond)
	defer tick.Stop()
	blocked := 0
	for polls := 0; ; polls++ {
		select {
		case r := <-done:
			if strings.HasPrefix(r, "panic:") {
				return "panic", r[6:]
			}
			if strings.HasPrefix(r, "abort:") {
				return "abort", r[6:]
			}
			return "", ""
		case <-tick.C:
			st, stk := goroutineStates()
			g := atomic.LoadInt64(&id)
			if blockedStates[st[g]] {
				blocked++
				if blocked >= 4 {
					return "blocked", st[g] + "\n" + shortStack(stk[g])
				}
			} else {
				blocked = 0
				if polls > spinPolls { // not parked, not finished: busy (e.g. walking a cyclic list)
					return "spinning", st[g] + "\n" + shortStack(stk[g])
				}
			}
			tick.Reset(25 * time.Millisecond)
		}
	}
}

func graph(path string) {
	var g script
	vh.LoadJSON(path, &g)
	res := vh.Result{Mismatches: []vh.Mismatch{}, Extra: map[string]interface{}{}}
	names := append(append([]string{}, g.Cb...), g.Ch...)
	hangs := []map[string]interface{}{}
	notifies, takes, cbs := 0, 0, 0
	drifts, hard, spins := 0, 0, 0
	for pi, p := range g.Paths {
		q := &waiter.Queue{}
		ents := map[string]*ent{}
		byPtr := map[*waiter.Entry]string{}
		for _, n := range names {
			x := newEnt(n, func(x *ent) {
				// a second invocation within one Notify already contradicts "exactly once";
				// after a few of them abort the walk (it may be cyclic) by unwinding
				if atomic.AddInt64(&x.cur, 1) > 3 {
					panic(abortWalk{x.name})
				}
			})
			ents[n] = x
			byPtr[&x.e] = n
		}
		nameOf := func(el interface{}) string {
			if el == nil {
				return "nil"
			}
			if p, ok := el.(*waiter.Entry); ok {
				if p == nil {
					return "nil"
				}
				if n, ok := byPtr[p]; ok {
					return n
				}
			}
			return "?"
		}
		// cyclic: do the next pointers of the entries form a cycle (then a walk need not end)?
		cyclic := func() bool {
			for _, x := range ents {
				var it ilist.Element = &x.e
				for i := 0; it != nil; i++ {
					if i > len(names)+1 {
						return true
					}
					it = it.Next()
				}
			}
			return false
		}
		bad, obsDead := false, false
		mm := func(si int, kind, what string, want, got interface{}) {
			if kind == "drift" {
				// I-level differences are recorded (a few), never stop the replay
				drifts++
				if drifts > 12 {
					return
				}
			} else {
				bad = true
				hard++
			}
			res.Mismatches = append(res.Mismatches, vh.Mismatch{Path: pi, Step: si, Kind: kind, What: what, Want: want, Got: got})
		}
		for si, st := range p {
			res.Steps++
			a := st.Args
			for _, x := range ents {
				atomic.StoreInt64(&x.cur, 0)
			}
			var f func()
			takeOK := false
			switch st.Act {
			case "DoRegister":
				x, m := ents[vh.Str(a[0])], maskOf(vh.Strs(a[1]))
				f = func() { q.EventRegister(&x.e, m) }
			case "DoUnregister":
				x := ents[vh.Str(a[0])]
				f = func() { q.EventUnregister(&x.e) }
			case "DoNotify":
				m := maskOf(vh.Strs(a[0]))
				notifies++
				f = func() { q.Notify(m) }
			case "DoNewEntry":
				// re-create the (unregistered) channel entry a[0] on the existing channel allocated by a[1]
				x, c := ents[vh.Str(a[0])], ents[vh.Str(a[1])]
				f = func() {
					ne, _ := waiter.NewChannelEntry(c.ch)
					x.e = ne
				}
			case "DoTake":
				x := ents[vh.Str(a[0])]
				takes++
				f = func() {
					select {
					case <-x.ch:
						takeOK = true
					default:
					}
				}
			default:
				vh.Fatal("unknown action %s", st.Act)
			}
			// an operation that keeps running is waited for ~10 s; when the next pointers already form
			// a cycle the walk is expected not to end and the wait is short (the outcome "spinning"
			// never decides a violation, it only leaves this path without a verdict)
			spin := 400
			if cyclic() {
				spin = 8
			}
			status, detail := runOp(f, spin)
			switch status {
			case "panic":
				mm(si, "panic", st.Act+" panicked", nil, detail)
			case "blocked", "spinning":
				hangs = append(hangs, map[string]interface{}{"path": pi, "step": si, "act": st.Act, "how": status, "detail": detail})
				if status == "spinning" {
					spins++
					hard-- // counted separately
				}
				mm(si, status, st.Act+" did not return: goroutine "+status, nil, detail)
			case "abort":
				// recorded below through the call counters
			}
			if st.Act == "DoTake" && takeOK != vh.Bool(a[1]) {
				mm(si, "property", "non-blocking receive on "+vh.Str(a[0]), vh.Bool(a[1]), takeOK)
			}
			// ---- P-level observations: callback counts, tokens
			want := g.States[st.Dst]
			wc := vh.Map(want["calls"])
			for _, n := range g.Cb {
				got := int(atomic.LoadInt64(&ents[n].n))
				cbs += int(atomic.LoadInt64(&ents[n].cur))
				if got != vh.Int(wc[n]) {
					mm(si, "property", fmt.Sprintf("callback count of %s after %s%v (this step: %d call(s))", n, st.Act, a, atomic.LoadInt64(&ents[n].cur)), vh.Int(wc[n]), got)
				}
			}
			wt := vh.Map(want["token"])
			for _, n := range g.Ch {
				if got := len(ents[n].ch); got != vh.Int(wt[n]) {
					mm(si, "property", fmt.Sprintf("token of %s (len of channel) after %s%v", n, st.Act, a), vh.Int(wt[n]), got)
				}
			}
			if bad || status != "" {
				break
			}
			// ---- I-level projection: Events(), next/prev of every entry (incl. stale ones)
			var wm waiter.EventMask
			regl := vh.List(want["reg"])
			for _, r := range regl {
				wm |= maskOf(vh.Strs(vh.Map(r)["m"]))
			}
			// Events() takes the read lock: run it guarded, so that a lock leaked by the code under
			// test shows up at the next operation of the path (P-level) and not as a dead driver.
			// (IsEmpty() takes the write lock - a parked writer would change what later readers do -
			// and is therefore not used as an observation.)
			if cyclic() {
				mm(si, "drift", "next pointers form a cycle", nil, nil)
			} else if !obsDead {
				var got waiter.EventMask
				if status, _ := runOp(func() { got = q.Events() }, 400); status != "" {
					obsDead = true
					mm(si, "drift", "Queue.Events() did not return ("+status+")", nil, nil)
				} else if got != wm {
					mm(si, "drift", "Queue.Events()", int(wm), int(got))
				}
			}
			wn, wp := vh.Map(want["next"]), vh.Map(want["prev"])
			for _, n := range names {
				x := ents[n]
				if got := nameOf(x.e.Next()); got != vh.Str(wn[n]) {
					mm(si, "drift", "next["+n+"]", vh.Str(wn[n]), got)
				}
				if got := nameOf(x.e.Prev()); got != vh.Str(wp[n]) {
					mm(si, "drift", "prev["+n+"]", vh.Str(wp[n]), got)
				}
			}
		}
		res.Paths++
		if hard > 24 || spins > 30 {
			break
		}
	}
	res.Extra["hangs"] = hangs
	res.Extra["drifts"] = drifts
	res.Extra["notifies"] = notifies
	res.Extra["takes"] = takes
	res.Extra["callbacks"] = cbs
	vh.Emit(res)
}

// ---------------------------------------------------------------- concurrent histories

type op struct {
	Op   string
	E    int      // entry index (take: index of the entry that allocated the channel)
	C    int      // new: index of the entry whose channel is reused
	M    []string // mask
	Spin int      // Gosched calls before the operation
	Wait int      // microseconds slept before the operation (spreads the operations over the
	// time in which a notifier sits inside a sleeping callback)
}

var kindSets = [][]string{
	{"c1", "c2", "h1"}, {"c1", "c2", "h1"}, {"c1", "c2", "c3"}, {"c1", "h1", "h2"}, {"c1", "c2", "h1"}, {"h1", "c1", "c2"}, {"c1", "h1", "c2"},
}

func randMask(r *rand.Rand, wide bool) []string {
	if wide && r.Intn(3) == 0 {
		var m []string
		for _, n := range evNames {
			if r.Intn(3) == 0 {
				m = append(m, n)
			}
		}
		if m == nil {
			m = []string{}
		}
		return m
	}
	switch r.Intn(8) {
	case 0:
		return []string{}
	case 1, 2:
		return []string{"in"}
	case 3, 4:
		return []string{"out"}
	}
	return []string{"in", "out"}
}

// plan generates K operations for goroutine g; the contract (register only
// while unregistered, unregister only while registered, by the owner) holds by
// construction: entry i is owned by goroutine i.
func plan(r *rand.Rand, g, K int, names []string, wide bool) []op {
	var chs []int
	for i, n := range names {
		if n[0] == 'h' {
			chs = append(chs, i)
		}
	}
	owner := g < len(names)
	registered := false
	var out []op
	for k := 0; k < K; k++ {
		o := op{Spin: r.Intn(4)}
		if r.Intn(2) == 0 {
			o.Wait = 1 + r.Intn(150)
		}
		x := r.Intn(100)
		if owner && !registered && names[g][0] == 'h' && r.Intn(3) == 0 {
			// NewChannelEntry on an existing (possibly shared, possibly non-empty) channel
			o.Op, o.E, o.C = "new", g, chs[r.Intn(len(chs))]
			out = append(out, o)
			continue
		}
		switch {
		case owner && (x < 45 || (k == 0 && x < 80)):
			if registered {
				o.Op, o.E = "unregister", g
			} else {
				o.Op, o.E, o.M = "register", g, randMask(r, wide)
			}
			registered = !registered
		case len(chs) > 0 && x >= 85:
			o.Op, o.E = "take", chs[r.Intn(len(chs))]
		default:
			o.Op, o.M = "notify", randMask(r, wide)
		}
		out = append(out, o)
	}
	return out
}

// plog counts log calls (progress indicator for the quiescence watchdog).
type plog struct {
	t *vh.Trace
	n int64
}

func (p *plog) Log(ev map[string]interface{}) { p.t.Log(ev); atomic.AddInt64(&p.n, 1) }
func (p *plog) Close()                        { p.t.Close() }

func race(out string, seed int64, hists, Gmax, K int) {
	tr0 := vh.NewTrace(out)
	tr := &plog{t: tr0}
	sum := map[string]interface{}{"histories": 0, "stopped": ""}
	var gmap sync.Map // goid -> g
	cbTotal, overlapping := 0, 0
	for h := 0; h < hists; h++ {
		r := rand.New(rand.NewSource(seed*1000003 + int64(h)*7919))
		names := kindSets[r.Intn(len(kindSets))]
		G := Gmax
		if Gmax > 2 {
			G = 2 + r.Intn(Gmax-1)
		}
		yield := r.Intn(6) // 0 none, 1 Gosched, 2.. short sleep inside callbacks (widens the window in which a walk is in progress)
		q := &waiter.Queue{}
		ents := make([]*ent, len(names))
		var cbCount int64
		for i, n := range names {
			yd := time.Duration(20+r.Intn(180)) * time.Microsecond
			ents[i] = newEnt(n, func(x *ent) {
				g := -1
				if v, ok := gmap.Load(goid()); ok {
					g = v.(int)
				}
				tr.Log(map[string]interface{}{"ev": "cb", "e": x.name, "g": g})
				if atomic.AddInt64(&cbCount, 1) > int64(Gmax*K*len(names)+8) {
					// more callbacks than all Notify calls of the history can owe: the walk does not
					// terminate (the log already contains the surplus callbacks); unwind it
					panic(abortWalk{x.name})
				}
				switch yield {
				case 1:
					runtime.Gosched()
					runtime.Gosched()
				case 2, 3, 4, 5:
					time.Sleep(yd)
				}
			})
		}
		plans := make([][]op, G)
		for g := 0; g < G; g++ {
			plans[g] = plan(r, g, K, names, Gmax == 1)
		}
		obs := func() {
			ev := map[string]interface{}{"ev": "obs"}
			calls, tokens := map[string]interface{}{}, map[string]interface{}{}
			for _, x := range ents {
				if x.isCh {
					tokens[x.name] = len(x.ch)
				} else {
					calls[x.name] = int(atomic.LoadInt64(&x.n))
				}
			}
			if len(calls) > 0 {
				ev["calls"] = calls
			}
			if len(tokens) > 0 {
				ev["tokens"] = tokens
			}
			tr.Log(ev)
		}
		tr.Log(map[string]interface{}{"ev": "reset", "hist": h, "entries": names, "G": G, "yield": yield})
		start := make(chan struct{})
		done := make(chan struct{})
		var wg sync.WaitGroup
		var inflight, maxInflight int32
		ids := make([]int64, G)
		finished := make([]int32, G)
		var panicked int32
		for g := 0; g < G; g++ {
			wg.Add(1)
			go func(g int) {
				defer wg.Done()
				id := goid()
				atomic.StoreInt64(&ids[g], id)
				gmap.Store(id, g)
				defer gmap.Delete(id)
				defer atomic.StoreInt32(&finished[g], 1)
				defer func() {
					if rec := recover(); rec != nil {
						atomic.StoreInt32(&panicked, 1)
						if _, ok := rec.(abortWalk); ok {
							tr.Log(map[string]interface{}{"ev": "overrun", "g": g})
							return
						}
						tr.Log(map[string]interface{}{"ev": "panic", "g": g, "msg": fmt.Sprint(rec), "stack": shortStack(string(debug.Stack()))})
					}
				}()
				<-start
				for _, o := range plans[g] {
					if atomic.LoadInt32(&panicked) != 0 {
						return
					}
					if o.Wait > 0 && G > 1 {
						time.Sleep(time.Duration(o.Wait) * time.Microsecond)
					}
					for i := 0; i < o.Spin; i++ {
						runtime.Gosched()
					}
					if o.Op == "new" {
						ne, _ := waiter.NewChannelEntry(ents[o.C].ch)
						ents[o.E].e = ne
						tr.Log(map[string]interface{}{"ev": "new", "g": g, "e": names[o.E], "c": names[o.C]})
						if G == 1 {
							obs()
						}
						continue
					}
					ev := map[string]interface{}{"ev": "call", "g": g, "op": o.Op}
					if o.Op != "notify" {
						ev["e"] = names[o.E]
					}
					if o.M != nil {
						ev["m"] = o.M
					}
					tr.Log(ev)
					if n := atomic.AddInt32(&inflight, 1); n > atomic.LoadInt32(&maxInflight) {
						atomic.StoreInt32(&maxInflight, n)
					}
					ret := map[string]interface{}{"ev": "ret", "g": g}
					switch o.Op {
					case "register":
						q.EventRegister(&ents[o.E].e, maskOf(o.M))
					case "unregister":
						q.EventUnregister(&ents[o.E].e)
					case "notify":
						q.Notify(maskOf(o.M))
					case "take":
						ok := false
						select {
						case <-ents[o.E].ch:
							ok = true
						default:
						}
						ret["ok"] = ok
					}
					atomic.AddInt32(&inflight, -1)
					tr.Log(ret)
					if G == 1 {
						obs()
					}
				}
			}(g)
		}
		go func() { wg.Wait(); close(done) }()
		close(start)
		// wait for the history; a quiescent deadlock (every unfinished worker parked in a
		// blocking primitive, no log progress) ends the run with a `hang` event
		tick := time.NewTimer(200 * time.Millisecond)
		still, noprog, lastN := 0, 0, int64(-1)
	wait:
		for {
			select {
			case <-done:
				break wait
			case <-tick.C:
				st, stk := goroutineStates()
				all := true
				var states []string
				var stacks []string
				for g := 0; g < G; g++ {
					if atomic.LoadInt32(&finished[g]) != 0 {
						continue
					}
					id := atomic.LoadInt64(&ids[g])
					states = append(states, fmt.Sprintf("g%d:%s", g, st[id]))
					if !blockedStates[st[id]] {
						all = false
					} else {
						stacks = append(stacks, shortStack(stk[id]))
					}
				}
				n := atomic.LoadInt64(&tr.n)
				if all && n == lastN {
					still++
				} else {
					still = 0
				}
				if n == lastN {
					noprog++
				} else {
					noprog = 0
				}
				lastN = n
				if noprog >= 1200 && still < 5 {
					// ~60 s without a single log line, workers neither finished nor parked: busy
					// (e.g. walking a cyclic list that contains no callback entry)
					tr.Log(map[string]interface{}{"ev": "hang", "states": states, "spinning": true, "in_waiter_code": false, "stacks": []string{}})
					sum["stopped"] = "spinning"
					sum["histories"] = h + 1
					tr.Close()
					vh.Emit(sum)
					os.Exit(0)
				}
				if still >= 5 {
					inw := false
					for _, s := range stacks {
						if inWaiterCode(s) {
							inw = true
						}
					}
					tr.Log(map[string]interface{}{"ev": "hang", "states": states, "in_waiter_code": inw, "stacks": stacks})
					sum["stopped"] = "hang"
					sum["histories"] = h + 1
					tr.Close()
					vh.Emit(sum)
					os.Exit(0)
				}
				tick.Reset(50 * time.Millisecond)
			}
		}
		tick.Stop()
		if atomic.LoadInt32(&panicked) != 0 {
			sum["stopped"] = "panic"
			sum["histories"] = h + 1
			tr.Close()
			vh.Emit(sum)
			os.Exit(0)
		}
		obs()
		cbTotal += int(cbCount)
		if maxInflight > 1 {
			overlapping++
		}
		sum["histories"] = h + 1
	}
	sum["callbacks"] = cbTotal
	sum["overlapping"] = overlapping
	tr.Close()
	vh.Emit(sum)
}

func atoi(s string) int {
	n, err := strconv.Atoi(s)
	if err != nil {
		vh.Fatal("bad int %q", s)
	}
	return n
}

func main() {
	vh.Quiet()
	if len(os.Args) < 3 {
		vh.Fatal("usage: waiterd graph <script.json> | race <out.ndjson> <seed> <hists> <G> <K>")
	}
	switch os.Args[1] {
	case "graph":
		graph(os.Args[2])
	case "race":
		if len(os.Args) < 7 {
			vh.Fatal("usage: waiterd race <out.ndjson> <seed> <hists> <G> <K>")
		}
		race(os.Args[2], int64(atoi(os.Args[3])), atoi(os.Args[4]), atoi(os.Args[5]), atoi(os.Args[6]))
	default:
		vh.Fatal("unknown mode")
	}
}
