// Driver for C16: replays model behaviours into the real pkg/buffer objects
// (View, VectorisedView, Prependable) and records seeded random operation
// sequences as ndjson for TLC trace validation against the P-spec BufferP.
//
//	bufferd graph  <script.json>                 every path of the TLC state graph (spec/buffer/MCBuffer)
//	bufferd random <out.ndjson> <seed> <segments> <ops>
//	bufferd ops    <steps.json> <out.ndjson>     one explicit operation sequence (replay files), logged like random
//
// Watchdog: every call into the code under test runs in its own goroutine.  A
// call that is still running after 5 s AND has burnt seconds of CPU time in the
// meantime (these calls take microseconds; a starved process burns nothing) is
// logged as `stuck`, its objects are abandoned, and after 3 stuck calls the
// driver stops with what it has logged.
//
// Content bytes AND the bytes sitting in spare capacity behind a chunk are
// pairwise distinct, non-zero, inside one run of operations (1..250), so a
// byte value identifies a byte: that is what lets the re-extension check say
// "this byte lies beyond a cap set by CapLength".  Vectorised views are built
// both ways: every chunk its own array, or all chunks carved out of ONE backing
// array, each followed by spare bytes of its own (arr[off:off+len:off+len+s]),
// so a chunk can have capacity beyond its length without reaching into another
// chunk's bytes.
package main

import (
	"fmt"
	"math/rand"
	"os"
	"strconv"
	"syscall"
	"time"
	"unsafe"

	"github.com/brewlin/net-protocol/pkg/buffer"
	"verifh/vh"
)

type object struct {
	kind string // "vv" | "view" | "prep"
	vv   buffer.VectorisedView
	v    buffer.View
	p    buffer.Prependable
	// cloneBuf: made by Clone(scratch); the buffer then belongs to this object
	cloneBuf bool
}

// world: the live objects of one operation sequence.
type world struct {
	objs    []*object
	scratch []buffer.View // the caller-owned buffer handed to Clone
	nextb   int
	carve   bool  // the next NewVV carves its chunks out of one backing array
	last    []obs // the objects as last read (what a stuck call started from)
}

func newWorld(scratchCap int) *world {
	return &world{scratch: make([]buffer.View, scratchCap)}
}

func ints(b []byte) []int {
	out := make([]int, len(b))
	for i, x := range b {
		out[i] = int(x)
	}
	return out
}

// obs is everything the exported API shows of one object.
type obs struct {
	Kind string `json:"kind"`
	B    []int  `json:"b"`    // the flattened content: ToView() / the view / Prependable.View()
	BV   []int  `json:"bv"`   // concatenation of Views() (vv); same as B otherwise
	Size int    `json:"size"` // Size() / len / UsedLength()
	NV   int    `json:"nv"`   // number of views
	Ext  []int  `json:"ext"`  // bytes that re-slicing each view to its capacity adds
	// Views: the same per view (content, spare bytes up to the capacity)
	Views []viewObs `json:"views"`
	lens  []int
	caps  []int
	// panicked: reading the object through the API panicked
	panicked string
}

// ------------------------------------------------------------------- watchdog

const (
	stuckWall = 5 * time.Second // look at a call that has not returned after this long
	stuckCPU  = 3 * time.Second // ... and call it stuck once it has burnt this much CPU time
	maxStuck  = 3               // leaked spinning goroutines the driver tolerates before it stops
)

var stuckCalls int

func cpuTime() time.Duration {
	var ru syscall.Rusage
	if err := syscall.Getrusage(syscall.RUSAGE_SELF, &ru); err != nil {
		vh.Fatal("getrusage: %v", err)
	}
	return time.Duration(ru.Utime.Nano() + ru.Stime.Nano())
}

// watch runs f (calls into the code under test; panics are handled inside f) and
// returns "" when f returned, else a note saying how long it has been running.
// Wall-clock time alone never decides: the process must also have used CPU time
// that only a spinning call can explain (earlier leaked spinners are discounted).
func watch(f func()) string {
	done := make(chan struct{})
	go func() {
		defer close(done)
		f()
	}()
	t := time.NewTimer(stuckWall)
	defer t.Stop()
	cpu0, t0 := cpuTime(), time.Now()
	for {
		select {
		case <-done:
			return ""
		case <-t.C:
		}
		used := cpuTime() - cpu0
		if used >= stuckCPU*time.Duration(stuckCalls+1) {
			stuckCalls++
			return fmt.Sprintf("still running after %.0f s, %.0f s of CPU time burnt", time.Since(t0).Seconds(), used.Seconds())
		}
		if time.Since(t0) > 10*time.Minute {
			vh.Fatal("a call neither returned nor used CPU time for 10 minutes (starved or blocked harness)")
		}
		t.Reset(stuckWall)
	}
}

type viewObs struct {
	B   []int `json:"b"`
	Ext []int `json:"ext"`
}

// observe reads one object through the exported API. A panic while reading (a
// corrupted object, e.g. a negative size reaching make) is reported, not fatal.
func observe(o *object) (x obs) {
	defer func() {
		if r := recover(); r != nil {
			x = obs{Kind: o.kind, B: []int{}, BV: []int{}, Ext: []int{}, Views: []viewObs{}, panicked: fmt.Sprint(r)}
		}
	}()
	x = obs{Kind: o.kind, Ext: []int{}, Views: []viewObs{}, lens: []int{}, caps: []int{}}
	var views []buffer.View
	switch o.kind {
	case "vv":
		x.B = ints(o.vv.ToView())
		x.Size = o.vv.Size()
		views = o.vv.Views()
		var cat []byte
		for _, v := range views {
			cat = append(cat, v...)
		}
		x.BV = ints(cat)
	case "view":
		x.B = ints(o.v)
		x.BV = x.B
		x.Size = len(o.v)
		views = []buffer.View{o.v}
	case "prep":
		x.B = ints(o.p.View())
		x.BV = x.B
		x.Size = o.p.UsedLength()
	}
	x.NV = len(views)
	for _, v := range views {
		x.lens = append(x.lens, len(v))
		x.caps = append(x.caps, cap(v))
		full := []byte(v)[:cap(v)]
		x.Ext = append(x.Ext, ints(full[len(v):])...)
		x.Views = append(x.Views, viewObs{B: ints(v), Ext: ints(full[len(v):])})
	}
	return x
}

// outcome of one operation on the real objects.
type outcome struct {
	stuck    string // the call never returned (watchdog note)
	panicked string
	isnil    bool  // Prepend returned nil
	wlen     int   // len of the Prepend window
	wcap     int   // cap of the Prepend window
	k        int   // len(First()) before RemoveFirst
	f        []int // bytes of the view returned by First
	data     []int // bytes written into the Prepend window
}

func (o outcome) failed() bool { return o.panicked != "" || o.stuck != "" }

func (w *world) fresh(n int) []byte {
	b := make([]byte, n)
	for i := range b {
		w.nextb++
		b[i] = byte(w.nextb)
	}
	return b
}

func (w *world) add(o *object) { w.objs = append(w.objs, o) }

// exec performs one operation under the watchdog. After a stuck call the world belongs
// to the goroutine that is still inside the call: the caller must abandon it.
func (w *world) exec(op string, o, n int, lens, slack []int) outcome {
	var out outcome
	if note := watch(func() { out = w.execRaw(op, o, n, lens, slack) }); note != "" {
		return outcome{stuck: note}
	}
	return out
}

// execRaw performs one operation (names = action names of spec/buffer/Buffer.tla).
// o is the 1-based object slot, n the count, lens/slack describe NewVV chunks.
func (w *world) execRaw(op string, o, n int, lens, slack []int) (out outcome) {
	defer func() {
		if r := recover(); r != nil {
			out.panicked = fmt.Sprint(r)
		}
	}()
	var x *object
	if o >= 1 && o <= len(w.objs) {
		x = w.objs[o-1]
	} else if op != "NewVV" && op != "NewPrep" && op != "NewView" {
		vh.Fatal("%s: no object %d", op, o)
	}
	want := func(k string) {
		if x.kind != k {
			vh.Fatal("%s on a %s object", op, x.kind)
		}
	}
	switch op {
	case "NewVV":
		// content bytes first (consecutive over the chunks), then the spare bytes chunk by chunk
		var views []buffer.View
		size, spare := 0, 0
		sl := func(i int) int {
			if i < len(slack) {
				return slack[i]
			}
			return 0
		}
		for i, l := range lens {
			size += l
			spare += sl(i)
		}
		content := w.fresh(size)
		extra := w.fresh(spare)
		if len(lens) > 0 {
			views = make([]buffer.View, 0, len(lens))
		}
		var backing []byte
		if w.carve {
			backing = make([]byte, 0, size+spare)
		}
		for i, l := range lens {
			s := sl(i)
			var arr []byte
			if w.carve {
				off := len(backing)
				backing = append(backing, content[:l]...)
				backing = append(backing, extra[:s]...)
				arr = backing[off : off+l : off+l+s]
			} else {
				arr = make([]byte, l+s)
				copy(arr, content[:l])
				copy(arr[l:], extra[:s])
				arr = arr[:l]
			}
			content, extra = content[l:], extra[s:]
			views = append(views, buffer.View(arr))
		}
		w.add(&object{kind: "vv", vv: buffer.NewVectorisedView(size, views)})
	case "NewView":
		s := 0
		if len(slack) > 0 {
			s = slack[0]
		}
		v := buffer.NewView(n + s)
		d := w.fresh(n + s)
		copy(v, d)
		out.data = ints(d[:n])
		w.add(&object{kind: "view", v: v[:n]})
	case "NewPrep":
		w.add(&object{kind: "prep", p: buffer.NewPrependable(n)})
	case "VTrim":
		want("vv")
		x.vv.TrimFront(n)
	case "VCap":
		want("vv")
		x.vv.CapLength(n)
	case "VRemoveFirst":
		want("vv")
		out.k = len(x.vv.First())
		x.vv.RemoveFirst()
	case "VClone":
		want("vv")
		var buf []buffer.View
		if n == 1 {
			buf = w.scratch
		}
		w.add(&object{kind: "vv", vv: x.vv.Clone(buf), cloneBuf: n == 1})
	case "VToView":
		want("vv")
		w.add(&object{kind: "view", v: x.vv.ToView()})
	case "VFirst":
		want("vv")
		f := x.vv.First()
		out.f = ints(f)
		w.add(&object{kind: "view", v: f})
	case "WTrim":
		want("view")
		x.v.TrimFront(n)
	case "WCap":
		want("view")
		x.v.CapLength(n)
	case "WToVV":
		want("view")
		w.add(&object{kind: "vv", vv: x.v.ToVectorisedView()})
	case "WToPrep":
		want("view")
		w.add(&object{kind: "prep", p: buffer.NewPrependableFromView(x.v)})
	case "Prepend":
		want("prep")
		win := x.p.Prepend(n)
		out.isnil = win == nil
		out.wlen, out.wcap = len(win), cap(win)
		if win != nil {
			d := w.fresh(n)
			copy(win, d) // the caller fills the reserved space
			out.data = ints(d)
		}
	case "PView":
		want("prep")
		w.add(&object{kind: "view", v: x.p.View()})
	default:
		vh.Fatal("unknown operation %q", op)
	}
	return out
}

// ------------------------------------------------------------------ graph mode

type script struct {
	vh.Graph
	ScratchCap int `json:"scratch_cap"`
}

func eqInts(a []int, b []interface{}) bool {
	if len(a) != len(b) {
		return false
	}
	for i := range a {
		if a[i] != vh.Int(b[i]) {
			return false
		}
	}
	return true
}

func listBase(vs []buffer.View) unsafe.Pointer {
	if cap(vs) == 0 {
		return nil
	}
	return unsafe.Pointer(&vs[:1][0])
}

// inScratch reports whether the backing array of vs is the Clone buffer
// (unknown = the slice has no capacity left, so it has no address to look at).
func (w *world) inScratch(vs []buffer.View) (shared, known bool) {
	b := listBase(vs)
	if b == nil || len(w.scratch) == 0 {
		return false, false
	}
	lo := uintptr(unsafe.Pointer(&w.scratch[0]))
	hi := lo + uintptr(len(w.scratch))*unsafe.Sizeof(w.scratch[0])
	return uintptr(b) >= lo && uintptr(b) < hi, true
}

// compare checks the real objects against one model state. P-level
// observations (bytes, size, re-extension) are "property" mismatches; the
// shape of the implementation state (views, len/cap per view, list sharing)
// is "drift".
func compare(w *world, st map[string]interface{}, pi, si int, res *vh.Result) bool {
	bad := false
	snap, stuck := w.snapshot()
	if stuck != "" {
		res.Mismatches = append(res.Mismatches, vh.Mismatch{Path: pi, Step: si, Kind: "property",
			What: "reading the objects after the call (ToView/Views/Size) never returns", Want: st["abs"], Got: stuck})
		return true
	}
	mm := func(kind, what string, want, got interface{}) {
		res.Mismatches = append(res.Mismatches, vh.Mismatch{Path: pi, Step: si, Kind: kind, What: what, Want: want, Got: got})
		if kind == "property" {
			bad = true
		}
	}
	abs := vh.List(st["abs"])
	objs := vh.List(st["obj"])
	cut := vh.List(st["cut"])
	lmem := vh.List(st["lmem"])
	if len(abs) != len(w.objs) {
		vh.Fatal("driver has %d objects, model state %d", len(w.objs), len(abs))
	}
	for i, o := range w.objs {
		a := vh.Map(abs[i])
		m := vh.Map(objs[i])
		x := snap[i]
		tag := fmt.Sprintf("object %d (%s): ", i+1, o.kind)
		if x.panicked != "" {
			mm("property", tag+"panic while reading the object (ToView/Views/Size)", "a byte string", x.panicked)
			continue
		}
		wantB := vh.List(a["b"])
		if !eqInts(x.B, wantB) {
			mm("property", tag+"flattened bytes", wantB, x.B)
		}
		if !eqInts(x.BV, wantB) {
			mm("property", tag+"bytes of Views()", wantB, x.BV)
		}
		if x.Size != len(wantB) {
			mm("property", tag+"size", len(wantB), x.Size)
		}
		excluded := map[int]bool{}
		for _, c := range vh.List(cut[i]) {
			excluded[vh.Int(c)] = true
		}
		for _, b := range x.Ext {
			if excluded[b] {
				mm("property", tag+"byte cut off by CapLength reachable again by re-slicing a view to its capacity", "unreachable", b)
				break
			}
		}
		// observation outside the property as scoped (it speaks of a capped View): the []View
		// list of a capped VectorisedView re-sliced to ITS capacity still shows dropped chunks
		if o.kind == "vv" && res.Extra != nil {
			vs := o.vv.Views()
		spare:
			for _, v := range vs[len(vs):cap(vs)] {
				for _, b := range v {
					if excluded[int(b)] {
						n, _ := res.Extra["list_reextend_count"].(int)
						res.Extra["list_reextend_count"] = n + 1
						if n == 0 {
							res.Extra["list_reextend_first"] = map[string]interface{}{"path": pi, "step": si, "object": i + 1, "byte": int(b)}
						}
						break spare
					}
				}
			}
		}
		// implementation shape
		var cells []interface{}
		switch o.kind {
		case "vv":
			arr := vh.List(lmem[vh.Int(m["a"])-1])
			cells = arr[vh.Int(m["lo"]):vh.Int(m["hi"])]
			if shared, known := w.inScratch(o.vv.Views()); known && shared != (vh.Int(m["a"]) == 2) {
				mm("drift", tag+"view list lives in the Clone buffer", vh.Int(m["a"]) == 2, shared)
			}
		case "view":
			cells = []interface{}{m}
		}
		if o.kind != "prep" {
			if len(cells) != x.NV {
				mm("drift", tag+"number of views", len(cells), x.NV)
			} else {
				for j, c := range cells {
					h := vh.Map(c)
					wl, wc := vh.Int(h["hi"])-vh.Int(h["lo"]), vh.Int(h["cap"])-vh.Int(h["lo"])
					if wl != x.lens[j] || wc != x.caps[j] {
						mm("drift", fmt.Sprintf("%sview %d len/cap", tag, j), []int{wl, wc}, []int{x.lens[j], x.caps[j]})
					}
				}
			}
		}
	}
	return bad
}

// slackOf: the model's NewVV(lens, sl): sl = 0 separate exact arrays, sl > 0 all chunks
// carved from one backing array with sl spare bytes each.
func slackOf(k, sl int) ([]int, bool) {
	if sl == 0 {
		return nil, false
	}
	out := make([]int, k)
	for i := range out {
		out[i] = sl
	}
	return out, true
}

func graph(path string) {
	var g script
	vh.LoadJSON(path, &g)
	res := vh.Result{Mismatches: []vh.Mismatch{}, Extra: map[string]interface{}{}}
	acts := map[string]int{}
	drifts := 0
	for pi, p := range g.Paths {
		w := newWorld(g.ScratchCap)
		prev := g.Init
		for si, st := range p {
			res.Steps++
			acts[st.Act]++
			src := g.States[prev]
			w.nextb = vh.Int(src["nextb"])
			o, n := 0, 0
			var lens, slack []int
			switch st.Act {
			case "NewVV":
				lens = vh.Ints(st.Args[0])
				slack, w.carve = slackOf(len(lens), vh.Int(st.Args[1]))
			case "NewView":
				n = vh.Int(st.Args[0])
				slack = []int{vh.Int(st.Args[1])}
			case "NewPrep":
				n = vh.Int(st.Args[0])
			default:
				o = vh.Int(st.Args[0])
				if len(st.Args) > 1 {
					n = vh.Int(st.Args[1])
				}
			}
			out := w.exec(st.Act, o, n, lens, slack)
			bad := false
			if out.stuck != "" {
				// the model says the call returns and what the objects are then
				res.Mismatches = append(res.Mismatches, vh.Mismatch{Path: pi, Step: si, Kind: "property",
					What: "the call never returns", Want: g.States[st.Dst]["abs"], Got: out.stuck})
				bad = true
			} else if out.panicked != "" {
				res.Mismatches = append(res.Mismatches, vh.Mismatch{Path: pi, Step: si, Kind: "property",
					What: "panic in an operation the contract defines", Want: "a result", Got: out.panicked})
				bad = true
			} else {
				if st.Act == "Prepend" {
					room := vh.Int(vh.Map(vh.List(src["abs"])[o-1])["room"])
					if n == 0 {
						// nil and empty mean the same zero bytes; which one comes back is implementation shape
						if wantNil := vh.Int(vh.Map(vh.List(src["obj"])[o-1])["a"]) == 1; out.isnil != wantNil {
							res.Mismatches = append(res.Mismatches, vh.Mismatch{Path: pi, Step: si, Kind: "drift",
								What: "Prepend(0): nil result", Want: wantNil, Got: out.isnil})
						}
					} else if out.isnil != (n > room) {
						res.Mismatches = append(res.Mismatches, vh.Mismatch{Path: pi, Step: si, Kind: "property",
							What: fmt.Sprintf("Prepend(%d) with %d bytes of room: nil result", n, room), Want: n > room, Got: out.isnil})
						bad = true
					} else if !out.isnil && out.wlen != n {
						res.Mismatches = append(res.Mismatches, vh.Mismatch{Path: pi, Step: si, Kind: "property",
							What: "length of the window returned by Prepend", Want: n, Got: out.wlen})
						bad = true
					} else if !out.isnil && out.wcap != n {
						res.Mismatches = append(res.Mismatches, vh.Mismatch{Path: pi, Step: si, Kind: "drift",
							What: "capacity of the window returned by Prepend", Want: n, Got: out.wcap})
					}
				}
				if compare(w, g.States[st.Dst], pi, si, &res) {
					bad = true
				}
			}
			prev = st.Dst
			if bad {
				break // the objects have diverged from the model: the rest of the path says nothing
			}
		}
		res.Paths++
		// keep the report small: at most 20 drift records; stop after 20 property mismatches
		keep := []vh.Mismatch{}
		nd, np := 0, 0
		for _, m := range res.Mismatches {
			if m.Kind == "property" {
				np++
			} else if nd++; nd > 20 {
				continue
			}
			keep = append(keep, m)
		}
		drifts += len(res.Mismatches) - len(keep)
		res.Mismatches = keep
		if np >= 20 || stuckCalls >= maxStuck {
			break
		}
	}
	res.Extra["stuck_calls"] = stuckCalls
	res.Extra["actions"] = acts
	res.Extra["drift_records_dropped"] = drifts
	vh.Emit(res)
}

// ----------------------------------------------------------------- random mode

const maxObjs = 8
const maxByte = 250

// snapshot reads every live object (ToView, Views, Size, ... are code under test too:
// same watchdog). stuck != "": a read never returned, the world is lost.
func (w *world) snapshot() (snap []obs, stuck string) {
	out := make([]obs, len(w.objs))
	objs := w.objs
	stuck = watch(func() {
		for i, o := range objs {
			out[i] = observe(o)
		}
	})
	if stuck != "" {
		return nil, stuck
	}
	w.last = out
	return out, ""
}

// pickCount: counts biased to the interesting places - below 0, 0, the size, beyond it,
// and exactly on / one off a chunk boundary (bounds = cumulative chunk lengths).
func pickCount(r *rand.Rand, size int, first int, lo int, bounds []int) int {
	if size < 0 { // only a corrupted object says so; keep the generator alive
		size = 0
	}
	if len(bounds) > 0 && r.Intn(3) == 0 {
		first = bounds[r.Intn(len(bounds))]
	}
	var n int
	switch r.Intn(10) {
	case 0:
		n = lo
	case 1:
		n = size
	case 2:
		n = size + 1 + r.Intn(2)
	case 3:
		n = first // exactly the first chunk
	case 4:
		n = first + 1
	case 5:
		n = first - 1
	case 6:
		n = size - 1
	case 7, 8:
		n = r.Intn(4)
	default:
		n = r.Intn(size + 1)
	}
	if n < lo {
		n = lo
	}
	return n
}

// logEvent writes one operation and what every live object looks like after it.
// It returns false when the call (or reading the objects afterwards) panicked or never
// returned: the sequence ends there, with a `panic` / `stuck` event that no action of the
// trace spec matches (the byte-string spec says every one of these calls returns).
func logEvent(tr *vh.Trace, w *world, op string, o, n int, slack []int, oc outcome, chunks [][]int) bool {
	before := w.last
	if before == nil {
		before = []obs{}
	}
	if oc.stuck != "" {
		tr.Log(map[string]interface{}{"ev": "stuck", "op": op, "o": o, "n": n, "msg": "the call never returns: " + oc.stuck, "before": before})
		return false
	}
	if oc.panicked != "" {
		tr.Log(map[string]interface{}{"ev": "panic", "op": op, "o": o, "n": n, "msg": oc.panicked})
		return false
	}
	snap, stuck := w.snapshot()
	if stuck != "" {
		tr.Log(map[string]interface{}{"ev": "stuck", "op": op, "o": o, "n": n, "msg": "reading the objects after the call never returns: " + stuck, "before": before})
		return false
	}
	for i, x := range snap {
		if x.panicked != "" {
			tr.Log(map[string]interface{}{"ev": "panic", "op": op, "o": o, "n": n, "msg": fmt.Sprintf("reading object %d after the call: %s", i+1, x.panicked)})
			return false
		}
	}
	ev := map[string]interface{}{"ev": op, "o": o, "n": n, "objs": snap}
	switch op {
	case "NewVV":
		ev["chunks"] = chunks
		ev["slack"] = slack
		ev["carved"] = w.carve
	case "NewView":
		ev["data"] = oc.data
		ev["slack"] = slack
	case "VRemoveFirst":
		ev["k"] = oc.k
	case "VFirst":
		ev["f"] = oc.f
	case "Prepend":
		ev["isnil"] = oc.isnil
		ev["wlen"] = oc.wlen
		ev["wcap"] = oc.wcap
		if oc.data == nil {
			oc.data = []int{}
		}
		ev["data"] = oc.data
	}
	tr.Log(ev)
	return true
}

// newVV builds a VectorisedView over chunks of the given lengths (fresh bytes) and logs it.
func (w *world) newVV(tr *vh.Trace, lens, slack []int) outcome {
	first := w.nextb
	oc := w.exec("NewVV", 0, 0, lens, slack)
	chunks := make([][]int, len(lens))
	for i, l := range lens {
		chunks[i] = make([]int, l)
		for j := range chunks[i] {
			first++
			chunks[i][j] = first
		}
	}
	if slack == nil {
		slack = []int{}
	}
	if !logEvent(tr, w, "NewVV", 0, 0, slack, oc, chunks) && oc.panicked == "" && oc.stuck == "" {
		oc.panicked = "reading the objects"
	}
	return oc
}

// ops: one explicit operation sequence (the `steps` of a replay file: [op, args...] with the
// arguments of the model actions), logged like a random sequence for TLC.
type opsScript struct {
	ScratchCap int             `json:"scratch_cap"`
	Steps      [][]interface{} `json:"steps"`
}

func ops(in, out string) {
	var sc opsScript
	vh.LoadJSON(in, &sc)
	tr := vh.NewTrace(out)
	w := newWorld(sc.ScratchCap)
	tr.Log(map[string]interface{}{"ev": "reset", "seg": 0})
	for _, st := range sc.Steps {
		op := vh.Str(st[0])
		ok := true
		switch op {
		case "NewVV":
			lens := vh.Ints(st[1])
			var slack []int
			w.carve = false
			if len(st) > 2 {
				slack, w.carve = slackOf(len(lens), vh.Int(st[2]))
			}
			ok = !w.newVV(tr, lens, slack).failed()
		case "NewView":
			n, slack := vh.Int(st[1]), []int{0}
			if len(st) > 2 {
				slack[0] = vh.Int(st[2])
			}
			ok = logEvent(tr, w, op, 0, n, slack, w.exec(op, 0, n, nil, slack), nil)
		case "NewPrep":
			n := vh.Int(st[1])
			ok = logEvent(tr, w, op, 0, n, nil, w.exec(op, 0, n, nil, nil), nil)
		default:
			o, n := vh.Int(st[1]), 0
			if len(st) > 2 {
				n = vh.Int(st[2])
			}
			ok = logEvent(tr, w, op, o, n, nil, w.exec(op, o, n, nil, nil), nil)
		}
		if !ok {
			break
		}
	}
	tr.Close()
}

// shapes: chunkings with empty chunks at the front, in the middle, at the end, several in
// a row, only empty chunks, no chunk at all. Every run starts with one directed sequence
// per shape (own arrays and carved): counts beyond the size, exactly the size, 0, RemoveFirst
// until nothing is left and once more, on the original and on clones.
var shapes = [][]int{{}, {0}, {0, 0}, {0, 0, 0}, {0, 2}, {2, 0}, {2, 0, 3}, {0, 0, 2}, {2, 0, 0}, {1, 0, 0, 2, 0}, {0, 3, 0, 0, 1}, {3}}

func directed(tr *vh.Trace, seg int, shape []int, carve bool) {
	w := newWorld(4)
	tr.Log(map[string]interface{}{"ev": "reset", "seg": seg, "kind": "directed", "shape": shape, "carved": carve})
	size := 0
	for _, l := range shape {
		size += l
	}
	var slack []int
	if carve {
		slack, _ = slackOf(len(shape), 1)
	}
	w.carve = carve
	if w.newVV(tr, shape, slack).failed() {
		return
	}
	k := len(shape)
	type step struct {
		op   string
		o, n int
	}
	steps := []step{
		{"VClone", 1, 0}, {"VTrim", 2, size + 1}, {"VRemoveFirst", 2, 0}, {"VRemoveFirst", 2, 0}, // 2: trimmed beyond the size
		{"VClone", 1, 0}, {"VCap", 3, size + 1}, {"VCap", 3, size}, {"VTrim", 3, size}, {"VRemoveFirst", 3, 0},
		{"VToView", 3, 0}, {"VFirst", 3, 0}, // 4, 5
		{"VClone", 1, 1}, // 6: RemoveFirst until nothing is left, and once more
	}
	for i := 0; i <= k; i++ {
		steps = append(steps, step{"VRemoveFirst", 6, 0})
	}
	steps = append(steps, step{"VTrim", 6, 1}, step{"VCap", 1, 0}, step{"VTrim", 1, 1}, step{"VRemoveFirst", 1, 0},
		step{"VFirst", 1, 0}, step{"WToVV", 7, 0}, step{"VRemoveFirst", 8, 0}, step{"VTrim", 8, 1}, step{"VCap", 8, 1}) // 7 = nil view, 8 = its vectorised view
	for _, st := range steps {
		if !logEvent(tr, w, st.op, st.o, st.n, nil, w.exec(st.op, st.o, st.n, nil, nil), nil) {
			return
		}
	}
}

func random(out string, seed int64, segments, nops int) {
	tr := vh.NewTrace(out)
	seg := 0
	for _, shape := range shapes {
		for _, carve := range []bool{false, true} {
			if (carve && len(shape) == 0) || stuckCalls >= maxStuck {
				continue
			}
			directed(tr, seg, shape, carve)
			seg++
		}
	}
	for s := 0; s < segments && stuckCalls < maxStuck; s++ {
		r := rand.New(rand.NewSource(seed*1000003 + int64(s)))
		w := newWorld(1 + r.Intn(8))
		tr.Log(map[string]interface{}{"ev": "reset", "seg": seg + s, "kind": "random", "seed": seed})
		dead := false // a call panicked: the sequence ends
		logop := func(op string, o, n int, lens, slack []int, oc outcome, chunks [][]int) {
			if !dead && !logEvent(tr, w, op, o, n, slack, oc, chunks) {
				dead = true
			}
		}
		newVV := func() bool {
			budget := maxByte - w.nextb - 40
			if budget < 0 {
				return false
			}
			k := r.Intn(11) // 0..10 chunks
			lens := make([]int, k)
			slack := make([]int, k)
			fd := r.Intn(3) == 0    // sizes shaped like the fd-based endpoint's BufConfig (scaled down)
			carve := r.Intn(2) == 0 // all chunks out of one backing array, each with spare bytes behind it
			cfg := []int{1, 2, 2, 4, 4, 8, 8, 16, 16, 32}
			tot := 0
			for i := range lens {
				l := r.Intn(7)
				if r.Intn(4) == 0 {
					l = 0
				}
				if fd {
					l = cfg[i]
				}
				if tot+l > budget {
					l = 0
				}
				lens[i] = l
				tot += l
				if carve {
					slack[i] = 1 + r.Intn(2)
				} else if r.Intn(4) == 0 {
					slack[i] = 1 + r.Intn(3)
				}
				if tot+slack[i] > budget {
					slack[i] = 0
				}
				tot += slack[i]
			}
			w.carve = carve
			oc := w.newVV(tr, lens, slack)
			if oc.failed() {
				dead = true
			}
			if fd && !oc.failed() { // the dispatcher caps the views to what was read
				o := len(w.objs)
				n := r.Intn(w.objs[o-1].vv.Size() + 2)
				logop("VCap", o, n, nil, nil, w.exec("VCap", o, n, nil, nil), nil)
			}
			return true
		}
		newView := func() {
			n := r.Intn(12)
			slack := []int{0}
			if r.Intn(2) == 0 {
				slack[0] = 1 + r.Intn(3)
			}
			if w.nextb+n+slack[0] > maxByte {
				n, slack[0] = 0, 0
			}
			logop("NewView", 0, n, nil, slack, w.exec("NewView", 0, n, nil, slack), nil)
		}
		newPrep := func() {
			n := r.Intn(24)
			if r.Intn(6) == 0 {
				n = 0
			}
			logop("NewPrep", 0, n, nil, nil, w.exec("NewPrep", 0, n, nil, nil), nil)
		}
		switch r.Intn(8) {
		case 0:
			newPrep()
		case 1:
			newView()
		default:
			newVV()
		}
		for step := 0; step < nops && !dead; step++ {
			full := len(w.objs) >= maxObjs
			if !full && r.Intn(14) == 0 {
				if c := r.Intn(4); c == 0 {
					newPrep()
				} else if c == 1 {
					newView()
				} else if !newVV() {
					newPrep()
				}
				continue
			}
			o := 1 + r.Intn(len(w.objs))
			x := w.objs[o-1]
			op, n := "", 0
			switch x.kind {
			case "vv":
				size := x.vv.Size()
				first := len(x.vv.First())
				var bounds []int
				for acc, _i := 0, 0; _i < len(x.vv.Views()); _i++ {
					acc += len(x.vv.Views()[_i])
					bounds = append(bounds, acc)
				}
				c := r.Intn(20)
				switch {
				case c < 6:
					op, n = "VTrim", pickCount(r, size, first, -1, bounds)
				case c < 10:
					op, n = "VCap", pickCount(r, size, first, -1, bounds)
				case c < 12:
					op = "VRemoveFirst"
				case c < 15:
					op, n = "VClone", r.Intn(2)
					if n == 1 { // the contract: the buffer is not in use by a live object
						for _, y := range w.objs {
							if y.kind == "vv" && y.cloneBuf {
								n = 0
							}
						}
					}
				case c < 17:
					op = "VToView"
				default:
					op = "VFirst"
				}
			case "view":
				size := len(x.v)
				c := r.Intn(10)
				switch {
				case c < 4:
					op, n = "WTrim", pickCount(r, size, size/2, 0, nil)
				case c < 7:
					op, n = "WCap", pickCount(r, size, size/2, 0, nil)
				case c < 9:
					op = "WToVV"
				default:
					op = "WToPrep"
				}
				if n > size { // beyond the length the contract forbids the call (it panics or grows the view)
					n = size
				}
			case "prep":
				if r.Intn(4) == 0 {
					op = "PView"
				} else {
					op, n = "Prepend", r.Intn(6)
					if r.Intn(8) == 0 {
						n = 30 // more than any room: must return nil
					}
					if w.nextb+n > maxByte {
						n = 0
					}
				}
			}
			creates := op == "VClone" || op == "VToView" || op == "VFirst" || op == "WToVV" || op == "WToPrep" || op == "PView"
			if creates && full {
				continue
			}
			logop(op, o, n, nil, nil, w.exec(op, o, n, nil, nil), nil)
		}
	}
	tr.Close()
}

func atoi(s string) int {
	n, err := strconv.Atoi(s)
	if err != nil {
		vh.Fatal("bad int %q", s)
	}
	return n
}

func main() {
	vh.Quiet()
	if len(os.Args) < 2 {
		vh.Fatal("usage: bufferd graph <script.json> | random <out.ndjson> <seed> <segments> <ops> | ops <steps.json> <out.ndjson>")
	}
	switch os.Args[1] {
	case "graph":
		graph(os.Args[2])
	case "ops":
		ops(os.Args[2], os.Args[3])
	case "random":
		random(os.Args[2], int64(atoi(os.Args[3])), atoi(os.Args[4]), atoi(os.Args[5]))
	default:
		vh.Fatal("unknown mode %q", os.Args[1])
	}
}
