// Package vh holds helpers shared by the conformance drivers: script/graph
// input, ndjson trace output, result records.
package vh

import (
	"bufio"
	"encoding/json"
	"fmt"
	"io"
	"log"
	"os"
	"runtime"
	"sort"
	"sync"
	"sync/atomic"
	"time"
)

// Graph is a TLC state graph cut into root-to-edge paths by tools/vlib.py.
type Graph struct {
	States map[string]map[string]interface{} `json:"states"`
	Init   string                            `json:"init"`
	Paths  [][]Step                          `json:"paths"`
}

// Step is one edge: action name, arguments, destination state id.
type Step struct {
	Act  string        `json:"a"`
	Args []interface{} `json:"args"`
	Dst  string        `json:"dst"`
}

// Mismatch describes one disagreement between model and code.
type Mismatch struct {
	Path int         `json:"path"`
	Step int         `json:"step"`
	What string      `json:"what"`
	Want interface{} `json:"want,omitempty"`
	Got  interface{} `json:"got,omitempty"`
	Kind string      `json:"kind"` // "property" (P-level observation) or "drift" (I-level projection)
}

// Result is what a driver prints on stdout (one JSON object).
type Result struct {
	Paths      int                    `json:"paths"`
	Steps      int                    `json:"steps"`
	Mismatches []Mismatch             `json:"mismatches"`
	Extra      map[string]interface{} `json:"extra,omitempty"`
}

func LoadJSON(path string, v interface{}) {
	f, err := os.Open(path)
	if err != nil {
		Fatal("open %s: %v", path, err)
	}
	defer f.Close()
	d := json.NewDecoder(bufio.NewReaderSize(f, 1<<20))
	d.UseNumber()
	if err := d.Decode(v); err != nil {
		Fatal("decode %s: %v", path, err)
	}
}

func Emit(v interface{}) {
	w := bufio.NewWriter(os.Stdout)
	e := json.NewEncoder(w)
	if err := e.Encode(v); err != nil {
		Fatal("encode: %v", err)
	}
	w.Flush()
}

// Fatal reports a harness problem (exit 3: inconclusive, never a violation).
func Fatal(f string, a ...interface{}) {
	fmt.Fprintf(os.Stderr, "HARNESS-ERROR: "+f+"\n", a...)
	os.Exit(3)
}

func Quiet() { log.SetOutput(io.Discard) }

func Int(v interface{}) int {
	switch x := v.(type) {
	case json.Number:
		n, _ := x.Int64()
		return int(n)
	case float64:
		return int(x)
	case int:
		return x
	}
	Fatal("not an int: %#v", v)
	return 0
}

func Str(v interface{}) string {
	s, ok := v.(string)
	if !ok {
		Fatal("not a string: %#v", v)
	}
	return s
}

func Bool(v interface{}) bool {
	b, ok := v.(bool)
	if !ok {
		Fatal("not a bool: %#v", v)
	}
	return b
}

func List(v interface{}) []interface{} {
	l, ok := v.([]interface{})
	if !ok {
		Fatal("not a list: %#v", v)
	}
	return l
}

func Strs(v interface{}) []string {
	var out []string
	for _, x := range List(v) {
		out = append(out, Str(x))
	}
	return out
}

func Ints(v interface{}) []int {
	var out []int
	for _, x := range List(v) {
		out = append(out, Int(x))
	}
	return out
}

func Map(v interface{}) map[string]interface{} {
	m, ok := v.(map[string]interface{})
	if !ok {
		Fatal("not a map: %#v", v)
	}
	return m
}

// Canon renders a JSON-like value with sets (lists) sorted, for comparison.
func Canon(v interface{}) string {
	switch x := v.(type) {
	case []interface{}:
		var parts []string
		for _, e := range x {
			parts = append(parts, Canon(e))
		}
		return "<" + fmt.Sprint(parts) + ">"
	case map[string]interface{}:
		var keys []string
		for k := range x {
			keys = append(keys, k)
		}
		sort.Strings(keys)
		s := "{"
		for _, k := range keys {
			s += k + ":" + Canon(x[k]) + ","
		}
		return s + "}"
	}
	return fmt.Sprint(v)
}

// SetCanon renders a list as a set (sorted canonical elements).
func SetCanon(v []interface{}) string {
	var parts []string
	for _, e := range v {
		parts = append(parts, Canon(e))
	}
	sort.Strings(parts)
	return fmt.Sprint(parts)
}

// Trace is an ndjson event log with a global ticket counter.
type Trace struct {
	mu     sync.Mutex
	w      *bufio.Writer
	f      *os.File
	ticket int64
	N      int
	last   int64 // unix nanoseconds of the last Log call
}

// Watchdog makes non-termination of the code under test a verdict instead of
// a hang of the check: if no event is logged for d (a driver logs an event for
// every operation it performs, and its operations are not supposed to block),
// a `stuck` event with a goroutine dump is appended, the log is flushed and the
// process exits with status 3. The check re-runs the scenario alone and
// reports a reproducible `stuck` as a call of the real code that never returns.
func (t *Trace) Watchdog(d time.Duration) {
	atomic.StoreInt64(&t.last, time.Now().UnixNano())
	go func() {
		for {
			time.Sleep(time.Second)
			if time.Since(time.Unix(0, atomic.LoadInt64(&t.last))) > d {
				buf := make([]byte, 1<<16)
				n := runtime.Stack(buf, true)
				dump := string(buf[:n])
				if len(dump) > 6000 {
					dump = dump[:6000]
				}
				b, _ := json.Marshal(map[string]interface{}{"ev": "stuck", "silent_s": int(d / time.Second), "goroutines": dump})
				// the logger's mutex may be held by the stuck goroutine's caller: do not take it
				t.w.Write(b)
				t.w.WriteByte('\n')
				t.w.Flush()
				os.Exit(3)
			}
		}
	}()
}

func NewTrace(path string) *Trace {
	f, err := os.Create(path)
	if err != nil {
		Fatal("create %s: %v", path, err)
	}
	return &Trace{w: bufio.NewWriterSize(f, 1<<20), f: f}
}

// Ticket returns the next global ticket (taken outside any object lock).
func (t *Trace) Ticket() int64 { return atomic.AddInt64(&t.ticket, 1) }

// Log writes one event.
func (t *Trace) Log(ev map[string]interface{}) {
	b, err := json.Marshal(ev)
	if err != nil {
		Fatal("marshal: %v", err)
	}
	t.mu.Lock()
	t.w.Write(b)
	t.w.WriteByte('\n')
	t.N++
	atomic.StoreInt64(&t.last, time.Now().UnixNano())
	t.mu.Unlock()
}

func (t *Trace) Close() {
	t.mu.Lock()
	t.w.Flush()
	t.f.Close()
	t.mu.Unlock()
}
