module verifh

go 1.12

require github.com/brewlin/net-protocol v0.0.0

replace github.com/brewlin/net-protocol => /repo
