package main

// CHILD role: hosts the real stack, executes commands from stdin.

import (
	"bufio"
	"bytes"
	"encoding/hex"
	"encoding/json"
	"fmt"
	"math/rand"
	"os"
	"runtime"
	"sync"
	"time"

	"github.com/brewlin/net-protocol/pkg/waiter"
	"github.com/brewlin/net-protocol/pkg/sleep"
	tcpip "github.com/brewlin/net-protocol/protocol"
	"github.com/brewlin/net-protocol/protocol/transport/tcp"
	"github.com/brewlin/net-protocol/protocol/transport/udp"
	"github.com/brewlin/net-protocol/stack"
	"verifh/vh"
	"verifh/wire"
)

// Case is one line of the TLC dump: abstract case c, numbers n, outcome o.
type Case struct {
	ID int `json:"id"`
	C  M   `json:"c"`
	N  M   `json:"n,omitempty"`
	O  M   `json:"o,omitempty"`
}

type udpRx struct {
	V     int    `json:"v"`
	Sport int    `json:"sport"`
	Hex   string `json:"hex"`
}

type lateObs struct {
	ID  int    `json:"id"`
	Cls string `json:"cls"`
}

type child struct {
	h      *wire.Host
	links  map[int]*wire.Link
	mu     sync.Mutex
	sig    chan struct{}
	em     []*emit // emitted frames not yet classified
	scan   int     // Wait cursor into em
	injG   int64   // the delivery goroutine while it is inside the stack (0 = not)
	dispG  int64
	jobs   chan job
	wedged bool // the delivery goroutine did not come back from the stack

	unread tcpip.Endpoint      // UDP socket on udpUnread
	sinks  chan tcpip.Endpoint // connections accepted on sinkPort

	slot    int            // cases executed by this child
	owner   map[int][2]int // tag port -> (case id, slot)
	ownerI  map[int][2]int // tag ident -> (case id, slot)
	curID   int
	udp     map[int]tcpip.Endpoint
	fwd     []*emit
	fwdUDP  []udpRx
	late    []lateObs
	strays  int
	synacks []*emit // SYN-ACKs to tag ports awaiting a clean-up RST
	wait    time.Duration
	bseq    int
	accepts int64
}

// Inject hands a packet to the ONE delivery goroutine (like a real link's
// dispatch loop: all packets enter in order on the same goroutine) and waits
// for it.  If the stack does not return within the deadline the delivery
// goroutine is wedged: every later injection fails fast and the barrier
// reports it, so the parent sees unanswered probes, not a hung child.
type job struct {
	nic, proto int
	parts      [][]byte
	done       chan struct{}
}

func (c *child) dispatch() {
	g := goid()
	c.mu.Lock()
	c.dispG = g
	c.mu.Unlock()
	for j := range c.jobs {
		if l := c.links[j.nic]; l != nil {
			c.mu.Lock()
			c.injG = g
			c.mu.Unlock()
			if len(j.parts) == 1 {
				l.Inject(tcpip.NetworkProtocolNumber(j.proto), j.parts[0], rmacFor(j.nic))
			} else {
				l.InjectViews(tcpip.NetworkProtocolNumber(j.proto), j.parts, rmacFor(j.nic))
			}
			c.mu.Lock()
			c.injG = 0
			c.mu.Unlock()
		}
		close(j.done)
	}
}

func (c *child) Inject(nic int, proto int, parts [][]byte) {
	if c.wedged {
		return
	}
	j := job{nic: nic, proto: proto, parts: parts, done: make(chan struct{})}
	c.jobs <- j
	select {
	case <-j.done:
	case <-time.After(c.wait):
		c.wedged = true
	}
}

func (c *child) tap(nic int) func(l *wire.Link, f wire.Frame) {
	return func(l *wire.Link, f wire.Frame) {
		e := &emit{Nic: nic, Proto: int(f.Proto), B: f.Bytes}
		e.d = decode(e.Proto, e.B)
		g := goid()
		c.mu.Lock()
		e.sync = c.injG != 0 && g == c.injG
		c.em = append(c.em, e)
		c.mu.Unlock()
		select {
		case c.sig <- struct{}{}:
		default:
		}
	}
}

func (c *child) Wait(m func(*emit) bool, d time.Duration) (*emit, bool) {
	deadline := time.Now().Add(d)
	for {
		c.mu.Lock()
		for c.scan < len(c.em) {
			e := c.em[c.scan]
			c.scan++
			if m(e) {
				c.mu.Unlock()
				return e, true
			}
		}
		c.mu.Unlock()
		rem := time.Until(deadline)
		if rem <= 0 {
			return nil, false
		}
		select {
		case <-c.sig:
		case <-time.After(rem):
		}
	}
}

// find looks for an already emitted, unclassified frame without consuming the cursor.
func (c *child) find(m func(*emit) bool) *emit {
	c.mu.Lock()
	defer c.mu.Unlock()
	for _, e := range c.em {
		if m(e) {
			return e
		}
	}
	return nil
}

func newChild() *child {
	c := &child{links: map[int]*wire.Link{}, sig: make(chan struct{}, 1), owner: map[int][2]int{}, ownerI: map[int][2]int{},
		udp: map[int]tcpip.Endpoint{}, wait: 20 * time.Second, curID: -1, jobs: make(chan job, 16), sinks: make(chan tcpip.Endpoint, 64)}
	go c.dispatch()
	clock := wire.NewClock()
	c.h = wire.NewHost(clock, "c", []wire.NICSpec{
		{ID: 1, MTU: 1500, Addr4: []string{"10.0.0.1"}, Addr6: []string{"fd00::1"}},
		{ID: 2, MTU: 1500, MAC: macOwn2, Caps: stack.CapabilityResolutionRequired, Addr4: []string{"10.0.1.1"}, Addr6: []string{"fd01::1"}},
	})
	z4, z16 := make([]byte, 4), make([]byte, 16)
	m24 := tcpip.AddressMask([]byte{255, 255, 255, 0})
	m64 := tcpip.AddressMask(append([]byte{255, 255, 255, 255, 255, 255, 255, 255}, make([]byte, 8)...))
	c.h.S.SetRouteTable([]tcpip.Route{
		{Destination: tcpip.Address(ip4("10.0.1.0")), Mask: m24, NIC: 2},
		{Destination: tcpip.Address(ip6("fd01::")), Mask: m64, NIC: 2},
		{Destination: tcpip.Address(z4), Mask: tcpip.AddressMask(z4), NIC: 1},
		{Destination: tcpip.Address(z16), Mask: tcpip.AddressMask(z16), NIC: 1},
	})
	for id, l := range c.h.Links {
		c.links[int(id)] = l
		l.OnEmit = c.tap(int(id))
	}
	for _, v := range []int{4, 6} {
		np := tcpip.NetworkProtocolNumber(netProto(v))
		// UDP socket
		wq := &waiter.Queue{}
		ep, err := c.h.S.NewEndpoint(udp.ProtocolNumber, np, wq)
		if err != nil {
			vh.Fatal("udp endpoint: %v", err)
		}
		if v == 6 {
			ep.SetSockOpt(tcpip.V6OnlyOption(1))
		}
		if err := ep.Bind(tcpip.FullAddress{Port: udpPort}, nil); err != nil {
			vh.Fatal("udp bind v%d: %v", v, err)
		}
		c.udp[v] = ep
		// TCP listener with an echoing accept loop
		lq := &waiter.Queue{}
		lep, err := c.h.S.NewEndpoint(tcp.ProtocolNumber, np, lq)
		if err != nil {
			vh.Fatal("tcp endpoint: %v", err)
		}
		if v == 6 {
			lep.SetSockOpt(tcpip.V6OnlyOption(1))
		}
		if err := lep.Bind(tcpip.FullAddress{Port: lstPort}, nil); err != nil {
			vh.Fatal("tcp bind v%d: %v", v, err)
		}
		if err := lep.Listen(64); err != nil {
			vh.Fatal("listen: %v", err)
		}
		go c.acceptLoop(lep, lq)
	}
	// queue-pressure targets: a UDP socket read only on demand, a listener whose connections are not read
	{
		ep, err := c.h.S.NewEndpoint(udp.ProtocolNumber, tcpip.NetworkProtocolNumber(0x0800), &waiter.Queue{})
		if err != nil {
			vh.Fatal("udp endpoint: %v", err)
		}
		if err := ep.Bind(tcpip.FullAddress{Port: udpUnread}, nil); err != nil {
			vh.Fatal("udp bind: %v", err)
		}
		c.unread = ep
		lq := &waiter.Queue{}
		lep, err := c.h.S.NewEndpoint(tcp.ProtocolNumber, tcpip.NetworkProtocolNumber(0x0800), lq)
		if err != nil {
			vh.Fatal("tcp endpoint: %v", err)
		}
		if err := lep.Bind(tcpip.FullAddress{Port: sinkPort}, nil); err != nil {
			vh.Fatal("tcp bind: %v", err)
		}
		if err := lep.Listen(16); err != nil {
			vh.Fatal("listen: %v", err)
		}
		go func() {
			we, ch := waiter.NewChannelEntry(nil)
			lq.EventRegister(&we, waiter.EventIn)
			for {
				ep, _, err := lep.Accept()
				if err == tcpip.ErrWouldBlock {
					<-ch
					continue
				}
				if err != nil {
					return
				}
				c.sinks <- ep
			}
		}()
	}
	return c
}

func (c *child) acceptLoop(lep tcpip.Endpoint, lq *waiter.Queue) {
	we, ch := waiter.NewChannelEntry(nil)
	lq.EventRegister(&we, waiter.EventIn)
	for {
		ep, wq, err := lep.Accept()
		if err == tcpip.ErrWouldBlock {
			<-ch
			continue
		}
		if err != nil {
			fmt.Fprintf(os.Stderr, "ACCEPT-ERROR: %v\n", err)
			return
		}
		c.mu.Lock()
		c.accepts++
		c.mu.Unlock()
		go echoLoop(ep, wq)
	}
}

func echoLoop(ep tcpip.Endpoint, wq *waiter.Queue) {
	we, ch := waiter.NewChannelEntry(nil)
	wq.EventRegister(&we, waiter.EventIn|waiter.EventOut|waiter.EventHUp|waiter.EventErr)
	defer func() {
		wq.EventUnregister(&we)
		ep.Close()
	}()
	for {
		v, _, err := ep.Read(nil)
		if err == tcpip.ErrWouldBlock {
			<-ch
			continue
		}
		if err != nil {
			return
		}
		for len(v) > 0 {
			n, _, err := ep.Write(tcpip.SlicePayload(v), tcpip.WriteOptions{})
			if err == tcpip.ErrWouldBlock {
				<-ch
				continue
			}
			if err != nil {
				return
			}
			v = v[n:]
		}
	}
}

// barrier flushes the ICMPv4 echo replier (FIFO) so that every reply caused
// by earlier frames has been emitted.
func (c *child) barrier() error {
	// one echo replier goroutine per IPv4 endpoint (address): flush both
	for _, nic := range []int{1, 2} {
		if c.wedged {
			return fmt.Errorf("the delivery goroutine did not return from the stack within %v (wedged)", c.wait)
		}
		c.bseq = (c.bseq + 1) & 0xffff
		seq := c.bseq
		msg := wire.BuildICMPv4Echo(8, barrierID, uint16(seq), nil)
		// the stack answers echo requests only while fewer than ten are pending (a burst may make it drop
		// ours): repeat the request until it is answered or the deadline passes
		deadline := time.Now().Add(c.wait)
		ok := false
		for try := 100 * time.Millisecond; !ok && !c.wedged && time.Now().Before(deadline); try *= 2 {
			c.Inject(nic, 0x0800, [][]byte{ipWrap(4, nic, 1, msg, barrierID)})
			w := time.Until(deadline)
			if w > try {
				w = try
			}
			_, ok = c.Wait(func(e *emit) bool {
				return e.d.kind == "icmp4" && e.d.itype == 0 && e.d.ident == barrierID && e.d.iseq == seq
			}, w)
		}
		if !ok {
			return fmt.Errorf("barrier echo on NIC %d not answered within %v", nic, c.wait)
		}
	}
	return nil
}

// classify attributes every pending emitted frame and drains the UDP sockets.
func (c *child) classify(obs map[string]bool) {
	c.mu.Lock()
	em := c.em
	c.em, c.scan = nil, 0
	c.mu.Unlock()
	for _, e := range em {
		d := &e.d
		switch {
		case d.kind == "tcp" && d.dport >= probeLo, d.kind == "icmp4" && d.itype == 0 && d.ident >= probeIdent:
			e.Hex = hex.EncodeToString(e.B)
			c.fwd = append(c.fwd, e)
			continue
		case d.kind == "icmp4" && d.itype == 0 && d.ident == barrierID:
			continue
		}
		cls := d.obsClass()
		id, known := -1, false
		if d.kind == "tcp" {
			id, known = c.ownerTCP(d)
			if known && cls == "synack" {
				c.synacks = append(c.synacks, e)
			}
		} else if (d.kind == "icmp4" && d.itype == 0) || (d.kind == "icmp6" && d.itype == 129) {
			id, known = c.ownerEcho(d)
		}
		switch {
		case e.sync && obs != nil, known && id == c.curID && obs != nil:
			obs[cls] = true
		case known:
			c.late = append(c.late, lateObs{ID: id, Cls: cls})
		default:
			c.strays++
		}
	}
	for v, ep := range c.udp {
		for i := 0; i < 4096; i++ {
			var fa tcpip.FullAddress
			b, _, err := ep.Read(&fa)
			if err != nil {
				break
			}
			p := int(fa.Port)
			if p >= probeLo {
				c.fwdUDP = append(c.fwdUDP, udpRx{V: v, Sport: p, Hex: hex.EncodeToString(b)})
				continue
			}
			if id, ok := c.ownerUDP(p, b); ok {
				if id == c.curID && obs != nil {
					obs["udp"] = true
				} else {
					c.late = append(c.late, lateObs{ID: id, Cls: "udp"})
				}
			} else {
				c.strays++
			}
		}
	}
}

// Attribution of asynchronous observations to the case that caused them: the
// tag (port / ident) must match AND the frame must echo a value only that
// case used (sequence number base, payload pattern), so that garbage or
// noise frames that happen to carry a tag are not blamed on another case.
func seqBases(slot int) []uint32 {
	return []uint32{uint32(1000 + slot), uint32(0x01000000 + slot*4099), uint32(0x02000000 + slot*4099), uint32(5000 + slot),
		uint32(0x03000000 + slot*4099), uint32(0x04000000 + slot*4099), uint32(0x05000000 + slot*4099)}
}

func (c *child) ownerTCP(d *dec) (int, bool) {
	o, ok := c.owner[d.dport]
	if !ok {
		return -1, false
	}
	if d.flags&wire.ACK == 0 {
		return o[0], true
	}
	for _, b := range seqBases(o[1]) {
		if d.ack-b <= 6000 {
			return o[0], true
		}
	}
	return -1, false
}

func (c *child) ownerEcho(d *dec) (int, bool) {
	o, ok := c.ownerI[d.ident]
	if !ok || d.iseq != 1 {
		return -1, false
	}
	pat := wire.Pattern(o[1], 24)
	n := len(d.payload)
	if n > 24 {
		n = 24
	}
	if !bytes.Equal(pat[:n], d.payload[:n]) {
		return -1, false
	}
	return o[0], true
}

func (c *child) ownerUDP(port int, b []byte) (int, bool) {
	o, ok := c.owner[port]
	if !ok {
		return -1, false
	}
	if len(b) >= 8 && !bytes.Contains(b, wire.Pattern(o[1], 16)[:8]) && !bytes.Contains(b, wire.Pattern(o[1], 24)[:8]) {
		return -1, false
	}
	return o[0], true
}

// cleanup resets half-open connections created by tagged SYNs.
func (c *child) cleanup() {
	sa := c.synacks
	c.synacks = nil
	for _, e := range sa {
		k := &conn{v: e.d.v, nic: e.Nic, sport: e.d.dport, dport: e.d.sport}
		c.Inject(e.Nic, netProto(e.d.v), [][]byte{k.seg(wire.RST, e.d.ack, 0, nil, nil)})
	}
}

func needsEst(cs *Case) (bool, int, int) {
	k := gs(cs.C, "k")
	if k != "ip4" && k != "ip6" {
		return false, 0, 0
	}
	v := 4
	if k == "ip6" {
		v = 6
	}
	l := gm(cs.C, "l4")
	pr := gs(cs.C, "pr")
	if pr == "tcp" && gs(l, "tgt") == "est" {
		return true, v, gi(cs.C, "nic")
	}
	if pr == "icmp" && gs(l, "ty") == "unreach" && gs(l, "epr") == "tcp" {
		return true, v, gi(cs.C, "nic")
	}
	return false, 0, 0
}

// runCase executes one abstract case: concretise, inject, barrier, observe.
func (c *child) runCase(cs *Case, wantHex, dry bool) M {
	slot := c.slot
	c.slot++
	c.curID = cs.ID
	c.owner[tagPort(slot)] = [2]int{cs.ID, slot}
	c.ownerI[tagIdent(slot)] = [2]int{cs.ID, slot}
	obs := map[string]bool{}
	res := M{"id": cs.ID}
	var pkts []pkt
	var est *conn
	send := func(p pkt) {
		pkts = append(pkts, p)
		if !dry {
			c.Inject(p.Nic, p.Proto, p.Parts)
		}
	}
	hexOf := func() []M {
		hx := []M{}
		for _, p := range pkts {
			hx = append(hx, M{"nic": p.Nic, "proto": p.Proto, "parts": hexParts(p.Parts)})
		}
		return hx
	}
	switch gs(cs.C, "k") {
	case "ip4", "ip6":
		if need, v, nic := needsEst(cs); need && !dry {
			k, err := handshake(c, v, nic, tagPort(slot), uint32(0x01000000+slot*4099), c.wait)
			if err != nil {
				res["err"] = "handshake: " + err.Error()
				return res
			}
			est = k
		}
		send(buildIP(cs, slot, est))
	case "arp":
		send(buildARP(cs, slot))
	case "fseq":
		for _, p := range buildFSeq(cs, slot) {
			send(p)
		}
	case "tseq":
		c.runTSeq(cs, slot, send, dry)
	case "ierr":
		if err := c.runIErr(cs, slot, send, dry); err != nil {
			res["err"] = err.Error()
			return res
		}
	case "holes":
		if err := c.runHoles(cs, slot, send, dry); err != nil {
			res["err"] = err.Error()
			return res
		}
	case "eseq":
		if err := c.runESeq(cs, slot, send, dry); err != nil {
			res["err"] = err.Error()
			return res
		}
	case "press":
		if !dry {
			if err := c.runPress(cs, slot, obs); err != nil {
				res["err"] = err.Error()
				return res
			}
		}
	default:
		vh.Fatal("unknown case kind %v", cs.C["k"])
	}
	if dry { // concretise only (replay files of crashing cases)
		c.curID = -1
		res["pkts"] = hexOf()
		res["obs"] = []string{}
		return res
	}
	if err := c.barrier(); err != nil {
		res["err"] = err.Error()
		return res
	}
	c.classify(obs)
	if est != nil { // reset the per-case connection whatever the frame did to it
		for _, s := range []uint32{est.snd, est.snd + 16, est.snd + 17, est.snd + 1} {
			c.Inject(est.nic, netProto(est.v), [][]byte{est.seg(wire.RST, s, 0, nil, nil)})
		}
	}
	c.cleanup()
	c.curID = -1
	ol := []string{}
	for k := range obs {
		ol = append(ol, k)
	}
	res["obs"] = ol
	if wantHex {
		res["pkts"] = hexOf()
	}
	return res
}

// runTSeq plays a segment sequence on one 4-tuple aimed at the v4 listener.
func (c *child) runTSeq(cs *Case, slot int, send func(pkt), dry bool) {
	k := &conn{v: 4, nic: 1, sport: tagPort(slot), dport: lstPort, iss: uint32(0x02000000 + slot*4099)}
	k.snd = k.iss + 1
	sentSyn, haveIrs := false, false
	learn := func() {
		if haveIrs || !sentSyn || dry {
			return
		}
		m := matchTCP(k, func(d *dec) bool { return d.flags&(wire.SYN|wire.ACK) == wire.SYN|wire.ACK })
		e := c.find(m)
		if e == nil {
			c.mu.Lock()
			c.scan = 0
			c.mu.Unlock()
			e, _ = c.Wait(m, 2*time.Second)
		}
		if e != nil {
			k.irs, k.rcv, haveIrs = e.d.seq, e.d.seq+1, true
		}
	}
	ackv := func() uint32 {
		if haveIrs {
			return k.rcv
		}
		return 999
	}
	inj := func(b []byte) { send(pkt{Nic: 1, Proto: 0x0800, Parts: [][]byte{b}}) }
	icmpErr := func(code uint8, mtu int) {
		b := make([]byte, 8)
		b[0], b[1] = 3, code
		be.PutUint16(b[6:], uint16(mtu))
		l := M{"esrc": "own", "epr": "tcp", "efr": "0", "eihl": "5"}
		b = append(b, embedded(4, 1, l, slot, k, 28)...)
		be.PutUint16(b[2:], ^wire.Sum1071(b, 0))
		inj(ipWrap(4, 1, 1, b, slot))
	}
	typ := append(append(append(wire.OptMSS(1460), wire.OptSACKPerm()...), wire.OptTS(1, 0)...), 1, 3, 3, 7)
	for _, x := range vh.List(cs.C["ls"]) {
		switch vh.Str(x) {
		case "S":
			inj(k.seg(wire.SYN, k.iss, 0, wire.OptMSS(1400), nil))
			sentSyn = true
		case "So":
			inj(k.seg(wire.SYN, k.iss, 0, typ, nil))
			sentSyn = true
		case "Sx2":
			inj(k.seg(wire.SYN, k.iss+5000, 0, wire.OptMSS(1400), nil))
		case "SA":
			inj(k.seg(wire.SYN|wire.ACK, k.iss, 777, nil, nil))
		case "A":
			inj(k.seg(wire.ACK, k.snd, 999, nil, nil))
		case "Ax":
			learn()
			inj(k.seg(wire.ACK, k.snd, ackv(), nil, nil))
		case "PA":
			inj(k.seg(wire.PSH|wire.ACK, k.snd, 999, nil, wire.Pattern(slot, 16)))
		case "PAx":
			learn()
			inj(k.seg(wire.PSH|wire.ACK, k.snd, ackv(), nil, wire.Pattern(slot, 16)))
			k.snd += 16
		case "R":
			inj(k.seg(wire.RST, k.iss, 0, nil, nil))
		case "Rx":
			inj(k.seg(wire.RST, k.snd, 0, nil, nil))
		case "Fx":
			inj(k.seg(wire.FIN, k.snd, 0, nil, nil))
		case "FAx":
			learn()
			inj(k.seg(wire.FIN|wire.ACK, k.snd, ackv(), nil, nil))
			k.snd++
		case "BIG":
			learn()
			icmpErr(4, 68)
		case "UNR":
			learn()
			icmpErr(3, 0)
		default:
			vh.Fatal("tseq letter %v", x)
		}
	}
	for _, s := range []uint32{k.snd, k.iss + 1} {
		if dry {
			break
		}
		c.Inject(1, 0x0800, [][]byte{k.seg(wire.RST, s, 0, nil, nil)})
	}
}

// ----------------------------------------------------------------- noise
// noiseFrame derives frame i of a seeded noise stream (stateless: depends on
// (seed, i) only, so a single frame can be replayed).
func noiseFrame(seed int64, i int) pkt {
	r := rand.New(rand.NewSource(seed*1000003 + int64(i)))
	nic := 1 + r.Intn(2)
	protos := []int{0x0800, 0x86dd, 0x0806}
	if r.Intn(4) == 0 { // pure noise
		n := r.Intn(120)
		if r.Intn(8) == 0 {
			n = r.Intn(2000)
		}
		b := make([]byte, n)
		r.Read(b)
		if n > 0 && r.Intn(2) == 0 { // plausible version nibble
			b[0] = []byte{0x45, 0x46, 0x4f, 0x60, 0x40}[r.Intn(5)]
		}
		pr := protos[r.Intn(3)]
		if r.Intn(10) == 0 {
			pr = r.Intn(65536)
		}
		return pkt{Nic: nic, Proto: pr, Parts: cutViews(r, b)}
	}
	// a valid template, then mutations
	v := 4
	if r.Intn(3) == 0 {
		v = 6
	}
	peer, own, _ := addrs(v, nic)
	sport := noiseLo + r.Intn(6000)
	var b []byte
	pr := netProto(v)
	switch r.Intn(9) {
	case 0:
		if v == 4 {
			b = ipWrap(4, nic, 1, wire.BuildICMPv4Echo(8, uint16(0xE100+r.Intn(0xC00)), uint16(i), wire.Pattern(i+1000003, r.Intn(64))), i)
		} else {
			var rest [4]byte
			rest[0], rest[1] = 0xE1, byte(i)
			b = ipWrap(6, nic, 58, wire.BuildICMPv6(peer, own, 128, 0, rest, wire.Pattern(i+1000003, r.Intn(64))), i)
		}
	case 1:
		b = ipWrap(v, nic, 17, wire.BuildUDP(peer, own, uint16(sport), udpPort, wire.Pattern(i+1000003, r.Intn(100)), wire.UDPOpts{}), i)
	case 2, 3:
		fl := []uint8{wire.SYN, wire.ACK, wire.RST, wire.FIN | wire.ACK, wire.PSH | wire.ACK, wire.SYN | wire.ACK}[r.Intn(6)]
		opts := [][]byte{nil, wire.OptMSS(1400), wire.PadOpts(append(wire.OptMSS(1460), wire.OptTS(1, 2)...)), wire.PadOpts(wire.OptSACK([]wire.SACKBlock{{Start: 1, End: 2}}))}[r.Intn(4)]
		t := wire.BuildTCP(peer, own, wire.TCPFields{SrcPort: uint16(sport), DstPort: uint16(lstPort + r.Intn(2)), Seq: r.Uint32(), Ack: r.Uint32(), Flags: fl, Window: 1000, Opts: opts}, wire.Pattern(i+1000003, r.Intn(40)))
		b = ipWrap(v, nic, 6, t, i)
	case 4:
		_, own2, _ := addrs(4, 2)
		b = wire.BuildARP(uint16(1+r.Intn(2)), []byte(wire.MAC(macPeer2)), ip4("10.0.1.9"), make([]byte, 6), own2)
		pr, nic = 0x0806, 2
	case 5: // fragment of a UDP datagram
		d := wire.BuildUDP(ip4("10.0.0.9"), ip4("10.0.0.1"), uint16(sport), udpPort, wire.Pattern(i+1000003, 64), wire.UDPOpts{})
		o := 8 * r.Intn(9)
		e := o + 8*(1+r.Intn(4))
		if e > len(d) {
			e = len(d)
		}
		b = wire.BuildIPv4(ip4("10.0.0.9"), ip4("10.0.0.1"), 17, d[o:e], wire.IPv4Opts{ID: uint16(r.Intn(4)), MF: r.Intn(2) == 0, FragOff: o})
		pr, nic = 0x0800, 1
	case 6: // ICMP error quoting a datagram
		m := make([]byte, 8)
		m[0], m[1] = 3, byte(r.Intn(6))
		be.PutUint16(m[6:], uint16(r.Intn(2000)))
		l := M{"esrc": "own", "epr": []string{"tcp", "udp"}[r.Intn(2)], "efr": "0", "eihl": "5"}
		m = append(m, embedded(4, 1, l, sport-tagLo, nil, 20+r.Intn(29))...)
		be.PutUint16(m[2:], ^wire.Sum1071(m, 0))
		b = ipWrap(4, 1, 1, m, i)
		pr, nic = 0x0800, 1
	case 7: // neighbour solicitation / advertisement
		_, own6, _ := addrs(6, nic)
		body := append(append([]byte{}, own6...), 1, 1, 2, 0, 0, 0, 0, 9)
		b = wire.BuildIPv6(peer16(nic), own6, 58, wire.BuildICMPv6(peer16(nic), own6, uint8(135+r.Intn(2)), 0, [4]byte{}, body), 255)
		pr = 0x86dd
	default:
		b = ipWrap(v, nic, uint8(r.Intn(256)), wire.Pattern(i+1000003, r.Intn(60)), i)
	}
	// mutations
	for k := r.Intn(4); k > 0; k-- {
		if len(b) == 0 {
			break
		}
		switch r.Intn(4) {
		case 0:
			b = b[:r.Intn(len(b)+1)]
		case 1:
			for j := 1 + r.Intn(8); j > 0; j-- {
				b[r.Intn(len(b))] ^= 1 << uint(r.Intn(8))
			}
		case 2:
			b[r.Intn(len(b))] = []byte{0, 0xff, 0x7f, 0x80, 1}[r.Intn(5)]
		case 3: // hit the first 24 bytes (length / offset / flag fields)
			b[r.Intn(minInt(len(b), 24))] = byte(r.Intn(256))
		}
	}
	return pkt{Nic: nic, Proto: pr, Parts: cutViews(r, b)}
}

func peer16(nic int) []byte { p, _, _ := addrs(6, nic); return p }

func minInt(a, b int) int {
	if a < b {
		return a
	}
	return b
}

func cutViews(r *rand.Rand, b []byte) [][]byte {
	if len(b) < 2 || r.Intn(3) != 0 {
		return [][]byte{b}
	}
	parts := [][]byte{}
	for n := 1 + r.Intn(2); n > 0 && len(b) > 1; n-- {
		c := 1 + r.Intn(len(b)-1)
		parts = append(parts, b[:c])
		b = b[c:]
	}
	return append(parts, b)
}

// ------------------------------------------------------------ command loop
func (c *child) reply(w *bufio.Writer, res M) {
	res["late"] = c.late
	res["em"] = c.fwd
	res["udp"] = c.fwdUDP
	res["strays"] = c.strays
	c.late, c.fwd, c.fwdUDP = nil, nil, nil
	b, err := json.Marshal(res)
	if err != nil {
		vh.Fatal("marshal: %v", err)
	}
	w.Write(b)
	w.WriteByte('\n')
	w.Flush()
}

func serve() {
	vh.Quiet()
	c := newChild()
	in := bufio.NewReaderSize(os.Stdin, 1<<20)
	w := bufio.NewWriterSize(os.Stdout, 1<<20)
	for {
		line, err := in.ReadBytes('\n')
		if len(line) > 0 {
			var cmd M
			d := json.NewDecoder(bytesReader(line))
			d.UseNumber()
			if e := d.Decode(&cmd); e != nil {
				vh.Fatal("bad command: %v", e)
			}
			res := M{"rid": cmd["rid"]}
			switch vh.Str(cmd["cmd"]) {
			case "hello":
				res["pid"] = os.Getpid()
				c.classify(nil)
			case "wait":
				c.wait = time.Duration(vh.Int(cmd["ms"])) * time.Millisecond
			case "case":
				var cs Case
				cs.ID = vh.Int(cmd["id"])
				cs.C = vh.Map(cmd["c"])
				if n, ok := cmd["n"].(map[string]interface{}); ok {
					cs.N = n
				}
				for k, v := range c.runCase(&cs, gb(cmd, "hex"), gb(cmd, "dry")) {
					res[k] = v
				}
			case "raw":
				c.Inject(vh.Int(cmd["nic"]), vh.Int(cmd["proto"]), unhexParts(vh.List(cmd["parts"])))
				c.classify(nil)
			case "poll":
				ms := vh.Int(cmd["ms"])
				c.mu.Lock()
				pending := len(c.em) > 0
				c.mu.Unlock()
				if !pending {
					select {
					case <-c.sig:
					case <-time.After(time.Duration(ms) * time.Millisecond):
					}
				}
				c.classify(nil)
			case "noise":
				seed, from, n := int64(vh.Int(cmd["seed"])), vh.Int(cmd["from"]), vh.Int(cmd["n"])
				for i := from; i < from+n; i++ {
					p := noiseFrame(seed, i)
					c.Inject(p.Nic, p.Proto, p.Parts)
				}
				if err := c.barrier(); err != nil {
					res["err"] = err.Error()
				}
				c.classify(nil)
				c.synacks = nil
			case "stats":
				st := c.h.S.Stats()
				c.mu.Lock()
				res["accepts"] = c.accepts
				c.mu.Unlock()
				res["goroutines"] = runtime.NumGoroutine()
				res["malformed"] = st.MalformedRcvdPackets.Value()
				res["ip_rx"] = st.IP.PacketsReceived.Value()
				res["tcp_invalid"] = st.TCP.InvalidSegmentsReceived.Value()
				res["udp_malformed"] = st.UDP.MalformedPacketsReceived.Value()
				c.classify(nil)
			case "dump":
				buf := make([]byte, 1<<22)
				n := runtime.Stack(buf, true)
				os.Stderr.Write(buf[:n])
			case "quit":
				c.reply(w, res)
				os.Exit(0)
			default:
				vh.Fatal("unknown command %v", cmd["cmd"])
			}
			c.reply(w, res)
		}
		if err != nil {
			os.Exit(0)
		}
	}
}

// ------------------------------------------------------------ queue pressure
// readQueued lets the application read what is queued in a UDP/TCP endpoint
// (at most max reads); the read runs beside a deadline because a leaked
// lock would make it block for ever.
func (c *child) readQueued(ep tcpip.Endpoint, max int) (n int, bytesRead int, first []byte, err error) {
	type r struct {
		n, b  int
		first []byte
	}
	if c.wedged {
		return 0, 0, nil, fmt.Errorf("the delivery goroutine did not return from the stack within %v (wedged)", c.wait)
	}
	ch := make(chan r, 1)
	go func() {
		var x r
		for x.n < max {
			v, _, e := ep.Read(nil)
			if e != nil {
				break
			}
			if x.n == 0 {
				x.first = append([]byte{}, v...)
			}
			x.n++
			x.b += len(v)
		}
		ch <- x
	}()
	select {
	case x := <-ch:
		return x.n, x.b, x.first, nil
	case <-time.After(c.wait):
		return 0, 0, nil, fmt.Errorf("the application's Read on the socket did not return within %v", c.wait)
	}
}

// runPress builds up state in one bounded queue of the stack with MANY
// well-formed frames, then lets the application use the queue.
func (c *child) runPress(cs *Case, slot int, obs map[string]bool) error {
	peer, own, _ := addrs(4, 1)
	sport := uint16(tagPort(slot))
	dgram := func(i, n int) []byte {
		return wire.BuildUDP(peer, own, sport, udpUnread, wire.Pattern(slot*10007+i, n), wire.UDPOpts{})
	}
	udp := func(i, n int) {
		c.Inject(1, 0x0800, [][]byte{ipWrap(4, 1, 17, dgram(i, n), i)})
	}
	// afterwards: one more datagram must get through and be readable
	udpCheck := func(firstWant []byte, minN int) error {
		n, _, first, err := c.readQueued(c.unread, 1<<20)
		if err != nil {
			return err
		}
		udp(9999, 100)
		n2, _, f2, err := c.readQueued(c.unread, 4)
		if err != nil {
			return err
		}
		if n >= minN && bytes.Equal(first, firstWant) && n2 == 1 && bytes.Equal(f2, wire.Pattern(slot*10007+9999, 100)) {
			obs["udpq"] = true
		}
		return nil
	}
	switch q := gs(cs.C, "q"); q {
	case "udp-unread": // 40 x 1400 bytes into a socket nobody reads (receive buffer: 32 KiB)
		for i := 0; i < 40; i++ {
			udp(i, 1400)
		}
		return udpCheck(wire.Pattern(slot*10007, 1400), 20)
	case "udp-late": // the reader comes late, twice
		for i := 0; i < 30; i++ {
			udp(i, 1400)
		}
		n, _, first, err := c.readQueued(c.unread, 10)
		if err != nil {
			return err
		}
		for i := 30; i < 60; i++ {
			udp(i, 1400)
		}
		if n != 10 || !bytes.Equal(first, wire.Pattern(slot*10007, 1400)) {
			return nil
		}
		return udpCheck(wire.Pattern(slot*10007+10, 1400), 13)
	case "udp-small": // many small datagrams
		for i := 0; i < 3000; i++ {
			udp(i, 12)
		}
		return udpCheck(wire.Pattern(slot*10007, 12), 2000)
	case "udp-frag": // fragmented datagrams
		for i := 0; i < 30; i++ {
			d := dgram(i, 2792)
			for _, cut := range [][2]int{{0, 1400}, {1400, 2800}} {
				p := wire.BuildIPv4(peer, own, 17, d[cut[0]:cut[1]], wire.IPv4Opts{ID: uint16(1000 + i), MF: cut[0] == 0, FragOff: cut[0]})
				c.Inject(1, 0x0800, [][]byte{p})
			}
		}
		return udpCheck(wire.Pattern(slot*10007, 2792), 10)
	case "syn-backlog": // more half-open connections than the SYN-RCVD threshold, left open
		for i := 0; i < 1200; i++ {
			k := &conn{v: 4, nic: 1, sport: 20000 + i, dport: lstPort}
			c.Inject(1, 0x0800, [][]byte{k.seg(wire.SYN, uint32(77000+i), 0, wire.OptMSS(1400), nil)})
		}
	case "tcp-rcvbuf": // an established connection whose application does not read: more data than the receive buffer
		k, err := handshakeTo(c, 4, 1, int(sport), sinkPort, uint32(0x03000000+slot*4099), c.wait)
		if err != nil {
			return fmt.Errorf("handshake: %v", err)
		}
		var ep tcpip.Endpoint
		select {
		case ep = <-c.sinks:
		case <-time.After(c.wait):
			return fmt.Errorf("connection to the sink listener was not accepted within %v", c.wait)
		}
		for i := 0; i < 200; i++ {
			c.Inject(1, 0x0800, [][]byte{k.seg(wire.ACK, k.snd, k.rcv, nil, wire.Pattern(slot*10007+i, 1400))})
			k.snd += 1400
		}
		_, b, first, err := c.readQueued(ep, 1<<20)
		if err != nil {
			return err
		}
		want := wire.Pattern(slot*10007, 1400)
		if b >= 1400 && len(first) > 0 && bytes.Equal(first, want[:len(first)]) {
			obs["tcpq"] = true
		}
		c.Inject(1, 0x0800, [][]byte{k.seg(wire.RST, k.snd, 0, nil, nil)})
		ep.Close()
	case "frag-mem": // more incomplete datagrams than the reassembly memory limit
		for i := 0; i < 3100; i++ {
			p := wire.BuildIPv4(peer, own, 17, wire.Pattern(i, 1400), wire.IPv4Opts{ID: uint16(2000 + i), MF: true})
			c.Inject(1, 0x0800, [][]byte{p})
		}
	case "neigh": // more neighbours than the link address cache holds
		_, own2, _ := addrs(4, 2)
		_, own6, _ := addrs(6, 2)
		for i := 0; i < 600; i++ {
			mac := []byte{2, 0, 0, 1, byte(i >> 8), byte(i)}
			spa := []byte{10, 0, byte(2 + i>>8), byte(i)}
			c.Inject(2, 0x0806, [][]byte{wire.BuildARP(1, mac, spa, make([]byte, 6), own2)})
			src6 := append(append([]byte{}, ip6("fd01::")[:14]...), byte(0x10+i>>8), byte(i))
			body := append(append([]byte{}, src6...), 2, 1, mac[0], mac[1], mac[2], mac[3], mac[4], mac[5])
			na := wire.BuildICMPv6(src6, own6, 136, 0, [4]byte{0x60, 0, 0, 0}, body)
			c.Inject(2, 0x86dd, [][]byte{wire.BuildIPv6(src6, own6, 58, na, 255)})
		}
	case "neigh-failed": // the stack asked for a neighbour that stayed silent (entry failed after 3 requests); then it speaks
		_, own2, _ := addrs(4, 2)
		_, own6, _ := addrs(6, 2)
		silent4 := []byte{10, 0, 1, 77}
		silent6 := append(append([]byte{}, ip6("fd01::")[:14]...), 0x77, 0x77)
		c.h.S.GetLinkAddress(2, tcpip.Address(silent4), tcpip.Address(own2), wire.ProtoIPv4, &sleep.Waker{})
		c.h.S.GetLinkAddress(2, tcpip.Address(silent6), tcpip.Address(own6), wire.ProtoIPv6, &sleep.Waker{})
		time.Sleep(3400 * time.Millisecond)
		mac := []byte{2, 0, 0, 9, 9, 9}
		c.Inject(2, 0x0806, [][]byte{wire.BuildARP(2, mac, silent4, []byte{2, 0, 0, 0, 0, 2}, own2)}) // late reply
		c.Inject(2, 0x0806, [][]byte{wire.BuildARP(1, mac, silent4, make([]byte, 6), own2)})         // and a request from it
		body := append(append([]byte{}, silent6...), 2, 1, mac[0], mac[1], mac[2], mac[3], mac[4], mac[5])
		na := wire.BuildICMPv6(silent6, own6, 136, 0, [4]byte{0x60, 0, 0, 0}, body)
		c.Inject(2, 0x86dd, [][]byte{wire.BuildIPv6(silent6, own6, 58, na, 255)})
	default:
		vh.Fatal("pressure family %q", q)
	}
	return nil
}

// ------------------------------------------- sequences on an established connection
// runESeq establishes a connection (passively through the listener, or opened
// actively by the stack towards the peer), then plays the letters of the case
// with the real sequence numbers.
// openConn establishes a connection for a case: passively through the listener ("pas") or opened
// by the stack towards the peer ("act", the application echoes).
func (c *child) openConn(cs *Case, slot int, dry bool) (*conn, int, []byte, error) {
	sk := gi(cs.C, "sk") == 1
	k := &conn{v: 4, nic: 1, sport: tagPort(slot), dport: lstPort, iss: uint32(0x04000000 + slot*4099)}
	k.snd, k.rcv = k.iss+1, 1
	win := 65535
	synOpts := wire.OptMSS(1400)
	if sk {
		synOpts = append(synOpts, 1, 1, 4, 2)
	}
	if !dry && gs(cs.C, "mode") == "pas" {
		c.Inject(1, 0x0800, [][]byte{k.seg(wire.SYN, k.iss, 0, synOpts, nil)})
		e, ok := c.Wait(matchTCP(k, func(d *dec) bool {
			return d.flags&(wire.SYN|wire.ACK|wire.RST) == wire.SYN|wire.ACK && d.ack == k.iss+1
		}), c.wait)
		if !ok {
			return nil, 0, nil, fmt.Errorf("handshake: no SYN-ACK for port %d within %v", k.sport, c.wait)
		}
		k.irs, k.rcv, win = e.d.seq, e.d.seq+1, e.d.win
		c.Inject(1, 0x0800, [][]byte{k.seg(wire.ACK, k.snd, k.rcv, nil, nil)})
	} else if !dry { // the stack opens the connection towards the peer; the application echoes
		peer, _, _ := addrs(4, 1)
		wq := &waiter.Queue{}
		ep, err := c.h.S.NewEndpoint(tcp.ProtocolNumber, tcpip.NetworkProtocolNumber(0x0800), wq)
		if err != nil {
			vh.Fatal("tcp endpoint: %v", err)
		}
		we, ch := waiter.NewChannelEntry(nil)
		wq.EventRegister(&we, waiter.EventOut)
		if err := ep.Connect(tcpip.FullAddress{NIC: 1, Addr: tcpip.Address(peer), Port: uint16(k.sport)}); err != nil && err != tcpip.ErrConnectStarted {
			return nil, 0, nil, fmt.Errorf("active open: Connect: %v", err)
		}
		e, ok := c.Wait(func(e *emit) bool {
			return e.d.kind == "tcp" && e.d.v == 4 && e.d.dport == k.sport && e.d.flags&(wire.SYN|wire.ACK) == wire.SYN
		}, c.wait)
		if !ok {
			return nil, 0, nil, fmt.Errorf("active open: the stack sent no SYN within %v", c.wait)
		}
		k.dport, k.irs, k.rcv = e.d.sport, e.d.seq, e.d.seq+1
		c.Inject(1, 0x0800, [][]byte{k.seg(wire.SYN|wire.ACK, k.iss, k.rcv, synOpts, nil)})
		e, ok = c.Wait(matchTCP(k, func(d *dec) bool { return d.flags&(wire.SYN|wire.ACK|wire.RST) == wire.ACK && d.ack == k.iss+1 }), c.wait)
		if !ok {
			return nil, 0, nil, fmt.Errorf("active open: no ACK of the SYN-ACK within %v", c.wait)
		}
		win = e.d.win
		select {
		case <-ch:
		case <-time.After(c.wait):
			return nil, 0, nil, fmt.Errorf("active open: Connect did not complete within %v", c.wait)
		}
		wq.EventUnregister(&we)
		go echoLoop(ep, wq)
	}
	return k, win, synOpts, nil
}

// runHoles sends n disjoint out-of-order blocks (and optionally duplicates, merging overlaps, gap fills).
func (c *child) runHoles(cs *Case, slot int, send func(pkt), dry bool) error {
	k, _, _, err := c.openConn(cs, slot, dry)
	if err != nil {
		return err
	}
	f := cs.C
	n, sz, gap := gi(f, "n"), gi(f, "sz"), gi(f, "gap")
	B := k.iss + 1
	stream := wire.Pattern(slot, (n+1)*(sz+gap)+8) // the peer's byte stream; block i = [off(i), off(i)+sz)
	off := func(i int) int { return gap + i*(sz+gap) }
	seg := func(from, to int) {
		send(pkt{Nic: 1, Proto: 0x0800, Parts: [][]byte{k.seg(wire.PSH|wire.ACK, B+uint32(from), k.rcv, nil, stream[from:to])}})
	}
	order := make([]int, n)
	for i := range order {
		order[i] = i
	}
	switch gs(f, "ord") {
	case "desc":
		for i := range order {
			order[i] = n - 1 - i
		}
	case "shuf":
		rand.New(rand.NewSource(int64(n*1000+sz*10+gap))).Shuffle(n, func(i, j int) { order[i], order[j] = order[j], order[i] })
	}
	for _, i := range order {
		seg(off(i), off(i)+sz)
	}
	switch gs(f, "dup") {
	case "dup":
		for _, i := range order {
			seg(off(i), off(i)+sz)
		}
	case "merge": // a segment from the last byte of block i to the first byte of block i+1 merges the two
		for i := 0; i+1 < n; i += 2 {
			seg(off(i)+sz-1, off(i+1)+1)
		}
	}
	if gb(f, "fill") {
		for i := 0; i < n; i++ {
			seg(off(i)-gap, off(i))
		}
	}
	if !dry {
		end := uint32(off(n-1) + sz)
		for _, o := range []uint32{0, uint32(gap), end, end + 1} {
			c.Inject(1, 0x0800, [][]byte{k.seg(wire.RST, B+o, 0, nil, nil)})
		}
	}
	return nil
}

func (c *child) runESeq(cs *Case, slot int, send func(pkt), dry bool) error {
	k, win, synOpts, err := c.openConn(cs, slot, dry)
	if err != nil {
		return err
	}
	B := k.iss + 1
	blk := func(i int) []byte { return wire.Pattern(slot*31+i, 5) }
	seg := func(fl uint8, off uint32, opts, pay []byte) {
		send(pkt{Nic: 1, Proto: 0x0800, Parts: [][]byte{k.seg(fl, B+off, k.rcv, opts, pay)}})
	}
	A, F, P := uint8(wire.ACK), uint8(wire.FIN|wire.ACK), uint8(wire.PSH|wire.ACK)
	for _, x := range vh.List(cs.C["ls"]) {
		switch vh.Str(x) {
		case "D0":
			seg(P, 0, nil, blk(0))
		case "D1":
			seg(P, 5, nil, blk(1))
		case "D2":
			seg(P, 10, nil, blk(2))
		case "D1F":
			seg(F|wire.PSH, 5, nil, blk(1))
		case "D2F":
			seg(F|wire.PSH, 10, nil, blk(2))
		case "OV":
			seg(P, 3, nil, append(append([]byte{}, blk(0)[3:]...), blk(1)[:3]...))
		case "F0":
			seg(F, 0, nil, nil)
		case "F1":
			seg(F, 5, nil, nil)
		case "F2":
			seg(F, 10, nil, nil)
		case "Z1":
			seg(A, 5, nil, nil)
		case "RI":
			seg(wire.RST, 0, nil, nil)
		case "RO":
			seg(wire.RST, 0x50000000, nil, nil)
		case "WE":
			seg(P, uint32(win)-2, nil, wire.Pattern(slot, 5))
		case "U0":
			b := k.seg(P|wire.URG, B, k.rcv, nil, blk(0))
			hl := int(b[0]&0xf) * 4
			be.PutUint16(b[hl+18:], 3) // urgent pointer
			peer, own, _ := addrs(4, 1)
			fixTCPSum(peer, own, b[hl:])
			send(pkt{Nic: 1, Proto: 0x0800, Parts: [][]byte{b}})
		case "BO":
			seg(P, 0, []byte{1, 1, 8, 10}, blk(0)) // timestamp option cut after its length byte
		case "SK":
			seg(P, 5, wire.PadOpts(wire.OptSACK([]wire.SACKBlock{{Start: k.rcv + 100, End: k.rcv + 200}})), blk(1))
		case "SY":
			send(pkt{Nic: 1, Proto: 0x0800, Parts: [][]byte{k.seg(wire.SYN, k.iss, 0, synOpts, nil)}})
		default:
			vh.Fatal("eseq letter %v", x)
		}
	}
	if !dry { // reset whatever is left of the connection
		for _, off := range []uint32{0, 5, 10, 11, 15, 16} {
			c.Inject(1, 0x0800, [][]byte{k.seg(wire.RST, B+off, 0, nil, nil)})
		}
	}
	return nil
}

// ------------------------------------------------ ICMP errors aimed at live state
func tsvalOf(e *emit) uint32 {
	var t wire.TCP
	var err error
	if e.d.v == 4 {
		ip, e1 := wire.ParseIPv4(e.B)
		if e1 != nil {
			return 0
		}
		t, err = wire.ParseTCP(ip.Src, ip.Dst, ip.Payload)
	} else {
		ip, e1 := wire.ParseIPv6(e.B)
		if e1 != nil {
			return 0
		}
		t, err = wire.ParseTCP(ip.Src, ip.Dst, ip.Payload)
	}
	if err != nil {
		return 0
	}
	return t.Opts.TSVal
}

// runIErr puts a socket of the stack into the state named by the case, then
// injects one ICMP error that quotes a datagram of that socket.  Nothing is
// cleaned up: what the error does shows at the next retransmission timeout,
// which the parent waits for before the probes.
func (c *child) runIErr(cs *Case, slot int, send func(pkt), dry bool) error {
	f := cs.C
	v, tgt, ty := gi(f, "v"), gs(f, "tgt"), gs(f, "ty")
	peer, own, other := addrs(v, 1)
	tag := tagPort(slot)
	np := tcpip.NetworkProtocolNumber(netProto(v))
	qsrc, qproto, qseq := lstPort, uint8(6), uint32(1)
	switch tgt {
	case "est", "est-ts", "est-sack":
		if dry {
			break
		}
		k := &conn{v: v, nic: 1, sport: tag, dport: lstPort, iss: uint32(0x05000000 + slot*4099)}
		opts := wire.OptMSS(1400)
		if tgt == "est-ts" {
			opts = append(append(opts, 1, 1), wire.OptTS(1, 0)...)
		}
		if tgt == "est-sack" {
			opts = append(opts, 1, 1, 4, 2)
		}
		c.Inject(1, netProto(v), [][]byte{k.seg(wire.SYN, k.iss, 0, opts, nil)})
		e, ok := c.Wait(matchTCP(k, func(d *dec) bool {
			return d.flags&(wire.SYN|wire.ACK|wire.RST) == wire.SYN|wire.ACK && d.ack == k.iss+1
		}), c.wait)
		if !ok {
			return fmt.Errorf("handshake: no SYN-ACK for port %d within %v", tag, c.wait)
		}
		k.irs, k.rcv, k.snd = e.d.seq, e.d.seq+1, k.iss+1
		var so []byte
		if tgt == "est-ts" {
			so = append([]byte{1, 1}, wire.OptTS(2, tsvalOf(e))...)
		}
		c.Inject(1, netProto(v), [][]byte{k.seg(wire.ACK, k.snd, k.rcv, so, nil)})
		if gs(f, "fl") == "inflight" { // the echo of our data stays unacknowledged
			c.Inject(1, netProto(v), [][]byte{k.seg(wire.PSH|wire.ACK, k.snd, k.rcv, so, wire.Pattern(slot, 16))})
			if _, ok := c.Wait(matchTCP(k, func(d *dec) bool { return len(d.payload) > 0 }), c.wait); !ok {
				return fmt.Errorf("the echo server sent no data on port %d within %v", tag, c.wait)
			}
		}
		qseq = k.rcv
	case "halfopen":
		if dry {
			break
		}
		k := &conn{v: v, nic: 1, sport: tag, dport: lstPort, iss: uint32(0x05000000 + slot*4099)}
		c.Inject(1, netProto(v), [][]byte{k.seg(wire.SYN, k.iss, 0, wire.OptMSS(1400), nil)})
		e, ok := c.Wait(matchTCP(k, func(d *dec) bool { return d.flags&(wire.SYN|wire.ACK|wire.RST) == wire.SYN|wire.ACK }), c.wait)
		if !ok {
			return fmt.Errorf("no SYN-ACK for port %d within %v", tag, c.wait)
		}
		qseq = e.d.seq
	case "synsent":
		if dry {
			break
		}
		ep, err := c.h.S.NewEndpoint(tcp.ProtocolNumber, np, &waiter.Queue{})
		if err != nil {
			vh.Fatal("tcp endpoint: %v", err)
		}
		if err := ep.Connect(tcpip.FullAddress{NIC: 1, Addr: tcpip.Address(peer), Port: uint16(tag)}); err != nil && err != tcpip.ErrConnectStarted {
			return fmt.Errorf("Connect: %v", err)
		}
		e, ok := c.Wait(func(e *emit) bool {
			return e.d.kind == "tcp" && e.d.v == v && e.d.dport == tag && e.d.flags&(wire.SYN|wire.ACK) == wire.SYN
		}, c.wait)
		if !ok {
			return fmt.Errorf("the stack sent no SYN within %v", c.wait)
		}
		qsrc, qseq = e.d.sport, e.d.seq
	case "udp-conn":
		qproto = 17
		if dry {
			break
		}
		ep, err := c.h.S.NewEndpoint(udp.ProtocolNumber, np, &waiter.Queue{})
		if err != nil {
			vh.Fatal("udp endpoint: %v", err)
		}
		if err := ep.Connect(tcpip.FullAddress{NIC: 1, Addr: tcpip.Address(peer), Port: uint16(tag)}); err != nil {
			return fmt.Errorf("udp Connect: %v", err)
		}
		if _, _, err := ep.Write(tcpip.SlicePayload(wire.Pattern(slot, 8)), tcpip.WriteOptions{}); err != nil {
			return fmt.Errorf("udp Write: %v", err)
		}
		e, ok := c.Wait(func(e *emit) bool { return e.d.kind == "udp" && e.d.dport == tag }, c.wait)
		if !ok {
			return fmt.Errorf("the stack sent no datagram within %v", c.wait)
		}
		qsrc = e.d.sport
		defer func() { // the application looks at its socket afterwards
			c.readQueued(ep, 4)
			ep.Close()
		}()
	case "udp-bound":
		qsrc, qproto = udpPort, 17
	case "none":
		qsrc = 9999
	}
	if gs(f, "sq") == "wrong" {
		qseq += 0x10000000
	}
	// the quoted datagram: from the stack to the peer
	var l4 []byte
	if qproto == 6 {
		l4 = wire.BuildTCP(own, peer, wire.TCPFields{SrcPort: uint16(qsrc), DstPort: uint16(tag), Seq: qseq, Flags: wire.ACK, Window: 1000}, wire.Pattern(slot, 8))
	} else {
		l4 = wire.BuildUDP(own, peer, uint16(qsrc), uint16(tag), wire.Pattern(slot, 20), wire.UDPOpts{})
	}
	var quote []byte
	ihl := 20
	if v == 4 {
		quote = wire.BuildIPv4(own, peer, qproto, l4, wire.IPv4Opts{ID: 9})
	} else {
		quote, ihl = wire.BuildIPv6(own, peer, qproto, l4, 64), 40
	}
	switch gs(f, "q") {
	case "t8":
		quote = quote[:ihl+8]
	case "t4":
		quote = quote[:ihl+4]
	case "ip":
		quote = quote[:ihl]
	}
	mtu := gi(f, "mtu")
	var p []byte
	if v == 4 {
		tc := map[string][2]byte{"net": {3, 0}, "host": {3, 1}, "proto": {3, 2}, "port": {3, 3}, "big": {3, 4}, "admin": {3, 13}, "ttl": {11, 0}, "param": {12, 0}}[ty]
		m := make([]byte, 8)
		m[0], m[1] = tc[0], tc[1]
		if ty == "big" {
			be.PutUint16(m[6:], uint16(mtu))
		}
		m = append(m, quote...)
		be.PutUint16(m[2:], ^wire.Sum1071(m, 0))
		p = wire.BuildIPv4(other, own, 1, m, wire.IPv4Opts{ID: uint16(slot)})
	} else {
		tc := map[string][2]byte{"noroute": {1, 0}, "port": {1, 4}, "big": {2, 0}, "ttl": {3, 0}, "param": {4, 1}}[ty]
		var rest [4]byte
		if ty == "big" {
			be.PutUint32(rest[:], uint32(int32(mtu)))
		}
		p = wire.BuildIPv6(other, own, 58, wire.BuildICMPv6(other, own, tc[0], tc[1], rest, quote), 64)
	}
	send(pkt{Nic: 1, Proto: netProto(v), Parts: [][]byte{p}})
	return nil
}
