package main

// Concretiser: abstract case (record of field classes from Ingress.tla, with
// the numbers Num(f) computed by the specification) -> bytes.

import (
	"verifh/vh"
	"verifh/wire"
)

// pkt is one concrete packet to deliver.
type pkt struct {
	Nic   int
	Proto int
	Parts [][]byte
}

func tagPort(slot int) int  { return tagLo + slot%tagN }
func tagIdent(slot int) int { return 1 + slot%0xE000 }

var flagClass = map[string]uint8{
	"S": wire.SYN, "SA": wire.SYN | wire.ACK, "A": wire.ACK, "R": wire.RST, "RA": wire.RST | wire.ACK,
	"F": wire.FIN, "FA": wire.FIN | wire.ACK, "PA": wire.PSH | wire.ACK, "0": 0, "SF": wire.SYN | wire.FIN,
	"SR": wire.SYN | wire.RST, "UA": wire.URG | wire.ACK, "all": 0x3f,
}

func fixTCPSum(src, dst, b []byte) {
	if len(b) < 18 {
		return
	}
	b[16], b[17] = 0, 0
	be.PutUint16(b[16:], ^wire.Sum1071(b, wire.Pseudo(src, dst, 6, len(b))))
}

func nops(n int) []byte {
	b := make([]byte, n)
	for i := range b {
		b[i] = 1
	}
	return b
}

// buildTCP builds the TCP segment of an ip4/ip6 case.
func buildTCP(l M, n M, src, dst []byte, slot int, c *conn) []byte {
	fl, ok := flagClass[gs(l, "fl")]
	if !ok {
		vh.Fatal("flag class %q", gs(l, "fl"))
	}
	dport := lstPort
	if gs(l, "tgt") == "none" {
		dport = closedPort
	}
	seq, ack := uint32(1000+slot), uint32(0)
	if fl&wire.ACK != 0 {
		ack = 12345
	}
	if gs(l, "tgt") == "est" && c != nil {
		switch gs(l, "sq") {
		case "exact":
			seq = c.snd
		case "minus1":
			seq = c.snd - 1
		case "far":
			seq = c.snd + 0x40000000
		case "half":
			seq = c.snd + 0x80000000
		}
		switch gs(l, "ak") {
		case "exact":
			ack = c.rcv
		case "old":
			ack = c.rcv - 100000
		case "future":
			ack = c.rcv + 100000
		}
	}
	f := wire.TCPFields{SrcPort: uint16(tagPort(slot)), DstPort: uint16(dport), Seq: seq, Ack: ack, Flags: fl, Window: 65535, Opts: gbytes(l, "ob")}
	if gs(l, "fl") == "UA" || gs(l, "fl") == "all" {
		f.Urgent = 0xffff
	}
	b := wire.BuildTCP(src, dst, f, wire.Pattern(slot, gi(l, "pay")))
	b[12] = byte(gi(n, "doffw") << 4)
	fixTCPSum(src, dst, b)
	return b
}

func buildUDP(v int, l M, n M, src, dst []byte, slot int) []byte {
	dport := udpPort
	if gs(l, "tgt") == "none" {
		dport = udpClosed
	}
	b := wire.BuildUDP(src, dst, uint16(tagPort(slot)), uint16(dport), wire.Pattern(slot, 16), wire.UDPOpts{NoChecksum: true})
	be.PutUint16(b[4:], uint16(gi(n, "ulen")))
	ck := ^wire.Sum1071(b, wire.Pseudo(src, dst, 17, len(b)))
	if ck == 0 {
		ck = 0xffff
	}
	switch gs(l, "uck") {
	case "bad":
		ck ^= 0x1111
	case "zero":
		ck = 0
	}
	be.PutUint16(b[6:], ck)
	return b
}

// embedded builds the original-datagram part of an ICMP error for (v, nic).
func embedded(v, nic int, l M, slot int, c *conn, size int) []byte {
	peer, own, other := addrs(v, nic)
	esrc := own
	if gs(l, "esrc") == "other" {
		esrc = other
	}
	var l4 []byte
	var proto uint8
	if gs(l, "epr") == "tcp" {
		seq := uint32(1)
		if c != nil {
			seq = c.rcv
		}
		l4 = wire.BuildTCP(esrc, peer, wire.TCPFields{SrcPort: lstPort, DstPort: uint16(tagPort(slot)), Seq: seq, Flags: wire.ACK, Window: 1000}, wire.Pattern(slot, 8))
		proto = 6
	} else {
		l4 = wire.BuildUDP(esrc, peer, udpPort, uint16(tagPort(slot)), wire.Pattern(slot, 20), wire.UDPOpts{})
		proto = 17
	}
	off := 0
	if gs(l, "efr") == "k" {
		off = 8
	}
	var e []byte
	if v == 4 {
		e = wire.BuildIPv4(esrc, peer, proto, l4, wire.IPv4Opts{ID: 7, FragOff: off})
		switch gs(l, "eihl") {
		case "15":
			e[0] = 0x4f
		case "0":
			e[0] = 0x40
		}
	} else {
		switch gs(l, "eihl") {
		case "frag", "fragshort":
			fh := make([]byte, 8)
			fh[0] = proto
			be.PutUint16(fh[2:], uint16(off))
			if gs(l, "eihl") == "fragshort" {
				fh[1], fh[3] = 0xff, fh[3]|0x7
			}
			be.PutUint32(fh[4:], 99)
			e = wire.BuildIPv6(esrc, peer, 44, append(fh, l4...), 64)
		default:
			e = wire.BuildIPv6(esrc, peer, proto, l4, 64)
		}
	}
	for len(e) < size {
		e = append(e, 0)
	}
	return e[:size]
}

func buildICMP4(l M, n M, nic int, slot int, c *conn) []byte {
	ty, sz := gs(l, "ty"), gi(n, "l4len")
	b := make([]byte, 0, 64)
	switch ty {
	case "echo", "reply":
		t := uint8(8)
		if ty == "reply" {
			t = 0
		}
		plen := sz - 8
		if plen < 0 {
			plen = 0
		}
		b = wire.BuildICMPv4Echo(t, uint16(tagIdent(slot)), 1, wire.Pattern(slot, plen))
	case "unreach":
		b = make([]byte, 8)
		b[0] = 3
		if gs(l, "code") == "big" {
			b[1] = 4
			be.PutUint16(b[6:], uint16(gi(l, "mtu")))
		} else {
			b[1] = 3
		}
		b = append(b, embedded(4, nic, l, slot, c, sz-8)...)
	default:
		t := map[string]uint8{"ts": 13, "redirect": 5, "t255": 255}[ty]
		b = append([]byte{t, 0, 0, 0}, wire.Pattern(slot, 28)...)
	}
	if len(b) > sz {
		b = b[:sz]
	}
	if len(b) >= 4 {
		b[2], b[3] = 0, 0
		ck := ^wire.Sum1071(b, 0)
		if gs(l, "ick") == "bad" {
			ck ^= 0x3333
		}
		be.PutUint16(b[2:], ck)
	}
	return b
}

func buildICMP6(l M, n M, nic int, src, dst []byte, slot int, c *conn) []byte {
	ty, sz := gs(l, "ty"), gi(n, "l4len")
	_, own, other := addrs(6, nic)
	var b []byte
	switch ty {
	case "echo", "reply":
		t := uint8(128)
		if ty == "reply" {
			t = 129
		}
		b = []byte{t, 0, 0, 0, byte(tagIdent(slot) >> 8), byte(tagIdent(slot)), 0, 1}
		b = append(b, wire.Pattern(slot, 24)...)
	case "ns", "na":
		t := uint8(135)
		if ty == "na" {
			t = 136
		}
		tg := own
		if gs(l, "esrc") == "other" {
			tg = other
		}
		b = []byte{t, 0, 0, 0, 0x60, 0, 0, 0}
		b = append(b, tg...)
		b = append(b, 1, 1, 2, 0, 0, 0, 0, 9) // source/target link-layer address option
		b = append(b, 1, 0, 0, 0, 0, 0, 0, 0) // an option of length 0
	case "unreach":
		b = make([]byte, 8)
		if gs(l, "code") == "big" {
			b[0] = 2
			be.PutUint32(b[4:], uint32(gi(l, "mtu")))
		} else {
			b[0], b[1] = 1, 4
		}
		b = append(b, embedded(6, nic, l, slot, c, sz-8)...)
	default:
		t := map[string]uint8{"rs": 133, "t255": 255}[ty]
		b = append([]byte{t, 0, 0, 0}, wire.Pattern(slot, 28)...)
	}
	if len(b) > sz {
		b = b[:sz]
	}
	if len(b) >= 4 {
		b[2], b[3] = 0, 0
		ck := ^wire.Sum1071(b, wire.Pseudo(src, dst, 58, len(b)))
		if gs(l, "ick") == "bad" {
			ck ^= 0x3333
		}
		be.PutUint16(b[2:], ck)
	}
	return b
}

func split(p []byte, sp string, hp int) [][]byte {
	cut := 0
	switch sp {
	case "hdr":
		cut = hp
	case "small":
		cut = 8
	case "mid":
		cut = hp + 4
	}
	if cut <= 0 || cut >= len(p) {
		return [][]byte{p}
	}
	return [][]byte{p[:cut], p[cut:]}
}

func fixIPv4Sum(p []byte, hlen int, bad bool) {
	if hlen < 20 {
		hlen = 20
	}
	if hlen > len(p) {
		hlen = len(p)
	}
	p[10], p[11] = 0, 0
	ck := ^wire.Sum1071(p[:hlen], 0)
	if bad {
		ck ^= 0x5555
	}
	be.PutUint16(p[10:], ck)
}

// buildIP concretises an "ip4"/"ip6" case.
func buildIP(cs *Case, slot int, c *conn) pkt {
	f, n := cs.C, cs.N
	ip, pr, l4r := gm(f, "ip"), gs(f, "pr"), gm(f, "l4")
	nic := gi(f, "nic")
	v := 4
	if gs(f, "k") == "ip6" {
		v = 6
	}
	src, own, other := addrs(v, nic)
	dst := own
	switch gs(ip, "dst") {
	case "other":
		dst = other
	case "bcast":
		dst = ip4("255.255.255.255")
	case "mcast":
		dst = ip6("ff02::1")
	}
	var l4 []byte
	var proto uint8
	switch pr {
	case "udp":
		l4, proto = buildUDP(v, l4r, n, src, dst, slot), 17
	case "tcp":
		l4, proto = buildTCP(l4r, n, src, dst, slot, c), 6
	case "icmp":
		if v == 4 {
			l4, proto = buildICMP4(l4r, n, nic, slot, c), 1
		} else {
			l4, proto = buildICMP6(l4r, n, nic, src, dst, slot, c), 58
		}
	case "hop":
		l4, proto = wire.Pattern(slot, 16), 0
	default:
		l4, proto = wire.Pattern(slot, 16), 253
	}
	if len(l4) != gi(n, "l4len") {
		vh.Fatal("concretiser: L4 of %v is %d bytes, specification says %d", f, len(l4), gi(n, "l4len"))
	}
	var p []byte
	hp := gi(n, "hp")
	if v == 4 {
		p = wire.BuildIPv4(src, dst, proto, l4, wire.IPv4Opts{ID: uint16(slot), DF: gb(n, "df"), MF: gb(n, "mf"), FragOff: gi(n, "off"), Options: nops(hp - 20)})
		p[0] = byte(gi(ip, "ver")<<4 | gi(n, "ihlw")&0xf)
		be.PutUint16(p[2:], uint16(gi(n, "tl")))
		fixIPv4Sum(p, 4*gi(n, "ihlw"), gs(ip, "ck") == "bad")
	} else {
		p = wire.BuildIPv6(src, dst, proto, l4, uint8(gi(ip, "hop")))
		if gi(ip, "hop") == 0 {
			p[7] = 0
		}
		p[0] = byte(gi(ip, "ver")<<4) | p[0]&0xf
		be.PutUint16(p[4:], uint16(gi(n, "tl")))
	}
	if len(p) != gi(n, "act") {
		vh.Fatal("concretiser: packet of %v is %d bytes, specification says %d", f, len(p), gi(n, "act"))
	}
	return pkt{Nic: nic, Proto: netProto(v), Parts: split(p, gs(ip, "sp"), hp)}
}

func buildARP(cs *Case, slot int) pkt {
	f := cs.C
	a := gm(f, "a")
	nic := gi(f, "nic")
	_, own, other := addrs(4, 2)
	tpa := own
	if gs(a, "tpa") == "other" {
		tpa = other
	}
	// invalid classes claim a different sender MAC than the valid ones, so that
	// accepting one would be visible in the neighbour cache
	sha := []byte(wire.MAC(macPeer2))
	b := wire.BuildARP(uint16(gi(a, "op")), sha, ip4("10.0.1.9"), make([]byte, 6), tpa)
	be.PutUint16(b[0:], uint16(gi(a, "ht")))
	be.PutUint16(b[2:], uint16(gi(a, "pt")))
	b[4], b[5] = byte(gi(a, "hl")), byte(gi(a, "pl"))
	sz := gi(a, "sz")
	for len(b) < sz {
		b = append(b, 0)
	}
	b = b[:sz]
	cut := map[string]int{"one": 0, "small": 8, "mid": 14}[gs(f, "sp")]
	parts := [][]byte{b}
	if cut > 0 && cut < len(b) {
		parts = [][]byte{b[:cut], b[cut:]}
	}
	return pkt{Nic: nic, Proto: 0x0806, Parts: parts}
}

// buildFSeq concretises a fragment sequence over the block model: the
// datagram has 4 blocks of 8 bytes; normal fragments carry their blocks of it.
func buildFSeq(cs *Case, slot int) []pkt {
	f := cs.C
	src, own, _ := addrs(4, 1)
	var d []byte
	var proto uint8
	switch gs(f, "pr") {
	case "udp":
		d, proto = wire.BuildUDP(src, own, uint16(tagPort(slot)), udpPort, wire.Pattern(slot, 24), wire.UDPOpts{}), 17
	case "icmp":
		d, proto = wire.BuildICMPv4Echo(8, uint16(tagIdent(slot)), 1, wire.Pattern(slot, 24)), 1
	default:
		opts := append(append(wire.OptMSS(1400), wire.OptSACKPerm()...), 1, 1, 1, 3, 3, 2)
		d, proto = wire.BuildTCP(src, own, wire.TCPFields{SrcPort: uint16(tagPort(slot)), DstPort: lstPort, Seq: uint32(5000 + slot), Flags: wire.SYN, Window: 65535, Opts: opts}, nil), 6
	}
	if len(d) != 32 {
		vh.Fatal("concretiser: fragment datagram is %d bytes", len(d))
	}
	var out []pkt
	for _, x := range vh.List(f["fs"]) {
		g := vh.Map(x)
		first, nb, more := gi(g, "first"), gi(g, "nb"), gb(g, "more")
		var pl []byte
		if first < 4 && nb > 0 {
			pl = d[8*first : 8*(first+nb)]
		} else {
			pl = wire.Pattern(slot+first, 8*nb)
		}
		p := wire.BuildIPv4(src, own, proto, pl, wire.IPv4Opts{ID: uint16(slot), MF: more, FragOff: 8 * first})
		out = append(out, pkt{Nic: 1, Proto: 0x0800, Parts: [][]byte{p}})
	}
	return out
}
