package main

// PARENT role: spawns children, feeds batches, runs the liveness probes,
// reproduces and minimises failures on fresh children.

import (
	"bufio"
	"bytes"
	"encoding/hex"
	"encoding/json"
	"fmt"
	"io"
	"os"
	"os/exec"
	"regexp"
	"strings"
	"sync"
	"syscall"
	"time"

	"verifh/vh"
	"verifh/wire"
)

type config struct {
	Cases        string `json:"cases"` // ndjson: {id, c, n, o}
	Batch        int    `json:"batch"`
	NoiseSeed    int64  `json:"noise_seed"`
	NoisePer     int    `json:"noise_per_batch"`
	NoiseBatches int    `json:"noise_batches"` // extra noise-only batches at the end
	WaitMS       int    `json:"wait_ms"`
	RestartEvery int    `json:"restart_every"`
	Hex          bool   `json:"hex"`
	MaxFailures  int    `json:"max_failures"`
	SettleMS     int    `json:"settle_ms"` // wait this long after a batch before the probes (retransmission timeouts)
	Raw          []struct {
		Nic   int      `json:"nic"`
		Proto int      `json:"proto"`
		Parts []string `json:"parts"`
	} `json:"raw"` // replay: concrete packets, injected as one sequence
}

type item struct {
	cs    *Case
	noise [3]int64 // seed, from, n (n > 0: noise item)
	raw   []pkt    // replay of recorded bytes
}

func (it item) String() string {
	if it.cs != nil {
		return fmt.Sprintf("case %d", it.cs.ID)
	}
	return fmt.Sprintf("noise(seed=%d,%d..%d)", it.noise[0], it.noise[1], it.noise[1]+it.noise[2]-1)
}

type failure struct {
	Kind  string `json:"kind"` // crash | hang | probe | barrier
	Text  string `json:"text"`
	Exit  int    `json:"exit"`
	Probe M      `json:"probe,omitempty"`
	at    int    // index of the item in flight (-1: during probes)
}

type lockedBuf struct {
	mu sync.Mutex
	b  bytes.Buffer
}

func (l *lockedBuf) Write(p []byte) (int, error) {
	l.mu.Lock()
	defer l.mu.Unlock()
	if l.b.Len() < 8<<20 {
		l.b.Write(p)
	}
	return len(p), nil
}
func (l *lockedBuf) String() string { l.mu.Lock(); defer l.mu.Unlock(); return l.b.String() }

type proc struct {
	cmd    *exec.Cmd
	in     io.WriteCloser
	lines  chan []byte
	done   chan struct{}
	errbuf *lockedBuf
	rid    int
	fwd    []*emit
	cursor int
	udp    []udpRx
	late   []lateObs
	wait   time.Duration
	probeN int
	K      *conn
	fail   *failure
	strays int
}

var procSeq int

func spawn(wait time.Duration) *proc {
	cmd := exec.Command(os.Args[0], "serve")
	cmd.Env = append(os.Environ(), "GOTRACEBACK=all")
	in, _ := cmd.StdinPipe()
	out, _ := cmd.StdoutPipe()
	p := &proc{cmd: cmd, in: in, lines: make(chan []byte, 64), done: make(chan struct{}), errbuf: &lockedBuf{}, wait: wait}
	cmd.Stderr = p.errbuf
	if err := cmd.Start(); err != nil {
		vh.Fatal("cannot start child: %v", err)
	}
	procSeq++
	p.probeN = procSeq * 100
	go func() {
		r := bufio.NewReaderSize(out, 1<<20)
		for {
			ln, err := r.ReadBytes('\n')
			if len(ln) > 0 {
				p.lines <- ln
			}
			if err != nil {
				break
			}
		}
		cmd.Wait()
		close(p.done)
	}()
	if _, f := p.call(M{"cmd": "hello"}, 60*time.Second); f != nil {
		vh.Fatal("child does not start: %s %s", f.Kind, f.Text)
	}
	p.call(M{"cmd": "wait", "ms": int(wait / time.Millisecond)}, 60*time.Second)
	return p
}

var panicRe = regexp.MustCompile(`(?m)^(panic: .*|fatal error: .*|HARNESS-ERROR: .*)$`)

// excerpt extracts the panic message and the first frames of the crashing
// goroutine (or, for a hang, the goroutines inside the stack's ingress path).
func excerpt(stderr string, hang bool) string {
	if loc := panicRe.FindStringIndex(stderr); loc != nil && !hang {
		s := stderr[loc[0]:]
		lines := strings.Split(s, "\n")
		if len(lines) > 28 {
			lines = lines[:28]
		}
		return strings.Join(lines, "\n")
	}
	if hang {
		// keep goroutines blocked in net-protocol code
		var out []string
		for _, g := range strings.Split(stderr, "\n\n") {
			if strings.Contains(g, "net-protocol/") && (strings.Contains(g, "sync.") || strings.Contains(g, "semacquire") || strings.Contains(g, "chan ")) {
				ls := strings.Split(g, "\n")
				if len(ls) > 16 {
					ls = ls[:16]
				}
				out = append(out, strings.Join(ls, "\n"))
			}
			if len(out) >= 4 {
				break
			}
		}
		if len(out) > 0 {
			return strings.Join(out, "\n\n")
		}
	}
	if len(stderr) > 3000 {
		return stderr[:3000]
	}
	return stderr
}

func (p *proc) exitCode() int {
	if p.cmd.ProcessState == nil {
		return -1
	}
	return p.cmd.ProcessState.ExitCode()
}

func (p *proc) died(at int) *failure {
	<-p.done
	text := excerpt(p.errbuf.String(), false)
	kind := "crash"
	if strings.HasPrefix(text, "HARNESS-ERROR") {
		kind = "harness"
	}
	return &failure{Kind: kind, Text: text, Exit: p.exitCode(), at: at}
}

func (p *proc) hung(at int) *failure {
	p.cmd.Process.Signal(syscall.SIGQUIT)
	select {
	case <-p.done:
	case <-time.After(20 * time.Second):
		p.cmd.Process.Kill()
		<-p.done
	}
	return &failure{Kind: "hang", Text: excerpt(p.errbuf.String(), true), Exit: p.exitCode(), at: at}
}

// call sends one command and waits for its reply.
func (p *proc) call(cmd M, timeout time.Duration) (M, *failure) {
	if p.fail != nil {
		return nil, p.fail
	}
	p.rid++
	cmd["rid"] = p.rid
	b, _ := json.Marshal(cmd)
	b = append(b, '\n')
	if _, err := p.in.Write(b); err != nil {
		p.fail = p.died(-1)
		return nil, p.fail
	}
	timer := time.NewTimer(timeout)
	defer timer.Stop()
	for {
		var ln []byte
		select {
		case ln = <-p.lines:
		case <-p.done:
			select {
			case ln = <-p.lines:
			default:
				p.fail = p.died(-1)
				return nil, p.fail
			}
		case <-timer.C:
			p.fail = p.hung(-1)
			return nil, p.fail
		}
		var res M
		d := json.NewDecoder(bytes.NewReader(ln))
		d.UseNumber()
		if err := d.Decode(&res); err != nil {
			continue
		}
		if vh.Int(res["rid"]) != p.rid {
			continue
		}
		p.absorb(res)
		return res, nil
	}
}

func (p *proc) absorb(res M) {
	if l, ok := res["em"].([]interface{}); ok {
		for _, x := range l {
			m := vh.Map(x)
			b, _ := hex.DecodeString(vh.Str(m["hex"]))
			e := &emit{Nic: vh.Int(m["nic"]), Proto: vh.Int(m["proto"]), B: b}
			e.d = decode(e.Proto, b)
			p.fwd = append(p.fwd, e)
		}
	}
	if l, ok := res["udp"].([]interface{}); ok {
		for _, x := range l {
			m := vh.Map(x)
			p.udp = append(p.udp, udpRx{V: vh.Int(m["v"]), Sport: vh.Int(m["sport"]), Hex: vh.Str(m["hex"])})
		}
	}
	if l, ok := res["late"].([]interface{}); ok {
		for _, x := range l {
			m := vh.Map(x)
			p.late = append(p.late, lateObs{ID: vh.Int(m["id"]), Cls: vh.Str(m["cls"])})
		}
	}
	if s, ok := res["strays"]; ok && s != nil {
		p.strays = vh.Int(s)
	}
}

func (p *proc) callTimeout() time.Duration { return 2*p.wait + 20*time.Second }

// netio over the pipe
func (p *proc) Inject(nic int, proto int, parts [][]byte) {
	p.call(M{"cmd": "raw", "nic": nic, "proto": proto, "parts": hexParts(parts)}, p.callTimeout())
}

func (p *proc) Wait(m func(*emit) bool, d time.Duration) (*emit, bool) {
	deadline := time.Now().Add(d)
	for {
		for p.cursor < len(p.fwd) {
			e := p.fwd[p.cursor]
			p.cursor++
			if m(e) {
				return e, true
			}
		}
		rem := time.Until(deadline)
		if rem <= 0 || p.fail != nil {
			return nil, false
		}
		ms := 200
		if rem < 200*time.Millisecond {
			ms = int(rem/time.Millisecond) + 1
		}
		if _, f := p.call(M{"cmd": "poll", "ms": ms}, p.callTimeout()); f != nil {
			return nil, false
		}
	}
}

// probes runs the liveness probes of the property (+ the long-lived
// established connection) through the child.
func (p *proc) probes() (M, *failure) {
	p.probeN++
	n := p.probeN
	res := M{"ev": "probe", "echo": false, "tcp": false, "udp": false, "est": false}
	why := []string{}
	p.fwd, p.cursor = nil, 0
	// 1. echo
	if err := pingProbe(p, probeIdent+n%0xF00, n&0xffff, p.wait); err != nil {
		why = append(why, err.Error())
	} else {
		res["echo"] = true
	}
	// 2. new TCP connection: handshake, data echoed
	if p.fail == nil {
		c, err := handshake(p, 4, 1, probeLo+1+n%14000, uint32(0x30000000+n*65537), p.wait)
		if err == nil {
			err = echoData(p, c, wire.Pattern(n, 32), p.wait)
			if p.fail == nil {
				c.reset(p)
			}
		}
		if err != nil {
			why = append(why, "tcp: "+err.Error())
		} else {
			res["tcp"] = true
		}
	}
	// 3. UDP datagram reaches the bound socket with the right bytes
	if p.fail == nil {
		sport := probeLo + 1 + n%14000
		pay := wire.Pattern(n+7, 24)
		peer, own, _ := addrs(4, 1)
		p.udp = nil
		p.Inject(1, 0x0800, [][]byte{ipWrap(4, 1, 17, wire.BuildUDP(peer, own, uint16(sport), udpPort, pay, wire.UDPOpts{}), n)})
		deadline := time.Now().Add(p.wait)
		ok := false
		for p.fail == nil {
			for _, u := range p.udp {
				if u.Sport == sport && u.V == 4 && u.Hex == hex.EncodeToString(pay) {
					ok = true
				}
			}
			if ok || time.Now().After(deadline) {
				break
			}
			p.call(M{"cmd": "poll", "ms": 100}, p.callTimeout())
		}
		if ok {
			res["udp"] = true
		} else {
			why = append(why, fmt.Sprintf("udp: datagram from port %d not delivered to the bound socket", sport))
		}
	}
	// 4. the established connection still echoes
	if p.fail == nil {
		var err error
		if p.K == nil {
			p.K, err = handshake(p, 4, 1, 65000+procSeq%500, uint32(0x50000000+n*131), p.wait)
		}
		if err == nil {
			err = echoData(p, p.K, wire.Pattern(n+13, 20), p.wait)
		}
		if err != nil {
			why = append(why, "est: "+err.Error())
		} else {
			res["est"] = true
		}
	}
	if p.fail != nil {
		p.fail.at = -1
		return res, p.fail
	}
	if len(why) > 0 {
		res["why"] = why
		// ask for a goroutine dump: the child prints it and stays alive
		p.call(M{"cmd": "dump"}, p.callTimeout())
		return res, &failure{Kind: "probe", Text: strings.Join(why, "; ") + "\n" + excerpt(p.errbuf.String(), true), Probe: res, at: -1}
	}
	return res, nil
}

func (p *proc) quit() {
	if p.fail == nil {
		p.call(M{"cmd": "quit"}, 20*time.Second)
	}
	p.in.Close()
	select {
	case <-p.done:
	case <-time.After(5 * time.Second):
		p.cmd.Process.Kill()
		<-p.done
	}
}

// runItem executes one item; returns the child's reply.
func (p *proc) runItem(it item, wantHex bool) (M, *failure) { return p.runItemX(it, wantHex, false) }

func (p *proc) runItemX(it item, wantHex, dry bool) (M, *failure) {
	if it.cs != nil {
		cmd := M{"cmd": "case", "id": it.cs.ID, "c": it.cs.C, "hex": wantHex, "dry": dry}
		if it.cs.N != nil {
			cmd["n"] = it.cs.N
		}
		res, f := p.call(cmd, p.callTimeout())
		if f != nil {
			return nil, f
		}
		if e, ok := res["err"].(string); ok && e != "" {
			// the stack did not answer the harness's own barrier / handshake in time
			p.call(M{"cmd": "dump"}, p.callTimeout())
			return res, &failure{Kind: "barrier", Text: e + "\n" + excerpt(p.errbuf.String(), true)}
		}
		return res, nil
	}
	if it.raw != nil {
		for _, pk := range it.raw {
			p.Inject(pk.Nic, pk.Proto, pk.Parts)
		}
		if p.fail != nil {
			return nil, p.fail
		}
		return M{}, nil
	}
	res, f := p.call(M{"cmd": "noise", "seed": it.noise[0], "from": it.noise[1], "n": it.noise[2]}, p.callTimeout())
	if f != nil {
		return nil, f
	}
	if e, ok := res["err"].(string); ok && e != "" {
		p.call(M{"cmd": "dump"}, p.callTimeout())
		return res, &failure{Kind: "barrier", Text: e + "\n" + excerpt(p.errbuf.String(), true)}
	}
	return res, nil
}

// ----------------------------------------------------------------- runner
type runner struct {
	cfg      config
	tr       *vh.Trace
	wait     time.Duration
	children int
	repros   int
	failures []M
	cases    map[int]*Case
}

// try runs items on a fresh child followed by the probes; returns the failure observed (nil = fine).
func (r *runner) try(items []item) *failure {
	r.repros++
	p := spawn(r.wait)
	r.children++
	defer p.quit()
	for i, it := range items {
		if _, f := p.runItem(it, false); f != nil {
			f.at = i
			return f
		}
	}
	if r.cfg.SettleMS > 0 {
		time.Sleep(time.Duration(r.cfg.SettleMS) * time.Millisecond)
	}
	if _, f := p.probes(); f != nil {
		return f
	}
	// give goroutines of the stack a moment, then make sure the child is still there and still serving
	time.Sleep(300 * time.Millisecond)
	if _, f := p.probes(); f != nil {
		return f
	}
	return nil
}

func sameKind(a, b *failure) bool {
	if a == nil || b == nil {
		return false
	}
	fatal := func(f *failure) bool { return f.Kind == "crash" }
	return fatal(a) == fatal(b)
}

// expand splits noise chunks into single frames.
func expand(items []item) []item {
	var out []item
	for _, it := range items {
		if it.cs != nil || it.raw != nil || it.noise[2] <= 1 {
			out = append(out, it)
			continue
		}
		for i := int64(0); i < it.noise[2]; i++ {
			out = append(out, item{noise: [3]int64{it.noise[0], it.noise[1] + i, 1}})
		}
	}
	return out
}

// minimise: `items` fails on a fresh child (failure f0). Returns a smaller failing list.
func (r *runner) minimise(items []item, f0 *failure) ([]item, *failure) {
	budget := 80
	fails := func(l []item) *failure {
		if budget <= 0 {
			return nil
		}
		budget--
		f := r.try(l)
		if sameKind(f, f0) {
			return f
		}
		return nil
	}
	items = expand(items)
	best, bestF := items, f0
	// shortest failing prefix (a crash stops at the item in flight)
	if f0.at >= 0 && f0.at < len(items) {
		best = items[:f0.at+1]
	}
	lo, hi := 1, len(best) // invariant: prefix of length hi fails
	for lo < hi {
		mid := (lo + hi) / 2
		if f := fails(best[:mid]); f != nil {
			hi, bestF = mid, f
		} else {
			lo = mid + 1
		}
	}
	best = best[:hi]
	if len(best) > 1 {
		if f := fails(best[len(best)-1:]); f != nil {
			return best[len(best)-1:], f
		}
		// greedy removal of chunks
		for chunk := len(best) / 2; chunk >= 1 && budget > 0; chunk /= 2 {
			for i := 0; i+chunk < len(best) && budget > 0; {
				cand := append(append([]item{}, best[:i]...), best[i+chunk:]...)
				if f := fails(cand); f != nil {
					best, bestF = cand, f
				} else {
					i += chunk
				}
			}
		}
	}
	return best, bestF
}

// describe renders a minimal sequence for the replay file (with concrete bytes).
func (r *runner) describe(items []item) []M {
	out := []M{}
	p := spawn(r.wait)
	r.children++
	defer p.quit()
	for _, it := range items {
		if it.cs != nil {
			m := M{"id": it.cs.ID, "c": it.cs.C}
			if p.fail == nil {
				if res, _ := p.runItemX(it, true, true); res != nil {
					m["pkts"] = res["pkts"]
				}
			}
			out = append(out, m)
			continue
		}
		for _, pk := range it.raw {
			out = append(out, M{"raw": true, "pkts": []M{{"nic": pk.Nic, "proto": pk.Proto, "parts": hexParts(pk.Parts)}}})
		}
		for i := it.noise[1]; it.raw == nil && i < it.noise[1]+it.noise[2]; i++ {
			pk := noiseFrame(it.noise[0], int(i))
			out = append(out, M{"noise": []int64{it.noise[0], i}, "pkts": []M{{"nic": pk.Nic, "proto": pk.Proto, "parts": hexParts(pk.Parts)}}})
		}
	}
	return out
}

// handle reproduces and minimises a failure seen in the main run.
// since: items injected into the failed child since it started; batchStart: index of the current batch in since.
func (r *runner) handle(f *failure, since []item, batchStart int) M {
	ev := M{"why": f.Kind, "text": f.Text, "exit": f.Exit, "reproduced": false}
	if f.Kind == "harness" {
		ev["harness_error"] = true
		return ev
	}
	var cands [][]item
	if f.at >= 0 && f.at < len(since) {
		cands = append(cands, since[f.at:f.at+1])
		since = since[:f.at+1]
	} else if len(since) > 0 {
		cands = append(cands, since[len(since)-1:])
	}
	if batchStart < len(since) {
		cands = append(cands, since[batchStart:])
	}
	if batchStart > 0 {
		cands = append(cands, since)
	}
	for _, cand := range cands {
		if len(cand) == 0 {
			continue
		}
		f2 := r.try(cand)
		if !sameKind(f2, f) {
			continue
		}
		min, f3 := r.minimise(cand, f2)
		ev["reproduced"] = true
		ev["text"] = f3.Text
		ev["why"] = f3.Kind
		ev["exit"] = f3.Exit
		ev["minimal"] = r.describe(min)
		ev["minimal_len"] = len(min)
		if min[0].cs != nil {
			ev["id"] = min[0].cs.ID
		}
		break
	}
	return ev
}

func loadCases(path string) []*Case {
	f, err := os.Open(path)
	if err != nil {
		vh.Fatal("open %s: %v", path, err)
	}
	defer f.Close()
	var out []*Case
	rd := bufio.NewReaderSize(f, 1<<20)
	for {
		ln, err := rd.ReadBytes('\n')
		if len(bytes.TrimSpace(ln)) > 0 {
			var cs Case
			d := json.NewDecoder(bytes.NewReader(ln))
			d.UseNumber()
			if e := d.Decode(&cs); e != nil {
				vh.Fatal("bad case line: %v", e)
			}
			out = append(out, &cs)
		}
		if err != nil {
			break
		}
	}
	return out
}

func runParent(cfgPath, outPath string) {
	var cfg config
	vh.LoadJSON(cfgPath, &cfg)
	if cfg.Batch <= 0 {
		cfg.Batch = 200
	}
	if cfg.WaitMS <= 0 {
		cfg.WaitMS = 20000
	}
	if cfg.RestartEvery <= 0 {
		cfg.RestartEvery = 40
	}
	if cfg.MaxFailures <= 0 {
		cfg.MaxFailures = 4
	}
	r := &runner{cfg: cfg, tr: vh.NewTrace(outPath), wait: time.Duration(cfg.WaitMS) * time.Millisecond, cases: map[int]*Case{}, failures: []M{}}
	var cases []*Case
	if cfg.Cases != "" {
		cases = loadCases(cfg.Cases)
	}
	for _, c := range cases {
		r.cases[c.ID] = c
	}
	// batches
	var batches [][]item
	noiseAt := int64(0)
	for i := 0; i < len(cases); i += cfg.Batch {
		j := i + cfg.Batch
		if j > len(cases) {
			j = len(cases)
		}
		var b []item
		for _, c := range cases[i:j] {
			b = append(b, item{cs: c})
		}
		if cfg.NoisePer > 0 {
			b = append(b, item{noise: [3]int64{cfg.NoiseSeed, noiseAt, int64(cfg.NoisePer)}})
			noiseAt += int64(cfg.NoisePer)
		}
		batches = append(batches, b)
	}
	if len(cfg.Raw) > 0 {
		var rp []pkt
		for _, x := range cfg.Raw {
			var parts [][]byte
			for _, h := range x.Parts {
				b, err := hex.DecodeString(h)
				if err != nil {
					vh.Fatal("raw: %v", err)
				}
				parts = append(parts, b)
			}
			rp = append(rp, pkt{Nic: x.Nic, Proto: x.Proto, Parts: parts})
		}
		batches = append(batches, []item{{raw: rp}})
	}
	for i := 0; i < cfg.NoiseBatches; i++ {
		n := int64(cfg.Batch * 5)
		batches = append(batches, []item{{noise: [3]int64{cfg.NoiseSeed, noiseAt, n}}})
		noiseAt += n
	}
	t0 := time.Now()
	var p *proc
	var since []item
	inChild := 0
	nInject, nNoise, nProbe, nLate, strays := 0, 0, 0, 0, 0
	stopped := false
	logLate := func() {
		for _, l := range p.late {
			if c := r.cases[l.ID]; c != nil {
				r.tr.Log(M{"ev": "late", "id": l.ID, "c": c.C, "cls": l.Cls})
				nLate++
			}
		}
		p.late = nil
	}
	for bi, batch := range batches {
		if len(r.failures) >= cfg.MaxFailures {
			stopped = true
			break
		}
		if p == nil || inChild >= cfg.RestartEvery {
			if p != nil {
				strays += p.strays
				p.quit()
			}
			p = spawn(r.wait)
			r.children++
			since, inChild = nil, 0
		}
		inChild++
		batchStart := len(since)
		r.tr.Log(M{"ev": "reset", "batch": bi})
		var f *failure
		for _, it := range batch {
			since = append(since, it)
			res, fl := p.runItem(it, cfg.Hex)
			if fl != nil {
				fl.at = len(since) - 1
				f = fl
				break
			}
			if it.cs != nil {
				ev := M{"ev": "inject", "id": it.cs.ID, "c": it.cs.C, "obs": res["obs"]}
				if cfg.Hex {
					ev["pkts"] = res["pkts"]
				}
				r.tr.Log(ev)
				nInject++
			} else if it.raw != nil {
				r.tr.Log(M{"ev": "noise", "seed": -1, "from": 0, "n": len(it.raw)})
			} else {
				r.tr.Log(M{"ev": "noise", "seed": it.noise[0], "from": it.noise[1], "n": it.noise[2]})
				nNoise += int(it.noise[2])
			}
			logLate()
		}
		var pres M
		if f == nil {
			if cfg.SettleMS > 0 {
				time.Sleep(time.Duration(cfg.SettleMS) * time.Millisecond)
			}
			pres, f = p.probes()
			if f == nil {
				logLate()
				r.tr.Log(pres)
				nProbe++
			}
		}
		if f != nil {
			if f.Kind == "barrier" || f.Kind == "probe" {
				// the child is still there: get rid of it
				p.cmd.Process.Kill()
				<-p.done
			}
			ev := r.handle(f, since, batchStart)
			if f.Kind == "probe" || f.Kind == "barrier" {
				ev["ev"] = "probe"
				for _, k := range []string{"echo", "tcp", "udp", "est"} {
					ev[k] = false
					if f.Probe != nil {
						ev[k] = f.Probe[k]
					}
				}
			} else {
				ev["ev"] = "crash"
			}
			ev["batch"] = bi
			r.tr.Log(ev)
			r.failures = append(r.failures, ev)
			p = nil
			if f.Kind != "crash" && ev["reproduced"] == true {
				// hangs are expensive to wait for: one reproduced hang / probe failure is enough
				stopped = true
				break
			}
		}
	}
	if p != nil {
		strays += p.strays
		p.quit()
	}
	r.tr.Close()
	vh.Emit(M{"cases": nInject, "noise_frames": nNoise, "probes": nProbe, "late": nLate, "strays": strays, "batches": len(batches),
		"children": r.children, "repro_runs": r.repros, "failures": r.failures, "stopped_early": stopped,
		"wall_s": time.Since(t0).Seconds()})
}

func main() {
	if len(os.Args) >= 2 && os.Args[1] == "serve" {
		serve()
		return
	}
	if len(os.Args) >= 4 && os.Args[1] == "run" {
		runParent(os.Args[2], os.Args[3])
		return
	}
	if len(os.Args) >= 4 && os.Args[1] == "noiseframe" { // ingressd noiseframe seed index: print one noise frame
		var s, i int64
		fmt.Sscan(os.Args[2], &s)
		fmt.Sscan(os.Args[3], &i)
		pk := noiseFrame(s, int(i))
		vh.Emit(M{"nic": pk.Nic, "proto": pk.Proto, "parts": hexParts(pk.Parts)})
		return
	}
	vh.Fatal("usage: ingressd serve | ingressd run cfg.json out.ndjson")
}
