// ingressd: driver for C07 (no inbound frame sequence can crash the stack or
// stop it serving).
//
//	ingressd serve                      CHILD: hosts a real stack, reads ndjson commands on stdin
//	ingressd run cfg.json out.ndjson    PARENT: spawns children, feeds cases / noise, probes, bisects
//
// The child hosts: NIC 1 (plain link, MTU 1500, 10.0.0.1 / fd00::1), NIC 2
// (Ethernet-style link with link addresses, resolution required, 10.0.1.1 /
// fd01::1), ICMP echo (built in), TCP listeners (v4+v6) on port 8000 whose
// accept loop echoes data, UDP sockets (v4+v6) bound to port 7000.  All
// packets enter through wire.Link.Inject / InjectViews and every emitted
// frame is seen at the link tap.  Packet bytes come from the harness's own
// builders (verifh/wire + the patching below), never from /repo/protocol/header.
package main

import (
	"bytes"
	"encoding/binary"
	"encoding/hex"
	"fmt"
	"runtime"
	"strconv"
	"strings"
	"time"

	tcpip "github.com/brewlin/net-protocol/protocol"
	"verifh/vh"
	"verifh/wire"
)

type M = map[string]interface{}

var be = binary.BigEndian

const (
	lstPort    = 8000 // listener
	closedPort = 8001 // nothing listens
	udpPort    = 7000 // bound UDP socket
	udpClosed  = 7001
	udpUnread  = 7002  // bound UDP socket that the application reads only when told to (queue pressure)
	sinkPort   = 8002  // listener whose connections are accepted but read only when told to
	tagLo      = 10000 // per-case source ports: tagLo .. tagLo+tagN-1
	tagN       = 34000
	noiseLo    = 44000 // noise templates: 44000..49999
	probeLo    = 50000 // parent's probes: >= 50000
	barrierID  = 0xEEEE
	probeIdent = 0xF000
	macOwn2    = "02:00:00:00:00:02"
	macPeer2   = "02:00:00:00:00:09"
)

func ip4(s string) []byte { return []byte(wire.A4(s)) }
func ip6(s string) []byte { return []byte(wire.A6(s)) }

// addresses per (version, nic): peer (source of everything), own, other
func addrs(v, nic int) (peer, own, other []byte) {
	switch {
	case v == 4 && nic == 2:
		return ip4("10.0.1.9"), ip4("10.0.1.1"), ip4("10.0.1.77")
	case v == 4:
		return ip4("10.0.0.9"), ip4("10.0.0.1"), ip4("10.0.0.77")
	case nic == 2:
		return ip6("fd01::9"), ip6("fd01::1"), ip6("fd01::77")
	}
	return ip6("fd00::9"), ip6("fd00::1"), ip6("fd00::77")
}

func rmacFor(nic int) tcpip.LinkAddress {
	if nic == 2 {
		return wire.MAC(macPeer2)
	}
	return ""
}

func gi(m M, k string) int {
	v, ok := m[k]
	if !ok || v == nil {
		vh.Fatal("case: missing field %q in %v", k, m)
	}
	return vh.Int(v)
}
func gs(m M, k string) string {
	v, ok := m[k]
	if !ok || v == nil {
		vh.Fatal("case: missing field %q in %v", k, m)
	}
	if s, ok := v.(string); ok {
		return s
	}
	return fmt.Sprint(v)
}
func gb(m M, k string) bool { v, _ := m[k].(bool); return v }
func gm(m M, k string) M {
	v, ok := m[k].(map[string]interface{})
	if !ok {
		vh.Fatal("case: missing record %q in %v", k, m)
	}
	return v
}
func gbytes(m M, k string) []byte {
	l, _ := m[k].([]interface{})
	out := make([]byte, len(l))
	for i, x := range l {
		out[i] = byte(vh.Int(x))
	}
	return out
}

func goid() int64 {
	var buf [64]byte
	n := runtime.Stack(buf[:], false)
	s := string(buf[:n])
	s = strings.TrimPrefix(s, "goroutine ")
	if i := strings.IndexByte(s, ' '); i > 0 {
		id, _ := strconv.ParseInt(s[:i], 10, 64)
		return id
	}
	return -1
}

// ------------------------------------------------------------ emitted frames
type emit struct {
	Nic   int    `json:"nic"`
	Proto int    `json:"proto"`
	B     []byte `json:"-"`
	Hex   string `json:"hex,omitempty"`
	sync  bool   // emitted on the injecting goroutine
	d     dec
}

type dec struct {
	kind         string // tcp icmp4 icmp6 arp udp other
	v            int
	sport, dport int
	flags        uint8
	seq, ack     uint32
	win          int
	payload      []byte
	itype, icode int
	ident, iseq  int
	arpop        int
}

func decode(proto int, b []byte) dec {
	d := dec{kind: "other"}
	var src, dst, pl []byte
	var p uint8
	switch proto {
	case 0x0806:
		a, err := wire.ParseARP(b)
		if err == nil {
			d.kind, d.arpop = "arp", int(a.Op)
		}
		return d
	case 0x0800:
		ip, err := wire.ParseIPv4(b)
		if err != nil {
			return d
		}
		d.v, src, dst, pl, p = 4, ip.Src, ip.Dst, ip.Payload, ip.Proto
	case 0x86dd:
		ip, err := wire.ParseIPv6(b)
		if err != nil {
			return d
		}
		d.v, src, dst, pl, p = 6, ip.Src, ip.Dst, ip.Payload, ip.Next
	default:
		return d
	}
	switch p {
	case 6:
		t, err := wire.ParseTCP(src, dst, pl)
		if err == nil {
			d.kind, d.sport, d.dport, d.flags, d.seq, d.ack, d.payload = "tcp", int(t.SrcPort), int(t.DstPort), t.Flags, t.Seq, t.Ack, t.Payload
			d.win = int(t.Window)
		}
	case 17:
		u, err := wire.ParseUDP(src, dst, pl)
		if err == nil {
			d.kind, d.sport, d.dport, d.payload = "udp", int(u.SrcPort), int(u.DstPort), u.Payload
		}
	case 1:
		m, err := wire.ParseICMPv4(pl)
		if err == nil {
			d.kind, d.itype, d.icode, d.ident, d.iseq, d.payload = "icmp4", int(m.Type), int(m.Code), int(m.Ident), int(m.Seq), m.Body
		}
	case 58:
		m, err := wire.ParseICMPv6(src, dst, pl)
		if err == nil {
			d.kind, d.itype, d.icode, d.ident, d.iseq, d.payload = "icmp6", int(m.Type), int(m.Code), int(m.Ident), int(m.Seq), m.Body
		}
	}
	return d
}

// obsClass maps an emitted frame to an observation class of Ingress.tla.
func (d *dec) obsClass() string {
	switch d.kind {
	case "tcp":
		if d.flags&wire.RST != 0 {
			return "rst"
		}
		if d.flags&(wire.SYN|wire.ACK) == wire.SYN|wire.ACK {
			return "synack"
		}
		return "tcp"
	case "icmp4":
		if d.itype == 0 {
			return "echo4"
		}
		if d.itype == 3 || d.itype == 11 || d.itype == 12 {
			return "icmperr"
		}
	case "icmp6":
		switch d.itype {
		case 129:
			return "echo6"
		case 136:
			return "na"
		case 135:
			return "ns"
		case 1, 2, 3, 4:
			return "icmperr"
		}
	case "arp":
		if d.arpop == 2 {
			return "arp"
		}
	}
	return "other"
}

// ------------------------------------------------- raw peer logic (both roles)
type netio interface {
	Inject(nic int, proto int, parts [][]byte)
	// Wait returns the first not yet consumed emitted frame matching m.
	Wait(m func(*emit) bool, d time.Duration) (*emit, bool)
}

type conn struct {
	v, nic       int
	sport, dport int
	iss, irs     uint32
	snd, rcv     uint32 // our next seq; next seq expected from the stack
}

func netProto(v int) int {
	if v == 6 {
		return 0x86dd
	}
	return 0x0800
}

func ipWrap(v, nic int, proto uint8, l4 []byte, id int) []byte {
	peer, own, _ := addrs(v, nic)
	if v == 4 {
		return wire.BuildIPv4(peer, own, proto, l4, wire.IPv4Opts{ID: uint16(id)})
	}
	return wire.BuildIPv6(peer, own, proto, l4, 64)
}

func (c *conn) seg(flags uint8, seq, ack uint32, opts, payload []byte) []byte {
	peer, own, _ := addrs(c.v, c.nic)
	t := wire.BuildTCP(peer, own, wire.TCPFields{SrcPort: uint16(c.sport), DstPort: uint16(c.dport), Seq: seq, Ack: ack,
		Flags: flags, Window: 65535, Opts: opts}, payload)
	return ipWrap(c.v, c.nic, 6, t, c.sport)
}

func matchTCP(c *conn, f func(d *dec) bool) func(*emit) bool {
	return func(e *emit) bool {
		return e.d.kind == "tcp" && e.d.v == c.v && e.d.dport == c.sport && e.d.sport == c.dport && f(&e.d)
	}
}

// handshake opens a connection to the stack's listener as a raw peer.
func handshake(io netio, v, nic, sport int, iss uint32, d time.Duration) (*conn, error) {
	return handshakeTo(io, v, nic, sport, lstPort, iss, d)
}

func handshakeTo(io netio, v, nic, sport, dport int, iss uint32, d time.Duration) (*conn, error) {
	c := &conn{v: v, nic: nic, sport: sport, dport: dport, iss: iss}
	io.Inject(nic, netProto(v), [][]byte{c.seg(wire.SYN, iss, 0, wire.OptMSS(1400), nil)})
	e, ok := io.Wait(matchTCP(c, func(d *dec) bool {
		return d.flags&(wire.SYN|wire.ACK|wire.RST) == wire.SYN|wire.ACK && d.ack == iss+1
	}), d)
	if !ok {
		return nil, fmt.Errorf("no SYN-ACK for port %d within %v", sport, d)
	}
	c.irs = e.d.seq
	c.snd, c.rcv = iss+1, c.irs+1
	io.Inject(nic, netProto(v), [][]byte{c.seg(wire.ACK, c.snd, c.rcv, nil, nil)})
	return c, nil
}

// echoData sends data on c and waits until the stack's echo server returned it.
func echoData(io netio, c *conn, data []byte, d time.Duration) error {
	seg := c.seg(wire.PSH|wire.ACK, c.snd, c.rcv, nil, data)
	io.Inject(c.nic, netProto(c.v), [][]byte{seg})
	c.snd += uint32(len(data))
	var got []byte
	deadline := time.Now().Add(d)
	rto := 300 * time.Millisecond
	for len(got) < len(data) {
		w := time.Until(deadline)
		if len(got) == 0 && w > rto {
			w = rto
		}
		e, ok := io.Wait(matchTCP(c, func(x *dec) bool { return len(x.payload) > 0 && x.seq == c.rcv && x.flags&wire.RST == 0 }), w)
		if !ok {
			if len(got) == 0 && time.Now().Before(deadline) {
				// like any TCP peer: retransmit (the segment may have raced with the creation of the connection)
				io.Inject(c.nic, netProto(c.v), [][]byte{seg})
				rto *= 2
				continue
			}
			return fmt.Errorf("echo of %d bytes not seen on port %d (got %d)", len(data), c.sport, len(got))
		}
		got = append(got, e.d.payload...)
		c.rcv += uint32(len(e.d.payload))
		io.Inject(c.nic, netProto(c.v), [][]byte{c.seg(wire.ACK, c.snd, c.rcv, nil, nil)})
	}
	if !bytes.Equal(got, data) {
		return fmt.Errorf("echoed bytes differ on port %d", c.sport)
	}
	return nil
}

func (c *conn) reset(io netio) {
	io.Inject(c.nic, netProto(c.v), [][]byte{c.seg(wire.RST, c.snd, 0, nil, nil)})
}

func pingProbe(io netio, ident, seq int, d time.Duration) error {
	pay := wire.Pattern(ident*31+seq, 24)
	msg := wire.BuildICMPv4Echo(8, uint16(ident), uint16(seq), pay)
	// echo requests are answered only while fewer than ten are pending: like ping, repeat until answered
	deadline := time.Now().Add(d)
	ok := false
	for try := 300 * time.Millisecond; !ok && time.Now().Before(deadline); try *= 2 {
		io.Inject(1, 0x0800, [][]byte{ipWrap(4, 1, 1, msg, ident)})
		w := time.Until(deadline)
		if w > try {
			w = try
		}
		_, ok = io.Wait(func(e *emit) bool {
			return e.d.kind == "icmp4" && e.d.itype == 0 && e.d.ident == ident && e.d.iseq == seq && bytes.Equal(e.d.payload, pay)
		}, w)
	}
	if !ok {
		return fmt.Errorf("echo request ident %#x seq %d not answered within %v", ident, seq, d)
	}
	return nil
}

func hexParts(parts [][]byte) []string {
	out := make([]string, len(parts))
	for i, p := range parts {
		out[i] = hex.EncodeToString(p)
	}
	return out
}

func unhexParts(l []interface{}) [][]byte {
	out := make([][]byte, len(l))
	for i, x := range l {
		b, err := hex.DecodeString(vh.Str(x))
		if err != nil {
			vh.Fatal("bad hex: %v", err)
		}
		out[i] = b
	}
	return out
}

func bytesReader(b []byte) *bytes.Reader { return bytes.NewReader(b) }
