package gate

import (
	"fmt"
	"math/rand"
)

// Move is one scheduling decision: start operation Op on idle worker W, or
// (Op == "") grant worker W the step it is parked before.
type Move struct {
	W  int    `json:"w"`
	Op string `json:"op"`
}

func (m Move) String() string {
	if m.Op == "" {
		return fmt.Sprintf("Step(%d)", m.W)
	}
	return fmt.Sprintf("Start%s(%d)", m.Op, m.W)
}

// Event is a P-level observation (call / ret / stuck ...).
type Event map[string]interface{}

// System is the real code under the gate scheduler, as seen by the explorer.
type System interface {
	Enabled() []Move // moves that can be taken now without blocking
	Do(m Move) []Event
	Key() string                   // canonical projection of the real state
	State() map[string]interface{} // the same, structured
	Close()
}

// Edge of the explored real-code graph.
type Edge struct {
	Src    string  `json:"src"`
	Dst    string  `json:"dst"`
	Move   Move    `json:"move"`
	Label  string  `json:"label"`
	Events []Event `json:"events"`
}

// GraphOut is the reachable graph of the real code at hook granularity.
type GraphOut struct {
	States map[string]map[string]interface{} `json:"states"`
	Init   string                            `json:"init"`
	Edges  []Edge                            `json:"edges"`
	Runs   int                               `json:"runs"`
	Steps  int                               `json:"steps"`
	Trunc  bool                              `json:"truncated"`
	Nondet []string                          `json:"nondeterminism"`
}

// Explore enumerates every reachable state and transition of the real code
// (stateful search with prefix replay: real goroutines cannot be cloned).
func Explore(newSys func() System, maxStates int) *GraphOut {
	g := &GraphOut{States: map[string]map[string]interface{}{}}
	type item struct {
		key  string
		path []Move
	}
	s0 := newSys()
	g.Init = s0.Key()
	g.States[g.Init] = s0.State()
	s0.Close()
	g.Runs++
	queue := []item{{g.Init, nil}}
	for len(queue) > 0 {
		it := queue[0]
		queue = queue[1:]
		// find the enabled moves of this state
		s := newSys()
		g.Runs++
		ok := true
		for _, m := range it.path {
			s.Do(m)
			g.Steps++
		}
		if s.Key() != it.key {
			g.Nondet = append(g.Nondet, fmt.Sprintf("replay of %v reached %s, expected %s", it.path, s.Key(), it.key))
			ok = false
		}
		var moves []Move
		if ok {
			moves = s.Enabled()
		}
		for i, m := range moves {
			if i > 0 {
				s = newSys()
				g.Runs++
				for _, pm := range it.path {
					s.Do(pm)
					g.Steps++
				}
			}
			evs := s.Do(m)
			g.Steps++
			k := s.Key()
			if _, seen := g.States[k]; !seen {
				if len(g.States) >= maxStates {
					g.Trunc = true
					s.Close()
					continue
				}
				g.States[k] = s.State()
				np := make([]Move, len(it.path)+1)
				copy(np, it.path)
				np[len(it.path)] = m
				queue = append(queue, item{k, np})
			}
			g.Edges = append(g.Edges, Edge{Src: it.key, Dst: k, Move: m, Label: m.String(), Events: evs})
			s.Close()
		}
		if len(moves) == 0 {
			s.Close()
		}
	}
	return g
}

// RandomRun executes one seeded random schedule to completion (or maxSteps)
// and returns the P-level events it produced plus the final state.
func RandomRun(newSys func() System, r *rand.Rand, maxSteps int, final func(System) []Event) ([]Event, []Move) {
	s := newSys()
	defer s.Close()
	var evs []Event
	var path []Move
	for i := 0; i < maxSteps; i++ {
		ms := s.Enabled()
		if len(ms) == 0 {
			break
		}
		m := ms[r.Intn(len(ms))]
		path = append(path, m)
		evs = append(evs, s.Do(m)...)
	}
	if final != nil {
		evs = append(evs, final(s)...)
	}
	return evs, path
}
