// Package gate is the gate scheduler (engine E5): real goroutines of the code
// under test block at verif hook points until the scheduler grants them one
// step, so that the harness decides the interleaving at the granularity of
// the hooks.  "Blocked" is a state the harness observes, never a timeout.
package gate

import (
	"bytes"
	"runtime"
	"strconv"
	"sync"
	"time"
)

// Pos is where a worker is after a step.
type Pos struct {
	Point int         // hook point the worker is parked at (0 = not inside an operation)
	Done  bool        // the operation it was running has returned
	Ret   interface{} // return value of the finished operation
}

type msg struct {
	point int
	done  bool
	ret   interface{}
}

// Worker is one controlled goroutine.
type Worker struct {
	ID    int
	cmd   chan func() interface{}
	msgs  chan msg
	grant chan struct{}
	Pos   Pos
	InOp  bool
}

// Sched controls a set of workers.
type Sched struct {
	Workers  []*Worker
	byGoid   sync.Map // goid -> *Worker
	abandon  int32
	abandonM sync.RWMutex
	dead     bool
	wg       sync.WaitGroup
}

func goid() int64 {
	var buf [64]byte
	n := runtime.Stack(buf[:], false)
	// "goroutine 123 ["
	b := buf[:n]
	b = b[len("goroutine "):]
	i := bytes.IndexByte(b, ' ')
	id, _ := strconv.ParseInt(string(b[:i]), 10, 64)
	return id
}

// New starts n workers.
func New(n int) *Sched {
	s := &Sched{}
	for i := 0; i < n; i++ {
		w := &Worker{ID: i, cmd: make(chan func() interface{}), msgs: make(chan msg), grant: make(chan struct{})}
		s.Workers = append(s.Workers, w)
		ready := make(chan struct{})
		s.wg.Add(1)
		go func() {
			defer s.wg.Done()
			s.byGoid.Store(goid(), w)
			close(ready)
			for f := range w.cmd {
				r := f()
				s.abandonM.RLock()
				dead := s.dead
				s.abandonM.RUnlock()
				if dead {
					return
				}
				w.msgs <- msg{done: true, ret: r}
			}
		}()
		<-ready
	}
	return s
}

// Hook is installed as the package's verif hook.
func (s *Sched) Hook(point int) {
	v, ok := s.byGoid.Load(goid())
	if !ok {
		return // not a controlled goroutine
	}
	s.abandonM.RLock()
	dead := s.dead
	s.abandonM.RUnlock()
	if dead {
		return
	}
	w := v.(*Worker)
	w.msgs <- msg{point: point}
	<-w.grant
}

func (s *Sched) wait(w *Worker) Pos {
	m := <-w.msgs
	if m.done {
		w.InOp = false
		w.Pos = Pos{Done: true, Ret: m.ret}
	} else {
		w.Pos = Pos{Point: m.point}
	}
	return w.Pos
}

// Start makes idle worker w begin operation f and returns where it stops
// (first hook point, or Done if f has no hook on its path).
func (s *Sched) Start(w int, f func() interface{}) Pos {
	wk := s.Workers[w]
	if wk.InOp {
		panic("gate: Start on busy worker")
	}
	wk.InOp = true
	wk.cmd <- f
	return s.wait(wk)
}

// Grant lets worker w (parked at a hook) perform the step behind the hook and
// returns where it stops next.  The caller must only grant steps that cannot
// block (check the object's accessor first).
func (s *Sched) Grant(w int) Pos {
	wk := s.Workers[w]
	if !wk.InOp || wk.Pos.Done {
		panic("gate: Grant on worker that is not parked at a hook")
	}
	wk.grant <- struct{}{}
	return s.wait(wk)
}

// Abandon releases every parked worker; hooks become pass-through.  `force`
// is called repeatedly (it should make blocking operations of the object under
// test complete) until all workers have exited.
func (s *Sched) Abandon(force func()) {
	s.abandonM.Lock()
	s.dead = true
	s.abandonM.Unlock()
	for _, w := range s.Workers {
		close(w.cmd)
		if w.InOp && !w.Pos.Done {
			// parked at a hook: release
			select {
			case w.grant <- struct{}{}:
			default:
			}
		}
	}
	done := make(chan struct{})
	go func() { s.wg.Wait(); close(done) }()
	for i := 0; ; i++ {
		select {
		case <-done:
			return
		default:
		}
		// drain workers that reached another hook before noticing dead, and post progress
		for _, w := range s.Workers {
			select {
			case <-w.msgs:
				select {
				case w.grant <- struct{}{}:
				default:
				}
			default:
			}
			select {
			case w.grant <- struct{}{}:
			default:
			}
		}
		if force != nil {
			force()
		}
		if i > 50 {
			time.Sleep(50 * time.Microsecond)
		} else {
			runtime.Gosched()
		}
		if i > 200000 {
			return // leak rather than hang the harness
		}
	}
}
