// neighd: neighbour-resolution driver (C12).
//
//	neighd run <scenarios.json> <out.ndjson> [parallel]
//
// Every scenario gets its own stack (one NIC with CapabilityResolutionRequired,
// own MAC, IPv4/IPv6 addresses, ARP) and its own trace buffer; scenarios run
// CONCURRENTLY (the failure path costs 3 s of real time) and the segments are
// written one after the other at the end.
//
// Script ops (sequential on the script goroutine):
//
//	bg      start a background operation that needs resolution (kind: write |
//	        connect | getlink); it logs `call`, waits on the channel returned
//	        with ErrWouldBlock (closed on resolution or failure), retries, and
//	        logs `ret` with the final result
//	wait    wait for a background operation to finish
//	inject  ARP request/reply (also truncated / wrong hlen, plen, htype, ptype),
//	        neighbour solicitation / advertisement; logs `inj` before and
//	        `injdone` after the (synchronous) ingress path
//	add     Stack.AddLinkAddress (logs `add` / `adddone`)
//	fill    n distinct neighbours through Stack.AddLinkAddress (ring wrap)
//	waitreq wait until n requests for a next hop have been seen at the tap
//	sleep
//
// Every frame the stack emits is decoded in the link tap by the harness's own
// decoder (verifh/wire) and logged with the route's remote link address.
// All times are microseconds since the scenario started; the spec only uses
// them as lower bounds.
package main

import (
	"fmt"
	"os"
	"strconv"
	"strings"
	"sync"
	"time"

	"github.com/brewlin/net-protocol/pkg/sleep"
	"github.com/brewlin/net-protocol/pkg/waiter"
	tcpip "github.com/brewlin/net-protocol/protocol"
	"github.com/brewlin/net-protocol/protocol/transport/tcp"
	"github.com/brewlin/net-protocol/protocol/transport/udp"
	"github.com/brewlin/net-protocol/stack"
	"verifh/vh"
	"verifh/wire"
)

type M = map[string]interface{}

type scenario struct {
	MAC    string   `json:"mac"`
	Addr4  []string `json:"addr4"`
	Addr6  []string `json:"addr6"`
	Mcast6 []string `json:"mcast6"` // solicited-node groups joined (not "own addresses" for the property)
	Routes []M      `json:"routes"`
	Ops    []M      `json:"ops"`
	GiveUp int      `json:"giveup_ms"`
	Refuse []int    `json:"refuse"` // ordinals (1-based, per scenario) of the resolution requests the link refuses to transmit
}

func addrOf(s string) tcpip.Address {
	if s == "" {
		return ""
	}
	if strings.Contains(s, ":") {
		return wire.A6(s)
	}
	return wire.A4(s)
}

// dotted-bytes canonical form for addresses and MACs in traces
func dots(a []byte) string {
	if len(a) == 0 {
		return ""
	}
	var sb strings.Builder
	for i, x := range a {
		if i > 0 {
			sb.WriteByte('.')
		}
		sb.WriteString(strconv.Itoa(int(x)))
	}
	return sb.String()
}
func canonIP(s string) string { return dots([]byte(addrOf(s))) }
func canonMAC(s string) string {
	if s == "" {
		return ""
	}
	return dots([]byte(wire.MAC(s)))
}

func geti(m M, k string, d int) int {
	if v, ok := m[k]; ok && v != nil {
		return vh.Int(v)
	}
	return d
}
func gets(m M, k string, d string) string {
	if v, ok := m[k]; ok && v != nil {
		return vh.Str(v)
	}
	return d
}

// solicited-node multicast address of a (own computation, RFC 4291 2.7.1)
func solNode(a []byte) []byte {
	r := []byte{0xff, 2, 0, 0, 0, 0, 0, 0, 0, 0, 0, 1, 0xff, 0, 0, 0}
	copy(r[13:], a[13:16])
	return r
}

type runner struct {
	si    int
	sc    scenario
	h     *wire.Host
	clock *wire.Clock
	mu    sync.Mutex
	evs   []M
	done  bool
	nreq  map[string]int        // next hop -> requests seen
	syn   map[int]chan struct{} // dport -> first SYN seen
	bg    map[int]chan struct{} // op id -> finished
	eps   []tcpip.Endpoint
}

func (r *runner) log(ev M) {
	r.mu.Lock()
	if !r.done {
		ev["t"] = int(r.clock.NowUS())
		r.evs = append(r.evs, ev)
	}
	r.mu.Unlock()
}

// tap: decode one emitted frame with the harness's own decoder
func (r *runner) onEmit(l *wire.Link, f wire.Frame) {
	ev := M{"ev": "emit", "cls": "other", "rmac": dots([]byte(f.Remote)), "len": len(f.Bytes)}
	if f.Refused {
		ev["refused"] = true
	}
	hop := dots([]byte(f.NextHop))
	var src, dst, payload []byte
	var proto uint8
	switch f.Proto {
	case wire.ProtoARP:
		a, err := wire.ParseARP(f.Bytes)
		if err != nil {
			ev["cls"] = "bad"
			break
		}
		ok := a.HType == 1 && a.PType == 0x0800 && a.HLen == 6 && a.PLen == 4 && len(f.Bytes) == 28
		ev["v"], ev["ok"] = 4, ok
		ev["smac"], ev["sip"], ev["tmac"], ev["tip"] = dots(a.SHA), dots(a.SPA), dots(a.THA), dots(a.TPA)
		ev["src"] = dots(a.SPA)
		switch a.Op {
		case 1:
			ev["cls"], ev["h"], ev["grp"] = "req", dots(a.TPA), true
		case 2:
			ev["cls"] = "rep"
		}
	case wire.ProtoIPv4:
		ip, err := wire.ParseIPv4(f.Bytes)
		if err != nil {
			ev["cls"] = "bad"
			break
		}
		ev["v"], ev["ok"] = 4, ip.HdrOK && ip.TotalLen == len(f.Bytes)
		src, dst, payload, proto = ip.Src, ip.Dst, ip.Payload, ip.Proto
	case wire.ProtoIPv6:
		ip, err := wire.ParseIPv6(f.Bytes)
		if err != nil {
			ev["cls"] = "bad"
			break
		}
		ev["v"], ev["ok"] = 6, ip.PayloadLen == len(f.Bytes)-40
		src, dst, payload, proto = ip.Src, ip.Dst, ip.Payload, ip.Next
		ev["hop"] = int(ip.Hop)
	}
	var synCh chan struct{}
	if src != nil {
		if hop == "" {
			hop = dots(dst)
		}
		switch proto {
		case 17:
			u, err := wire.ParseUDP(src, dst, payload)
			if err == nil {
				ev["cls"], ev["kind"], ev["h"], ev["dst"], ev["dport"], ev["n"] = "data", "udp", hop, dots(dst), int(u.DstPort), len(u.Payload)
				ev["ok"] = ev["ok"].(bool) && u.SumOK
			}
		case 6:
			t, err := wire.ParseTCP(src, dst, payload)
			if err == nil {
				ev["cls"], ev["kind"], ev["h"], ev["dst"], ev["dport"], ev["n"] = "data", "tcp", hop, dots(dst), int(t.DstPort), len(t.Payload)
				ev["syn"] = t.Flags&wire.SYN != 0
				if t.Flags&wire.SYN != 0 {
					r.mu.Lock()
					synCh = r.syn[int(t.DstPort)]
					delete(r.syn, int(t.DstPort))
					r.mu.Unlock()
				}
			}
		case 58:
			m, err := wire.ParseICMPv6(src, dst, payload)
			if err == nil && (m.Type == 135 || m.Type == 136) && len(m.Rest) >= 20 {
				tgt := m.Rest[4:20]
				ev["ok"] = ev["ok"].(bool) && m.SumOK && m.Code == 0
				ev["src"], ev["tip"] = dots(src), dots(dst)
				ev["smac"], ev["tmac"], ev["opt"] = "", "", 0
				if len(m.Rest) >= 28 && m.Rest[21] == 1 {
					ev["opt"], ev["smac"] = int(m.Rest[20]), dots(m.Rest[22:28])
				}
				if m.Type == 135 {
					ev["cls"], ev["h"], ev["sip"] = "req", dots(tgt), dots(src)
					ev["grp"] = dots(dst) == dots(solNode(tgt)) // sent to the target's solicited-node group
				} else {
					ev["cls"], ev["sip"] = "rep", dots(tgt)
				}
			}
		}
	}
	if ev["cls"] == "req" {
		r.mu.Lock()
		r.nreq[ev["h"].(string)]++
		r.mu.Unlock()
	}
	r.log(ev)
	if synCh != nil {
		close(synCh)
	}
}

func (r *runner) giveUp() time.Duration {
	if r.sc.GiveUp > 0 {
		return time.Duration(r.sc.GiveUp) * time.Millisecond
	}
	return 20 * time.Second
}

func errStr(e *tcpip.Error) string {
	if e == nil {
		return ""
	}
	return e.String()
}

// background operation
func (r *runner) bgOp(op M, fin chan struct{}) {
	defer close(fin)
	id := geti(op, "id", 0)
	kind := gets(op, "kind", "write")
	to := addrOf(gets(op, "to", ""))
	v := 4
	np := wire.ProtoIPv4
	if len(to) == 16 {
		v, np = 6, wire.ProtoIPv6
	}
	dport := 7000 + id
	call := M{"ev": "call", "id": id, "kind": kind, "v": v, "h": canonIP(gets(op, "hop", gets(op, "to", ""))), "dst": dots([]byte(to)), "dport": dport}
	deadline := time.After(r.giveUp())
	nblock := 0
	switch kind {
	case "write", "cwrite":
		wq := &waiter.Queue{}
		ep, err := r.h.S.NewEndpoint(udp.ProtocolNumber, np, wq)
		if err != nil {
			vh.Fatal("NewEndpoint: %v", err)
		}
		r.mu.Lock()
		r.eps = append(r.eps, ep)
		r.mu.Unlock()
		data := wire.Pattern(id, geti(op, "n", 16))
		var wo tcpip.WriteOptions
		fa := tcpip.FullAddress{NIC: 1, Addr: to, Port: uint16(dport)}
		if kind == "cwrite" {
			if e := ep.Connect(fa); e != nil {
				r.log(call)
				r.log(M{"ev": "ret", "id": id, "err": "connect: " + e.String(), "mac": "", "blocks": 0})
				return
			}
		} else {
			wo.To = &fa
		}
		r.log(call)
		for {
			_, ch, e := ep.Write(tcpip.SlicePayload(data), wo)
			if e == tcpip.ErrWouldBlock && ch != nil {
				nblock++
				r.log(M{"ev": "note", "what": "blocked", "id": id})
				select {
				case <-ch:
					continue
				case <-deadline:
					r.log(M{"ev": "ret", "id": id, "err": "harness-giveup", "mac": "", "blocks": nblock})
					return
				}
			}
			r.log(M{"ev": "ret", "id": id, "err": errStr(e), "mac": "", "blocks": nblock})
			return
		}
	case "connect":
		wq := &waiter.Queue{}
		ep, err := r.h.S.NewEndpoint(tcp.ProtocolNumber, np, wq)
		if err != nil {
			vh.Fatal("NewEndpoint: %v", err)
		}
		we, nch := waiter.NewChannelEntry(nil)
		wq.EventRegister(&we, waiter.EventOut|waiter.EventErr|waiter.EventHUp)
		sch := make(chan struct{})
		r.mu.Lock()
		r.syn[dport] = sch
		r.mu.Unlock()
		r.log(call)
		e := ep.Connect(tcpip.FullAddress{NIC: 1, Addr: to, Port: uint16(dport)})
		res := ""
		if e != nil && e != tcpip.ErrConnectStarted {
			res = e.String()
		} else {
			select {
			case <-sch: // the first SYN went out: the operation proceeded
			case <-nch:
				// the handshake ended: either with an error or (impossible here) established; a SYN may have been sent meanwhile
				select {
				case <-sch:
				default:
					res = errStr(ep.GetSockOpt(tcpip.ErrorOption{}))
					if res == "" {
						res = "notified-without-error"
					}
				}
			case <-deadline:
				res = "harness-giveup"
			}
		}
		wq.EventUnregister(&we)
		ep.Close()
		// let an abort segment (if any) leave before the result is logged
		time.Sleep(20 * time.Millisecond)
		r.log(M{"ev": "ret", "id": id, "err": res, "mac": "", "blocks": 0})
	case "getlink":
		local := addrOf(gets(op, "local", ""))
		r.log(call)
		for {
			w := &sleep.Waker{}
			mac, ch, e := r.h.S.GetLinkAddress(1, to, local, np, w)
			if e == tcpip.ErrWouldBlock && ch != nil {
				nblock++
				r.log(M{"ev": "note", "what": "blocked", "id": id})
				select {
				case <-ch:
					continue
				case <-deadline:
					r.log(M{"ev": "ret", "id": id, "err": "harness-giveup", "mac": "", "blocks": nblock})
					return
				}
			}
			r.log(M{"ev": "ret", "id": id, "err": errStr(e), "mac": dots([]byte(mac)), "blocks": nblock})
			return
		}
	default:
		vh.Fatal("bg kind %q", kind)
	}
}

func ints2bytes(v interface{}) []byte {
	var b []byte
	for _, x := range vh.Ints(v) {
		b = append(b, byte(x))
	}
	return b
}

func (r *runner) inject(op M) {
	link := r.h.Links[1]
	rmac := wire.MAC(gets(op, "rmac", "02:00:00:00:00:09"))
	ev := M{"ev": "inj"}
	for k, v := range op {
		if k != "op" {
			ev[k] = v
		}
	}
	for _, k := range []string{"sip", "sip2", "target", "src", "dst", "spa", "tpa"} {
		if s, ok := ev[k].(string); ok && s != "" {
			ev[k] = canonIP(s)
		}
	}
	for _, k := range []string{"smac", "rmac", "sha", "tha", "optmac"} {
		if s, ok := ev[k].(string); ok && s != "" {
			ev[k] = canonMAC(s)
		}
	}
	var proto tcpip.NetworkProtocolNumber
	var pkt []byte
	switch gets(op, "kind", "") {
	case "arp":
		pkt = wire.BuildARP(uint16(geti(op, "arpop", 1)), []byte(wire.MAC(gets(op, "sha", "02:00:00:00:00:09"))), []byte(addrOf(gets(op, "spa", ""))),
			[]byte(wire.MAC(gets(op, "tha", "00:00:00:00:00:00"))), []byte(addrOf(gets(op, "tpa", ""))))
		if x := geti(op, "htype", -1); x >= 0 {
			pkt[0], pkt[1] = byte(x>>8), byte(x)
		}
		if x := geti(op, "ptype", -1); x >= 0 {
			pkt[2], pkt[3] = byte(x>>8), byte(x)
		}
		if x := geti(op, "hlen", -1); x >= 0 {
			pkt[4] = byte(x)
		}
		if x := geti(op, "plen", -1); x >= 0 {
			pkt[5] = byte(x)
		}
		if n := geti(op, "trunc", 0); n > 0 && n < len(pkt) {
			pkt = pkt[:n]
		}
		if n := geti(op, "pad", 0); n > 0 { // Ethernet minimum-size padding
			pkt = append(pkt, make([]byte, n)...)
		}
		proto = wire.ProtoARP
	case "ns", "na":
		src, dst, tgt := []byte(addrOf(gets(op, "src", ""))), []byte(addrOf(gets(op, "dst", ""))), []byte(addrOf(gets(op, "target", "")))
		body := append([]byte{}, tgt...)
		typ := uint8(135)
		var rest [4]byte
		optT := byte(1)
		if gets(op, "kind", "") == "na" {
			typ, optT = 136, 2
			rest[0] = byte(geti(op, "flags", 0x60))
		}
		if om := gets(op, "optmac", ""); om != "" {
			body = append(body, optT, 1)
			body = append(body, []byte(wire.MAC(om))...)
		}
		if n := geti(op, "trunc", 0); n > 0 && n < len(body) {
			body = body[:n]
		}
		l4 := wire.BuildICMPv6(src, dst, typ, 0, rest, body)
		pkt = wire.BuildIPv6(src, dst, 58, l4, 255)
		proto = wire.ProtoIPv6
	case "raw":
		pkt = ints2bytes(op["bytes"])
		proto = tcpip.NetworkProtocolNumber(geti(op, "proto", 0x0806))
		delete(ev, "bytes")
	default:
		vh.Fatal("inject kind %v", op["kind"])
	}
	r.log(ev)
	link.Inject(proto, pkt, rmac)
	r.log(M{"ev": "injdone"})
}

func fillAddr(i int) (tcpip.Address, tcpip.LinkAddress) {
	return tcpip.Address([]byte{10, byte(1 + i>>16), byte(i >> 8), byte(i)}), tcpip.LinkAddress([]byte{2, 0, 1, byte(i >> 16), byte(i >> 8), byte(i)})
}

func (r *runner) run() {
	sc := r.sc
	own := []string{}
	for _, a := range sc.Addr4 {
		own = append(own, canonIP(a))
	}
	for _, a := range sc.Addr6 {
		own = append(own, canonIP(a))
	}
	r.log(M{"ev": "reset", "scenario": r.si, "own": own, "mac": canonMAC(sc.MAC)})
	for _, op := range sc.Ops {
		switch vh.Str(op["op"]) {
		case "bg":
			fin := make(chan struct{})
			r.mu.Lock()
			r.bg[geti(op, "id", 0)] = fin
			r.mu.Unlock()
			started := make(chan struct{})
			go func(op M) {
				close(started)
				r.bgOp(op, fin)
			}(op)
			<-started
			if ms := geti(op, "after_ms", 0); ms > 0 {
				time.Sleep(time.Duration(ms) * time.Millisecond)
			}
		case "wait":
			r.mu.Lock()
			fin := r.bg[geti(op, "id", 0)]
			r.mu.Unlock()
			if fin != nil {
				<-fin // the operation itself gives up after giveup_ms and logs that
			}
		case "inject":
			r.inject(op)
		case "add":
			a, m := gets(op, "addr", ""), gets(op, "mac", "")
			r.log(M{"ev": "add", "addr": canonIP(a), "mac": canonMAC(m)})
			r.h.S.AddLinkAddress(1, addrOf(a), wire.MAC(m))
			r.log(M{"ev": "adddone"})
		case "fill":
			n, base := geti(op, "n", 0), geti(op, "base", 0)
			r.log(M{"ev": "fill", "n": n, "base": base})
			for i := 0; i < n; i++ {
				a, m := fillAddr(base + i)
				r.h.S.AddLinkAddress(1, a, m)
			}
			r.log(M{"ev": "filldone"})
		case "waitreq":
			h := canonIP(gets(op, "h", ""))
			n := geti(op, "n", 1)
			lim := time.Now().Add(time.Duration(geti(op, "ms", 8000)) * time.Millisecond)
			for {
				r.mu.Lock()
				c := r.nreq[h]
				r.mu.Unlock()
				if c >= n || time.Now().After(lim) {
					break
				}
				time.Sleep(2 * time.Millisecond)
			}
			if ms := geti(op, "then_ms", 0); ms > 0 {
				time.Sleep(time.Duration(ms) * time.Millisecond)
			}
		case "sleep":
			time.Sleep(time.Duration(geti(op, "ms", 1)) * time.Millisecond)
		default:
			vh.Fatal("script: unknown op %v", op["op"])
		}
	}
	// every background operation must end (it gives up by itself)
	r.mu.Lock()
	fins := []chan struct{}{}
	for _, f := range r.bg {
		fins = append(fins, f)
	}
	r.mu.Unlock()
	for _, f := range fins {
		<-f
	}
	r.log(M{"ev": "end"})
	r.mu.Lock()
	r.done = true
	eps := r.eps
	r.mu.Unlock()
	for _, ep := range eps {
		ep.Close()
	}
}

func newRunner(si int, sc scenario) *runner {
	clock := wire.NewClock()
	a6 := append(append([]string{}, sc.Addr6...), sc.Mcast6...)
	h := wire.NewHost(clock, fmt.Sprintf("n%d", si), []wire.NICSpec{{ID: 1, MTU: 1500, MAC: sc.MAC, Caps: stack.CapabilityResolutionRequired, Addr4: sc.Addr4, Addr6: a6}})
	if len(sc.Routes) > 0 {
		var rt []tcpip.Route
		for _, x := range sc.Routes {
			rt = append(rt, tcpip.Route{Destination: addrOf(gets(x, "dst", "")), Mask: tcpip.AddressMask(addrOf(gets(x, "mask", ""))), Gateway: addrOf(gets(x, "gw", "")), NIC: 1})
		}
		h.S.SetRouteTable(rt)
	}
	r := &runner{si: si, sc: sc, h: h, clock: clock, nreq: map[string]int{}, syn: map[int]chan struct{}{}, bg: map[int]chan struct{}{}}
	h.Links[1].OnEmit = r.onEmit
	if len(sc.Refuse) > 0 {
		nreq := 0
		var rmu sync.Mutex
		h.Links[1].Refuse = func(l *wire.Link, f wire.Frame) *tcpip.Error {
			isReq := (f.Proto == wire.ProtoARP && len(f.Bytes) >= 8 && f.Bytes[7] == 1) ||
				(f.Proto == wire.ProtoIPv6 && len(f.Bytes) >= 41 && f.Bytes[6] == 58 && f.Bytes[40] == 135)
			if !isReq {
				return nil
			}
			rmu.Lock()
			defer rmu.Unlock()
			nreq++
			for _, k := range sc.Refuse {
				if k == nreq {
					return tcpip.ErrWouldBlock
				}
			}
			return nil
		}
	}
	return r
}

func main() {
	vh.Quiet()
	if len(os.Args) < 4 || os.Args[1] != "run" {
		vh.Fatal("usage: neighd run scenarios.json out.ndjson [parallel]")
	}
	var scs []scenario
	vh.LoadJSON(os.Args[2], &scs)
	par := 64
	if len(os.Args) > 4 {
		par, _ = strconv.Atoi(os.Args[4])
	}
	rs := make([]*runner, len(scs))
	sem := make(chan struct{}, par)
	var wg sync.WaitGroup
	for i := range scs {
		wg.Add(1)
		sem <- struct{}{}
		go func(i int) {
			defer wg.Done()
			defer func() { <-sem }()
			r := newRunner(i, scs[i])
			rs[i] = r
			r.run()
		}(i)
	}
	wg.Wait()
	tr := vh.NewTrace(os.Args[3])
	for _, r := range rs {
		for _, ev := range r.evs {
			tr.Log(ev)
		}
	}
	tr.Close()
}
