// Driver for C10: replays model behaviours into the real ports.PortManager,
// runs the ephemeral search at real width, and records concurrent histories.
package main

import (
	"fmt"
	"math/rand"
	"os"
	"runtime"
	"sort"
	"strconv"
	"sync"
	"sync/atomic"

	tcpip "github.com/brewlin/net-protocol/protocol"
	"github.com/brewlin/net-protocol/protocol/ports"
	"verifh/vh"
)

var netNum = map[string]tcpip.NetworkProtocolNumber{"n1": 0x0800, "n2": 0x86dd, "n3": 0x0806}
var transNum = map[string]tcpip.TransportProtocolNumber{"t1": 6, "t2": 17}

func nets(v interface{}) []tcpip.NetworkProtocolNumber {
	var out []tcpip.NetworkProtocolNumber
	for _, s := range vh.Strs(v) {
		n, ok := netNum[s]
		if !ok {
			vh.Fatal("unknown net %q", s)
		}
		out = append(out, n)
	}
	return out
}

func tupleKey(t []interface{}) string {
	ns := vh.Strs(t[0])
	sort.Strings(ns)
	return fmt.Sprintf("%v|%s|%s|%d", ns, vh.Str(t[1]), vh.Str(t[2]), vh.Int(t[3]))
}

type script struct {
	vh.Graph
	Tuples [][]interface{} `json:"tuples"`
}

func graph(path string) {
	var g script
	vh.LoadJSON(path, &g)
	res := vh.Result{Mismatches: []vh.Mismatch{}}
	for pi, p := range g.Paths {
		pm := ports.NewPortManager()
		for si, st := range p {
			res.Steps++
			a := st.Args
			switch st.Act {
			case "DoReserve":
				want := vh.Bool(a[4])
				port, err := pm.ReservePort(nets(a[0]), transNum[vh.Str(a[1])], tcpip.Address(vh.Str(a[2])), uint16(vh.Int(a[3])))
				got := err == nil
				if got != want || (got && int(port) != vh.Int(a[3])) {
					res.Mismatches = append(res.Mismatches, vh.Mismatch{Path: pi, Step: si, Kind: "property",
						What: "ReservePort result", Want: want, Got: fmt.Sprintf("ok=%v port=%d err=%v", got, port, err)})
				}
			case "DoRelease":
				pm.ReleasePort(nets(a[0]), transNum[vh.Str(a[1])], tcpip.Address(vh.Str(a[2])), uint16(vh.Int(a[3])))
			default:
				vh.Fatal("unknown action %s", st.Act)
			}
			// observable state: IsPortAvailable for every tuple
			want := map[string]bool{}
			for _, t := range vh.List(g.States[st.Dst]["avail"]) {
				want[tupleKey(vh.List(t))] = true
			}
			for _, t := range g.Tuples {
				got := pm.IsPortAvailable(nets(t[0]), transNum[vh.Str(t[1])], tcpip.Address(vh.Str(t[2])), uint16(vh.Int(t[3])))
				if got != want[tupleKey(t)] {
					res.Mismatches = append(res.Mismatches, vh.Mismatch{Path: pi, Step: si, Kind: "property",
						What: "IsPortAvailable" + tupleKey(t), Want: want[tupleKey(t)], Got: got})
				}
			}
			if len(res.Mismatches) > 20 {
				break
			}
		}
		res.Paths++
		if len(res.Mismatches) > 20 {
			break
		}
	}
	vh.Emit(res)
}

// eph: ephemeral search at real width.  For each case the acceptable ports are
// exactly `free`; the math/rand source is seeded so the case is replayable.
// Events go to an ndjson trace that TLC validates against the P-spec.
type ephCase struct {
	Seed int64 `json:"seed"`
	Free []int `json:"free"`
	Via  string `json:"via"` // "pick" (PickEphemeralPort with predicate) or "reserve" (ReservePort(0) on a filled manager)
}

func eph(in, out string) {
	var cases []ephCase
	vh.LoadJSON(in, &cases)
	tr := vh.NewTrace(out)
	n4 := []tcpip.NetworkProtocolNumber{0x0800}
	for i, c := range cases {
		free := map[uint16]bool{}
		for _, p := range c.Free {
			free[uint16(p)] = true
		}
		ev := map[string]interface{}{"ev": "pick", "case": i, "seed": c.Seed, "free": c.Free, "via": c.Via}
		// learn the offset the code will draw (same seed, same call)
		rand.Seed(c.Seed)
		ev["offset"] = int(rand.Int31n(65535 - 16000 + 1))
		rand.Seed(c.Seed)
		switch c.Via {
		case "pick":
			pm := ports.NewPortManager()
			calls := 0
			p, err := pm.PickEphemeralPort(func(p uint16) (bool, *tcpip.Error) {
				calls++
				return free[p], nil
			})
			ev["ok"] = err == nil
			ev["port"] = int(p)
			ev["calls"] = calls
		case "reserve":
			pm := ports.NewPortManager()
			for p := 16000; p <= 65535; p++ {
				if !free[uint16(p)] {
					if _, err := pm.ReservePort(n4, 6, "", uint16(p)); err != nil {
						vh.Fatal("fill failed at %d: %v", p, err)
					}
				}
			}
			rand.Seed(c.Seed)
			p, err := pm.ReservePort(n4, 6, "x", 0)
			ev["ok"] = err == nil
			ev["port"] = int(p)
			if err == nil {
				// the port must now be taken, and must have been free before
				ev["taken_after"] = !pm.IsPortAvailable(n4, 6, "x", p)
			} else {
				ev["taken_after"] = true
			}
		default:
			vh.Fatal("via %q", c.Via)
		}
		tr.Log(ev)
	}
	tr.Close()
}

// race: G goroutines issue reserve/release/query on a tiny domain; call and
// return events carry global tickets taken outside the manager's lock (E4).
func race(out string, seed int64, hists, G, K int) {
	tr := vh.NewTrace(out)
	addrs := []string{"", "a", "b"}
	netsets := [][]string{{"n1"}, {"n2"}, {"n1", "n2"}}
	for h := 0; h < hists; h++ {
		pm := ports.NewPortManager()
		tr.Log(map[string]interface{}{"ev": "reset", "hist": h})
		var wg sync.WaitGroup
		for g := 0; g < G; g++ {
			wg.Add(1)
			r := rand.New(rand.NewSource(seed*1000003 + int64(h)*131 + int64(g)))
			go func(g int, r *rand.Rand) {
				defer wg.Done()
				for k := 0; k < K; k++ {
					ns := netsets[r.Intn(len(netsets))]
					a := addrs[r.Intn(len(addrs))]
					p := 1 + r.Intn(2)
					op := []string{"reserve", "reserve", "release", "query"}[r.Intn(4)]
					nn := []tcpip.NetworkProtocolNumber{}
					for _, s := range ns {
						nn = append(nn, netNum[s])
					}
					tr.Log(map[string]interface{}{"ev": "call", "g": g, "op": op, "nets": ns, "t": "t1", "a": a, "p": p})
					ok := true
					switch op {
					case "reserve":
						_, err := pm.ReservePort(nn, 6, tcpip.Address(a), uint16(p))
						ok = err == nil
					case "release":
						pm.ReleasePort(nn, 6, tcpip.Address(a), uint16(p))
					case "query":
						ok = pm.IsPortAvailable(nn, 6, tcpip.Address(a), uint16(p))
					}
					tr.Log(map[string]interface{}{"ev": "ret", "g": g, "ok": ok})
				}
			}(g, r)
		}
		wg.Wait()
	}
	tr.Close()
}

// burst: the same kind of history, but every goroutine issues ONE operation and all of them start together (calls are
// logged first, then a spin barrier releases the goroutines at once, returns are logged when all are back): the check-then-act
// window of a reservation is hit by construction instead of by luck.  Most operations are reservations of the same port.
func burst(out string, seed int64, hists, G int) {
	tr := vh.NewTrace(out)
	addrs := []string{"", "a", "b"}
	netsets := [][]string{{"n1"}, {"n2"}, {"n1", "n2"}}
	r := rand.New(rand.NewSource(seed*7919 + 17))
	type call struct {
		op string
		nn []tcpip.NetworkProtocolNumber
		a  string
		p  int
		ok bool
	}
	for h := 0; h < hists; h++ {
		pm := ports.NewPortManager()
		tr.Log(map[string]interface{}{"ev": "reset", "hist": h, "burst": true})
		// a holder that may already be there (a release racing the reservations is part of the mix)
		pre := r.Intn(3) == 0
		if pre {
			tr.Log(map[string]interface{}{"ev": "call", "g": 7, "op": "reserve", "nets": []string{"n1"}, "t": "t1", "a": "a", "p": 1})
			_, err := pm.ReservePort([]tcpip.NetworkProtocolNumber{netNum["n1"]}, 6, tcpip.Address("a"), 1)
			tr.Log(map[string]interface{}{"ev": "ret", "g": 7, "ok": err == nil})
		}
		calls := make([]*call, G)
		for g := 0; g < G; g++ {
			ns := netsets[r.Intn(len(netsets))]
			if h%2 == 0 {
				ns = netsets[2]
			}
			c := &call{op: []string{"reserve", "reserve", "reserve", "reserve", "release", "query"}[r.Intn(6)], a: addrs[r.Intn(len(addrs))], p: 1}
			if h%4 == 0 {
				c.op, c.a = "reserve", addrs[0]
			}
			if !pre && c.op == "release" {
				c.op = "reserve"
			}
			if c.op == "release" {
				c.a, ns = "a", netsets[0]
			}
			for _, s := range ns {
				c.nn = append(c.nn, netNum[s])
			}
			calls[g] = c
			tr.Log(map[string]interface{}{"ev": "call", "g": g, "op": c.op, "nets": ns, "t": "t1", "a": c.a, "p": c.p})
		}
		var ready int32
		var wg sync.WaitGroup
		for g := 0; g < G; g++ {
			wg.Add(1)
			go func(c *call) {
				defer wg.Done()
				atomic.AddInt32(&ready, 1)
				for spins := 0; atomic.LoadInt32(&ready) < int32(G); spins++ {
					if spins > 2000 {
						runtime.Gosched()
					}
				}
				c.ok = true
				switch c.op {
				case "reserve":
					_, err := pm.ReservePort(c.nn, 6, tcpip.Address(c.a), uint16(c.p))
					c.ok = err == nil
				case "release":
					pm.ReleasePort(c.nn, 6, tcpip.Address(c.a), uint16(c.p))
				case "query":
					c.ok = pm.IsPortAvailable(c.nn, 6, tcpip.Address(c.a), uint16(c.p))
				}
			}(calls[g])
		}
		wg.Wait()
		for g := 0; g < G; g++ {
			tr.Log(map[string]interface{}{"ev": "ret", "g": g, "ok": calls[g].ok})
		}
	}
	tr.Close()
}

func atoi(s string) int {
	n, err := strconv.Atoi(s)
	if err != nil {
		vh.Fatal("bad int %q", s)
	}
	return n
}

func main() {
	vh.Quiet()
	if len(os.Args) < 2 {
		vh.Fatal("usage: ports graph|eph|race ...")
	}
	switch os.Args[1] {
	case "graph":
		graph(os.Args[2])
	case "eph":
		eph(os.Args[2], os.Args[3])
	case "race":
		race(os.Args[2], int64(atoi(os.Args[3])), atoi(os.Args[4]), atoi(os.Args[5]), atoi(os.Args[6]))
	case "burst":
		burst(os.Args[2], int64(atoi(os.Args[3])), atoi(os.Args[4]), atoi(os.Args[5]))
	default:
		vh.Fatal("unknown mode")
	}
}
