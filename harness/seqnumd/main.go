// Driver for C14: calls the exported API of pkg/seqnum at real width.
//
//	seqnumd vectors <in.json> <out.ndjson>
//	    in:  {"vectors": [[op, o1, o2, o3, o4], ...]}  (operands are uint32 numbers)
//	    out: one event per vector, operands and result logged as [hi, lo] 16-bit
//	         halves; TLC (spec/seqnum/TraceSeqNum.tla) is the judge.
//	seqnumd sweep <in.json> <out.ndjson>
//	    in:  {"table": <table.json of SeqNumTable at modulus 2^k>, "ts": [t...], "cap": n}
//	    Embedding sweep: for every operand tuple of the small modulus and every
//	    translation t the real function is called on e(n)+t, e(n) = n<<(32-k), and
//	    compared with the table entry.  Mismatching calls are written as events
//	    (at most cap per function and class) for TLC to judge; counts on stdout.
//
// The driver never decides a verdict itself.
package main

import (
	"os"

	"github.com/brewlin/net-protocol/pkg/seqnum"
	"verifh/vh"
)

func hl(u uint32) []int { return []int{int(u >> 16), int(u & 0xffff)} }

// call performs one API call and returns the event describing it.
func call(op string, o [4]uint32) map[string]interface{} {
	ev := map[string]interface{}{"ev": op}
	switch op {
	case "lt":
		ev["v"], ev["w"] = hl(o[0]), hl(o[1])
		ev["got"] = seqnum.Value(o[0]).LessThan(seqnum.Value(o[1]))
	case "le":
		ev["v"], ev["w"] = hl(o[0]), hl(o[1])
		ev["got"] = seqnum.Value(o[0]).LessThanEq(seqnum.Value(o[1]))
	case "inrange":
		ev["v"], ev["a"], ev["b"] = hl(o[0]), hl(o[1]), hl(o[2])
		ev["got"] = seqnum.Value(o[0]).InRange(seqnum.Value(o[1]), seqnum.Value(o[2]))
	case "inwindow":
		ev["v"], ev["first"], ev["size"] = hl(o[0]), hl(o[1]), hl(o[2])
		ev["got"] = seqnum.Value(o[0]).InWindow(seqnum.Value(o[1]), seqnum.Size(o[2]))
	case "overlap":
		ev["a"], ev["b"], ev["x"], ev["y"] = hl(o[0]), hl(o[1]), hl(o[2]), hl(o[3])
		ev["got"] = seqnum.Overlap(seqnum.Value(o[0]), seqnum.Size(o[1]), seqnum.Value(o[2]), seqnum.Size(o[3]))
	case "add":
		ev["v"], ev["s"] = hl(o[0]), hl(o[1])
		ev["got"] = hl(uint32(seqnum.Value(o[0]).Add(seqnum.Size(o[1]))))
	case "upd":
		ev["v"], ev["s"] = hl(o[0]), hl(o[1])
		v := seqnum.Value(o[0])
		v.UpdateForward(seqnum.Size(o[1]))
		ev["got"] = hl(uint32(v))
	case "size":
		ev["v"], ev["w"] = hl(o[0]), hl(o[1])
		ev["got"] = hl(uint32(seqnum.Value(o[0]).Size(seqnum.Value(o[1]))))
	default:
		vh.Fatal("unknown op %q", op)
	}
	return ev
}

func vectors(in, out string) {
	var inp struct {
		Vectors [][]interface{} `json:"vectors"`
	}
	vh.LoadJSON(in, &inp)
	tr := vh.NewTrace(out)
	for i, vec := range inp.Vectors {
		if len(vec) < 3 || len(vec) > 5 {
			vh.Fatal("vector %d: bad arity", i)
		}
		var o [4]uint32
		for j, x := range vec[1:] {
			n := int64(vh.Int(x))
			if n < 0 || n > 0xffffffff {
				vh.Fatal("vector %d: operand out of range", i)
			}
			o[j] = uint32(n)
		}
		ev := call(vh.Str(vec[0]), o)
		ev["id"] = i
		tr.Log(ev)
	}
	tr.Close()
	vh.Emit(map[string]interface{}{"events": tr.N})
}

type table struct {
	M    int         `json:"m"`
	Lt   [][]int     `json:"lt"`
	Le   [][]int     `json:"le"`
	Inr  [][][]int   `json:"inr"`
	Inw  [][][]int   `json:"inw"`
	Add  [][]int     `json:"add"`
	Size [][]int     `json:"size"`
	Ov   [][][][]int `json:"ov"`
}

type tally struct {
	Evals  int64 `json:"evals"`
	True   int64 `json:"def_true"`
	Region int64 `json:"in_region"`
	KF     int64 `json:"mismatch_in_region"`
	Plain  int64 `json:"mismatch_outside_region"`
}

func sweep(in, out string) {
	var inp struct {
		Table table   `json:"table"`
		Ts    []int64 `json:"ts"`
		Cap   int     `json:"cap"`
	}
	vh.LoadJSON(in, &inp)
	T := inp.Table
	M := T.M
	k := uint(0)
	for 1<<k < M {
		k++
	}
	if 1<<k != M || k < 1 || k > 8 || len(T.Lt) != M || len(T.Ov) != M {
		vh.Fatal("bad table (m=%d)", M)
	}
	sh := 32 - k
	e := func(n int) uint32 { return uint32(n) << sh }
	tr := vh.NewTrace(out)
	res := map[string]*tally{}
	id := 0
	// judge a boolean result against a table code (bit 0 definition, bit 1 region)
	note := func(op string, code int, got bool, o [4]uint32) {
		t := res[op]
		if t == nil {
			t = &tally{}
			res[op] = t
		}
		t.Evals++
		if code&1 == 1 {
			t.True++
		}
		if code&2 == 2 {
			t.Region++
		}
		if got == (code&1 == 1) {
			return
		}
		var n *int64
		cls := "plain"
		if code&2 == 2 {
			n, cls = &t.KF, "kf"
		} else {
			n = &t.Plain
		}
		*n++
		if *n <= int64(inp.Cap) {
			ev := call(op, o)
			ev["id"], ev["cls"], ev["k"] = id, cls, int(k)
			id++
			tr.Log(ev)
		}
	}
	noteVal := func(op string, want, got uint32, o [4]uint32) {
		note(op, 1, want == got, o)
	}
	for _, t64 := range inp.Ts {
		t := uint32(t64)
		for v := 0; v < M; v++ {
			for w := 0; w < M; w++ {
				pv, pw := e(v)+t, e(w)+t
				note("lt", T.Lt[v][w], seqnum.Value(pv).LessThan(seqnum.Value(pw)), [4]uint32{pv, pw})
				note("le", T.Le[v][w], seqnum.Value(pv).LessThanEq(seqnum.Value(pw)), [4]uint32{pv, pw})
				noteVal("size", e(T.Size[v][w]), uint32(seqnum.Value(pv).Size(seqnum.Value(pw))), [4]uint32{pv, pw})
				// second index read as a size: not translated
				noteVal("add", e(T.Add[v][w])+t, uint32(seqnum.Value(pv).Add(seqnum.Size(e(w)))), [4]uint32{pv, e(w)})
				u := seqnum.Value(pv)
				u.UpdateForward(seqnum.Size(e(w)))
				noteVal("upd", e(T.Add[v][w])+t, uint32(u), [4]uint32{pv, e(w)})
				for c := 0; c < M; c++ {
					pc := e(c) + t
					note("inrange", T.Inr[c][v][w], seqnum.Value(pc).InRange(seqnum.Value(pv), seqnum.Value(pw)), [4]uint32{pc, pv, pw})
					note("inwindow", T.Inw[c][v][w], seqnum.Value(pc).InWindow(seqnum.Value(pv), seqnum.Size(e(w))), [4]uint32{pc, pv, e(w)})
				}
			}
		}
		for a := 0; a < M; a++ {
			for b := 0; b < M; b++ {
				for x := 0; x < M; x++ {
					row := T.Ov[a][b][x]
					pa, px := e(a)+t, e(x)+t
					for y := 0; y < M; y++ {
						note("overlap", row[y], seqnum.Overlap(seqnum.Value(pa), seqnum.Size(e(b)), seqnum.Value(px), seqnum.Size(e(y))),
							[4]uint32{pa, e(b), px, e(y)})
					}
				}
			}
		}
	}
	tr.Close()
	vh.Emit(map[string]interface{}{"k": int(k), "translations": len(inp.Ts), "ops": res, "events": tr.N})
}

func main() {
	vh.Quiet()
	if len(os.Args) != 4 {
		vh.Fatal("usage: seqnumd vectors|sweep <in.json> <out.ndjson>")
	}
	switch os.Args[1] {
	case "vectors":
		vectors(os.Args[2], os.Args[3])
	case "sweep":
		sweep(os.Args[2], os.Args[3])
	default:
		vh.Fatal("unknown mode %q", os.Args[1])
	}
}
