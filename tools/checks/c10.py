"""C10 - port reservations are exclusive; ephemeral ports are found when free.

Spec: spec/ports (Ports = P-spec, MCPorts = closed model, PortsImpl = k-bit
ephemeral search, TracePorts = trace validation incl. linearizability).
Binding: E2 graph replay on ports.PortManager, real-width ephemeral cases
validated as a trace, E4 concurrent histories linearized by TLC.
"""
import os
import vlib
from vlib import cfg, MV

MANIFEST = dict(technique='TLA+ P-spec Ports + closed model MCPorts (TLC exhaustive); every transition of the TLC state graph replayed on ports.PortManager; real-width ephemeral-search cases and concurrent histories validated by TLC (trace validation / linearizability)',
        text='Exhaustive TLC over all reserve/release histories of the small configuration (Exclusive, frame properties), the k-bit model of the ephemeral loop, and conformance of the real PortManager to the same spec on every graph transition, on seeded ephemeral-search cases at real width and on racing goroutine histories linearized by TLC.',
        design='5 C10',
        note='Constants: 2 nets, 1-2 transports, addrs {any,a,b}, ports {1,2}. Ephemeral offsets are sampled (seeded), not enumerated. math/rand seeding by the harness fixes the offset. Socket-level reservation lifecycle (bind/connect/close) is covered by the stack-level sweep when present in the evidence. Bursts: 1 600 (quick) / 12 000 (thorough) histories in which five goroutines issue one operation each, released together by a spin barrier (mostly conflicting reservations of one port): a check-then-insert window in ReservePort is hit by construction rather than by luck.')

SPEC = ['ports']
NETS = ['n1', 'n2']
NIC = dict(id=1, mtu=1500, addr4=['10.0.0.1', '10.0.0.2'], addr6=['fd00::1'])


def sock_scenario(path, typ):
    """One SockPorts graph path -> sockd script; every step is followed by an availability query for every tuple."""
    ops = [dict(op=typ[s], s=s, v=4) for s in (0, 1)]
    trans = sorted(set(typ))
    tuples = []
    for t in trans:
        for a in ('', '10.0.0.1', '10.0.0.2'):
            tuples.append([[4], t, a, 5000])
            for s in (0, 1):
                tuples.append([[4], t, a, {'lportof': s, 'else': 100 + s}])
    for st in path:
        a, args = st['a'], st['args']
        if a == 'Bind':
            ops.append(dict(op='bind', s=args[0], addr=args[1], port=0 if args[2] else 5000, _ok=args[3]))
        elif a == 'Connect':
            ops.append(dict(op='connect', s=args[0], addr='10.0.0.9', port=7))
        elif a == 'BindForeign':
            ops.append(dict(op='bind', s=args[0], addr='10.0.0.77', port=0 if args[1] else 5000))
        elif a == 'TcpConnect':
            ops.append(dict(op='connect', s=args[0], addr='10.0.0.9', port=7 + args[0]))
        elif a == 'WriteTo':
            ops.append(dict(op='write', s=args[0], n=3, seed=1, to=dict(addr='10.0.0.9', port=7)))
        elif a == 'Listen':
            ops.append(dict(op='listen', s=args[0], backlog=2))
        elif a == 'Close':
            ops.append(dict(op='close', s=args[0]))
        else:
            raise vlib.Inconclusive('unknown SockPorts action ' + a)
        ops.append(dict(op='avail', tuples=tuples))
    return dict(nics=[NIC], ops=ops)


def classify_sock(seg, ln):
    """F6 shape: a UDP socket was bound, then connected, then closed; the rejected query follows the close."""
    hist = {}
    for e in seg[:ln]:
        if e.get('ev') == 'op' and e.get('op') in ('bind', 'connect', 'close') and e.get('err', '') == '':
            hist.setdefault(e.get('s'), []).append(e['op'])
    for s, h in hist.items():
        if 'bind' in h and 'connect' in h and 'close' in h and h.index('bind') < h.index('connect') < h.index('close'):
            return 'F6'
    return None


def socket_sweep(ctx):
    drv = ctx.go_build('sockd')
    combos = [('udp', 'udp'), ('udp', 'tcp'), ('tcp', 'tcp')]
    scs = []
    for typ in combos:
        mc = '---- MODULE MCSockPorts ----\nEXTENDS SockPorts\nTypDef == (0 :> "%s") @@ (1 :> "%s")\n====\n' % typ
        c = cfg(constants=dict(Socks=MV('{0, 1}'), LAddrs=MV('{"10.0.0.1", "10.0.0.2"}'), P=5000, MaxOps=ctx.pick(4, 5),
                               Primary='10.0.0.1', Typ=MV('<- TypDef')), invariants=['Exclusive', 'ClosedHoldsNothing'])
        c = c.replace('Typ = <- TypDef', 'Typ <- TypDef')
        r = ctx.tlc('MCSockPorts', c, ['sock'], name='SockPorts-%s-%s' % typ, files={'MCSockPorts.tla': mc}, dump_dot=True, must_pass=True)
        script, stats = vlib.graph_script(ctx, r)
        ctx.extra['sock_graph_%s_%s' % typ] = stats
        for p in script['paths']:
            scs.append(sock_scenario(p, typ))
    segs = vlib.run_scenarios(ctx, drv, [dict(nics=x['nics'], ops=[{k: v for k, v in o.items() if not k.startswith('_')} for o in x['ops']]) for x in scs],
                              'c10sock', what='the stack (socket-level bind / connect / close)')
    if len(segs) != len(scs):
        raise vlib.Inconclusive('sockd produced %d segments for %d scenarios' % (len(segs), len(scs)))
    tc = cfg(spec='TSpec', constraint='HWMark', postcondition='Accepted')
    acc, rej = vlib.validate_segments(ctx, 'TraceSock', tc, ['sock'], segs, name='sock-trace', timeout=3000, max_reruns=12)
    ctx.traces += acc
    ctx.extra['socket_histories'] = len(scs)
    ctx.sample(dict(kind='socket-history', ops=[{k: v for k, v in o.items() if k != 'tuples'} for o in scs[len(scs) // 2]['ops'] if o['op'] != 'avail'][:8]))
    for si, ln in rej:
        ev = segs[si][ln] if ln < len(segs[si]) else {}
        hist = [(e['op'], e.get('s'), e.get('addr'), e.get('port'), e.get('err')) for e in segs[si][:ln] if e.get('ev') == 'op' and e['op'] not in ('avail',)]
        ctx.violation('socket-level port reservation behaviour rejected by the P-spec after %s (event %s)' % (hist, ev.get('op')),
                      dict(kind='socket-history', scenario=scs[si], events=[{k: v for k, v in e.items() if k != 'tuples'} for e in segs[si][:ln + 1]]),
                      key=classify_sock(segs[si], ln))


def tuples(trans, addrs, ports):
    out = []
    for ns in (['n1'], ['n2'], ['n1', 'n2']):
        for t in trans:
            for a in addrs:
                for p in ports:
                    out.append([ns, t, a, p])
    return out


def run(ctx):
    drv = ctx.go_build('ports')

    # ---- E1: closed model, all histories over small constants
    consts = dict(Nets=MV('{n1, n2}'), Trans=MV('{t1}'), Addrs=MV('{"", "a", "b"}'), PortSet=MV('{1, 2}'), MaxRes=99)
    c = cfg(spec='MCSpec', constants=consts, invariants=['Exclusive', 'AvailConsistent'],
            properties=['ReleaseFrame', 'ReserveFrame'])
    r = ctx.tlc('MCPorts', c, SPEC, name='MCPorts-graph', dump_dot=True, must_pass=True)
    if ctx.thorough():
        consts2 = dict(consts, Trans=MV('{t1, t2}'), PortSet=MV('{1, 2}'), MaxRes=5)
        c2 = cfg(spec='MCSpec', constants=consts2, invariants=['Exclusive', 'AvailConsistent'],
                 properties=['ReleaseFrame', 'ReserveFrame'], constraint='Bound')
        ctx.tlc('MCPorts', c2, SPEC, name='MCPorts-big', must_pass=True, timeout=1500)

    # ---- E2: every transition of the graph replayed on the real PortManager
    script, stats = vlib.graph_script(ctx, r, extra=dict(tuples=tuples(['t1'], ['', 'a', 'b'], [1, 2])))
    sp = os.path.join(ctx.work, 'ports-graph.json')
    vlib.write_json(sp, script)
    out = ctx.run([drv, 'graph', sp])
    res = vlib.json.loads(out.stdout)
    ctx.extra.update(stats)
    ctx.extra['replay_steps'] = res['steps']
    ctx.traces += res['paths']
    for p in script['paths'][:2]:
        ctx.sample(dict(kind='graph-path', steps=[[s['a']] + s['args'] for s in p[:8]]))
    seen = set()
    for mm in res['mismatches']:
        if mm['path'] in seen:
            continue
        seen.add(mm['path'])
        p = script['paths'][mm['path']][:mm['step'] + 1]
        ctx.violation('PortManager disagrees with Ports P-spec at step %d: %s want=%s got=%s' % (
            mm['step'], mm['what'], mm.get('want'), mm.get('got')),
            dict(kind='graph', steps=[[s['a']] + s['args'] for s in p], mismatch=mm))

    # ---- E1: the ephemeral search at model scale (repaired shape must satisfy the property;
    #      the wrap-around shape must be refuted by TLC: spec sensitivity self-test)
    ci = cfg(constants=dict(K=4, FirstK=4, Wrap=False), invariants=['PickSound', 'PickComplete', 'InRange'])
    ctx.tlc('PortsImpl', ci, SPEC, name='PortsImpl-nowrap', must_pass=True)
    cw = cfg(constants=dict(K=4, FirstK=4, Wrap=True), invariants=['PickSound', 'PickComplete', 'InRange'])
    rw = ctx.tlc('PortsImpl', cw, SPEC, name='PortsImpl-wrap', count=False)
    if rw.ok:
        raise vlib.Inconclusive('PortsImpl with K-bit wrap was expected to violate PickComplete (self-test)')

    # ---- real width: ephemeral search cases, validated by TLC against the P-spec
    n = ctx.pick(400, 6000)
    cases = []
    count = 65535 - 16000 + 1
    rng = ctx.rng
    special_free = [[16000], [65535], [16001], [65534], [40000], [16000, 65535], [], [15999], [15999, 65535]]
    for k in range(n):
        seed = rng.randrange(1, 2 ** 31)
        if k < len(special_free) * 8:
            free = special_free[k % len(special_free)]
        else:
            free = sorted(set(rng.randrange(16000, 65536) for _ in range(rng.choice([1, 1, 1, 2, 3]))))
        cases.append(dict(seed=seed, free=free, via='pick'))
    for k in range(ctx.pick(6, 40)):
        cases.append(dict(seed=rng.randrange(1, 2 ** 31), free=[rng.randrange(16000, 65536)], via='reserve'))
    cp = os.path.join(ctx.work, 'eph-cases.json')
    tp = os.path.join(ctx.work, 'eph-trace.ndjson')
    vlib.write_json(cp, cases)
    ctx.run([drv, 'eph', cp, tp])
    evs = vlib.read_ndjson(tp)
    if len(evs) != len(cases):
        raise vlib.Inconclusive('eph driver produced %d events for %d cases' % (len(evs), len(cases)))
    # I-level drift detector: the port found is the first free one in cyclic order from First+offset
    for e in evs:
        if e['ok'] and e['free']:
            o = 16000 + e['offset']
            exp = min(e['free'], key=lambda p: (p - o) % count if 16000 <= p <= 65535 else 1 << 30)
            if exp != e['port'] and e['port'] in e['free']:
                ctx.model_drift('ephemeral search order differs from I-spec (offset %d, free %s, got %d)' % (e['offset'], e['free'], e['port']))
                break
    segs = [[dict(ev='reset', seg=i), e] for i, e in enumerate(evs)]
    tc = cfg(spec='TSpec', constraint='HWMark', postcondition='Accepted')
    acc, rej = vlib.validate_segments(ctx, 'TracePorts', tc, SPEC, segs, name='eph', max_reruns=8)
    ctx.traces += acc
    ctx.extra['eph_cases'] = len(cases)
    ctx.sample(dict(kind='eph', event=evs[0]))
    for si, _ln in rej:
        e = evs[si]
        ctx.violation('ephemeral port search: acceptable ports %s, offset %d -> ok=%s port=%s' % (
            e['free'][:5], e['offset'], e['ok'], e['port']), dict(kind='eph', case=cases[si], event=e))

    # ---- E4: concurrent histories, linearizability decided by TLC
    hists = ctx.pick(40, 400)
    rp = os.path.join(ctx.work, 'race.ndjson')
    ctx.run([drv, 'race', rp, str(ctx.seed), str(hists), '4', '4'])
    revs = vlib.read_ndjson(rp)
    segs = vlib.split_segments(revs)
    acc, rej = vlib.validate_segments(ctx, 'TracePorts', tc, SPEC, segs, name='race', max_reruns=4)
    ctx.traces += acc
    ctx.extra['race_histories'] = len(segs)
    ctx.sample(dict(kind='race-history', events=segs[0][:10]))
    for si, ln in rej:
        ctx.violation('concurrent history not linearizable w.r.t. Ports P-spec (event %d of history)' % ln,
                      dict(kind='race', events=segs[si]))

    # ... and bursts: one operation per goroutine, all released together by a spin barrier (the check-then-act window of a
    # reservation is hit by construction; mostly conflicting reservations of one port, sometimes a release or a query among them)
    nb = ctx.pick(1600, 12000)
    bp = os.path.join(ctx.work, 'burst.ndjson')
    ctx.run([drv, 'burst', bp, str(ctx.seed), str(nb), '5'])
    bsegs = vlib.split_segments(vlib.read_ndjson(bp))
    acc, rej = vlib.validate_segments(ctx, 'TracePorts', tc, SPEC, bsegs, name='burst', max_reruns=4)
    ctx.traces += acc
    ctx.extra['burst_histories'] = len(bsegs)
    ctx.extra['burst_histories_with_more_than_one_grant'] = sum(1 for sg in bsegs if sum(1 for e in sg if e.get('ev') == 'ret' and e.get('ok')) > 1)
    for si, ln in rej:
        ctx.violation('burst of concurrent operations not linearizable w.r.t. Ports P-spec (event %d of history): e.g. two conflicting reservations both granted' % ln,
                      dict(kind='race', events=bsegs[si]))

    # ---- socket level: reservations made at bind/auto-bind, released by Close (every SockPorts graph transition on a real stack)
    socket_sweep(ctx)

    # ---- binding self-test: a corrupted history must be rejected
    import copy
    bad = copy.deepcopy(segs[0])
    for e in bad:
        if e.get('ev') == 'ret':
            e['ok'] = not e['ok']
            break
    acc, rej = vlib.validate_segments(ctx, 'TracePorts', tc, SPEC, [bad], name='selftest', count=False)
    if not rej:
        raise vlib.Inconclusive('binding self-test failed: corrupted history accepted')
    ctx.extra['binding_selftest'] = 'corrupted ret.ok rejected at event %d' % rej[0][1]
    ctx.assumptions += ['math/rand global source seeded by the harness decides the search offset',
                        'constants: 2 nets, 1-2 transports, addrs {any,a,b}, ports {1,2} for the exhaustive graph']
