"""C10 - port reservations are exclusive; ephemeral ports are found when free.

Spec: spec/ports (Ports = P-spec, MCPorts = closed model, PortsImpl = k-bit
ephemeral search, TracePorts = trace validation incl. linearizability).
Binding: E2 graph replay on ports.PortManager, real-width ephemeral cases
validated as a trace, E4 concurrent histories linearized by TLC.
"""
import os
import vlib
from vlib import cfg, MV

MANIFEST = dict(technique='TLA+ P-spec Ports + closed model MCPorts (TLC exhaustive); every transition of the TLC state graph replayed on ports.PortManager; real-width ephemeral-search cases and concurrent histories validated by TLC (trace validation / linearizability)',
        text='Exhaustive TLC over all reserve/release histories of the small configuration (Exclusive, frame properties), the k-bit model of the ephemeral loop, and conformance of the real PortManager to the same spec on every graph transition, on seeded ephemeral-search cases at real width and on racing goroutine histories linearized by TLC.',
        design='5 C10',
        note='Constants: 2 nets, 1-2 transports, addrs {any,a,b}, ports {1,2}. Ephemeral offsets are sampled (seeded), not enumerated. math/rand seeding by the harness fixes the offset. Socket-level reservation lifecycle (bind/connect/close) is covered by the stack-level sweep when present in the evidence.')

SPEC = ['ports']
NETS = ['n1', 'n2']


def tuples(trans, addrs, ports):
    out = []
    for ns in (['n1'], ['n2'], ['n1', 'n2']):
        for t in trans:
            for a in addrs:
                for p in ports:
                    out.append([ns, t, a, p])
    return out


def run(ctx):
    drv = ctx.go_build('ports')

    # ---- E1: closed model, all histories over small constants
    consts = dict(Nets=MV('{n1, n2}'), Trans=MV('{t1}'), Addrs=MV('{"", "a", "b"}'), PortSet=MV('{1, 2}'), MaxRes=99)
    c = cfg(spec='MCSpec', constants=consts, invariants=['Exclusive', 'AvailConsistent'],
            properties=['ReleaseFrame', 'ReserveFrame'])
    r = ctx.tlc('MCPorts', c, SPEC, name='MCPorts-graph', dump_dot=True, must_pass=True)
    if ctx.thorough():
        consts2 = dict(consts, Trans=MV('{t1, t2}'), PortSet=MV('{1, 2}'), MaxRes=5)
        c2 = cfg(spec='MCSpec', constants=consts2, invariants=['Exclusive', 'AvailConsistent'],
                 properties=['ReleaseFrame', 'ReserveFrame'], constraint='Bound')
        ctx.tlc('MCPorts', c2, SPEC, name='MCPorts-big', must_pass=True, timeout=1500)

    # ---- E2: every transition of the graph replayed on the real PortManager
    script, stats = vlib.graph_script(ctx, r, extra=dict(tuples=tuples(['t1'], ['', 'a', 'b'], [1, 2])))
    sp = os.path.join(ctx.work, 'ports-graph.json')
    vlib.write_json(sp, script)
    out = ctx.run([drv, 'graph', sp])
    res = vlib.json.loads(out.stdout)
    ctx.extra.update(stats)
    ctx.extra['replay_steps'] = res['steps']
    ctx.traces += res['paths']
    for p in script['paths'][:2]:
        ctx.sample(dict(kind='graph-path', steps=[[s['a']] + s['args'] for s in p[:8]]))
    seen = set()
    for mm in res['mismatches']:
        if mm['path'] in seen:
            continue
        seen.add(mm['path'])
        p = script['paths'][mm['path']][:mm['step'] + 1]
        ctx.violation('PortManager disagrees with Ports P-spec at step %d: %s want=%s got=%s' % (
            mm['step'], mm['what'], mm.get('want'), mm.get('got')),
            dict(kind='graph', steps=[[s['a']] + s['args'] for s in p], mismatch=mm))

    # ---- E1: the ephemeral search at model scale (repaired shape must satisfy the property;
    #      the wrap-around shape must be refuted by TLC: spec sensitivity self-test)
    ci = cfg(constants=dict(K=4, FirstK=4, Wrap=False), invariants=['PickSound', 'PickComplete', 'InRange'])
    ctx.tlc('PortsImpl', ci, SPEC, name='PortsImpl-nowrap', must_pass=True)
    cw = cfg(constants=dict(K=4, FirstK=4, Wrap=True), invariants=['PickSound', 'PickComplete', 'InRange'])
    rw = ctx.tlc('PortsImpl', cw, SPEC, name='PortsImpl-wrap', count=False)
    if rw.ok:
        raise vlib.Inconclusive('PortsImpl with K-bit wrap was expected to violate PickComplete (self-test)')

    # ---- real width: ephemeral search cases, validated by TLC against the P-spec
    n = ctx.pick(400, 6000)
    cases = []
    count = 65535 - 16000 + 1
    rng = ctx.rng
    special_free = [[16000], [65535], [16001], [65534], [40000], [16000, 65535], [], [15999], [15999, 65535]]
    for k in range(n):
        seed = rng.randrange(1, 2 ** 31)
        if k < len(special_free) * 8:
            free = special_free[k % len(special_free)]
        else:
            free = sorted(set(rng.randrange(16000, 65536) for _ in range(rng.choice([1, 1, 1, 2, 3]))))
        cases.append(dict(seed=seed, free=free, via='pick'))
    for k in range(ctx.pick(6, 40)):
        cases.append(dict(seed=rng.randrange(1, 2 ** 31), free=[rng.randrange(16000, 65536)], via='reserve'))
    cp = os.path.join(ctx.work, 'eph-cases.json')
    tp = os.path.join(ctx.work, 'eph-trace.ndjson')
    vlib.write_json(cp, cases)
    ctx.run([drv, 'eph', cp, tp])
    evs = vlib.read_ndjson(tp)
    if len(evs) != len(cases):
        raise vlib.Inconclusive('eph driver produced %d events for %d cases' % (len(evs), len(cases)))
    # I-level drift detector: the port found is the first free one in cyclic order from First+offset
    for e in evs:
        if e['ok'] and e['free']:
            o = 16000 + e['offset']
            exp = min(e['free'], key=lambda p: (p - o) % count if 16000 <= p <= 65535 else 1 << 30)
            if exp != e['port'] and e['port'] in e['free']:
                ctx.model_drift('ephemeral search order differs from I-spec (offset %d, free %s, got %d)' % (e['offset'], e['free'], e['port']))
                break
    segs = [[dict(ev='reset', seg=i), e] for i, e in enumerate(evs)]
    tc = cfg(spec='TSpec', constraint='HWMark', postcondition='Accepted')
    acc, rej = vlib.validate_segments(ctx, 'TracePorts', tc, SPEC, segs, name='eph', max_reruns=8)
    ctx.traces += acc
    ctx.extra['eph_cases'] = len(cases)
    ctx.sample(dict(kind='eph', event=evs[0]))
    for si, _ln in rej:
        e = evs[si]
        ctx.violation('ephemeral port search: acceptable ports %s, offset %d -> ok=%s port=%s' % (
            e['free'][:5], e['offset'], e['ok'], e['port']), dict(kind='eph', case=cases[si], event=e))

    # ---- E4: concurrent histories, linearizability decided by TLC
    hists = ctx.pick(40, 400)
    rp = os.path.join(ctx.work, 'race.ndjson')
    ctx.run([drv, 'race', rp, str(ctx.seed), str(hists), '4', '4'])
    revs = vlib.read_ndjson(rp)
    segs = vlib.split_segments(revs)
    acc, rej = vlib.validate_segments(ctx, 'TracePorts', tc, SPEC, segs, name='race', max_reruns=4)
    ctx.traces += acc
    ctx.extra['race_histories'] = len(segs)
    ctx.sample(dict(kind='race-history', events=segs[0][:10]))
    for si, ln in rej:
        ctx.violation('concurrent history not linearizable w.r.t. Ports P-spec (event %d of history)' % ln,
                      dict(kind='race', events=segs[si]))

    # ---- binding self-test: a corrupted history must be rejected
    import copy
    bad = copy.deepcopy(segs[0])
    for e in bad:
        if e.get('ev') == 'ret':
            e['ok'] = not e['ok']
            break
    acc, rej = vlib.validate_segments(ctx, 'TracePorts', tc, SPEC, [bad], name='selftest', count=False)
    if not rej:
        raise vlib.Inconclusive('binding self-test failed: corrupted history accepted')
    ctx.extra['binding_selftest'] = 'corrupted ret.ok rejected at event %d' % rej[0][1]
    ctx.assumptions += ['math/rand global source seeded by the harness decides the search offset',
                        'constants: 2 nets, 1-2 transports, addrs {any,a,b}, ports {1,2} for the exhaustive graph']
