"""C09 - inbound packets reach exactly the socket they are addressed to, or nobody.

Spec: spec/sock/Demux.tla (closed model: P-spec Target vs the I-spec four-step
lookup over the registry, checked by TLC for every reachable socket
population and inbound 4-tuple) and spec/sock/TraceSock.tla (P-spec as trace
validator over sockets-API results and wire observations).
Binding: every transition of the Demux graph is replayed on a real stack
through harness/sockd (each injection followed by a drain of EVERY open
socket); TCP listener / no-socket-reset scenarios; address assignment
scenarios (unassigned, removed, promiscuous).
"""
import copy
import os
import vlib
from vlib import cfg, MV

MANIFEST = dict(
    technique='TLA+ closed models Demux (UDP), DemuxTcp (listeners + active opens) and DemuxPassive (listener queue, handler goroutines, registration / failed-registration close by id; its early-flag variant must violate): P-spec Target = I-spec four-step lookup, TLC exhaustive; every graph transition replayed on a real stack via the sockets API and packet injection, observed traces validated by TLC against the P-spec TraceSock (TCP: reset iff no socket, final ACK for the SYN-ACK of an active open, SYN-ACK for the first SYN to a listener); registrations racing deliveries: concurrent histories validated for linearizability by TLC against TraceDemuxLin',
    text='TLC checks for every reachable population of UDP sockets (bound to wildcard/specific addresses, connected) and every inbound 4-tuple that the registry lookup returns exactly the most specific matching socket or none. Every transition of that graph is executed on a real stack: after each injected datagram every open socket is drained and TLC decides from the trace that exactly the P-spec target received exactly that payload and nobody else did. The same for TCP sockets (DemuxTcp: bind, listen, active open, close next to each other on one port; injected SYN / SYN-ACK). Seeded scenarios add TCP listeners (SYN to listener vs no socket: one RST), passive opens (SYN bursts, the completing ACK|PSH, Accept must return the connection and the connection must acknowledge data sent afterwards), TCP connections with colliding second sockets, unassigned / removed / promiscuous destination addresses and IPv6. Concurrent histories (UDP bind / connect / close lifecycles, a TCP listener lifecycle and injectors racing on one stack) are recorded as call/return events and TLC searches a linearization in which every datagram went to the most specific socket registered at that instant.',
    design='5 C09',
    note='Constants of the exhaustive graph: 2 (quick) / 3 (thorough) sockets, 2 local addresses + wildcard, 2 ports + ephemeral, 2 remotes. DemuxTcp: 2 sockets, 1 port. Established TCP connections are only modelled as far as the demultiplexer is concerned (lingering and half-open connections are treated as "anything may answer"). The racing histories sample schedules (seeded perturbation), they do not enumerate them, and use two-step linearization points (claim/activate, find/enqueue) because the implementation is not atomic there. Interfaces: the closed model DemuxNic (2 interfaces, 2 sockets, 1 port, promiscuous mode; per-interface tables before the stack-wide one; 3 500 states) is replayed on a two-NIC host (quick: 60 paths of its edge cover, thorough: all 5 626) next to seeded two-NIC scenarios; UDP sockets bind to an interface, a TCP Bind ignores the interface id it is given (observation, DESIGN 8.9) so TCP listeners are modelled as unbound to interfaces. Subnets with prefixes that are not byte-aligned: which destinations lie inside is computed by the scenario generator (field innets), the ownership logic is that of the spec. Multicast is not explored. Known finding F29 (two active opens on one 4-tuple) is replayed on every run. The removed-address half is asserted only when no socket holds a route to the address.')

SPEC = ['sock']
NIC = dict(id=1, mtu=1500, addr4=['10.0.0.1', '10.0.0.2'], addr6=['fd00::1'])


def ops_from_path(path, states, nsock, rng):
    ops = [dict(op='udp', s=s, v=4) for s in range(nsock)]
    eph = set()
    bound = set()
    k = 0
    for st in path:
        a, args = st['a'], st['args']
        if a == 'BindUdp':
            ops.append(dict(op='bind', s=args[0], addr=args[1], port=args[2], _ok=args[3]))
            if args[3]:
                bound.add(args[0])
        elif a == 'ConnectUdp':
            ops.append(dict(op='connect', s=args[0], addr=args[1], port=args[2], _ok=args[3]))
            if args[3] and args[0] not in bound:
                eph.add(args[0])
        elif a == 'CloseSock':
            ops.append(dict(op='close', s=args[0]))
        elif a == 'Inject':
            src, sport, dst, dport, t = args
            k += 1
            dp = dport
            if dport >= 100 and dport < 5000:
                s = dport - 100
                dp = dict(lportof=s, **{'else': dport}) if s in eph else dport
            ops.append(dict(op='inject', kind='udp', v=4, src=src, sport=sport, dst=dst, dport=dp,
                            n=rng.choice([0, 1, 7, 8, 33, 200]), seed=rng.randrange(1 << 20), _target=t))
            ops.append(dict(op='readall'))
        else:
            raise vlib.Inconclusive('unknown Demux action ' + a)
    return ops


NIC2 = dict(id=2, mtu=1500, addr4=['10.0.1.1'], addr6=['fd01::1'])


def nic_ops_from_path(path, nsock, rng):
    """One DemuxNic graph path -> sockd script on a host with two interfaces (binds / connects that name an interface,
    promiscuous mode per interface, datagrams injected on either interface)."""
    ops = [dict(op='udp', s=s, v=4) for s in range(nsock)]
    eph = set()
    bound = set()
    for st in path:
        a, args = st['a'], st['args']
        if a == 'BindUdp':
            ops.append(dict(op='bind', s=args[0], addr=args[1], port=args[2], nic=args[3], _ok=args[4]))
            if args[4]:
                bound.add(args[0])
        elif a == 'ConnectUdp':
            ops.append(dict(op='connect', s=args[0], addr=args[1], port=args[2], nic=args[3], _ok=args[4]))
            if args[4] and args[0] not in bound:
                eph.add(args[0])
        elif a == 'CloseSock':
            ops.append(dict(op='close', s=args[0]))
        elif a == 'Promisc':
            ops.append(dict(op='promisc', nic=args[0], on=bool(args[1])))
        elif a == 'Inject':
            nic, src, sport, dst, dport, t = args
            dp = dport
            if 100 <= dport < 5000:
                s = dport - 100
                dp = dict(lportof=s, **{'else': dport}) if s in eph else dport
            ops.append(dict(op='inject', kind='udp', v=4, nic=nic, src=src, sport=sport, dst=dst, dport=dp,
                            n=rng.choice([0, 1, 7, 8, 33, 200]), seed=rng.randrange(1 << 20), _target=t))
            ops.append(dict(op='readall'))
        else:
            raise vlib.Inconclusive('unknown DemuxNic action ' + a)
    return ops


def nic_seeded(ctx, n):
    """Seeded scenarios on two interfaces: UDP sockets and TCP listeners bound to an interface (or not), traffic arriving on either
    interface for either interface's address, promiscuous mode, IPv6."""
    rng = ctx.rng
    out = []
    for i in range(n):
        ops = []
        if i % 2 == 0:
            b0, b1 = rng.choice([0, 1, 2]), rng.choice([0, 1, 2])
            a1 = rng.choice(['10.0.0.1', '10.0.1.1', ''])
            ops += [dict(op='udp', s=0, v=4), dict(op='bind', s=0, addr='', port=5000, nic=b0),
                    dict(op='udp', s=1, v=4), dict(op='bind', s=1, addr=a1, port=5001, nic=b1),
                    dict(op='udp', s=2, v=6), dict(op='bind', s=2, addr='', port=5002, nic=rng.choice([0, 1, 2]))]
            if rng.random() < 0.4:
                ops.append(dict(op='connect', s=0, addr='10.0.0.9', port=7, nic=rng.choice([0, 1])))
            for j in range(rng.randrange(6, 12)):
                if rng.random() < 0.15:
                    ops.append(dict(op='promisc', nic=rng.choice([1, 2]), on=rng.random() < 0.7))
                nic = rng.choice([1, 2])
                if rng.random() < 0.25:
                    ops.append(dict(op='inject', kind='udp', v=6, nic=nic, src='fd00::9', sport=7, dst=rng.choice(['fd00::1', 'fd01::1']), dport=5002,
                                    n=rng.randrange(0, 40), seed=rng.randrange(1 << 20)))
                else:
                    ops.append(dict(op='inject', kind='udp', v=4, nic=nic, src=rng.choice(['10.0.0.9', '10.0.0.8']), sport=7,
                                    dst=rng.choice(['10.0.0.1', '10.0.1.1', '10.0.0.2', '10.0.0.77']), dport=rng.choice([5000, 5001, 5002]),
                                    n=rng.randrange(0, 40), seed=rng.randrange(1 << 20)))
                ops.append(dict(op='readall'))
        else:
            # a TCP listener bound to an interface: SYNs that arrive on the other interface find no socket (reset), and so do
            # SYNs for the other interface's address that arrive where they do not belong (nothing at all)
            bl = rng.choice([0, 1, 2, 2])
            ops += [dict(op='tcp', s=0, v=4), dict(op='bind', s=0, addr='', port=80, nic=bl), dict(op='listen', s=0, backlog=8)]
            for j in range(rng.randrange(4, 9)):
                nic = rng.choice([1, 2])
                dst = rng.choice(['10.0.0.1', '10.0.1.1']) if rng.random() < 0.3 else ('10.0.0.1' if nic == 1 else '10.0.1.1')
                ops.append(dict(op='inject', kind='tcp', v=4, nic=nic, src='10.0.0.9', sport=30000 + j, dst=dst, dport=rng.choice([80, 80, 81]),
                                flags='S', seqhi=rng.randrange(65536), seqlo=rng.randrange(65536), ackhi=0, acklo=0, n=0, seed=0))
                ops.append(dict(op='settle', ms=20))
            ops.append(dict(op='close', s=0))       # (an operation ends the expectation that the last SYN left open)
        out.append(dict(nics=[NIC, NIC2], ops=ops))
    return out


def tcp_ops_from_path(path, nsock, rng):
    """One DemuxTcp graph path -> sockd script (TCP sockets: bind / listen / active open / close, injected SYN and SYN-ACK)."""
    ops = [dict(op='tcp', s=s, v=4) for s in range(nsock)]
    eph = set()
    bound = set()
    k = 0
    for st in path:
        a, args = st['a'], st['args']
        if a == 'Bind':
            ops.append(dict(op='bind', s=args[0], addr=args[1], port=args[2], _ok=args[3]))
            if args[3]:
                bound.add(args[0])
        elif a == 'Listen':
            ops.append(dict(op='listen', s=args[0], backlog=8))
        elif a == 'Connect':
            ops.append(dict(op='connect', s=args[0], addr=args[1], port=args[2], _okc=args[3]))
            ops.append(dict(op='settle', ms=10))
            if args[3] and args[0] not in bound:
                eph.add(args[0])
        elif a == 'CloseSock':
            ops.append(dict(op='close', s=args[0]))
            ops.append(dict(op='settle', ms=5))
        elif a == 'Inject':
            kind, src, sport, dst, dport, t = args
            k += 1
            dp = dport
            if 100 <= dport < 5000:
                s = dport - 100
                dp = dict(lportof=s, **{'else': dport}) if s in eph else dport
            o = dict(op='inject', kind='tcp', v=4, src=src, sport=sport, dst=dst, dport=dp, seqhi=rng.randrange(1, 65535), seqlo=rng.randrange(65536),
                     n=0, seed=0, win=20000, _ttarget=t)
            if kind == 'syn':
                o.update(flags='S', ackhi=0, acklo=0)
            else:
                o.update(flags='SA', ackofport=dp)
            ops.append(o)
            ops.append(dict(op='settle', ms=10))
        else:
            raise vlib.Inconclusive('unknown DemuxTcp action ' + a)
    return ops


def classify_f29(seg, ln):
    """Known finding F29: the rejected event is an injected segment (precondition "at most one socket per binding"), and before
    it two open TCP sockets started a connection on the same 4-tuple, one of them bound to a specific local address and the
    other to the wildcard (their registrations live in different demultiplexer tables)."""
    ev = seg[ln] if ln < len(seg) else {}
    if not (ev.get('ev') == 'op' and ev.get('op') == 'inject'):
        return None
    typ, bindaddr, conn, closed = {}, {}, {}, set()
    for e in seg[:ln]:
        if e.get('ev') != 'op':
            continue
        s = e.get('s')
        if e.get('op') in ('udp', 'tcp'):
            typ[s] = e['op']
        elif e.get('op') == 'bind' and e.get('err') == '':
            bindaddr[s] = e.get('addr', '')
        elif e.get('op') == 'connect' and typ.get(s) == 'tcp' and e.get('err') in ('', 'connection attempt started'):
            conn[s] = (e.get('laddr'), e.get('lport'), e.get('addr'), e.get('port'))
        elif e.get('op') == 'close':
            closed.add(s)
    live = [s for s in conn if s not in closed]
    for a in live:
        for b in live:
            if a < b and conn[a] == conn[b] and s_specific(bindaddr.get(a)) != s_specific(bindaddr.get(b)):
                return 'F29'
    return None


def s_specific(addr):
    return bool(addr)


def strip(ops):
    return [{k: v for k, v in o.items() if not k.startswith('_')} for o in ops]


def seeded_scenarios(ctx, n):
    """TCP listeners / no-socket resets, address assignment, IPv6."""
    rng = ctx.rng
    out = []
    for i in range(n):
        ops = []
        fam = i % 7
        if fam == 6:  # listener churn: close a listener and listen again on the same port at once, many rounds; every SYN is answered
            port = rng.choice([8000, 8001])
            for rnd in range(rng.choice([8, 20])):
                ops += [dict(op='tcp', s=rnd, v=4), dict(op='bind', s=rnd, addr=rng.choice(['', '', '10.0.0.1']), port=port), dict(op='listen', s=rnd, backlog=4)]
                if rnd % 3 != 2:
                    ops.append(dict(op='settle', ms=rng.choice([1, 5])))       # let the previous listener's goroutine finish its cleanup
                ops.append(dict(op='inject', kind='tcp', v=4, src='10.0.0.9', sport=20000 + rnd, dst='10.0.0.1', dport=port, flags='S',
                                seqhi=rnd + 1, seqlo=77, ackhi=0, acklo=0, n=0, seed=0))
                ops.append(dict(op='settle', ms=10))
                ops.append(dict(op='close', s=rnd))
        elif fam == 5:  # TCP connections (active opens): the 4-tuple is the most specific binding; a rejected duplicate changes nothing
            lp = rng.choice([7000, 7001])
            la = rng.choice(['', '10.0.0.1'])
            peer, pport = '10.0.0.9', 80
            ops += [dict(op='tcp', s=0, v=4), dict(op='bind', s=0, addr=la, port=lp), dict(op='connect', s=0, addr=peer, port=pport), dict(op='settle', ms=15)]
            variant = (i // 6) % 5
            if variant == 4:
                # the replay script of known finding F29: the second socket is bound to the OTHER kind of local address
                # (wildcard vs specific) and opens a connection on the same 4-tuple
                ops += [dict(op='tcp', s=1, v=4), dict(op='bind', s=1, addr='' if la else '10.0.0.1', port=lp),
                        dict(op='connect', s=1, addr=peer, port=pport), dict(op='settle', ms=15)]
            if variant in (0, 1):
                # a second socket takes the same local port (the first one's reservation ended with its connect) and tries the
                # same peer: its registration collides and must fail WITHOUT disturbing the first connection
                ops += [dict(op='tcp', s=1, v=4), dict(op='bind', s=1, addr=la, port=lp)]
                ops += [dict(op='connect', s=1, addr=peer, port=pport if variant == 0 else 81), dict(op='settle', ms=15)]
            if variant == 2:
                # a listener on the same port next to the connection
                ops += [dict(op='tcp', s=1, v=4), dict(op='bind', s=1, addr='', port=lp), dict(op='listen', s=1, backlog=2)]
            if variant == 3:
                ops += [dict(op='udp', s=1, v=4), dict(op='bind', s=1, addr='', port=lp)]
            # strangers first (other remote port / address / local address): reset, or SYN-ACK from the listener
            for j in range(rng.randrange(0, 3)):
                src, sport, dst = rng.choice([(peer, 81 if variant != 1 else 82, '10.0.0.1'), ('10.0.0.8', pport, '10.0.0.1'), (peer, pport, '10.0.0.2')])
                ops.append(dict(op='inject', kind='tcp', v=4, src=src, sport=sport, dst=dst, dport=lp, flags=rng.choice(['S', 'A', 'SA']),
                                seqhi=j + 1, seqlo=5, ackhi=3, acklo=4, n=0, seed=0))
                ops.append(dict(op='settle', ms=15))
            # the peer's SYN-ACK for the FIRST connection: it must reach that socket, which completes the handshake
            ops.append(dict(op='inject', kind='tcp', v=4, src=peer, sport=pport, dst='10.0.0.1', dport=lp, flags='SA', seqhi=9, seqlo=9,
                            ackofport=lp, n=0, seed=0, win=30000))
            ops.append(dict(op='settle', ms=15))
            if variant == 1:
                ops.append(dict(op='inject', kind='tcp', v=4, src=peer, sport=81, dst='10.0.0.1', dport=lp, flags='A', seqhi=1, seqlo=1, ackhi=1, acklo=1, n=0, seed=0))
                ops.append(dict(op='settle', ms=15))
            ops.append(dict(op='close', s=0))
        elif fam == 0:  # tcp listener vs no socket
            la = rng.choice(['', '10.0.0.1', '10.0.0.2'])
            # (one in three listeners is a dual-stack IPv6 socket: bound to the wildcard it takes IPv4 SYNs too, bound to the
            #  v4-mapped form of a local IPv4 address it is an IPv4 listener on exactly that address)
            dual = i % 21 >= 14
            if dual:
                la = ['10.0.0.1', '', '10.0.0.2'][(i // 21) % 3]
            ops += [dict(op='tcp', s=0, v=6 if dual else 4), dict(op='bind', s=0, addr=('::ffff:' + la) if dual and la else la, port=80), dict(op='listen', s=0, backlog=5)]
            for j in range(rng.randrange(2, 6)):
                dst = rng.choice(['10.0.0.1', '10.0.0.2'])
                dport = rng.choice([80, 81, 8080])
                flags = rng.choice(['S', 'S', 'A', 'SA', 'F', 'FA', 'R', 'RA', 'PA', ''])
                if dport == 80 and (la in ('', dst)) and flags != 'S':
                    flags = 'S'  # segments to the listener other than SYN: C03's business
                ops.append(dict(op='inject', kind='tcp', v=4, src='10.0.0.9', sport=rng.choice([7, 9, 40000 + j]), dst=dst, dport=dport,
                                flags=flags, seqhi=rng.randrange(65536), seqlo=rng.choice([0, 1, 65534, 65535, rng.randrange(65536)]),
                                ackhi=rng.randrange(65536), acklo=rng.choice([0, 65535, rng.randrange(65536)]),
                                n=rng.choice([0, 0, 1, 10]) if 'S' not in flags else 0, seed=j))
                ops.append(dict(op='settle', ms=15))
            # a passive open: the SYN (and copies of it that arrive back to back, before the first one has been processed), then the
            # segment that completes the handshake AND carries data: it belongs to the connection the listener created
            dstl, pp, iss = la or '10.0.0.1', 50000 + i % 1000, rng.randrange(1 << 32)
            ops.append(dict(op='inject', kind='tcp', v=4, src='10.0.0.9', sport=pp, dst=dstl, dport=80, flags='S', seqhi=iss >> 16, seqlo=iss & 0xffff,
                            ackhi=0, acklo=0, n=0, seed=0, dup=rng.choice([0, 1, 1, 3, 6])))
            ops.append(dict(op='settle', ms=30))
            nxt = (iss + 1) & 0xffffffff
            # (data in the completing segment may be dropped by the receiver: the data segments start at the same sequence number
            #  and are at least as long, as a retransmitting peer's would be)
            n0 = rng.choice([0, 1, 10, 10])
            ops.append(dict(op='inject', kind='tcp', v=4, src='10.0.0.9', sport=pp, dst=dstl, dport=80, flags='PA' if n0 else 'A', seqhi=nxt >> 16,
                            seqlo=nxt & 0xffff, ackofport=80, n=n0, seed=40, win=30000))
            ops.append(dict(op='settle', ms=50))
            # (state-based waits, not timed ones: a blocking accept, and a settle that first awaits a frame - both give up after 4 s)
            ops.append(dict(op='accept', s=0, wait_ms=4000, **{'as': 9}))
            for j in range(rng.choice([1, 2])):
                nb = rng.choice([10, 100, 500])
                ops.append(dict(op='inject', kind='tcp', v=4, src='10.0.0.9', sport=pp, dst=dstl, dport=80, flags=rng.choice(['A', 'PA']), seqhi=nxt >> 16,
                                seqlo=nxt & 0xffff, ackofport=80, n=nb, seed=40 + j, win=30000))
                ops.append(dict(op='settle', ms=50, await_ms=4000))
                nxt = (nxt + nb) & 0xffffffff
        elif fam == 1:  # unassigned / removed / promiscuous destination
            ops += [dict(op='udp', s=0, v=4), dict(op='bind', s=0, addr='', port=5000)]
            seq = rng.sample(['plain', 'foreign', 'add', 'rm', 'promisc_on', 'promisc_off', 'net_on', 'net_off', 'net_on', 'net_off'], 5)
            if 'net_on' in seq and 'net_off' in seq and seq.index('net_off') < seq.index('net_on'):
                a_, b_ = seq.index('net_off'), seq.index('net_on')
                seq[a_], seq[b_] = seq[b_], seq[a_]          # a subnet is given up after it was added
            for what in ['plain'] + seq:
                if what == 'net_on':
                    ops.append(dict(op='addsubnet', nic=1, prefix='10.1.'))
                elif what == 'net_off':
                    ops.append(dict(op='rmsubnet', nic=1, prefix='10.1.'))
                if what in ('net_on', 'net_off'):
                    for dst in ('10.1.2.3', '10.1.0.1', '10.2.0.1'):
                        ops.append(dict(op='inject', kind='udp', v=4, src='10.0.0.9', sport=7, dst=dst, dport=5000, n=rng.randrange(0, 40), seed=rng.randrange(1 << 20)))
                        ops.append(dict(op='readall'))
                if what == 'add':
                    ops.append(dict(op='addaddr', nic=1, addr='10.0.0.3'))
                elif what == 'rm':
                    ops.append(dict(op='rmaddr', nic=1, addr='10.0.0.2'))
                elif what == 'promisc_on':
                    ops.append(dict(op='promisc', nic=1, on=True))
                elif what == 'promisc_off':
                    ops.append(dict(op='promisc', nic=1, on=False))
                for dst in ('10.0.0.1', '10.0.0.2', '10.0.0.3', '10.0.0.77'):
                    ops.append(dict(op='inject', kind='udp', v=4, src='10.0.0.9', sport=7, dst=dst, dport=5000, n=rng.randrange(0, 40), seed=rng.randrange(1 << 20)))
                    ops.append(dict(op='readall'))
            # prefixes that are not byte-aligned: destinations inside, and outside but equal in every whole byte of the prefix
            import ipaddress
            cidr = rng.choice(['10.0.0.16/28', '10.1.16.0/20', '10.0.0.128/25', '10.16.0.0/12', '10.0.0.64/27'])
            net = ipaddress.ip_network(cidr)
            base = int(net.network_address)
            size = net.num_addresses
            cand = [base + 1, base + size - 2, base + size, base - 1, base + size + 5, base ^ (size * 2)]
            for step in ('addsubnet', 'rmsubnet')[:rng.choice([1, 2, 2])]:
                ops.append(dict(op=step, nic=1, cidr=cidr))
                for x in cand:
                    d = str(ipaddress.ip_address(x & 0xffffffff))
                    if d in ('10.0.0.1', '10.0.0.2', '10.0.0.3'):
                        continue
                    ops.append(dict(op='inject', kind='udp', v=4, src='10.0.0.9', sport=7, dst=d, dport=5000, n=rng.randrange(0, 40), seed=rng.randrange(1 << 20),
                                    innets=['cidr:' + cidr] if ipaddress.ip_address(d) in net else []))
                    ops.append(dict(op='readall'))
            if ops[-2].get('op') == 'inject' and any(o.get('op') == 'addsubnet' and o.get('cidr') for o in ops) and not any(o.get('op') == 'rmsubnet' and o.get('cidr') for o in ops):
                ops.append(dict(op='rmsubnet', nic=1, cidr=cidr))
            # always: a subnet is taken over and given up again (owned: delivered to the wildcard socket; given up: to nobody)
            for step in ('addsubnet', 'rmsubnet', 'addsubnet', 'rmsubnet')[:rng.choice([2, 4])]:
                ops.append(dict(op=step, nic=1, prefix='10.1.'))
                for dst in ('10.1.2.3', '10.2.0.1'):
                    ops.append(dict(op='inject', kind='udp', v=4, src='10.0.0.9', sport=7, dst=dst, dport=5000, n=rng.randrange(0, 40), seed=rng.randrange(1 << 20)))
                    ops.append(dict(op='readall'))
        elif fam == 2:  # ipv6 sockets, dual stack
            ops += [dict(op='udp', s=0, v=6), dict(op='udp', s=1, v=4)]
            mapped = (i // 7) % 3 == 1          # the IPv6 socket is bound to the v4-mapped form of a local IPv4 address: an IPv4 socket on it
            if rng.random() < 0.5 and not mapped:
                ops.append(dict(op='setopt', s=0, opt='v6only', val=1))
            ops.append(dict(op='bind', s=0, addr='::ffff:10.0.0.1' if mapped else '', port=5000))
            ops.append(dict(op='bind', s=1, addr='10.0.0.1', port=5001))
            for j in range(6):
                v = rng.choice([4, 6])
                dst = rng.choice(['10.0.0.1', '10.0.0.2']) if v == 4 else 'fd00::1'
                src = '10.0.0.9' if v == 4 else 'fd00::9'
                ops.append(dict(op='inject', kind='udp', v=v, src=src, sport=7, dst=dst, dport=rng.choice([5000, 5001]), n=rng.randrange(0, 60), seed=rng.randrange(1 << 20)))
                ops.append(dict(op='readall'))
        elif fam == 3:  # bind without a NIC, connect WITH an explicit NIC (registration moves between demuxer tables), strangers
            la = rng.choice(['', '10.0.0.1'])
            ops += [dict(op='udp', s=0, v=4), dict(op='bind', s=0, addr=la, port=5000),
                    dict(op='connect', s=0, addr='10.0.0.9', port=7, nic=rng.choice([1, 1, 0]))]
            for j in range(6):
                src, sport, dst = rng.choice([('10.0.0.9', 7, '10.0.0.1'), ('10.0.0.8', 7, '10.0.0.1'), ('10.0.0.9', 8, '10.0.0.1'),
                                              ('10.0.0.9', 7, '10.0.0.2'), ('10.0.0.8', 9, '10.0.0.2')])
                ops.append(dict(op='inject', kind='udp', v=4, src=src, sport=sport, dst=dst, dport=5000, n=rng.randrange(0, 50), seed=rng.randrange(1 << 20)))
                ops.append(dict(op='readall'))
            ops.append(dict(op='close', s=0))
            ops += [dict(op='udp', s=1, v=4), dict(op='bind', s=1, addr='', port=5000)]
            for j in range(2):
                ops.append(dict(op='inject', kind='udp', v=4, src='10.0.0.8', sport=7, dst='10.0.0.1', dport=5000, n=5, seed=rng.randrange(1 << 20)))
                ops.append(dict(op='readall'))
        else:  # udp + tcp on the same port: protocols do not mix
            ops += [dict(op='udp', s=0, v=4), dict(op='bind', s=0, addr='', port=6000),
                    dict(op='tcp', s=1, v=4), dict(op='bind', s=1, addr='', port=6000), dict(op='listen', s=1, backlog=2)]
            for j in range(4):
                if rng.random() < 0.5:
                    ops.append(dict(op='inject', kind='udp', v=4, src='10.0.0.9', sport=7, dst='10.0.0.1', dport=rng.choice([6000, 6001]), n=5, seed=j))
                    ops.append(dict(op='readall'))
                else:
                    ops.append(dict(op='inject', kind='tcp', v=4, src='10.0.0.9', sport=7 + j, dst='10.0.0.1', dport=rng.choice([6000, 6001]), flags='S',
                                    seqhi=j, seqlo=5, ackhi=0, acklo=0, n=0, seed=0))
                    ops.append(dict(op='settle', ms=15))
        out.append(dict(nics=[NIC], ops=ops))
    return out


def run(ctx):
    drv = ctx.go_build('sockd')
    nsock = ctx.pick(2, 3)
    consts = dict(Socks=MV('{' + ', '.join(str(i) for i in range(nsock)) + '}'), LAddrs=MV('{"10.0.0.1", "10.0.0.2"}'),
                  Ports=MV('{5000, 5001}') if nsock == 2 else MV('{5000}'), Remotes=MV('{"10.0.0.9", "10.0.0.8"}'), RPorts=MV('{7}'),
                  Foreign='10.0.0.77', Primary='10.0.0.1')
    c = cfg(constants=consts, invariants=['LookupMatchesTarget', 'OneRegPerId', 'UniqueTarget'])
    r = ctx.tlc('Demux', c, SPEC, name='Demux', dump_dot=True, must_pass=True, coverage=False, timeout=1800)
    script, stats = vlib.graph_script(ctx, r)
    ctx.extra.update(stats)
    scs = []
    for p in script['paths']:
        scs.append(dict(nics=[NIC], ops=ops_from_path(p, script['states'], nsock, ctx.rng)))
    # ---- the interface dimension: DemuxNic (two interfaces, per-interface tables before the stack-wide one, promiscuous mode)
    cn = cfg(constants=dict(Socks=MV('{0, 1}'), Ports=MV('{5000}'), Remotes=MV('{"10.0.0.9"}'), RPorts=MV('{7}'), Foreign='10.0.0.77'),
             invariants=['LookupMatchesTarget', 'OneRegPerId', 'UniqueTarget', 'NicBoundOnlyOwnNic'])
    rn = ctx.tlc('DemuxNic', cn, SPEC, name='DemuxNic', dump_dot=True, must_pass=True, coverage=False, timeout=1800)
    script_n, stats_n = vlib.graph_script(ctx, rn)
    ctx.extra['nic_graph'] = stats_n
    npaths = list(script_n['paths'])
    if not ctx.thorough():
        # quick: a sample of the edge cover, preferring paths in which a datagram arrives while a socket is bound to an interface
        ctx.rng.shuffle(npaths)
        npaths.sort(key=lambda p: -sum(1 for st in p if st['a'] in ('BindUdp', 'ConnectUdp') and st['args'][3] != 0 and st['args'][4]))
        npaths = npaths[:60]
    nic_scs = [dict(nics=[NIC, NIC2], ops=nic_ops_from_path(p, 2, ctx.rng)) for p in npaths]
    ctx.extra['nic_graph_paths_run'] = len(nic_scs)
    scs += nic_scs
    nmodel = len(scs)
    extra = seeded_scenarios(ctx, ctx.pick(40, 600)) + nic_seeded(ctx, ctx.pick(16, 200))
    # ---- the TCP half of the closed model: listeners and connections (active opens) next to each other
    nst = 2
    ct = cfg(constants=dict(Socks=MV('{0, 1}'), LAddrs=MV('{"10.0.0.1", "10.0.0.2"}'), Ports=MV('{5000}'), Remotes=MV('{"10.0.0.9", "10.0.0.8"}'),
                            RPorts=MV('{7}'), Foreign='10.0.0.77', Primary='10.0.0.1'),
             invariants=['LookupMatchesTarget', 'OneRegPerId', 'ResExclusive'])
    rt = ctx.tlc('DemuxTcp', ct, SPEC, name='DemuxTcp', dump_dot=True, must_pass=True, coverage=False, timeout=1800)
    script_t, stats_t = vlib.graph_script(ctx, rt)
    ctx.extra['tcp_graph'] = stats_t
    # ---- passive opens (DemuxPassive: listener queue, handler goroutines, register / failed-registration close by id): exhaustive;
    #      the variant that marks the endpoint registered before registering must violate LiveReachable (the model keeps its teeth:
    #      its counterexample - a SYN and its retransmission both queued at the listener - is what the passive-open family injects)
    pc = dict(Eps=MV('{0, 1, 2, 3}') if ctx.thorough() else MV('{0, 1, 2}'), Tuples=MV('{1, 2}'), MaxQ=3 if ctx.thorough() else 2, FlagEarly=False)
    rp = ctx.tlc('DemuxPassive', cfg(constants=pc, invariants=['OneLivePerTuple', 'LiveReachable', 'OneRegPerId']), SPEC, name='DemuxPassive',
                 must_pass=True, timeout=1800)
    pc['FlagEarly'] = True
    rpe = ctx.tlc('DemuxPassive', cfg(constants=pc, invariants=['LiveReachable']), SPEC, name='DemuxPassive-early-flag', count=False, timeout=1800)
    ctx.extra['passive_model'] = dict(distinct_states=rp.distinct, early_flag_variant_violates=(not rpe.ok))
    if rpe.ok:
        raise vlib.Inconclusive('DemuxPassive with FlagEarly=TRUE does not violate LiveReachable: the model lost its teeth')
    tpaths = list(script_t['paths'])
    if not ctx.thorough():
        # quick: a sample of the edge cover, preferring paths with a socket life cycle in them (a close followed by another
        # socket's listen or connect on the same port, then an injected segment): that is where stale registrations show
        def lifecycle(p):
            acts = [st['a'] for st in p]
            if 'CloseSock' not in acts:
                return 0
            i = acts.index('CloseSock')
            rest = acts[i + 1:]
            return int(('Listen' in rest or 'Connect' in rest) and 'Inject' in rest[(rest.index('Listen') if 'Listen' in rest else rest.index('Connect')):])
        ctx.rng.shuffle(tpaths)
        tpaths.sort(key=lambda p: -lifecycle(p))
        nlife = sum(1 for p in tpaths if lifecycle(p))
        tpaths = tpaths[:min(nlife, 50)] + tpaths[nlife:nlife + 40]
        ctx.extra['tcp_graph_paths_quick'] = dict(lifecycle=min(nlife, 50), other=len(tpaths) - min(nlife, 50), of=len(script_t['paths']))
    tcp_scs = [dict(nics=[NIC], ops=tcp_ops_from_path(p, nst, ctx.rng)) for p in tpaths]
    extra = extra + tcp_scs
    allsc = scs + extra
    segs = vlib.run_scenarios(ctx, drv, [dict(nics=s['nics'], ops=strip(s['ops'])) for s in allsc], 'c09', what='the stack (sockets API / packet injection)')
    if len(segs) != len(allsc):
        raise vlib.Inconclusive('driver produced %d segments for %d scenarios' % (len(segs), len(allsc)))
    # drift detector: the model's predicted bind/connect results and targets vs what the code did
    ndrift = 0
    ninj = 0
    for si in range(nmodel):
        opev = [e for e in segs[si] if e['ev'] == 'op']
        ops = allsc[si]['ops']
        if len(opev) != len(ops):
            raise vlib.Inconclusive('op/event count mismatch in scenario %d' % si)
        for o, e, nxt in zip(ops, opev, opev[1:] + [None]):
            if '_ok' in o and (e.get('err') == '') != o['_ok']:
                ndrift += 1
                if ndrift <= 3:
                    ctx.model_drift('Demux model predicted %s ok=%s, code returned %r' % (o['op'], o['_ok'], e.get('err')))
            if '_target' in o:
                ninj += 1
                got = sorted(set(g['s'] for g in nxt['got']))
                want = [] if o['_target'] == -1 else [o['_target']]
                if got != want:
                    ndrift += 1
                    if ndrift <= 3:
                        ctx.model_drift('Demux model predicted target %s, sockets that received: %s' % (want, got))
    # TCP graph scenarios: predicted "no socket" <=> the stack answered the injected segment with a reset
    ntcp = 0
    for si in range(len(allsc) - len(tcp_scs), len(allsc)):
        ops = allsc[si]['ops']
        oi = -1
        cur = None
        sawrst = False

        def close_inject():
            nonlocal ndrift
            if cur is not None and ops[cur]['dst'] != '10.0.0.77':
                want_rst = ops[cur]['_ttarget'] == -1
                if want_rst and not sawrst:     # (a socket may answer with a reset of its own, so only this direction is a prediction)
                    ndrift += 1
                    if ndrift <= 3:
                        ctx.model_drift('DemuxTcp model predicted target %s for %s, reset seen: %s' % (ops[cur]['_ttarget'], strip([ops[cur]])[0], sawrst))
        touched = set()
        for e in segs[si]:
            if e['ev'] == 'op':
                close_inject()
                oi += 1
                cur, sawrst = None, False
                if ops[oi].get('op') == 'connect':
                    touched.add('connect')         # half-open / lingering connections are not in the closed model: predictions only before the first connect
                if '_ttarget' in ops[oi]:
                    tup = (ops[oi]['src'], ops[oi]['sport'], ops[oi]['dst'], str(ops[oi]['dport']))
                    if tup not in touched and 'connect' not in touched:
                        cur = oi
                        ntcp += 1
                    touched.add(tup)
            elif e['ev'] == 'emit' and e.get('kind') == 'tcp' and cur is not None and 'R' in e.get('flags', ''):
                sawrst = True
        close_inject()
    ctx.extra['tcp_model_predictions_checked'] = ntcp
    ctx.extra['model_predictions_checked'] = ninj
    ctx.extra['drift_count'] = ndrift
    tc = cfg(spec='TSpec', constraint='HWMark', postcondition='Accepted')
    acc, rej = vlib.validate_segments(ctx, 'TraceSock', tc, SPEC, segs, name='trace', timeout=3000)
    ctx.traces += acc
    ctx.extra['scenarios_from_graph'] = nmodel
    ctx.extra['scenarios_seeded'] = len(extra)
    ctx.sample(dict(kind='graph-path-scenario', ops=strip(scs[0]['ops'])[:10]))
    ctx.sample(dict(kind='seeded-scenario', ops=extra[0]['ops'][:8]))
    for si, ln in rej:
        ev = segs[si][ln] if ln < len(segs[si]) else {}
        ctx.violation('socket-layer behaviour rejected by the C09 P-spec at event %d: %s' % (ln, {k: v for k, v in ev.items() if k not in ('pay', 'raw')}),
                      dict(kind='scenario', scenario=dict(nics=allsc[si]['nics'], ops=strip(allsc[si]['ops'])), events=segs[si][:ln + 1]),
                      key=classify_f29(segs[si], ln))
    # vacuity guard of the TCP-connection family: SYN-ACKs that acknowledge the stack's own SYN were injected and answered
    nsa = nack = 0
    for sg in segs:
        for i, e in enumerate(sg):
            if e.get('ev') == 'op' and e.get('op') == 'inject' and 'ackofport' in e and e.get('flags') == 'SA':
                nsa += 1
                nxt = [x for x in sg[i + 1:i + 4] if x.get('ev') == 'emit' and x.get('kind') == 'tcp']
                nack += 1 if nxt and nxt[0].get('flags') == 'A' else 0
    ctx.extra['tcp_connection_synacks'] = dict(injected=nsa, handshake_completed=nack)
    if not rej and nack == 0:
        raise vlib.Inconclusive('vacuity: no injected SYN-ACK completed an active open (TCP connection family dead)')
    # ... and of the passive opens: connections were accepted, and data sent to them afterwards was acknowledged by them
    npas = nacc = ndack = ndup = 0
    for sg in segs:
        accepted = False
        for i, e in enumerate(sg):
            if e.get('ev') == 'op' and e.get('op') == 'inject' and e.get('flags') == 'S' and e.get('dup'):
                ndup += 1
            if e.get('ev') == 'op' and e.get('op') == 'accept':
                npas += 1
                accepted = e.get('err') == ''
                nacc += 1 if accepted else 0
            if accepted and e.get('ev') == 'op' and e.get('op') == 'inject' and 'ackofport' in e and e.get('flags') in ('A', 'PA') and e.get('n', 0) > 0:
                nxt = [x for x in sg[i + 1:i + 3] if x.get('ev') == 'emit' and x.get('kind') == 'tcp']
                ndack += 1 if nxt and nxt[0].get('flags') == 'A' else 0
    ctx.extra['tcp_passive_opens'] = dict(accept_calls=npas, accepted=nacc, data_segments_acknowledged_by_the_connection=ndack, syn_bursts=ndup)
    if not rej and (nacc == 0 or ndack == 0 or ndup == 0):
        raise vlib.Inconclusive('vacuity: no passive open was accepted and acknowledged data afterwards (passive-open family dead)')
    # binding self-test: move a received datagram to another socket / drop the RST
    base = next((s for s in segs if any(e.get('op') == 'readall' and e.get('got') for e in s)), None)
    if base is None:
        raise vlib.Inconclusive('no datagram was ever delivered: dead driver')
    bad = copy.deepcopy(base)
    for e in bad:
        if e.get('op') == 'readall' and e.get('got'):
            e['got'][0]['s'] = 1 - e['got'][0]['s'] if e['got'][0]['s'] in (0, 1) else 0
            break
    a, rj = vlib.validate_segments(ctx, 'TraceSock', tc, SPEC, [bad], name='selftest', count=False)
    if not rj:
        raise vlib.Inconclusive('binding self-test failed: datagram attributed to another socket was accepted')
    rstseg = next((s for s in segs[nmodel:] if any(e.get('ev') == 'emit' and e.get('kind') == 'tcp' and 'R' in e.get('flags', '') for e in s)), None)
    if rstseg is not None:
        bad2 = [e for e in copy.deepcopy(rstseg)]
        for i, e in enumerate(bad2):
            if e.get('ev') == 'emit' and e.get('kind') == 'tcp' and 'R' in e.get('flags', ''):
                del bad2[i]
                break
        a, rj = vlib.validate_segments(ctx, 'TraceSock', tc, SPEC, [bad2], name='selftest-rst', count=False)
        if not rj:
            raise vlib.Inconclusive('binding self-test failed: missing RST accepted')
    ctx.extra['binding_selftest'] = 'mis-attributed datagram and missing RST rejected'
    ctx.assumptions += ['pkg/sleep builds only with hook H1', 'harness codecs independent of protocol/header',
                        'route local address for unbound sockets = first NIC address (model assumption, drift-checked)']
    # ---- E4: registrations racing deliveries (concurrent histories on one real stack, linearizability decided by TLC against
    #      TraceDemuxLin; built by tools/checks/c09race.py)
    import checks.c09race as c09race
    c09race.demux_race(ctx)
    ctx.assumptions += ['racing histories: schedules are whatever the Go scheduler produced under seeded perturbation (sampled, not enumerated); '
                        'bind = claim then activate, close = deactivate then unclaim, inject = find then enqueue (two-step linearization)']
