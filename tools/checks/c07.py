"""C07 - no inbound frame sequence can crash the stack or stop it serving.

Spec: spec/ingress (Ingress = ingress pipeline as a decision function over an
abstract mutation lattice + `Serving`; IngressFrag = hole-list model of the
reassembler over unrestricted fragment sequences; TraceIngress = trace
validator).  Binding: TLC enumerates the lattice (E1) and dumps it as JSON;
harness/ingressd concretises every abstract frame / sequence with its own
packet builders and injects it into a real stack hosted in a CHILD process;
the parent runs the liveness probes after every batch, bisects crashes and
hangs down to one sequence on fresh children, and TLC validates the recorded
trace (outcome classes, Serving).  A seeded noise generator feeds the same
children (judged against Serving only).
"""
import copy
import json
import os
import re
import threading

import vlib
from vlib import cfg

MANIFEST = dict(
    technique='TLA+ decision-function model of the ingress pipeline over a finite abstract mutation lattice, enumerated exhaustively by TLC (which is also the test-case generator); every abstract frame / fragment sequence / segment sequence is concretised and injected into the real stack in a child process, with liveness probes, crash bisection on fresh children and TLC trace validation of outcome classes and Serving; supplementary seeded noise',
    text='TLC enumerates every abstract ARP/IPv4/IPv6/ICMP/UDP/TCP frame of the lattice (field classes for header lengths, total/payload lengths, fragment flags and offsets, addresses, view splits, data offsets, flag combinations, a TCP option grammar with truncated options and bad lengths, ICMP types x size classes with truncated embedded headers, ARP validity classes) and every sequence of <= 3 unrestricted fragments (inconsistent, overlapping, two last fragments, zero-length, offsets at 65528 where `last` wraps in uint16) and <= 3 segments on one 4-tuple, all sequences of <= 3 (4 over a core alphabet) segments with real sequence numbers on an ESTABLISHED connection opened passively or actively (out-of-order / overlapping data, data+FIN out of order then the gap fill, FIN then data beyond it, duplicate FIN, RST in/out of window, window-edge straddling, empty segments ahead, SACK on/off, urgent, truncated options, SYN again), "many holes" (2..12 and 40 disjoint out-of-order blocks of 1 or 5 bytes, ascending / descending / shuffled, with duplicates or neighbour-merging overlaps, optionally followed by the gap fills), ICMP error frames (v4 type 3 codes 0-4/13, types 11, 12; v6 types 1-4; next-hop MTU classes 0..0xffffffff) quoting an established connection (plain / timestamps / SACK, data in flight or idle, right or wrong sequence number), a SYN-SENT socket, a half-open connection, a connected or bound UDP socket or nothing, with full and truncated quotes, followed by a wait longer than one retransmission timeout, plus queue-pressure families (bursts of well-formed frames that overflow one bounded queue: UDP receive buffer of an unread / late-read socket with large, small and fragmented datagrams, SYN backlog, TCP receive buffer, reassembly memory, neighbour cache; afterwards the application reads the queue and the probes run); each is aimed at a listener, an established connection, a bound UDP socket or nothing in a real stack. Oracle: child exit status / panic text, hang (goroutine dump), the three probes of the property (echo answered, new TCP connection completes and echoes data, UDP datagram delivered) plus an established connection that must keep echoing, and the outcome class (DropAt / DeliverTo / Reply) where the specification fixes one. A hole-list model of the reassembler is checked for NoCrash under all such fragment sequences.',
    design='5 C07',
    level='model_checking',
    note='The lattice is finite by construction: one representative per field class; a crash that needs a specific VALUE inside a class that the representatives miss is not found. Pure noise (random bytes, truncations and bit flips of valid frames) is not enumerable from a model: it is exploration-grade and judged against Serving only. The quick tier runs every single-mutation case plus a seeded sample (~5 k cases); the thorough tier runs the full lattice. Probe deadlines are give-up bounds: a failed probe / hang counts only if it reproduces on a fresh child with the minimised sequence. Outcome classes are asserted only where the property text (with the RFC validity rules it names) fixes one; IPv4 IHL < 5, bad checksums (the stack verifies none), UDP length < datagram and multi-view corner cases are Unspecified. Observations are attributed to a case by the injecting goroutine or by a per-case tag (port / ident + sequence base / payload pattern). Family neigh-failed (round 8): state left by the own activity of the stack - a neighbour that stayed silent for three requests, then a late ARP reply / request / neighbour advertisement from it - precedes the probes.')

SPEC = ['ingress']


def trace_cfg():
    return cfg(spec='TSpec', constants=dict(MaxLen=0, Scope='thin', SeqLen=1, DumpFile=''), invariants=['Serving'],
               constraint='HWMark', postcondition='Accepted')


# ------------------------------------------------------------------ sampling
ENV4 = dict(ihl='5', tl='act', fr='none', dst='own', sp='one', ck='ok', ver=4)
ENV6 = dict(pl='act', dst='own', sp='one', ver=6)
NOEMB = dict(code='-', emb='-', esrc='-', eihl='-', epr='-', efr='-', mtu=0)
L4BASE = dict(
    udp=[dict(ulen='act', tgt='udp', uck='ok')],
    icmp=[dict(ty='echo', sz=32, ick='ok', **NOEMB),
          dict(ty='unreach', sz=0, ick='ok', code='port', emb='ip20+8', esrc='own', eihl='5', epr='udp', efr='0', mtu=0),
          dict(ty='unreach', sz=0, ick='ok', code='port', emb='ip20+8', esrc='own', eihl='5', epr='tcp', efr='0', mtu=0),
          dict(ty='unreach', sz=0, ick='ok', code='big', emb='ip20+8', esrc='own', eihl='5', epr='tcp', efr='0', mtu=576),
          dict(ty='ns', sz=32, ick='ok', **dict(NOEMB, esrc='own')),
          dict(ty='na', sz=32, ick='ok', **dict(NOEMB, esrc='own'))],
    tcp=[dict(doff='fit', fl='S', ob=[2, 4, 5, 180], tgt='lst', sq='-', ak='-', pay=0),
         dict(doff='fit', fl='S', ob=[], tgt='lst', sq='-', ak='-', pay=0),
         dict(doff='fit', fl='PA', ob=[], tgt='none', sq='-', ak='-', pay=16),
         dict(doff='fit', fl='A', ob=[], tgt='est', sq='exact', ak='exact', pay=0),
         dict(doff='fit', fl='PA', ob=[], tgt='est', sq='exact', ak='exact', pay=16)],
    unk=[dict(x=0)], hop=[dict(x=0)])
ARPBASE = dict(sz=28, ht=1, pt=2048, hl=6, pl=4, op=1, tpa='own')


def _d(rec, base, ignore=()):
    return sum(1 for k, v in base.items() if k not in ignore and rec.get(k) != v)


def distance(c):
    """Number of fields in which an abstract frame differs from the nearest all-valid baseline."""
    k = c['k']
    if k == 'arp':
        return _d(c['a'], ARPBASE) + (c['nic'] != 2) + (c['sp'] != 'one')
    if k in ('ip4', 'ip6'):
        env = ENV4 if k == 'ip4' else ENV6
        l4 = min(_d(c['l4'], b) for b in L4BASE[c['pr']])
        return _d(c['ip'], env) + l4 + (c['nic'] != 1)
    if k == 'fseq':
        return len(c['fs']) - 1
    if k == 'tseq':
        return len(c['ls']) - 1
    if k in ('press', 'eseq', 'ierr', 'holes'):
        return 0
    return 99


def pick_cases(ctx, frames, seqs):
    if ctx.thorough():
        sel = frames + seqs
    else:
        near, far = [], []
        for x in frames:
            (near if distance(x['c']) <= 1 else far).append(x)
        s_near = [x for x in seqs if distance(x['c']) <= 1]          # all sequences of <= 2 steps
        s_far = [x for x in seqs if distance(x['c']) > 1]
        target = 5200
        rest = max(0, target - len(near) - len(s_near))
        sel = near + s_near + ctx.rng.sample(far, min(len(far), rest * 2 // 3)) + ctx.rng.sample(s_far, min(len(s_far), rest // 3))
        ctx.extra['quick_selection'] = dict(single_mutation_frames=len(near), short_sequences=len(s_near), sampled=len(sel) - len(near) - len(s_near))
    ctx.rng.shuffle(sel)
    for i, x in enumerate(sel):
        x['id'] = i
    return sel


# ------------------------------------------------------------------- helpers
def load_ndjson(p):
    return [json.loads(l) for l in open(p) if l.strip()]


def classify_failure(f):
    """known-finding key for a reproduced crash / hang / probe failure (None = not a known shape)."""
    return None


def first_line(t):
    return (t or '').strip().split('\n')[0][:300]


def code_location(text):
    """first frame of the panic trace that lies in the code under test"""
    lines = (text or '').split('\n')
    for i, ln in enumerate(lines[:-1]):
        if ln.startswith('github.com/brewlin/net-protocol/'):
            fn = ln[len('github.com/brewlin/net-protocol/'):]
            fn = fn[:fn.find('(0x')] if '(0x' in fn else fn.split('({')[0]
            m = re.search(r'(\S+\.go:\d+)', lines[i + 1])
            return '%s at %s' % (fn, m.group(1) if m else '?')
    m = re.search(r'(/\S+\.go:\d+)', text or '')
    return m.group(1) if m else ''


def shorten(seg, keep=40):
    """reset + the last `keep` events (the corrupted event of a self-test is near the end or marked)"""
    marked = [i for i, e in enumerate(seg) if e.get('_mark')]
    if marked:
        i = marked[0]
        body = seg[max(1, i - 5):i + 5]
    else:
        body = seg[1:][-keep:]
    return [seg[0]] + [{k: v for k, v in e.items() if k != '_mark'} for e in body]


def run_driver(ctx, drv, name, cases, **kw):
    cp = os.path.join(ctx.work, name + '-cases.ndjson')
    vlib.write_ndjson(cp, cases)
    conf = dict(cases=cp if cases else '', batch=200, noise_seed=ctx.seed, wait_ms=int(os.environ.get('VERIF_C07_WAIT_MS', '20000')))
    conf.update(kw)
    fp = os.path.join(ctx.work, name + '-cfg.json')
    tp = os.path.join(ctx.work, name + '-trace.ndjson')
    vlib.write_json(fp, conf)
    p = ctx.run([drv, 'run', fp, tp], timeout=ctx.pick(900, 3000))
    try:
        summ = json.loads(p.stdout.decode().strip().split('\n')[-1])
    except Exception:
        raise vlib.Inconclusive('ingressd produced no summary: %s' % p.stderr.decode('utf-8', 'replace')[-2000:])
    return summ, vlib.read_ndjson(tp)


def bg(out, key, fn):
    def w():
        try:
            out[key] = fn()
        except BaseException as e:  # noqa: re-raised by the caller
            out[key] = e
    t = threading.Thread(target=w)
    t.start()
    return t


def frag_models(ctx):
    fc = cfg(constants=dict(NB=4, MaxArr=3, FailSoft=True), invariants=['NoCrash', 'DeliverOnlyComplete', 'AccountingOK'])
    rf = ctx.tlc('IngressFrag', fc, SPEC, name='IngressFrag', must_pass=True, coverage=True, workers=1)
    z = ctx.zero_coverage(rf)
    if z:
        raise vlib.Inconclusive('vacuity: %s' % z)
    # the same model with the panic of the unrepaired reassembler must find the inconsistent-fragments crash (model self-test)
    fc2 = cfg(constants=dict(NB=4, MaxArr=3, FailSoft=False), invariants=['NoCrash'])
    rf2 = ctx.tlc('IngressFrag', fc2, SPEC, name='IngressFrag-panic', workers=1, count=False)
    if rf2.ok or rf2.violated != 'NoCrash':
        raise vlib.Inconclusive('IngressFrag with FailSoft=FALSE does not find the inconsistent-fragments crash: the model lost its teeth')
    return dict(failsoft_states=rf.distinct, panic_variant_counterexample=[a for a, _ in rf2.trace][1:])


def start_selftests(ctx, tc, segs, by_id):
    """binding self-test: fabricated crash / failed probe / corrupted observation must be rejected.
    Runs in background threads; returns a function that joins them and reports."""
    cands = [s for s in segs if any(e['ev'] == 'probe' for e in s) and not any(e['ev'] == 'crash' or (e['ev'] == 'probe' and not (e.get('echo') and e.get('tcp') and e.get('udp') and e.get('est'))) for e in s)]
    if not cands:
        return lambda rejected: 'skipped: no clean segment in a failing run'
    base = cands[0]
    tests = {}
    b1 = copy.deepcopy(base)
    b1.insert(len(b1) - 1, dict(ev='crash', id=-1, why='crash', text='fabricated'))
    tests['fabricated-crash'] = b1
    b2 = copy.deepcopy(base)
    for e in b2:
        if e['ev'] == 'probe':
            e['tcp'] = False
    tests['failed-probe'] = b2
    if ctx.thorough():
        for s in cands:
            hit = next((e for e in s if e['ev'] == 'inject' and by_id.get(e['id'], {}).get('o', {}).get('kind') == 'DropAt' and not e.get('obs')), None)
            if hit:
                b3 = copy.deepcopy(s)
                for e in b3:
                    if e['ev'] == 'inject' and e['id'] == hit['id']:
                        e['obs'] = ['udp']
                        e['_mark'] = True
                tests['observation-on-a-must-drop-frame'] = b3
                break
        for s in cands:
            hit = next((e for e in s if e['ev'] == 'inject' and by_id.get(e['id'], {}).get('o', {}).get('kind') in ('DeliverTo', 'Reply')), None)
            if hit:
                b4 = copy.deepcopy(s)
                for e in b4:
                    if e['ev'] == 'inject' and e['id'] == hit['id']:
                        e['obs'] = []
                        e['_mark'] = True
                tests['missing-delivery'] = b4
                break
    # control: the uncorrupted short trace must be accepted (else a rejection below proves nothing)
    tests['control'] = copy.deepcopy(base)
    out, ths = {}, []
    for nm, b in tests.items():
        ths.append(bg(out, nm, lambda nm=nm, b=b: vlib.validate_segments(ctx, 'TraceIngress', tc, SPEC, [shorten(b)], name='selftest-' + nm, count=False)))

    def finish(rejected):
        for t in ths:
            t.join()
        for nm in tests:
            if isinstance(out[nm], BaseException):
                raise out[nm]
            if nm == 'control':
                if out[nm][1]:
                    raise vlib.Inconclusive('binding self-test: the uncorrupted control trace was rejected')
            elif not out[nm][1]:
                raise vlib.Inconclusive('binding self-test failed: %s trace accepted' % nm)
        return 'rejected: ' + ', '.join(sorted(k for k in tests if k != 'control')) + '; control accepted'
    return finish


def run(ctx):
    drv = ctx.go_build('ingressd')
    tc = trace_cfg()
    # ---- E1: TLC enumerates the lattice (frames + sequences) and dumps it; the reassembler model
    res = {}
    tf = bg(res, 'frag', lambda: frag_models(ctx))
    c = cfg(constants=dict(MaxLen=1, SeqLen=ctx.pick(2, 3), Scope=ctx.pick('thin', 'all'), DumpFile='cases.ndjson'),
            invariants=['Serving', 'OutcomeTotal', 'PositiveOnlyIfWellFormed', 'MustWithinMay'])
    r1 = ctx.tlc('Ingress', c, SPEC, name='Ingress-lattice', must_pass=True, workers=max(1, ctx.workers - 1), timeout=ctx.pick(600, 1500))
    allc = load_ndjson(os.path.join(r1.dir, 'cases.ndjson'))
    if len(allc) + 1 != r1.distinct:
        raise vlib.Inconclusive('dump and state count disagree: %d cases, %d states' % (len(allc), r1.distinct))
    frames = [x for x in allc if x['c']['k'] in ('ip4', 'ip6', 'arp')]
    seqs = [x for x in allc if x['c']['k'] in ('fseq', 'tseq', 'press', 'eseq', 'ierr', 'holes')]
    hist = {}
    for x in allc:
        kk = '%s/%s' % (x['c']['k'], x['o']['kind'])
        hist[kk] = hist.get(kk, 0) + 1
    kinds = set(x['o']['kind'] for x in frames)
    if kinds != {'DropAt', 'DeliverTo', 'Reply', 'Unspecified'}:
        raise vlib.Inconclusive('vacuity: outcome kinds used by the lattice: %s' % sorted(kinds))
    perproto = {}
    for x in allc:
        perproto[x['c']['k']] = perproto.get(x['c']['k'], 0) + 1
    ctx.extra.update(lattice_scope=ctx.pick('thin', 'all'), lattice_frames=len(frames), lattice_sequences=len(seqs),
                     lattice_per_kind=perproto, outcome_histogram=hist, exhaustive=ctx.thorough())
    # ---- E2: into the child
    press = [x for x in seqs if x['c']['k'] == 'press']
    seqs = [x for x in seqs if x['c']['k'] != 'press']
    if len(press) < 9:
        raise vlib.Inconclusive('lattice has %d queue-pressure cases' % len(press))
    eseq = [x for x in seqs if x['c']['k'] in ('eseq', 'holes')]     # both run on established connections
    ierr = [x for x in seqs if x['c']['k'] == 'ierr']
    seqs = [x for x in seqs if x['c']['k'] not in ('eseq', 'ierr', 'holes')]
    sel = pick_cases(ctx, frames, seqs)
    # sequences on established connections: quick = all of <= 2 segments; thorough = all (<= 3, and 4 over the core letters)
    ctx.rng.shuffle(eseq)
    ctx.rng.shuffle(ierr)
    for i, x in enumerate(press + eseq + ierr):
        x['id'] = len(sel) + i
    by_id = {x['id']: x for x in sel + press + eseq + ierr}
    if not any(x['c']['ty'] == 'big' and x['c']['tgt'] == 'est-ts' and x['c']['fl'] == 'inflight' and 20 <= x['c']['mtu'] <= 52 for x in ierr):
        raise vlib.Inconclusive('lattice lacks a small-MTU "fragmentation needed" error aimed at a timestamped connection with data in flight')
    if not any(x['c'].get('ls') == ['D1F', 'D0'] for x in eseq):
        raise vlib.Inconclusive('lattice lacks the out-of-order data+FIN then gap-fill sequence')
    # four independent driver runs, side by side (the ICMP one mostly waits for retransmission timeouts):
    #  pressure: each family on its own fresh child, probes right after it
    #  estab:    sequences on established connections, small batches so that the probes follow closely
    #  icmperr:  ICMP errors aimed at live state; their effect shows at the next retransmission timeout, so the
    #            driver waits longer than one RTO (1 s) after each batch before the probes
    dr = {}
    ths = [bg(dr, 'pressure', lambda: run_driver(ctx, drv, 'pressure', press, batch=1, noise_per_batch=0, noise_batches=0, restart_every=1, max_failures=3)),
           bg(dr, 'estab', lambda: run_driver(ctx, drv, 'estab', eseq, batch=25, noise_per_batch=0, noise_batches=0, restart_every=100, max_failures=3)),
           bg(dr, 'icmperr', lambda: run_driver(ctx, drv, 'icmperr', ierr, batch=ctx.pick(120, 60), noise_per_batch=0, noise_batches=0,
                                                restart_every=8, max_failures=2, settle_ms=1800))]
    summ, events = run_driver(ctx, drv, 'main', sel, noise_per_batch=100, noise_batches=ctx.pick(4, 100), restart_every=40)
    ctx.log('driver: %s' % {k: v for k, v in summ.items() if k != 'failures'})
    for t in ths:
        t.join()
    for k in ('pressure', 'estab', 'icmperr'):
        if isinstance(dr[k], BaseException):
            raise dr[k]
        ctx.log('%s driver: %s' % (k, {a: v for a, v in dr[k][0].items() if a != 'failures'}))
    (psumm, pevents), (esumm, eevents), (isumm, ievents) = dr['pressure'], dr['estab'], dr['icmperr']
    ctx.extra['pressure'] = dict(families=sorted(x['c']['q'] for x in press), cases_run=psumm['cases'], probe_rounds=psumm['probes'],
                                 observed={e['c']['q']: sorted(e.get('obs') or []) for e in pevents if e.get('ev') == 'inject'})
    ctx.extra['established'] = dict(sequences=len(eseq), cases_run=esumm['cases'], probe_rounds=esumm['probes'],
                                    by_mode={m: sum(1 for x in eseq if x['c']['mode'] == m) for m in ('pas', 'act')},
                                    longest=max(len(x['c'].get('ls', [])) for x in eseq),
                                    many_holes=sum(1 for x in eseq if x['c']['k'] == 'holes'),
                                    max_holes=max([x['c']['n'] for x in eseq if x['c']['k'] == 'holes'] or [0]))
    ctx.extra['icmp_errors_at_live_state'] = dict(cases=len(ierr), cases_run=isumm['cases'], probe_rounds=isumm['probes'], settle_ms=1800,
                                                  targets=sorted(set(x['c']['tgt'] for x in ierr)))
    for other in (isumm, esumm, psumm):
        for k in ('cases', 'noise_frames', 'probes', 'children', 'late', 'strays', 'repro_runs'):
            summ[k] += other[k]
        summ['failures'] = other['failures'] + summ['failures']
        summ['stopped_early'] = summ.get('stopped_early') or (other.get('stopped_early') and not other['failures'])
    events = pevents + eevents + ievents + events
    ctx.extra.update(cases_run=summ['cases'], noise_frames=summ['noise_frames'], probe_rounds=summ['probes'], children=summ['children'],
                     late_observations=summ['late'], unattributed_emissions=summ['strays'], repro_runs=summ['repro_runs'])
    ctx.extra['evaluations'] = summ['cases'] + summ['noise_frames']
    ctx.extra['distinct_nontrivial'] = summ['cases']
    ctx.extra['rule'] = 'cases = distinct abstract frames/sequences enumerated by TLC (all distinct by construction, each carries at least one field class); noise frames are counted in evaluations only'
    for x in sel[:3]:
        ctx.sample(dict(kind='abstract-case', case=x['c'], outcome=x['o']))
    if summ['cases'] == 0 and not summ['failures']:
        raise vlib.Inconclusive('driver ran no case')
    # failures: crash / hang / probe
    unrep = []
    for f in summ['failures']:
        if f.get('harness_error'):
            raise vlib.Inconclusive('harness error in the child: %s' % f.get('text', '')[:1500])
        if not f.get('reproduced'):
            unrep.append(f)
            continue
        what = '%s after %d injected sequence(s): %s [%s]' % (
            dict(crash='panic/fatal exit of the real stack', hang='the real stack hung (no answer; goroutine dump taken)',
                 probe='liveness probe of the real stack unanswered',
                 barrier='the real stack is wedged (delivery goroutine / application Read / echo barrier did not return; probes unanswered)').get(f['why'], f['why']),
            f.get('minimal_len', 0), first_line(f.get('text')), code_location(f.get('text')))
        ctx.violation(what, dict(kind='sequence', why=f['why'], text=f.get('text', '')[:6000], minimal=f.get('minimal'),
                                 probes={k: f.get(k) for k in ('echo', 'tcp', 'udp', 'est') if k in f},
                                 how='python3 tools/vcheck C07 --replay <this file>  (injects the recorded bytes into a fresh child, then probes)'),
                      key=classify_failure(f))
    # ---- E3: trace validation (outcome classes, Serving)
    segs = vlib.split_segments(events)
    finish_selftests = start_selftests(ctx, tc, segs, by_id)
    acc, rej = vlib.validate_segments(ctx, 'TraceIngress', tc, SPEC, segs, name='trace', max_reruns=8, timeout=ctx.pick(600, 2400))
    ctx.traces += acc
    nrep = 0
    for si, ln in rej:
        ev = segs[si][ln] if ln < len(segs[si]) else {}
        if ev.get('ev') in ('crash', 'probe'):
            continue  # reported above from the driver's own record (the P-spec has no such behaviour)
        if ev.get('ev') not in ('inject', 'late') or ev.get('id') not in by_id:
            raise vlib.Inconclusive('trace rejected at an unexpected event: %s' % str(ev)[:400])
        case = by_id[ev['id']]
        nrep += 1
        if nrep > 4:
            ctx.extra['outcome_rejections_not_reproduced_for_lack_of_budget'] = ctx.extra.get('outcome_rejections_not_reproduced_for_lack_of_budget', 0) + 1
            continue
        # reproduce on a fresh child with this single case
        s2, ev2 = run_driver(ctx, drv, 'retry%d' % nrep, [case], hex=True)
        a2, r2 = vlib.validate_segments(ctx, 'TraceIngress', tc, SPEC, vlib.split_segments(ev2), name='retry%d' % nrep, count=False)
        if not r2:
            ctx.extra.setdefault('unreproduced_outcome', []).append(ev['id'])
            continue
        inj = next((e for e in ev2 if e.get('ev') == 'inject'), {})
        ctx.violation('frame handled against its outcome class %s: observed %s%s; case %s' % (
            case['o'], sorted(inj.get('obs') or []), ' (+late %s)' % ev.get('cls') if ev.get('ev') == 'late' else '', json.dumps(case['c'])[:600]),
            dict(kind='outcome', case=case, pkts=inj.get('pkts'), observed=inj.get('obs'), event=ev))
    try:
        ctx.extra['binding_selftest'] = finish_selftests(rej)
        tf.join()
        if isinstance(res.get('frag'), BaseException):
            raise res['frag']
        ctx.extra['frag_model'] = res['frag']
    except vlib.Inconclusive as e:
        if not ctx.violations:
            raise
        # a violation of the real code has been established; a side check that cannot run does not take it back
        ctx.extra['side_check_inconclusive'] = str(e)[:500]
    if unrep:
        ctx.extra['unreproduced_failures'] = [dict(why=f.get('why'), text=first_line(f.get('text'))) for f in unrep]
        if not ctx.violations:
            raise vlib.Inconclusive('child failure that did not reproduce on fresh children: %s' % '; '.join(
                '%s: %s' % (f.get('why'), first_line(f.get('text'))) for f in unrep))
    if summ.get('stopped_early'):
        ctx.extra['stopped_early'] = True
        if not ctx.violations and not ctx.known_hits:
            raise vlib.Inconclusive('driver stopped early without a reproduced failure')
    ctx.assumptions += ['pkg/sleep builds only with the verif-tagged assembly (hook H1)',
                        'packet builders and decoders of the harness (harness/wire, harness/ingressd) are independent of protocol/header',
                        'packets enter at stack.NetworkDispatcher.DeliverNetworkPacket (in-memory link); the fd-based link\'s own read loop is not exercised',
                        'probe / barrier deadlines (%s ms) are give-up bounds; a verdict needs reproduction on a fresh child' % os.environ.get('VERIF_C07_WAIT_MS', '20000')]


def replay(ctx, data):
    """Re-inject the recorded bytes of a replay file into a fresh child and probe."""
    drv = ctx.go_build('ingressd')
    rp = data.get('replay', {})
    raw, cases = [], []
    for m in rp.get('minimal') or ([dict(pkts=rp.get('pkts'))] if rp.get('pkts') else []):
        if m.get('c', {}).get('k') in ('press', 'eseq', 'tseq', 'ierr', 'holes'):      # stateful cases are replayed from the abstract case
            cases.append(dict(id=len(cases), c=m['c']))
            continue
        for p in m.get('pkts') or []:
            raw.append(p)
    if not raw and not cases:
        raise vlib.Inconclusive('replay file has no recorded bytes')
    if cases:
        summ, events = run_driver(ctx, drv, 'replay', cases, batch=1, settle_ms=1800)
        for f in summ['failures']:
            ctx.violation('replay: %s %s' % (f.get('why'), first_line(f.get('text'))), dict(kind='replay', text=f.get('text', '')[:4000], cases=cases),
                          key=classify_failure(f))
        ctx.extra['evaluations'] = len(cases)
        ctx.sample(dict(kind='replay', cases=cases))
        return
    summ, events = run_driver(ctx, drv, 'replay', [], raw=raw)
    for f in summ['failures']:
        ctx.violation('replay: %s %s' % (f.get('why'), first_line(f.get('text'))), dict(kind='replay', text=f.get('text', '')[:4000], raw=raw),
                      key=classify_failure(f))
    ctx.extra['replayed_packets'] = len(raw)
    ctx.extra['evaluations'] = len(raw)
    ctx.sample(dict(kind='replay', packets=raw[:2]))
