"""C11 - UDP datagrams arrive whole, unmerged, at most once each, from the right sender.

Spec: spec/sock/Udp.tla (closed model of one socket's receive queue: whole-or-
nothing admission, FIFO, at-most-once, closed read side) and
spec/sock/TraceSock.tla (P-spec as trace validator; shared with C09).
Binding: seeded scenarios through harness/sockd: datagrams of every length
class (0..65507, fragmented in any order) from several senders, buffer
pressure, shutdown, connected sockets, IPv6 / dual-stack; writes of every
size from bound / connected / unbound sockets observed at the link tap.
"""
import copy
import os
import vlib
from vlib import cfg, MV

MANIFEST = dict(
    technique='TLA+ closed model Udp (receive queue; TLC exhaustive) + P-spec TraceSock validating sockets-API results and link-tap observations of the real stack (trace validation with nondeterministic whole-datagram admission)',
    text='TLC explores every interleaving of arrivals from two senders, reads, shutdown and close on the queue model (NoInvent, FIFO, whole-or-nothing, nothing after the read side closed). On the real stack, every datagram a socket returns must equal the head of the queue the P-spec maintains (bytes via length + first/last 48 bytes + RFC 1071 sum, source address and port), a datagram arriving at an empty queue must be admitted, under pressure it may only be dropped whole, and every successful write must be exactly one emitted datagram with exactly those bytes, correct ports/addresses/lengths/checksums; a failed write emits nothing.',
    design='5 C11',
    note='Datagram identity uses (length, first 48, last 48 bytes, Internet checksum of the payload): a corruption confined to the middle that preserves the sum is not seen. A datagram whose UDP length field is smaller than the IP payload is malformed input (C07), not generated here. Concurrent readers vs deliveries are checked for linearizability by TLC (2 injectors x 2 readers x 3 operations per history).')

SPEC = ['sock']
NIC = dict(id=1, mtu=1500, addr4=['10.0.0.1', '10.0.0.2'], addr6=['fd00::1'])
LENS = [0, 1, 2, 3, 7, 8, 9, 63, 64, 65, 127, 128, 129, 255, 256, 511, 512, 1023, 1024, 1471, 1472]
BIG = [1473, 1480, 2000, 2999, 3000, 4096, 8191, 9000, 20000, 65000, 65506, 65507]


def cuts_for(rng, n):
    tot = 8 + n
    k = rng.choice([1, 1, 2, 3, 5, 8, 9, 12, 20])      # up to 21 fragments (more views than the packet's inline view array)
    cs = sorted(set(8 * rng.randrange(1, max(2, (tot + 7) // 8)) for _ in range(k)))
    cs = [c for c in cs if 0 < c < tot]
    order = list(range(len(cs) + 1))
    rng.shuffle(order)
    return cs, order


def inject(rng, v, src, sport, dst, dport, n, frag=False, **kw):
    op = dict(op='inject', kind='udp', v=v, src=src, sport=sport, dst=dst, dport=dport, n=n, seed=rng.randrange(1 << 24), ipid=rng.randrange(1, 65535))
    if frag and v == 4 and n > 8:
        cs, order = cuts_for(rng, n)
        if cs:
            op['cuts'], op['order'] = cs, order
    if rng.random() < 0.3:
        # the frame is longer than the IP packet (link-layer padding, e.g. up to the 46-byte Ethernet minimum): not part of the datagram
        op['pad'] = rng.choice([1, 2, 6, 18, 46 - min(n, 17) - 28 if n < 18 else 4, 300])
    op.update(kw)
    return op


def gen(ctx, n):
    rng = ctx.rng
    out = []
    big = BIG if ctx.thorough() else BIG[:8]
    for i in range(n):
        fam = i % 7
        ops = []
        if fam == 0:      # receive: lengths, two senders, FIFO
            la = rng.choice(['', '10.0.0.1'])
            ops += [dict(op='udp', s=0, v=4), dict(op='bind', s=0, addr=la, port=5000)]
            pend = 0
            for j in range(rng.randrange(4, 12)):
                ln = rng.choice(LENS) if rng.random() < 0.75 else rng.choice(big)
                src, sport = rng.choice([('10.0.0.9', 7), ('10.0.0.8', 7), ('10.0.0.9', 65535), ('10.0.0.8', 1)])
                ops.append(inject(rng, 4, src, sport, '10.0.0.1', 5000, ln, frag=(ln > 1472 or rng.random() < 0.3)))
                pend += 1
                while pend and rng.random() < 0.4:
                    ops.append(dict(op='read', s=0))
                    pend -= 1
            for _ in range(pend + 1):
                ops.append(dict(op='read', s=0))
        elif fam == 1:    # buffer pressure: drops are whole
            ops += [dict(op='udp', s=0, v=4), dict(op='setopt', s=0, opt='rcvbuf', val=rng.choice([1, 64, 100, 500, 1500, 3000])),
                    dict(op='bind', s=0, addr='', port=5000)]
            k = rng.randrange(3, 9)
            if i % 2:
                # a datagram larger than the space that is left (but arriving while the buffer is not yet full): whole or not at all
                # (UDP SetSockOpt ignores the receive buffer size - only GetSockOpt knows it - so the real limit is the default
                # 32 KiB: 23 x 1400 bytes leave 568 bytes of room for the 24th datagram)
                fill = rng.choice([1400, 1401, 1000, 1111])
                for j in range(32768 // fill + 2):
                    ops.append(inject(rng, 4, '10.0.0.9', 7, '10.0.0.1', 5000, fill))
                ops.append(inject(rng, 4, '10.0.0.9', 7, '10.0.0.1', 5000, 7))
                for _ in range(32768 // fill + 3):
                    ops.append(dict(op='read', s=0))
                k += 3
            for j in range(k - (3 if i % 2 else 0)):
                ops.append(inject(rng, 4, '10.0.0.9', 7 + j % 2, '10.0.0.1', 5000, rng.choice([0, 1, 50, 99, 100, 101, 400, 1472])))
            for _ in range(k + 1):
                ops.append(dict(op='read', s=0))
            ops.append(inject(rng, 4, '10.0.0.9', 7, '10.0.0.1', 5000, 10))
            ops.append(dict(op='read', s=0))
            ops.append(dict(op='read', s=0))
        elif fam == 2:    # connected socket, shutdown of the read side
            ops += [dict(op='udp', s=0, v=4), dict(op='bind', s=0, addr='10.0.0.1', port=5000), dict(op='connect', s=0, addr='10.0.0.9', port=7)]
            ops.append(inject(rng, 4, '10.0.0.9', 7, '10.0.0.1', 5000, rng.choice(LENS)))
            ops.append(inject(rng, 4, '10.0.0.8', 7, '10.0.0.1', 5000, 5))      # other peer: not for this socket
            ops.append(inject(rng, 4, '10.0.0.9', 8, '10.0.0.1', 5000, 5))      # other port
            ops.append(dict(op='read', s=0))
            ops.append(dict(op='read', s=0))
            ops.append(inject(rng, 4, '10.0.0.9', 7, '10.0.0.1', 5000, 9))
            ops.append(dict(op='shutdown', s=0, how=rng.choice(['r', 'rw', 'w'])))
            ops.append(inject(rng, 4, '10.0.0.9', 7, '10.0.0.1', 5000, 11))
            ops.append(dict(op='read', s=0))
            ops.append(dict(op='read', s=0))
            ops.append(dict(op='read', s=0))
        elif fam == 3:    # writes: bound / connected / unbound, sizes
            mode = rng.choice(['bound', 'conn', 'unbound', 'boundaddr'])
            ops.append(dict(op='udp', s=0, v=4))
            if mode == 'bound':
                ops.append(dict(op='bind', s=0, addr='', port=5000))
            elif mode == 'boundaddr':
                ops.append(dict(op='bind', s=0, addr='10.0.0.2', port=5000))
            elif mode == 'conn':
                ops.append(dict(op='connect', s=0, addr='10.0.0.9', port=7))
            sizes = LENS + ([1473, 2000, 3000] if ctx.thorough() else [1473]) + ([65000, 65507, 65508, 65527, 65528, 65535, 65536, 70000] if ctx.thorough() or i % 3 == 0 else [])
            for j in range(rng.randrange(2, 7)):
                w = dict(op='write', s=0, n=rng.choice(sizes), seed=rng.randrange(1 << 24))
                if mode != 'conn' or rng.random() < 0.3:
                    w['to'] = dict(addr=rng.choice(['10.0.0.9', '10.0.0.8']), port=rng.choice([7, 9, 65535]))
                ops.append(w)
        elif fam == 4:    # ipv6 receive and send; dual-stack socket receiving v4
            v6only = rng.random() < 0.4
            ops.append(dict(op='udp', s=0, v=6))
            if v6only:
                ops.append(dict(op='setopt', s=0, opt='v6only', val=1))
            ops.append(dict(op='bind', s=0, addr='', port=5000))
            for j in range(rng.randrange(3, 8)):
                if rng.random() < 0.5:
                    ops.append(inject(rng, 6, 'fd00::9', 7, 'fd00::1', 5000, rng.choice(LENS[:-2])))
                else:
                    ops.append(inject(rng, 4, '10.0.0.9', 7, '10.0.0.1', 5000, rng.choice(LENS)))
                if rng.random() < 0.5:
                    ops.append(dict(op='read', s=0))
            for _ in range(8):
                ops.append(dict(op='read', s=0))
            ops.append(dict(op='write', s=0, n=rng.choice(LENS[:-2] + ([65527, 65528] if ctx.thorough() else [])), seed=rng.randrange(1 << 24), to=dict(addr='fd00::9', port=7)))
        elif fam == 5:    # two sockets, interleaved arrivals, drain all
            ops += [dict(op='udp', s=0, v=4), dict(op='udp', s=1, v=4), dict(op='bind', s=0, addr='', port=5000), dict(op='bind', s=1, addr='10.0.0.2', port=5001)]
            for j in range(rng.randrange(4, 10)):
                dst, dport = rng.choice([('10.0.0.1', 5000), ('10.0.0.2', 5000), ('10.0.0.2', 5001), ('10.0.0.1', 5001)])
                ops.append(inject(rng, 4, rng.choice(['10.0.0.9', '10.0.0.8']), 7, dst, dport, rng.choice(LENS), frag=rng.random() < 0.3))
            ops.append(dict(op='readall'))
            ops.append(dict(op='readall'))
        else:             # malformed length field (larger than the datagram): dropped; close then arrivals
            ops += [dict(op='udp', s=0, v=4), dict(op='bind', s=0, addr='', port=5000)]
            ops.append(inject(rng, 4, '10.0.0.9', 7, '10.0.0.1', 5000, 20, forcelen=8 + 20 + rng.choice([1, 2, 100])))
            ops.append(dict(op='read', s=0))
            ops.append(inject(rng, 4, '10.0.0.9', 7, '10.0.0.1', 5000, 20))
            ops.append(inject(rng, 4, '10.0.0.9', 7, '10.0.0.1', 5000, 21))
            ops.append(dict(op='read', s=0))
            ops.append(dict(op='close', s=0))
            ops.append(dict(op='udp', s=1, v=4))
            ops.append(dict(op='bind', s=1, addr='', port=5000))
            ops.append(dict(op='read', s=1))
            ops.append(inject(rng, 4, '10.0.0.9', 7, '10.0.0.1', 5000, 22))
            ops.append(dict(op='read', s=1))
            ops.append(dict(op='read', s=1))
        out.append(dict(nics=[NIC], ops=ops))
    # fragmented datagrams of several senders that use the SAME IP identification, interleaved fragment by fragment: each
    # datagram comes out whole, unmerged, once, with its true sender (sockd op `fragmix`)
    srcs = ['10.0.0.9', '10.0.0.8', '10.0.1.9', '11.0.0.9', '10.0.0.137']
    for i in range(max(6, n // 12)):
        ipid = rng.randrange(1, 65535)
        dgs = []
        for k, src in enumerate(rng.sample(srcs, rng.choice([2, 2, 3]))):
            nb = rng.choice([24, 41, 64, 100, 333])
            tot = 8 + nb
            cuts = sorted(set(8 * rng.randrange(1, max(2, (tot + 7) // 8)) for _ in range(rng.choice([1, 2, 3]))))
            dgs.append(dict(src=src, sport=7 + (k if i % 2 else 0), dst='10.0.0.1', dport=5000, ipid=ipid, n=nb, seed=rng.randrange(1 << 24),
                            cuts=[c for c in cuts if 0 < c < tot] or [8]))
        order = [[k, j] for k, d in enumerate(dgs) for j in range(len(d['cuts']) + 1)]
        rng.shuffle(order)
        out.append(dict(nics=[NIC], ops=[dict(op='udp', s=0, v=4), dict(op='bind', s=0, addr='', port=5000),
                                        dict(op='fragmix', dgrams=dgs, order=order), dict(op='readall'), dict(op='readall')]))
    # always: writes around the 16-bit length limits (F3 territory), v4 and v6
    ops = [dict(op='udp', s=0, v=4), dict(op='bind', s=0, addr='', port=5000), dict(op='udp', s=1, v=6), dict(op='bind', s=1, addr='', port=5001)]
    for nbytes in (65506, 65507, 65508, 65535, 65536):
        ops.append(dict(op='write', s=0, n=nbytes, seed=nbytes, to=dict(addr='10.0.0.9', port=7)))
    for nbytes in (65527, 65528, 65535):
        ops.append(dict(op='write', s=1, n=nbytes, seed=nbytes, to=dict(addr='fd00::9', port=7)))
    # a dual-stack IPv6 socket writing to a v4-mapped destination sends over IPv4: the IPv4 limit applies
    for nbytes in (100, 65506, 65507, 65508, 65527, 65528):
        ops.append(dict(op='write', s=1, n=nbytes, seed=nbytes, to=dict(addr='::ffff:10.0.0.9', port=7)))
    ops += [dict(op='udp', s=2, v=6), dict(op='connect', s=2, addr='::ffff:10.0.0.8', port=9)]
    for nbytes in (7, 65507, 65508, 65520):
        ops.append(dict(op='write', s=2, n=nbytes, seed=nbytes))
    out.append(dict(nics=[NIC], ops=ops))
    return out


def classify(seg, ln):
    """Known-finding shapes."""
    ev = seg[ln] if ln < len(seg) else {}
    if ev.get('op') == 'write' and ev.get('err') == '':
        n = ev.get('pay', {}).get('n', 0)
        v6 = ':' in str(ev.get('to', {}).get('addr', '')) or len(str(ev.get('to', {}).get('addr', '')).split('.')) == 16
        limit = 65527 if v6 else 65507
        if n > limit:
            return 'F3'
    return None


def run(ctx):
    drv = ctx.go_build('sockd')
    # ---- E1: queue model
    c = cfg(constants=dict(MaxArr=ctx.pick(4, 5), Cap=3), invariants=['NoInvent', 'Fifo', 'ClosedEmpty', 'TypeOK'])
    r = ctx.tlc('Udp', c, SPEC, name='Udp', coverage=True, must_pass=True)
    z = ctx.zero_coverage(r)
    if z:
        raise vlib.Inconclusive('vacuity: %s' % z)
    # ---- E3
    n = ctx.pick(140, 2100)
    scs = gen(ctx, n)
    segs = vlib.run_scenarios(ctx, drv, scs, 'c11', what='the stack (UDP sockets / packet injection)')
    n = len(scs)
    if len(segs) != n:
        raise vlib.Inconclusive('driver produced %d segments for %d scenarios' % (len(segs), n))
    nread = sum(1 for s in segs for e in s if e.get('op') == 'read' and e.get('ok'))
    nemit = sum(1 for s in segs for e in s if e['ev'] == 'emit' and e.get('kind') == 'udp')
    ctx.extra.update(scenarios=n, datagrams_read=nread, datagrams_emitted=nemit)
    if nread == 0 or nemit == 0:
        raise vlib.Inconclusive('dead driver: no datagram read or emitted')
    tc = cfg(spec='TSpec', constraint='HWMark', postcondition='Accepted')
    acc, rej = vlib.validate_segments(ctx, 'TraceSock', tc, SPEC, segs, name='trace', timeout=3000, max_reruns=10)
    ctx.traces += acc
    ctx.sample(dict(kind='scenario', ops=scs[0]['ops'][:8]))
    ctx.sample(dict(kind='trace', events=[{k: v for k, v in e.items() if k != 'pay'} for e in segs[0][:8]]))
    for si, ln in rej:
        ev = segs[si][ln] if ln < len(segs[si]) else {}
        key = classify(segs[si], ln)
        ctx.violation('UDP behaviour rejected by the C11 P-spec at event %d: %s' % (ln, {k: v for k, v in ev.items() if k not in ('pay', 'raw', 'got')}),
                      dict(kind='scenario', scenario=scs[si], events=segs[si][:ln + 1]), key=key)
    # ---- E4: injector goroutines racing reader goroutines on one socket; TLC places the linearization points
    rd = ctx.go_build('udpraced')
    rp = os.path.join(ctx.work, 'udprace.ndjson')
    hists = ctx.pick(60, 600)
    ctx.run([rd, 'run', rp, str(ctx.seed), str(hists), '2', '2', '3'], timeout=1200)
    rsegs = vlib.split_segments(vlib.read_ndjson(rp))
    lc = cfg(spec='TSpec', constraint='HWMark', postcondition='Accepted')
    acc, rej = vlib.validate_segments(ctx, 'TraceUdpLin', lc, SPEC, rsegs, name='udplin', timeout=3000)
    ctx.traces += acc
    ctx.extra['concurrent_histories'] = len(rsegs)
    overlap = sum(1 for sg in rsegs if any(sg[i]['ev'] == 'call' and sg[i + 1]['ev'] == 'call' for i in range(len(sg) - 1)))
    ctx.extra['concurrent_histories_with_overlapping_calls'] = overlap
    ctx.sample(dict(kind='concurrent-history', events=rsegs[0][:12]))
    for si, ln in rej:
        ctx.violation('concurrent deliveries/reads on one UDP socket are not linearizable w.r.t. the C11 queue P-spec (event %d)' % ln,
                      dict(kind='udprace', seed=ctx.seed, history=si, events=rsegs[si][:ln + 1]))
    badh = copy.deepcopy(next(sg for sg in rsegs if any(e['ev'] == 'ret' and e.get('ok') for e in sg)))
    for e in badh:
        if e['ev'] == 'ret' and e.get('ok'):
            e['sum'] = (e['sum'] + 1) % 65536
            break
    a, rj = vlib.validate_segments(ctx, 'TraceUdpLin', lc, SPEC, [badh], name='selftest-lin', count=False)
    if not rj:
        raise vlib.Inconclusive('binding self-test failed: corrupted concurrent history accepted')
    # ---- binding self-test: swap the sender port of one returned datagram; drop one emit
    base = next((s for s in segs if any(e.get('op') == 'read' and e.get('ok') for e in s)), None)
    bad = copy.deepcopy(base)
    for e in bad:
        if e.get('op') == 'read' and e.get('ok'):
            e['sport'] = (e['sport'] + 1) % 65536
            break
    base2 = next((s for s in segs if any(e['ev'] == 'emit' and e.get('kind') == 'udp' for e in s)), None)
    bad2 = copy.deepcopy(base2)
    for i, e in enumerate(bad2):
        if e['ev'] == 'emit' and e.get('kind') == 'udp':
            del bad2[i]
            break
    for nm, b in (('corrupt', bad), ('drop', bad2)):
        a, rj = vlib.validate_segments(ctx, 'TraceSock', tc, SPEC, [b], name='selftest-' + nm, count=False)
        if not rj:
            raise vlib.Inconclusive('binding self-test failed: %s trace accepted' % nm)
    ctx.extra['binding_selftest'] = 'wrong sender port and missing emitted datagram rejected'
    ctx.assumptions += ['hook H1 (pkg/sleep assembly)', 'harness codecs independent of protocol/header']
