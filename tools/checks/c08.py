"""C08 - IPv4 reassembly returns exactly the original datagram.

Spec: spec/frag (FragProp = P-spec; Frag = closed model: I-spec of the
fragmentation package, three critical sections per Process call, with the
P-spec evaluated at every return; TraceFrag = P-spec as trace validator in
byte units, incl. linearizability for concurrent callers).
Binding (driver harness/fragd, exported API of fragmentation.Fragmentation):
  graph   every transition of the single-caller TLC graph replayed with real
          bytes in five block->byte variants (1 B, 8 B, 8 B / 24 B multi-view with a
          caller that recycles its view slice like link/fdbased, 8 B with a short
          final block); P-expectation from the model state.  Every history family
          below runs half of its histories with the recycling caller.
  seq     seeded sequential histories (several keys, duplicates, overlaps,
          inconsistent sets) validated by TLC against TraceFrag
  long    datagrams of 16..40 8-byte fragments (the hole list outgrows its initial capacity of 16): skip-ahead
          arrivals with duplicate / overlapping re-sends at every position, tail withheld; validated by TraceFrag
  gate    2 callers under the gate scheduler (hook H7): complete interleaving
          graph of the real code compared with the TLC graph of the same
          scenario; every real transition validated at P-level by TLC
  race    4 free-running goroutines, histories linearized by TLC
  timeout 400 ms reassembly timeout, timed arrivals (every gap < T, first-to-last > T; one long gap; all fast);
          the harness clock before/after each call is logged and TLC derives the ages (TraceFrag mode "timed")
"""
import copy
import json
import os
import vlib
from vlib import cfg, MV

MANIFEST = dict(
    technique='TLA+ closed model Frag (I-spec of the hole list / heap / reassembler map / LRU / memory limits / ageing, '
              'Process as three critical sections per caller) model-checked exhaustively by TLC against the P-spec FragProp; '
              'every transition of the single-caller TLC graph replayed into the real fragmentation.Process with real bytes '
              '(4 block-to-byte variants incl. multi-view); real 2-caller interleaving graph under a gate scheduler (hook H7) '
              'compared with the TLC graph and validated at P-level; seeded sequential, free-running concurrent and '
              'timeout histories validated / linearized by TLC against the trace spec TraceFrag',
    text='TLC explores every sequence of arbitrary (also inconsistent) fragments within the bounds, for one and two keys, '
         'with memory limits and ageing, and for two concurrent callers through the three critical sections of Process, and '
         'checks NoCrash, DeliverOnlyComplete/Incomplete, ExactPayload, DeliversWhenComplete, NeverMixed and Timeout. The real '
         'code is bound to the same specification: each transition of the single-caller graph is executed on '
         'fragmentation.Fragmentation and (done, payload bytes) must be what the P-spec demands; the complete 2-caller '
         'interleaving graph of the real code equals the model graph and each of its transitions, plus seeded sequential, '
         'racing-goroutine and real-clock timeout histories, is accepted by TLC as a behaviour of the P-spec.',
    design='5 C08',
    note='Exported API of the fragmentation package only (the IPv4 injection through a whole stack, which also covers how '
         'ipv4.HandlePacket computes first/last/more and the key hash, is part of the stack-level checks). Bounds: quick NB=4 '
         'blocks x 4 arrivals exhaustive, graph replay NB=3 x 4 arrivals + 2 keys with memory limits; thorough NB=5 x 5 '
         'arrivals, 2 keys with limits (high=3, low=2 blocks) and ageing, 2 callers x 2 keys, graph replay NB=4 x 4. The '
         'combination "NB=5, 2 keys, limits, ageing, 2 callers" in one run is beyond 5 M states and is split into five runs. '
         'Fragment-hash collisions (2^-32) are out of scope. The 1-byte-block variant exercises first/last values that '
         'ipv4 never produces (offsets are multiples of 8) but that the exported API accepts. Under concurrent callers the '
         'memory counter of the real code can leak (observed, reported in the evidence, not a P-level clause).')

SPEC = ['frag']
ALL = ['NoCrash', 'DeliverOnlyComplete', 'Incomplete', 'ExactPayload', 'DeliversWhenComplete', 'NeverMixed', 'TimeoutOK',
       'Stored', 'SizeExact', 'LruExact']
SAFE = ['NoCrash', 'DeliverOnlyComplete', 'Incomplete', 'ExactPayload', 'NeverMixed', 'TimeoutOK', 'Stored', 'LruExact']
TC = cfg(spec='TSpec', constraint='HWMark', postcondition='Accepted')

# recycle: the caller reuses one []buffer.View slice for every call and nils its slots afterwards, exactly as the
# fdbased link endpoint does with the frames it hands up (the byte arrays themselves are fresh per frame)
VARIANTS = [dict(name='x1', scale=1, icompare=True), dict(name='x8', scale=8, icompare=True),
            dict(name='x8r', scale=8, recycle=True), dict(name='x24v4r', scale=24, views=4, recycle=True),
            dict(name='x8tail3', scale=8, views=2, tail=3)]
VARIANTS_MEM = [dict(name='x1', scale=1, icompare=True), dict(name='x8', scale=8, icompare=True),
                dict(name='x24v4r', scale=24, views=4, recycle=True)]


def consts(nb, maxarr, keys=1, callers=1, high=99, low=99, timeout=99, maxtick=0, fixd1=True, fixd3=True,
           atomic=True, scripts='<- NoScript'):
    return dict(NB=nb, MaxArr=maxarr, Keys=MV('{%s}' % ', '.join(str(i) for i in range(1, keys + 1))),
                Callers=MV('{%s}' % ', '.join(str(i) for i in range(1, callers + 1))),
                High=high, Low=low, Timeout=timeout, MaxTick=maxtick, FixD1=fixd1, FixD3=fixd3, Atomic=atomic,
                Scripts=scripts)


# ------------------------------------------------------------------ P-level helpers (classification only)
def consistent(frs):
    lasts = [f for f in frs if not f['more']]
    if any(g['last'] != h['last'] for g in lasts for h in lasts):
        return False
    return all(g['last'] <= h['last'] and (not g['more'] or g['last'] < h['last']) for g in frs for h in lasts)


def classify_panic(seg, idx):
    """seg[idx] is a panic event.  D1: the fragments of that key so far are an
    inconsistent set.  D3: consistent, and another call on the same key was
    pending while this call was (the racing-duplicate shape)."""
    g = seg[idx].get('g')
    ci = max(i for i in range(idx) if seg[i].get('ev') == 'call' and seg[i].get('g') == g)
    k = seg[ci]['k']
    frs = [e for e in seg[:idx] if e.get('ev') == 'call' and e['k'] == k]
    if not consistent(frs):
        return 'D1'
    pending = {}
    overl = False
    for i, e in enumerate(seg[:idx]):
        if e.get('ev') == 'call':
            pending[e['g']] = e['k']
        elif e.get('ev') in ('ret', 'panic', 'badsize'):
            pending.pop(e['g'], None)
        if i >= ci and any(gg != g and kk == k for gg, kk in pending.items()):
            overl = True
    return 'D3' if overl else None


def brief(seg, n=40):
    out = []
    for e in seg[:n]:
        e = dict(e)
        if 'bytes' in e:
            e['bytes'] = e['bytes'][:4] + (['...'] if len(e['bytes']) > 4 else [])
        if 'payload' in e and len(e['payload']) > 12:
            e['payload'] = e['payload'][:12] + ['... %d bytes' % len(e['payload'])]
        out.append(e)
    return out


# ------------------------------------------------------------------ sections
def e1(ctx):
    """Exhaustive TLC runs on the closed model."""
    if not ctx.thorough():
        ctx.tlc('Frag', cfg(constants=consts(4, 4), invariants=ALL), SPEC, name='E1-1key-NB4x4', must_pass=True)
        r = ctx.tlc('Frag', cfg(constants=consts(2, 3, keys=1, callers=2, high=3, low=2, timeout=0, maxtick=1, atomic=False),
                                invariants=SAFE), SPEC, name='E1-2callers-small', must_pass=True, coverage=True,
                    workers=min(ctx.workers, 4))
    else:
        ctx.tlc('Frag', cfg(constants=consts(5, 5), invariants=ALL), SPEC, name='E1-1key-NB5x5', must_pass=True, timeout=3000)
        ctx.tlc('Frag', cfg(constants=consts(3, 4, keys=2, high=3, low=2), invariants=ALL), SPEC,
                name='E1-2keys-limits-NB3x4', must_pass=True, timeout=3000)
        ctx.tlc('Frag', cfg(constants=consts(2, 5, keys=2, high=3, low=2, timeout=1, maxtick=2), invariants=ALL), SPEC,
                name='E1-2keys-limits-ageing-NB2x5', must_pass=True, timeout=3000)
        ctx.tlc('Frag', cfg(constants=consts(3, 4, keys=2, callers=2, atomic=False), invariants=SAFE), SPEC,
                name='E1-2callers-2keys-NB3x4', must_pass=True, timeout=3000)
        r = ctx.tlc('Frag', cfg(constants=consts(2, 4, keys=2, callers=2, high=3, low=2, timeout=0, maxtick=1, atomic=False),
                                invariants=SAFE), SPEC, name='E1-2callers-limits-ageing-NB2x4', must_pass=True,
                    coverage=True, timeout=3000)
    z = ctx.zero_coverage(r, ignore=('Arrive', 'Init'))
    need = {'Lookup', 'Work', 'Account', 'Tick'}
    if z or not need <= set(r.cov):
        raise vlib.Inconclusive('vacuity: actions never taken in the concurrent model: %s (seen %s)' % (z, sorted(r.cov)))
    if ctx.thorough():
        # spec sensitivity self-tests: the shapes before the fix: commits must be refuted by TLC
        r1 = ctx.tlc('Frag', cfg(constants=consts(3, 3, fixd1=False), invariants=['NoCrash']), SPEC, name='selftest-model-D1', count=False)
        r3 = ctx.tlc('Frag', cfg(constants=consts(2, 3, callers=2, fixd3=False, atomic=False), invariants=['NoCrash']), SPEC,
                     name='selftest-model-D3', count=False)
        if r1.ok or r3.ok:
            raise vlib.Inconclusive('model self-test: pre-fix shapes D1/D3 were expected to violate NoCrash (%s, %s)' % (r1.ok, r3.ok))
        ctx.extra['model_selftest'] = 'pre-fix D1 shape: NoCrash violated in %d states; pre-fix D3 shape: in %d states' % (r1.distinct, r3.distinct)


def graph_replay(ctx, drv, name, c, variants, high=99, low=99, nkeys=1):
    r = ctx.tlc('Frag', cfg(constants=c, invariants=ALL), SPEC, name=name, dump_dot=True, must_pass=True, timeout=3000,
                workers=min(ctx.workers, 4))
    script, stats = vlib.graph_script(ctx, r, extra=dict(variants=variants, high=high, low=low, nkeys=nkeys, inf=c['NB'] + 2))
    # the driver needs only the P-expectation and the I-level projection of each state
    for sid, st in script['states'].items():
        script['states'][sid] = {k: st[k] for k in ('exp', 'obj', 'lru', 'fsize')}
    sp = os.path.join(ctx.work, name + '.json')
    vlib.write_json(sp, script)
    out = ctx.run([drv, 'graph', sp], timeout=3000)
    res = json.loads(out.stdout)
    if stats['replayed_transition_fraction'] < 1.0:
        raise vlib.Inconclusive('graph %s: only %s of the transitions covered' % (name, stats['replayed_transition_fraction']))
    ctx.extra.setdefault('graphs', {})[name] = dict(stats, calls=res['extra']['calls'], delivered=res['extra']['delivered'],
                                                  panics=res['extra']['panics'], variants=[v['name'] for v in variants])
    ctx.extra['replayed_transition_fraction'] = stats['replayed_transition_fraction']
    ctx.extra['crash_on_inconsistent'] = ctx.extra.get('crash_on_inconsistent', 0) + res['extra']['crash_on_inconsistent']
    ctx.traces += res['paths'] - len(set(mm['path'] for mm in res['mismatches'] if mm['kind'] != 'drift'))
    for s in (res['extra'].get('samples') or [])[:1]:
        steps = [[st['a']] + st['args'] for st in script['paths'][s['path']]]
        ctx.sample(dict(kind='graph-path', graph=name, variant=s['variant'], steps=steps, payload=s['payload']))
    seen = set()
    for mm in res['mismatches']:
        tag = (mm['path'], mm['kind'], mm['what'])
        if tag in seen:
            continue
        seen.add(tag)
        steps = [[s['a']] + s['args'] for s in script['paths'][mm['path']][:mm['step'] + 1]]
        if mm['kind'] == 'drift':
            ctx.model_drift('%s path %d step %d: %s want=%s got=%s' % (name, mm['path'], mm['step'], mm['what'], mm.get('want'), mm.get('got')))
            continue
        key = 'D1' if mm['what'] == 'crash_on_inconsistent' else None
        ctx.violation('fragmentation.Process: %s (graph %s, step %d, %s; want %s)' % (mm['what'], name, mm['step'], mm.get('got'), mm.get('want')),
                      dict(kind='graph', graph=name, nb=c['NB'], maxarr=c['MaxArr'], nkeys=nkeys, high=high, low=low,
                           steps=steps, mismatch=mm), key=key)
    if res['extra']['delivered'] == 0 and not ctx.violations:
        raise vlib.Inconclusive('graph %s: no path delivered a datagram (vacuous replay)' % name)


def trace_mode(ctx, drv, kind, args):
    """Run a history-producing driver mode; returns the histories (validated later, all kinds in one TLC start)."""
    tp = os.path.join(ctx.work, kind + '.ndjson')
    ctx.run([drv, kind, tp] + [str(a) for a in args], timeout=3000)
    segs = vlib.split_segments(vlib.read_ndjson(tp))
    ctx.extra[kind + '_histories'] = len(segs)
    deliveries = sum(1 for s in segs for e in s if e.get('ev') == 'ret' and e.get('done'))
    ctx.extra[kind + '_deliveries'] = deliveries
    if deliveries == 0 and not ctx.violations and not any(e.get('ev') == 'panic' for s in segs for e in s):
        raise vlib.Inconclusive('%s histories delivered nothing (vacuous)' % kind)
    ctx.sample(dict(kind=kind + '-history', events=brief(segs[0], 10)))
    return [dict(kind=kind, seg=s, info=dict(args=[str(a) for a in args])) for s in segs]


def validate_all(ctx, items):
    segs = [it['seg'] for it in items]
    acc, rej = vlib.validate_segments(ctx, 'TraceFrag', TC, SPEC, segs, name='histories', max_reruns=8, timeout=3000)
    ctx.traces += acc
    for si, ln in rej:
        it = items[si]
        seg = it['seg']
        ev = seg[ln] if ln < len(seg) else {}
        key = None
        what = '%s history rejected by the C08 P-spec at event %d: %s' % (it['kind'], ln, brief([ev])[0] if ev else '?')
        if ev.get('ev') == 'panic':
            key = classify_panic(seg, ln)
            what = '%s: Process panicked (%s) [%s]' % (it['kind'], ev.get('panic'), key or 'consistent fragment sequence')
            if key == 'D1':
                ctx.extra['crash_on_inconsistent'] = ctx.extra.get('crash_on_inconsistent', 0) + 1
        elif seg[0].get('mode') == 'timed' and ev.get('ev') == 'ret' and ev.get('done') and ln >= 1:
            calls = [e for e in seg[:ln] if e.get('ev') == 'call']
            ages = [calls[-1]['t0'] - h['t1'] for h in calls[:-1]]
            what = ('timeout history (%s): a datagram was handed up although it is complete only together with fragments received at least '
                    '%s ms before the last one (reassembly timeout %d ms): fragments older than the timeout were combined with a newer one; payload %s'
                    % (seg[0].get('shape'), sorted(a for a in ages if a > seg[0]['timeout_ms']), seg[0]['timeout_ms'], brief([ev])[0]['payload']))
        ctx.violation(what, dict(kind=it['kind'], events=seg[:ln + 1], **it['info']), key=key)


# ---- gate scenarios: per caller a list of (k, first, last, more)
SCENARIOS = [
    ('dup-races-completion', [[(1, 0, 0, True), (1, 1, 1, False)], [(1, 1, 1, False), (1, 0, 0, True)]]),
    ('two-keys', [[(1, 0, 0, True), (2, 1, 1, False), (1, 1, 1, False)], [(2, 0, 0, True), (1, 0, 1, False)]]),
    ('overlap-and-single', [[(1, 0, 1, True), (1, 2, 2, False)], [(1, 1, 2, False), (1, 0, 0, False)]]),
    ('three-blocks-out-of-order', [[(1, 2, 2, False), (1, 0, 0, True)], [(1, 1, 1, True), (1, 1, 1, True), (1, 0, 0, True)]]),
    ('inconsistent-two-lasts', [[(1, 2, 2, False), (1, 1, 1, True)], [(1, 0, 0, False), (1, 0, 2, False)]]),
    ('same-single-fragment', [[(1, 0, 0, False), (1, 0, 0, False)], [(1, 0, 0, False), (2, 0, 1, False)]]),
]


def random_scenario(rng):
    nk = rng.choice([1, 1, 2])
    frs = []
    for k in range(1, nk + 1):
        d = rng.randint(1, 3)
        b = 0
        while b < d:
            e = rng.randint(b, d - 1)
            frs.append((k, b, e, e < d - 1))
            b = e + 1
    frs += [rng.choice(frs) for _ in range(rng.randint(1, 2))]
    if rng.random() < 0.3:
        a = rng.randint(0, 2)
        frs.append((1, a, rng.randint(a, 2), rng.random() < 0.5))
    rng.shuffle(frs)
    frs = frs[:6]
    cut = max(1, min(len(frs) - 1, len(frs) // 2))
    return [frs[:cut], frs[cut:]] if len(frs) > 1 else [frs, [frs[0]]]


def tla_script(callers):
    def fr(t):
        return '[k |-> %d, f |-> [first |-> %d, last |-> %d, more |-> %s]]' % (t[0], t[1], t[2], 'TRUE' if t[3] else 'FALSE')
    return '<< ' + ', '.join('<< ' + ', '.join(fr(t) for t in c) + ' >>' for c in callers) + ' >>'


def model_key(st, sc):
    s = 'fsize=%d lru=[%s]' % (st['fsize'] * sc, ''.join('%d ' % k for k in st['lru']))
    for i, o in enumerate(st['obj']):
        if not o['live']:
            continue
        holes = ''.join('(%d,%d,%s)' % (h['first'] * sc, 65535 if h['last'] == st['_inf'] else (h['last'] + 1) * sc - 1,
                                        'true' if h['del'] else 'false') for h in o['holes'])
        hp = sorted((h['off'] * sc, h['len'] * sc) for h in o['heap'])
        s += ' k%d{holes=%s del=%d heap=[%s] size=%d}' % (i + 1, holes, o['del'], ' '.join('[%d %d]' % h for h in hp), o['size'] * sc)
    ws = []
    for c in range(len(st['pc'])):
        cu = st['cur'][c]
        idle = st['pc'][c] == 'idle'
        ws.append('%s/%d/%s/%d/%s' % (st['pc'][c], st['pos'][c], 'true' if (cu['stale'] and not idle) else 'false',
                                      0 if idle else cu['consumed'] * sc, 'true' if (cu['rel'] and not idle) else 'false'))
    return s + '|[' + ' '.join(ws) + ']'


def model_label(lab):
    a, args = vlib.tlaval.parse_action(lab)
    return ('StartP(%d)' if a == 'Lookup' else 'Step(%d)') % (int(args[0]) - 1)


def gate(ctx, drv):
    scen = list(SCENARIOS[:3]) if not ctx.thorough() else list(SCENARIOS)
    for i in range(ctx.pick(1, 10)):
        scen.append(('seeded-%d' % i, random_scenario(ctx.rng)))
    sc = 8
    nb = max(t[2] for _n, cs in scen for c in cs for t in c) + 1
    nk = max(t[0] for _n, cs in scen for c in cs for t in c)
    # one TLC run: the model graphs of all scenarios (the scenario is chosen in Init)
    mc = '---- MODULE MCFragS ----\nEXTENDS Frag\nScriptDef == << %s >>\n====\n' % ',\n   '.join(tla_script(cs) for _n, cs in scen)
    c = consts(nb, 99, keys=nk, callers=2, atomic=False, scripts='<- ScriptDef')
    r = ctx.tlc('MCFragS', cfg(constants=c, invariants=SAFE), SPEC, name='gate-model', files={'MCFragS.tla': mc},
                dump_dot=True, must_pass=True, timeout=3000, workers=2)
    nodes, edges, _init = vlib.tlaval.parse_dot(os.path.join(r.dir, 'graph.dot'))
    mk, msn = {}, {}
    for nid, t in nodes.items():
        st = vlib.tlaval.parse_state(t)
        st['_inf'] = nb + 2
        mk[nid] = model_key(st, sc)
        msn[nid] = st['sn']
    items = []
    stats = {}
    leak = 0
    for si, (name, callers) in enumerate(scen):
        medges = set((mk[s], model_label(lab), mk[d]) for s, d, lab in edges if msn[s] == si + 1)
        # complete interleaving graph of the real code
        sp = os.path.join(ctx.work, 'scenario-%s.json' % name)
        vlib.write_json(sp, dict(callers=[[dict(k=t[0], first=t[1], last=t[2], more=t[3]) for t in c_] for c_ in callers],
                                 variant=dict(name='x8', scale=sc, recycle=bool(si % 2)), max_states=200000))
        g = json.loads(ctx.run([drv, 'gate', sp], timeout=3000).stdout)
        if g.get('nondeterminism'):
            raise vlib.Inconclusive('real code not deterministic under the gate scheduler (%s): %s' % (name, g['nondeterminism'][:2]))
        if g.get('truncated'):
            raise vlib.Inconclusive('real-code exploration truncated (%s)' % name)
        redges = set((e['src'], e['label'], e['dst']) for e in g['edges'])
        cmp_ = vlib.compare_graphs(medges, redges)
        stats[name] = dict(real_states=len(g['states']), real_edges=len(g['edges']), model_edges=cmp_['model_edges'],
                           common=cmp_['common'], model_only=cmp_['n_model_only'], real_only=cmp_['n_real_only'], runs=g['runs'])
        panicked = any(ev.get('ev') == 'panic' for e in g['edges'] for ev in (e['events'] or []))
        if (cmp_['n_model_only'] or cmp_['n_real_only']) and not panicked:
            ctx.model_drift('gate scenario %s: real interleaving graph differs from the I-spec graph: model-only %s real-only %s' % (
                name, cmp_['model_only'][:1], cmp_['real_only'][:1]))
        leak += sum(1 for s_ in g['states'].values() if all(w.startswith('idle') for w in s_['w']) and s_['fsize'] != s_['sum_sizes'])
        bad = [k for k, s_ in g['states'].items() if s_['inmap'] != s_['inlist']]
        if bad:
            ctx.model_drift('gate scenario %s: reassemblers map and LRU list disagree in %d states' % (name, len(bad)))
        paths, ncov, ne = vlib.real_graph_paths(g, rng=ctx.rng)
        if ncov != ne:
            raise vlib.Inconclusive('gate scenario %s: %d of %d real transitions covered' % (name, ncov, ne))
        for k, p in enumerate(paths):
            seg = [dict(ev='reset', mode='strict', scenario=name, path=k)]
            for e in p:
                seg.extend(e['events'] or [])
            items.append(dict(kind='gate', seg=seg, info=dict(scenario=name, callers=callers, recycle=bool(si % 2), moves=[e['move'] for e in p])))
    ctx.extra['gate'] = stats
    ctx.extra['gate_ptraces'] = len(items)
    ctx.extra['accounting_leak_quiescent_states'] = leak
    ctx.sample(dict(kind='gate-path', scenario=items[0]['info']['scenario'], moves=items[0]['info']['moves'][:12],
                    events=brief(items[0]['seg'], 8)))
    return items


def selftest(ctx, segs, timed=None):
    """Binding self-test: corrupted / event-dropped histories must be rejected."""
    base = None
    for s in segs:
        if s[0].get('inconsistent'):
            continue
        if any(e.get('ev') == 'ret' and e.get('done') and len(e['payload']) > 1 for e in s):
            base = s
            break
    if base is None:
        if ctx.violations:
            return
        raise vlib.Inconclusive('binding self-test: no history with a delivery')
    tests = {}
    b1 = copy.deepcopy(base)                       # one payload byte flipped
    for e in b1:
        if e.get('ev') == 'ret' and e.get('done'):
            e['payload'][len(e['payload']) // 2] ^= 1
            break
    tests['payload-byte'] = b1
    b2 = copy.deepcopy(base)                       # delivery reported one call early (thorough tier)
    idx = [i for i, e in enumerate(b2) if e.get('ev') == 'ret']
    di = [i for i in idx if b2[i].get('done')][0]
    prev = [i for i in idx if i < di]
    if prev:
        b2[prev[-1]], b2[di] = dict(b2[di], g=b2[prev[-1]]['g']), dict(b2[prev[-1]], g=b2[di]['g'])
        tests['early-delivery'] = b2
    b3 = copy.deepcopy(base)                       # the completing call dropped from the log
    ci = max(i for i in range(di) if b3[i].get('ev') == 'call' and b3[i]['g'] == b3[di]['g'])
    del b3[ci]
    tests['dropped-call'] = b3
    b4 = copy.deepcopy(base)                       # a delivery swallowed
    b4[di] = dict(b4[di], done=False, payload=[])
    tests['missing-delivery'] = b4
    if not ctx.thorough():
        tests = {k: tests[k] for k in ('payload-byte',)}
    if timed:
        # a delivered "fast" history with the completing call moved 2 T into the future: its fragments are now too old
        for s_ in timed:
            di_ = [i for i, e in enumerate(s_) if e.get('ev') == 'ret' and e.get('done')]
            if s_[0].get('shape') == 'fast' and di_:
                b5 = copy.deepcopy(s_[:di_[0] + 1])
                b5[di_[0] - 1]['t0'] += 2 * b5[0]['timeout_ms']
                b5[di_[0] - 1]['t1'] += 2 * b5[0]['timeout_ms']
                tests['stale-combined'] = b5
                break
        if 'stale-combined' not in tests:
            ctx.extra['binding_selftest_timed'] = 'skipped: no fast timeout history was delivered within the timeout on this (loaded) machine'

    for nm, b in tests.items():
        a, rj = vlib.validate_segments(ctx, 'TraceFrag', TC, SPEC, [b], name='selftest-' + nm, count=False)
        if not rj:
            raise vlib.Inconclusive('binding self-test failed: %s history accepted' % nm)
    ctx.extra['binding_selftest'] = 'rejected: ' + ', '.join(sorted(tests))


def run(ctx):
    drv = ctx.go_build('fragd')
    ctx.extra['crash_on_inconsistent'] = 0

    # ---- E2 graph replay (P-expectation + I-projection from the model states) ----
    if not ctx.thorough():
        graph_replay(ctx, drv, 'graph-1key-NB3x4', consts(3, 4), VARIANTS)
        graph_replay(ctx, drv, 'graph-2keys-limits-NB2x4', consts(2, 4, keys=2, high=3, low=2), VARIANTS_MEM, high=3, low=2, nkeys=2)
    else:
        graph_replay(ctx, drv, 'graph-1key-NB4x4', consts(4, 4), VARIANTS)
        graph_replay(ctx, drv, 'graph-2keys-limits-NB2x5', consts(2, 5, keys=2, high=3, low=2), VARIANTS_MEM, high=3, low=2, nkeys=2)

    # ---- E1 exhaustive ----
    e1(ctx)

    # ---- real-code histories: sequential seeded (E3), 2 callers under the gate (E5), free-running goroutines (E4),
    #      real-clock timeout; all validated / linearized by TLC against TraceFrag in one start
    items = trace_mode(ctx, drv, 'seq', [ctx.seed, ctx.pick(100, 1000)])
    seqs = [it['seg'] for it in items]
    items += trace_mode(ctx, drv, 'long', [ctx.seed, ctx.pick(16, 200)] + (['thorough'] if ctx.thorough() else []))
    items += gate(ctx, drv)
    items += trace_mode(ctx, drv, 'race', [ctx.seed, ctx.pick(40, 400), 4, 5])
    titems = trace_mode(ctx, drv, 'timeout', [ctx.seed, ctx.pick(12, 60)])
    items += titems
    validate_all(ctx, items)

    selftest(ctx, seqs, [it['seg'] for it in titems])
    stack_level(ctx)
    assumptions(ctx)


def stack_level(ctx):
    """Through the stack: IPv4 fragments of several UDP datagrams that differ in ONE component of the reassembly key
    (source address incl. neighbouring addresses, destination, identification, protocol) are interleaved fragment by
    fragment; what the bound UDP sockets return must be exactly the datagrams, each whole, from the right sender
    (harness/sockd op `fragmix`, trace validated by TLC against spec/sock/TraceSock)."""
    import vlib as _v
    sd = ctx.go_build('sockd')
    rng = ctx.rng
    NIC = dict(id=1, mtu=1500, addr4=['10.0.0.1', '10.0.0.2'], addr6=['fd00::1'])
    scs = []
    srcs = ['10.0.0.9', '10.0.0.8', '10.0.1.9', '10.1.0.9', '11.0.0.9', '10.0.0.137', '10.0.0.10']
    for i in range(ctx.pick(60, 800)):
        ndg = rng.choice([2, 2, 3, 4])
        base = dict(src=rng.choice(srcs), sport=7, dst='10.0.0.1', dport=5000, ipid=rng.randrange(1, 65535))
        dgs = []
        for k in range(ndg):
            d = dict(base)
            what = rng.choice(['src', 'src', 'ipid', 'dst', 'sport', 'proto'] if k else ['same'])
            if what == 'src':
                d['src'] = rng.choice([x for x in srcs if x != base['src']])
            elif what == 'ipid':
                d['ipid'] = (base['ipid'] + rng.choice([1, 256, 0x8000])) % 65536 or 1
            elif what == 'dst':
                d['dst'] = '10.0.0.2'
            elif what == 'sport':
                d['sport'], d['ipid'] = 8 + k, (base['ipid'] + 7 + k) % 65536 or 1   # another flow: different id as real senders do
            elif what == 'proto':
                d['proto'], d['ipid'] = 1, base['ipid']                                # same id, other protocol (ICMP payload is never delivered to UDP)
            d['n'] = rng.choice([9, 24, 41, 64, 100, 333, 1000])
            d['seed'] = rng.randrange(1 << 24)
            tot = 8 + d['n']
            nc = rng.choice([1, 2, 3, 5, 9, 12])
            cuts = sorted(set(8 * rng.randrange(1, max(2, (tot + 7) // 8)) for _ in range(nc)))
            d['cuts'] = [c for c in cuts if 0 < c < tot] or [8]
            dgs.append(d)
        # no two datagrams of one scenario may have the same key AND overlap in time: make keys pairwise distinct
        keys = set()
        ok = True
        for d in dgs:
            key = (d['src'], d['dst'], d['ipid'], d.get('proto', 17))
            ok = ok and key not in keys
            keys.add(key)
        if not ok:
            continue
        order = [[k, j] for k, d in enumerate(dgs) for j in range(len(d['cuts']) + 1)]
        rng.shuffle(order)
        ops = [dict(op='udp', s=0, v=4), dict(op='bind', s=0, addr='', port=5000),
               dict(op='fragmix', dgrams=dgs, order=order), dict(op='readall'), dict(op='readall')]
        scs.append(dict(nics=[NIC], ops=ops))
    # maximal and near-maximal datagrams: IPv4 total length up to exactly 65535 (UDP data 65507), around the 8-byte
    # fragment granularity, cut into fragments of 8 / 1480 / 32768 bytes, delivered in order, reversed and last-first
    nbig = 0
    for n in range(65499, 65508):
        for fs in (8, 1480, 32768):
            if fs == 8 and not ctx.thorough() and n < 65506:
                continue
            tot = 8 + n
            cuts = list(range(fs, tot, fs))
            nf = len(cuts) + 1
            for oname in ('inorder', 'reversed', 'last-first'):
                idx = list(range(nf))
                if oname == 'reversed':
                    idx.reverse()
                elif oname == 'last-first':
                    idx = [nf - 1] + idx[:-1]
                d = dict(src='10.0.0.9', sport=7, dst='10.0.0.1', dport=5000, ipid=1 + (nbig * 7919) % 65000, n=n,
                         seed=rng.randrange(1 << 24), cuts=cuts)
                ops = [dict(op='udp', s=0, v=4), dict(op='bind', s=0, addr='', port=5000),
                       dict(op='fragmix', dgrams=[d], order=[[0, j] for j in idx]), dict(op='readall'), dict(op='readall')]
                scs.append(dict(nics=[NIC], ops=ops))
                nbig += 1
    ctx.extra['stack_level_maximal_datagrams'] = nbig
    sp = os.path.join(ctx.work, 'fragmix-scen.json')
    tp = os.path.join(ctx.work, 'fragmix-trace.ndjson')
    _v.write_json(sp, scs)
    ctx.run([sd, 'run', sp, tp], timeout=3000)
    segs = _v.split_segments(_v.read_ndjson(tp))
    if len(segs) != len(scs):
        raise _v.Inconclusive('sockd produced %d segments for %d fragmix scenarios' % (len(segs), len(scs)))
    tc = cfg(spec='TSpec', constraint='HWMark', postcondition='Accepted')
    acc, rej = _v.validate_segments(ctx, 'TraceSock', tc, ['sock'], segs, name='fragmix', timeout=3000)
    ctx.traces += acc
    ctx.extra['stack_level_interleaved_scenarios'] = len(scs)
    ctx.extra['stack_level_datagrams_returned'] = sum(len(e.get('got', [])) for s_ in segs for e in s_ if e.get('op') == 'readall')
    ctx.sample(dict(kind='stack-level-interleaving', dgrams=[{k: v for k, v in d.items() if k != 'seed'} for d in scs[0]['ops'][2]['dgrams']], order=scs[0]['ops'][2]['order'][:12]))
    for si, ln in rej:
        ev = segs[si][ln] if ln < len(segs[si]) else {}
        ctx.violation('IPv4 reassembly through the stack: datagrams with different keys interleaved; socket results rejected by the P-spec at event %d (%s); UDP data sizes %s, %s fragments' % (
                          ln, ev.get('op'), [d['n'] for d in scs[si]['ops'][2]['dgrams']], [len(d['cuts']) + 1 for d in scs[si]['ops'][2]['dgrams']]),
                      dict(kind='fragmix', scenario=scs[si], events=[{k: v for k, v in e.items() if k != 'raw'} for e in segs[si][:ln + 1]]))


def assumptions(ctx):
    ctx.assumptions += [
        'Go runtime (mutexes, scheduler) and the gate scheduler are trusted; hook H7 sits between the critical sections of Process',
        'fragment identity is the uint32 id passed to Process; hash collisions between datagrams are out of scope',
        'timeout histories: the implementation reads its clock between the logged t0 (before the call) and t1 (after it); a fragment is treated as too old only when f.t0 - h.t1 > T and delivery is demanded only when f.t1 - h.t0 <= T for every fragment seen, so jitter cannot cause an alarm',
        'memory-limit graphs: delivery is demanded only while the bytes of all arrived, undelivered fragments stay within the high limit',
    ]


def replay(ctx, rep):
    """vcheck C08 --replay file: run the recorded case again on the real code and let the P-spec decide."""
    drv = ctx.go_build('fragd')
    ctx.extra['crash_on_inconsistent'] = 0
    r = rep.get('replay', {})
    kind = r.get('kind')
    tp = os.path.join(ctx.work, 'replay.ndjson')
    if kind == 'graph':
        # regenerate the graph of the recorded configuration; every transition (the recorded path included) is replayed
        graph_replay(ctx, drv, r['graph'], consts(r['nb'], r['maxarr'], keys=r['nkeys'], high=r['high'], low=r['low']),
                     VARIANTS if r['high'] >= 99 else VARIANTS_MEM, high=r['high'], low=r['low'], nkeys=r['nkeys'])
    elif kind == 'gate':
        ip = os.path.join(ctx.work, 'replay-gate.json')
        vlib.write_json(ip, dict(callers=[[dict(k=t[0], first=t[1], last=t[2], more=t[3]) for t in c_] for c_ in r['callers']],
                                 variant=dict(name='x8', scale=8, recycle=bool(r.get('recycle'))), moves=r['moves']))
        ctx.run([drv, 'gatepath', ip, tp])
        validate_all(ctx, [dict(kind='gate', seg=s_, info=dict(scenario=r.get('scenario'), callers=r['callers'], recycle=bool(r.get('recycle')), moves=r['moves']))
                           for s_ in vlib.split_segments(vlib.read_ndjson(tp))])
    elif kind in ('seq', 'long', 'timeout', 'race'):
        # seeded modes are re-run with the recorded arguments (race: new schedules of the same workload)
        validate_all(ctx, trace_mode(ctx, drv, kind, r['args']))
    else:
        raise vlib.Inconclusive('unknown replay kind %r' % kind)
    assumptions(ctx)
