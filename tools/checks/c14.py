"""C14 - sequence-space arithmetic modulo 2^32.

Spec: spec/seqnum
  SeqNum       definitions of the property (P-spec), implementation shapes of
               pkg/seqnum (I-spec), the exact known-finding regions F2a / F2b
  MCSeqNum     E1: TLC, every operand tuple at M = 16, 32 (quick) and 64 (thorough)
  SeqNumApa    E6: Apalache, the same equivalences at M = 2^32
  SeqNumEmbed  E6: Apalache, n -> n*2^(32-k) + t carries SeqNum(2^k) to SeqNum(2^32)
  U32, MCU32   the definitions on <<hi, lo>> 16-bit halves (TLC ints are 32-bit), checked against SeqNum
  SeqNumTable  complete table of definition values at modulus 2^k (oracle of the embedding sweep)
  TraceSeqNum  trace validation: one event per call of the real API at real width
Binding: harness/seqnumd calls the exported seqnum API; TLC is the judge of
every recorded result (seeded boundary/random vectors) and of every mismatch
the embedding sweep reports.
"""
import concurrent.futures
import copy
import glob
import json
import os
import re
import shutil
import subprocess
import time

import vlib
from vlib import cfg

MANIFEST = dict(
    technique='TLA+ SeqNum (definitions = P-spec, seqnum.go shapes = I-spec, exact F2 regions) checked by TLC on every operand tuple at M=16/32/64 and by Apalache at M=2^32; the real seqnum API is called at real width on seeded boundary/random vectors and TLC validates every recorded result against the definitions evaluated on 16-bit halves (U32/TraceSeqNum); embedding sweep of the real functions against the TLC-computed table of the small modulus',
    text='For all pairs/triples/quadruples of the small moduli (TLC, exhaustive) and of 0..2^32-1 (Apalache, --length=0): LessThan/LessThanEq differ from "forward distance in 1..2^31-1" exactly on antipodal pairs (F2a), InRange/InWindow/Add/Size/UpdateForward agree everywhere, Overlap differs from "share a sequence number" exactly on F2b. Conformance of the Go functions: every recorded call (base points x deltas, seeded) is accepted by TLC only if the result is the defined one, or the operands lie in an F2 region (reported as KNOWN-FINDING); all tuples of Z_16 (Z_32 thorough) embedded at real width under many translations are compared with the TLC table.',
    design='5 C14',
    note='Real width is sampled (boundary-structured + seeded random), not enumerated; the for-all at 2^32 is carried by Apalache on the implementation shapes, which are tied to the Go code by the vectors. Share (exists k) is evaluated at 2^32 through ShareW (k in {a, x}), lemma checked by TLC (all tuples, small M) and Apalache. The "consequently every TCP property holds with wrap-adjacent ISS" clause is discharged by tcp_wrap(): the two-stack pair driver with the active opener\'s ISS pinned (hook H4, verified against the SYN on the wire) just below 2^32 and 2^31, random faults plus deterministic scenarios (out-of-order segments parked across the wrap; the receiver\'s window edges straddling the wrap), judged by the C01 + C02 + C04 clauses of TraceTcp. Only the active opener\'s ISS can be pinned; the passive side\'s is random. Round 8: segments (data, FIN, the very first byte) that start at exactly sequence number 0 / 2^31, lost and recovered by the retransmission timeout.')

SPEC = ['seqnum']
P32 = 1 << 32
H32 = 1 << 31
ARITY = dict(lt=2, le=2, size=2, add=2, upd=2, inrange=3, inwindow=3, overlap=4)
KF_OF = dict(lt='F2a', le='F2a', overlap='F2b')
SEG = 1000            # vectors per trace segment
SWEEP_ID0 = 20000000  # event ids of sweep samples / model counterexamples


# ----------------------------------------------------------------- Apalache
def apalache(ctx, module, inv, init=None, cinit=None, timeout=600):
    """Run `apalache-mc check --length=0 --inv=inv`; returns dict(outcome='NoError'|'Error', wall_s, dir)."""
    d = ctx.subdir('apa-' + inv)
    for fn in os.listdir(os.path.join(vlib.SPEC, 'seqnum')):
        if fn.endswith('.tla'):
            shutil.copy(os.path.join(vlib.SPEC, 'seqnum', fn), os.path.join(d, fn))
    cmd = ['timeout', str(timeout), 'apalache-mc', 'check', '--length=0', '--inv=' + inv,
           '--out-dir=' + os.path.join(d, 'out')]
    if init:
        cmd.append('--init=' + init)
    if cinit:
        cmd.append('--cinit=' + cinit)
    cmd.append(module + '.tla')
    t = time.time()
    try:
        p = subprocess.run(cmd, cwd=d, stdout=subprocess.PIPE, stderr=subprocess.STDOUT, timeout=timeout + 30)
    except (OSError, subprocess.TimeoutExpired) as e:
        raise vlib.Inconclusive('Apalache could not run (%s): %s' % (inv, e))
    out = p.stdout.decode('utf-8', 'replace')
    with open(os.path.join(d, 'apalache.out'), 'w') as f:
        f.write(out)
    wall = round(time.time() - t, 1)
    if p.returncode == 0 and 'The outcome is: NoError' in out:
        oc = 'NoError'
    elif p.returncode == 12 and 'The outcome is: Error' in out:
        oc = 'Error'
    else:
        raise vlib.Inconclusive('Apalache failed rc=%s on %s:\n%s' % (p.returncode, inv, out[-2500:]))
    ctx.log('Apalache %s %s: %s, %.1fs' % (module, inv, oc, wall))
    return dict(module=module, inv=inv, outcome=oc, wall_s=wall, dir=d)


def apalache_cex(res):
    """Operand values of the first counterexample of an Apalache run."""
    fs = sorted(glob.glob(os.path.join(res['dir'], 'out', '*', '*', 'violation1.itf.json')))
    if not fs:
        raise vlib.Inconclusive('Apalache reported an error without a counterexample file (%s)' % res['inv'])
    st = json.load(open(fs[-1]))['states'][0]
    out = {}
    for k, v in st.items():
        if isinstance(v, dict) and '#bigint' in v:
            out[k] = int(v['#bigint'])
        elif isinstance(v, int):
            out[k] = v
    return out


# ------------------------------------------------------------------ vectors
def gen_vectors(rng, thorough):
    """Base points x deltas (DESIGN C14): a fixed boundary core plus seeded randoms, cut to per-function quotas."""
    u = lambda n: n % P32
    fixed_bases = [0, 1, H32 - 1, H32, H32 + 1, P32 - 1]
    nb = 60 if thorough else 8
    bases = fixed_bases + [rng.randrange(P32) for _ in range(nb)]
    pw = []
    for k in range(1, 32):
        pw += [(1 << k) - 1, 1 << k, (1 << k) + 1]
    core_d = [0, 1, -1, 2, -2, H32 - 1, H32, H32 + 1, -(H32 - 1), -(H32 + 1), H32 - 2, H32 + 2]
    deltas = core_d + pw + [-d for d in pw]
    deltas += [rng.randrange(P32) for _ in range(200 if thorough else 24)]
    deltas += [rng.randrange(1, 1 << rng.randrange(1, 32)) for _ in range(200 if thorough else 24)]
    small = [0, 1, -1, 2, -2, H32 - 1, H32, H32 + 1, -(H32 - 1), 65535, 65536, 65537, -65536, P32 - 1]
    sizes = [0, 1, 2, 3, 1460, 65535, 65536, 65537, (1 << 30), H32 - 2, H32 - 1, H32, H32 + 1, H32 + 2,
             H32 + 10, P32 - 2, P32 - 1]
    rsmall = lambda n: [rng.randrange(1, 1 << 16) for _ in range(n)] + [rng.randrange(P32) for _ in range(n)]

    vec = {op: [] for op in ARITY}
    for v in bases:
        for d in deltas:
            w = u(v + d)
            vec['lt'].append((v, w))
            vec['le'].append((v, w))
            vec['size'].append((v, w))
            vec['add'].append((v, u(d)))
            vec['upd'].append((v, u(d)))
    d3 = small + pw[::7] + rsmall(12 if thorough else 4)
    for a in bases:
        for db in d3:
            for dv in small + [db - 1, db, db + 1, db - 2, db + H32, rng.randrange(P32)]:
                vec['inrange'].append((u(a + dv), a, u(a + db)))
    s3 = sizes + rsmall(12 if thorough else 4)
    for f in bases:
        for s in s3:
            for dv in [0, 1, -1, s - 2, s - 1, s, s + 1, H32, s + H32, rng.randrange(P32), rng.randrange(1, 1 << 16)]:
                vec['inwindow'].append((u(f + dv), f, u(s)))
    s4 = sizes + rsmall(6 if thorough else 2)
    for a in bases:
        for b in s4:
            for y in s4:
                for dx in [0, 1, -1, b - 1, b, b + 1, -y - 1, -y, -y + 1, H32, H32 - y, H32 - y + 1, b - H32, b - H32 - 1,
                           rng.randrange(P32), rng.randrange(1, 1 << 16), -rng.randrange(1, 1 << 16)]:
                    vec['overlap'].append((a, u(b), u(a + dx), u(y)))
    quota = dict(lt=120000, le=120000, size=60000, add=60000, upd=40000, inrange=200000, inwindow=150000, overlap=600000) if thorough \
        else dict(lt=4500, le=4500, size=3500, add=3500, upd=2500, inrange=13000, inwindow=9000, overlap=28000)
    # the reproduction scripts of the known findings F2a / F2b (DESIGN 1.3) come first, then the swept families
    out = [['lt', 0, H32], ['lt', H32, 0], ['le', 5, H32 + 5], ['le', H32 + 5, 5],
           ['overlap', 0, H32 + 10, 5, 1], ['overlap', 10, 0, 5, 20], ['overlap', 5, 20, 10, 0], ['overlap', 0, 0, H32, 0]]
    nfix = len(fixed_bases)
    for op in ('lt', 'le', 'size', 'add', 'upd', 'inrange', 'inwindow', 'overlap'):
        seen = set()
        lst = []
        for t in vec[op]:
            if t not in seen:
                seen.add(t)
                lst.append(t)
        # the core (fixed base points, every delta) stays; the rest is a seeded sample
        per_base = len(vec[op]) // len(bases)
        coreset = set(vec[op][:nfix * per_base])
        core = [t for t in lst if t in coreset]
        rest = [t for t in lst if t not in coreset]
        rng.shuffle(rest)
        if len(core) > quota[op]:
            rng.shuffle(core)
        pick = (core + rest)[:quota[op]]
        out += [[op] + list(t) for t in pick]
    return out


def describe(ev):
    f = lambda p: p[0] * 65536 + p[1]
    o = ev['ev']
    if o in ('lt', 'le'):
        s = 'Value(%d).%s(%d)' % (f(ev['v']), 'LessThan' if o == 'lt' else 'LessThanEq', f(ev['w']))
    elif o == 'inrange':
        s = 'Value(%d).InRange(%d, %d)' % (f(ev['v']), f(ev['a']), f(ev['b']))
    elif o == 'inwindow':
        s = 'Value(%d).InWindow(%d, %d)' % (f(ev['v']), f(ev['first']), f(ev['size']))
    elif o == 'overlap':
        s = 'Overlap(%d, %d, %d, %d)' % (f(ev['a']), f(ev['b']), f(ev['x']), f(ev['y']))
    elif o in ('add', 'upd'):
        s = 'Value(%d).%s(%d)' % (f(ev['v']), 'Add' if o == 'add' else 'UpdateForward', f(ev['s']))
    else:
        s = 'Value(%d).Size(%d)' % (f(ev['v']), f(ev['w']))
    g = ev['got']
    return '%s = %s' % (s, f(g) if isinstance(g, list) else g)


def run_driver(ctx, drv, vectors, tag):
    ip = os.path.join(ctx.work, 'vec-%s.json' % tag)
    op = os.path.join(ctx.work, 'vec-%s.ndjson' % tag)
    vlib.write_json(ip, dict(vectors=vectors))
    ctx.run([drv, 'vectors', ip, op], timeout=1200)
    evs = vlib.read_ndjson(op)
    if len(evs) != len(vectors):
        raise vlib.Inconclusive('seqnumd produced %d events for %d vectors' % (len(evs), len(vectors)))
    return evs


def tcfg(lenient=True):
    return cfg(spec='TSpec', constants=dict(B=65536, Lenient=lenient), constraint='HWMark', postcondition='Accepted')


def kf_lines(ctx, name):
    """<<"KF", key, id>> lines printed by TraceSeqNum in every run of validate_segments(name=...)."""
    out = {}
    # (vlib.validate_segments may cut a batch into parallel chunks: run directories tlc-<name>-v* or tlc-<name>-j<K>-v*)
    for d in glob.glob(os.path.join(ctx.work, 'tlc-%s-v*' % name)) + glob.glob(os.path.join(ctx.work, 'tlc-%s-j*-v*' % name)):
        p = os.path.join(d, 'tlc.out')
        if os.path.exists(p):
            for m in re.finditer(r'<<"KF", "(\w+)", (\d+)>>', open(p).read()):
                out[int(m.group(2))] = m.group(1)
    return out


def validate(ctx, events, name, lenient=True, seg=SEG, max_reruns=6, count=True, groups=None):
    """events (cut into segments of `seg`, or the given groups of events) ->
    (accepted event count, rejected [event], kf {id: key})."""
    if groups is None:
        groups = [events[i:i + seg] for i in range(0, len(events), seg)]
    segs = [[dict(ev='reset')] + list(g) for g in groups if g]
    if not segs:
        return 0, [], {}
    acc, rej = vlib.validate_segments(ctx, 'TraceSeqNum', tcfg(lenient), SPEC, segs, name=name,
                                      max_reruns=max_reruns, timeout=2400, count=count)
    bad = []
    for si, off in rej:
        if off < 1 or off >= len(segs[si]):
            raise vlib.Inconclusive('trace rejected at a reset event (%s, segment %d, offset %d)' % (name, si, off))
        bad.append(segs[si][off])
    # whole segments are accepted; after max_reruns rejections the segments behind the last one are unexamined
    lost = set(si for si, _ in rej)
    if rej and len(rej) >= max_reruns:
        lost |= set(range(max(lost) + 1, len(segs)))
    n_acc = sum(len(s_) - 1 for i, s_ in enumerate(segs) if i not in lost)
    return n_acc, bad, kf_lines(ctx, name)


def event_to_vec(e):
    f = lambda p: p[0] * 65536 + p[1]
    fields = dict(lt='vw', le='vw', size='vw', add='vs', upd='vs', inrange='vab', overlap='abxy')
    if e['ev'] == 'inwindow':
        return ['inwindow', f(e['v']), f(e['first']), f(e['size'])]
    return [e['ev']] + [f(e[c]) for c in fields[e['ev']]]


def report(ctx, drv, bad, kf, by_id, kind):
    """Turn TLC's verdicts into KNOWN-FINDING / VIOLATION lines."""
    # a rejected result is re-observed once (same input, fresh process) before it is reported
    if bad:
        vec = [by_id[e['id']]['vec'] for e in bad]
        again = run_driver(ctx, drv, vec, 'recheck-' + re.sub(r'\W+', '-', kind))
        for e, e2 in zip(bad, again):
            if e2['got'] != e['got']:
                raise vlib.Inconclusive('non-reproducible result for %s' % describe(e))
    for e in bad:
        ctx.violation('%s differs from the definition (rejected by TraceSeqNum, outside the F2 regions)' % describe(e),
                      dict(kind='vector', vectors=[by_id[e['id']]['vec']], event=e, source=kind))
    hits = {}
    for i in sorted(kf):
        hits.setdefault(kf[i], []).append(i)
    for key, ids in sorted(hits.items()):
        for i in ids[:50]:
            e = by_id[i]['ev']
            if KF_OF.get(e['ev']) != key:
                raise vlib.Inconclusive('KF line %s for a %s event' % (key, e['ev']))
            ctx.violation('%s but the definition says %s (operands in region %s; %d such vectors from %s)' % (
                describe(e), not e['got'], key, len(ids), kind),
                dict(kind='vector', vectors=[by_id[i]['vec']], event=e, source=kind), key=key)
    return {k: len(v) for k, v in hits.items()}


class ById(object):
    """id -> dict(vec=, ev=) over the parallel lists of vectors and events."""
    def __init__(self, vectors, evs):
        self.vectors, self.evs = vectors, evs

    def __getitem__(self, i):
        return dict(vec=self.vectors[i], ev=self.evs[i])


def replay(ctx, data):
    """vcheck C14 --replay <file>: call the recorded vectors again; TLC judges the results."""
    drv = ctx.go_build('seqnumd')
    vectors = data['replay']['vectors']
    evs = run_driver(ctx, drv, vectors, 'replay')
    n_acc, bad, kf = validate(ctx, evs, 'replay', True, 1, 8)
    ctx.traces += n_acc
    for e in evs[:3]:
        ctx.sample(dict(kind='replayed-vector', call=describe(e), event=e))
    report(ctx, drv, bad, kf, ById(vectors, evs), 'replay')
    ctx.extra['evaluations'] = len(vectors)
    ctx.extra['distinct_nontrivial'] = len(set(tuple(v) for v in vectors))


def flipped(e):
    c = copy.deepcopy(e)
    c['got'] = (not c['got']) if isinstance(c['got'], bool) else [c['got'][0], (c['got'][1] + 1) % 65536]
    return c


def tcp_wrap(ctx):
    """"Consequently every TCP property above holds unchanged when initial sequence numbers sit just below 2^31 or 2^32":
    transfers whose data stream crosses the wrap points within its first bytes, with reordering (held-back segments park in the
    receiver's out-of-order heap across the wrap), loss and duplication, judged against the C01 + C04 clauses."""
    import tcplib
    ctx.kf_props = ('C01', 'C02', 'C04')
    drv = ctx.go_build('tcpd')
    rng = ctx.rng
    scs = []
    placements = [[0xffff, 0xff00], [0xffff, 0xfff0], [0xffff, 0xffff], [0x7fff, 0xff00], [0x7fff, 0xffff], [0x8000, 0x0000], [0, 0], [0x1234, 0x5678]]
    for i in range(ctx.pick(24, 240)):
        iss = placements[i % len(placements)]
        mtu = rng.choice([100, 200, 576])
        sc = dict(v=rng.choice([4, 4, 6]), mtu=mtu if mtu >= 200 else 200, sack=rng.random() < 0.5, cc='', sync=True, deadline_ms=45000, seed=rng.randrange(1, 1 << 30),
                  flags={}, tag='wrap%d-iss%04x%04x' % (i, iss[0], iss[1]),
                  a=dict(writes=tcplib.chunks(rng, rng.choice([600, 2000, 5000]), 3000), shutdown=True, iss=iss),
                  b=dict(writes=tcplib.chunks(rng, rng.choice([0, 0, 300]), 300), shutdown=True),
                  a2b=dict(loss=rng.choice([0, 0.05]), dup=rng.choice([0, 0.05]), hold=rng.choice([0.15, 0.3]), coalesce=rng.choice([0, 0.1]), budget=rng.choice([4, 8, 16])),
                  b2a=dict(loss=0, dup=0, hold=rng.choice([0, 0.1]), budget=2))
        scs.append(sc)
    # deterministic: the first segment of a flight is held back while the next 2..4 (whose starting sequence numbers straddle the
    # wrap point) park in the receiver's out-of-order heap; when it arrives the ACK must cover everything that is contiguous
    # (sync-wire ACK coverage clause), which needs the heap to be ordered by wrap-aware comparison
    k = 0
    for hi in (0xffff, 0x7fff):
        for below in (200, 400, 500, 149, 297):           # bytes of stream before the wrap (mss is 148 at mtu 200)
            for arg in ((2, 3, 4) if ctx.thorough() else (3,)):
                k += 1
                lo = 0x10000 - 1 - below
                scs.append(dict(v=4 if k % 3 else 6, mtu=200, sack=(k % 2 == 0), cc='', sync=True, deadline_ms=45000, seed=k, flags={},
                                tag='wrap-park%d-iss%04x%04x-hold%d' % (k, hi, lo, arg),
                                a=dict(writes=[1480], shutdown=True, iss=[hi, lo]), b=dict(writes=[], shutdown=True),
                                a2b=dict(rules=[dict(kind='data', nth=1, act='hold', arg=arg)]), b2a=dict()))
    # deterministic: several writes of different sizes whose segments straddle the wrap point (the SENDER's SND.NXT crosses it
    # inside a segment; the next write must continue at the right sequence number)
    for hi in (0xffff, 0x7fff):
        for below in (100, 255, 1, 2, 700):
            k += 1
            scs.append(dict(v=4 if k % 2 else 6, mtu=1500, sack=True, cc='', sync=False, deadline_ms=20000, seed=k, flags={},
                            tag='wrap-writes%d-iss%04x%04x' % (k, hi, 0x10000 - below),
                            a=dict(writes=[200, 300, 50, 700, 1, 1500], write_gap_us=15000, shutdown=True, iss=[hi, 0x10000 - below]),
                            b=dict(writes=[300], shutdown=True), a2b=dict(), b2a=dict()))
    # deterministic: a segment (data, or the FIN) that starts at EXACTLY sequence number 0 / 2^31 is lost and recovered by the
    # retransmission timeout (too few later segments for three duplicate ACKs): zero is a sequence number like any other
    for hi in (0xffff, 0x7fff):
        for what in ('data', 'fin', 'data-first'):
            k += 1
            if what == 'data':        # second write starts at 0
                a = dict(writes=[100, 100, 100], write_gap_us=20000, shutdown=True, iss=[hi, 0x10000 - 101])
                rules = [dict(kind='data', nth=2, act='drop')]
            elif what == 'data-first':   # ISS = 2^32 - 1: the very first byte is number 0
                a = dict(writes=[300, 200], write_gap_us=20000, shutdown=True, iss=[hi, 0xffff])
                rules = [dict(kind='data', nth=1, act='drop')]
            else:                     # the FIN's number is 0
                a = dict(writes=[700], shutdown=True, iss=[hi, 0x10000 - 701])
                rules = [dict(kind='fin', nth=1, act='drop')]
            scs.append(dict(v=4 if k % 2 else 6, mtu=1500, sack=(k % 2 == 0), cc='', sync=False, deadline_ms=30000, seed=k, flags={},
                            tag='wrap-zero-rto%d-%s-iss%04x%04x' % (k, what, hi, a['iss'][1]),
                            a=a, b=dict(writes=[50], shutdown=True), a2b=dict(rules=rules), b2a=dict()))
    # deterministic: the RECEIVER's window edges straddle the wrap: a small receive buffer, the peer's ISS a few thousand below
    # 2^32 / 2^31, so that the advertised right edge is still below the wrap point when the next edge (after the application
    # read) lies beyond it; the window must keep re-opening and the transfer must complete (C02 clauses)
    for hi in (0xffff, 0x7fff):
        for below in (1500, 3000, 6000, 12000):
            for rb in ((1000, 2500) if ctx.thorough() else (2000,)):
                k += 1
                lo = 0x10000 - below
                scs.append(dict(v=4, mtu=576, sack=(k % 2 == 0), cc='', sync=False, deadline_ms=45000, seed=k, flags={},
                                tag='wrap-rcvwin%d-iss%04x%04x-rb%d' % (k, hi, lo, rb),
                                a=dict(writes=[20000], shutdown=True, iss=[hi, lo]), b=dict(writes=[], shutdown=True, rcvbuf=rb, read_delay_us=300),
                                a2b=dict(), b2a=dict()))
    segs, stats, rep = tcplib.run_pair(ctx, drv, scs, ['C01', 'C02', 'C04'], 'c14tcp', what='TCP with wrap-adjacent initial sequence numbers', classify=tcplib.classify_all)
    ctx.extra['tcp_wrap'] = stats
    # loss recovery (C05 clauses, synchronous wire) with the sender's ISS at the wrap points: the NewReno recover mark and the
    # duplicate-ACK test compare sequence numbers of BOTH directions' spaces only by accident; the peer's ISS is random
    ctx.kf_props = ('C01', 'C02', 'C04', 'C05')
    scs5 = []
    k = 0
    for hi, lo in [(0xffff, 0xff00), (0xffff, 0xfffe), (0x7fff, 0xff00), (0x8000, 0x0000), (0, 1), (0x4000, 0x1234)]:
        for pos in ((3, 1) if ctx.thorough() else (3,)):
            for rep_ in range(3 if ctx.thorough() else 2):
                k += 1
                mss = 576 - 52
                scs5.append(dict(v=4, mtu=576, sack=(k % 2 == 0), cc='', deadline_ms=45000, seed=600 + k, flags={}, sync=True,
                                 tag='wrap-loss%d-iss%04x%04x-drop%d' % (k, hi, lo, pos),
                                 a=dict(writes=[12 * mss], shutdown=True, iss=[hi, lo]), b=dict(writes=[], shutdown=True),
                                 a2b=dict(rules=[dict(kind='data', nth=pos, act='drop')]), b2a=dict()))
    segs5, stats5, rep5 = tcplib.run_pair(ctx, drv, scs5, ['C05'], 'c14c05', what='TCP loss recovery with wrap-adjacent initial sequence numbers',
                                          classify=tcplib.classify_all)
    ctx.extra['tcp_wrap_loss_recovery'] = stats5
    ctx.extra['tcp_wrap_iss_placements'] = ['%04x%04x' % tuple(p) for p in placements]
    ctx.sample(dict(kind='tcp-wrap-scenario', scenario=scs[0]))


def run(ctx):
    drv = ctx.go_build('seqnumd')
    pool = concurrent.futures.ThreadPoolExecutor(max_workers=8)
    th = ctx.thorough()

    # ---- E6 (background thread 1): Apalache, M = 2^32
    def apa_jobs():
        out = [apalache(ctx, 'SeqNumApa', 'AllInv', None, 'CInit')]
        if th:
            out.append(apalache(ctx, 'SeqNumApa', 'LtNaive', None, 'CInit'))
            out.append(apalache(ctx, 'SeqNumApa', 'OverlapNaive', None, 'CInit'))
            out.append(apalache(ctx, 'SeqNumEmbed', 'Embed4', 'Init4'))
            out.append(apalache(ctx, 'SeqNumEmbed', 'Embed5', 'Init5'))
        return out
    fut_apa = pool.submit(apa_jobs)

    # ---- E1 (background threads 2, 3): TLC, every operand tuple at the small moduli
    full = ['Pairs', 'Triples', 'Quads', 'SizesExact']
    qa16 = vlib.MV('{' + ', '.join(str(i) for i in range(16)) + '}')

    def e1_small():
        out = [ctx.tlc('MCSeqNum', cfg(constants=dict(M=16), invariants=full + ['QuadsLit', 'Shift']), SPEC,
                       name='MCSeqNum-M16', must_pass=True, count=False),
               # U32 (16-bit halves) is the same function as SeqNum: B=4 (quads for one a in quick, all in thorough)
               ctx.tlc('MCU32', cfg(constants=dict(B=4, QA=qa16 if th else vlib.MV('{7}')),
                                    invariants=['Arith', 'Pairs', 'Triples', 'Quads']), SPEC,
                       name='MCU32-B4', must_pass=True, count=False)]
        if th:
            out.append(ctx.tlc('MCU32', cfg(constants=dict(B=8, QA=vlib.MV('{}')), invariants=['Arith', 'Pairs', 'Triples', 'Quads']),
                               SPEC, name='MCU32-B8', must_pass=True, count=False))
        return out

    def e1_big():
        out = [ctx.tlc('MCSeqNum', cfg(constants=dict(M=32), invariants=full + (['QuadsLit'] if th else [])), SPEC,
                       name='MCSeqNum-M32', must_pass=True, count=False, timeout=1500)]
        if th:
            out.append(ctx.tlc('MCSeqNum', cfg(constants=dict(M=64), invariants=['Pairs', 'Triples', 'Quads']), SPEC,
                               name='MCSeqNum-M64', must_pass=True, count=False, timeout=3000))
        return out
    fut_e1 = [pool.submit(e1_big), pool.submit(e1_small)]

    # ---- binding at real width: seeded vectors -> real API -> TLC decides every result (background threads)
    vectors = gen_vectors(ctx.rng, th)
    t0 = time.time()
    evs = run_driver(ctx, drv, vectors, 'main')
    if any(e['id'] != i for i, e in enumerate(evs)):
        raise vlib.Inconclusive('seqnumd event ids out of order')
    by_id = ById(vectors, evs)
    ngroups = 4 if th else 1
    per = ((len(evs) + ngroups - 1) // ngroups + SEG - 1) // SEG * SEG
    fut_vec = [pool.submit(validate, ctx, evs[g * per:(g + 1) * per], 'vec%d' % g, True, SEG, 6, False)
               for g in range(ngroups) if evs[g * per:(g + 1) * per]]

    # ---- table of the definitions at modulus 2^k (TLC), oracle of the embedding sweep
    ks = [4, 5] if th else [4]
    tables = {}
    for k in ks:
        rt = ctx.tlc('SeqNumTable', cfg(constants=dict(M=1 << k)), SPEC, name='SeqNumTable-k%d' % k, must_pass=True,
                     workers=1, timeout=1500)
        tables[k] = json.load(open(os.path.join(rt.dir, 'table.json')))
        if tables[k].get('m') != 1 << k:
            raise vlib.Inconclusive('table dump incomplete')

    # ---- embedding sweep: all tuples of Z_(2^k), embedded at real width under many translations
    fixed_t = [0, 1, 2, 65535, 65536, H32 - 1, H32, H32 + 1, P32 - 65536, P32 - 2, P32 - 1,
               (1 << 28) - 1, (1 << 28) + 1, (1 << 27) + 5, 0x12345678, 0xdeadbeef]
    stage2 = []
    sweep_stats = {}
    plain_total = 0
    for k in ks:
        nt = {4: ctx.pick(64, 1024), 5: 64}[k]
        ts = fixed_t + [ctx.rng.randrange(P32) for _ in range(nt - len(fixed_t))]
        ip = os.path.join(ctx.work, 'sweep-k%d.json' % k)
        op_ = os.path.join(ctx.work, 'sweep-k%d.ndjson' % k)
        vlib.write_json(ip, dict(table=tables[k], ts=ts, cap=12))
        res = json.loads(ctx.run([drv, 'sweep', ip, op_], timeout=1200).stdout)
        sweep_stats['k%d' % k] = res
        for op, t in res['ops'].items():
            plain_total += t['mismatch_outside_region']
            if op in ('lt', 'le', 'inrange', 'inwindow', 'overlap') and not (0 < t['def_true'] < t['evals']):
                raise vlib.Inconclusive('vacuous table for %s at k=%d' % (op, k))
            if op in KF_OF and t['in_region'] == 0:
                raise vlib.Inconclusive('vacuous F2 region for %s at k=%d' % (op, k))
            # the I-spec shapes predict: off the definition exactly on the F2 region
            if op in KF_OF and t['mismatch_outside_region'] == 0 and t['mismatch_in_region'] != t['in_region']:
                ctx.model_drift('%s agrees with the definition on %d of %d swept tuples of region %s: seqnum.go no longer has the '
                                'shape of SeqNum.tla part 2 (the Apalache results then say nothing about the code)' % (
                                    op, t['in_region'] - t['mismatch_in_region'], t['in_region'], KF_OF[op]))
        stage2 += vlib.read_ndjson(op_) if os.path.getsize(op_) else []
    ctx.extra['sweep'] = sweep_stats
    ctx.extra['sweep_evaluations'] = sum(t['evals'] for r in sweep_stats.values() for t in r['ops'].values())
    ctx.log('sweep: %d evaluations, %d mismatches outside the F2 regions' % (ctx.extra['sweep_evaluations'], plain_total))
    # a corrupted table entry must be noticed by the sweep (binding self-test of the sweep)
    def mini_sweep(tb, tag):
        ip_ = os.path.join(ctx.work, 'sweep-%s.json' % tag)
        vlib.write_json(ip_, dict(table=tb, ts=[0, 0x12345678], cap=1))
        o = json.loads(ctx.run([drv, 'sweep', ip_, os.path.join(ctx.work, 'sweep-%s.ndjson' % tag)]).stdout)['ops']
        return {k_: o[k_]['mismatch_in_region'] + o[k_]['mismatch_outside_region'] for k_ in ('lt', 'inrange')}
    tb = copy.deepcopy(tables[4])
    tb['lt'][0][1] ^= 1
    tb['inr'][3][2][9] ^= 1
    m0, m1 = mini_sweep(tables[4], 'st0'), mini_sweep(tb, 'st1')
    if m0['lt'] == m1['lt'] or m0['inrange'] == m1['inrange']:
        raise vlib.Inconclusive('sweep self-test failed: corrupted table entry not noticed')

    # ---- verdicts of the vector validation
    n_acc, bad, kf = 0, [], {}
    for f in fut_vec:
        a, b, k_ = f.result()
        n_acc += a
        bad += b
        kf.update(k_)
    for r_ in ctx.tlc_runs:
        if r_['name'].startswith('vec'):
            ctx.states += r_['distinct']
            ctx.transitions += r_['generated']
    ctx.extra['trace_validation_s'] = round(time.time() - t0, 1)
    ctx.log('vectors: %d events, %d accepted, %d rejected, %d in F2 regions off the definition, %.1fs' % (
        len(evs), n_acc, len(bad), len(kf), time.time() - t0))
    ctx.traces += n_acc
    counts = {}
    for v in vectors:
        counts[v[0]] = counts.get(v[0], 0) + 1
    ctx.extra['vectors'] = counts
    ctx.extra['vectors_total'] = len(vectors)
    ctx.extra['vectors_distinct'] = len(set(tuple(v) for v in vectors))
    for op in ('lt', 'inrange', 'overlap', 'add'):
        e = next(e for e in evs if e['ev'] == op and e['id'] % 7 == 3)
        ctx.sample(dict(kind='vector', call=describe(e), event=e))
    kfc = report(ctx, drv, bad, kf, by_id, 'vectors')
    ctx.extra['vectors_in_F2_regions_with_code_off_definition'] = kfc

    # ---- stage 2: TLC at real width judges (a) the calls the sweep reports as off the table, (b) the operand
    # tuples of Apalache's counterexamples to the naive statements, observed on the real code, and (c) the binding
    # self-test: one recorded result flipped (operands outside the F2 regions) must be rejected exactly there
    s2vec = [dict(vec=event_to_vec(e), cls=e['cls']) for e in stage2]
    plain = [s for s in s2vec if s['cls'] == 'plain'][:6]
    kfs = [s for s in s2vec if s['cls'] == 'kf']
    apa = fut_apa.result()
    naive = []
    for r in apa:
        if r['inv'] in ('LtNaive', 'OverlapNaive'):
            if r['outcome'] != 'Error':
                raise vlib.Inconclusive('Apalache self-test: naive statement %s was expected to be refuted at 2^32' % r['inv'])
            cx = apalache_cex(r)
            vec = ['lt', cx['v'], cx['w']] if r['inv'] == 'LtNaive' else ['overlap', cx['a'], cx['b'], cx['x'], cx['y']]
            naive.append(dict(vec=vec, cls='kf', inv=r['inv']))
        elif r['outcome'] != 'NoError':
            raise vlib.Inconclusive('Apalache refutes %s at M = 2^32: the specification (not the code) is wrong' % r['inv'])
    s2 = kfs + naive + plain
    s2ev = run_driver(ctx, drv, [s['vec'] for s in s2], 'stage2') if s2 else []
    by2 = {}
    for i, (s, e) in enumerate(zip(s2, s2ev)):
        e['id'] = SWEEP_ID0 + i
        by2[e['id']] = dict(vec=s['vec'], ev=e, cls=s['cls'], inv=s.get('inv'))
    badset = set(b_['id'] for b_ in bad)
    good = {}
    for e in evs:
        if e['id'] not in kf and e['id'] not in badset:
            good.setdefault(e['ev'], []).append(e)
            if all(len(good.get(o, [])) >= 4 for o in ARITY):
                break
    allops = sorted(ARITY)
    ops_st = sorted(set((['lt', 'overlap', 'size'] if th else []) + [allops[ctx.seed % len(allops)]]))
    ops_st = [o for o in ops_st if len(good.get(o, [])) >= 4]
    if bad or plain_total:
        # the tree under test already has results TLC rejects (the binding is visibly live); the context events of
        # the self-test segments could be wrong too, so the flipped-result self-test is not meaningful on this tree
        ops_st = []
    st_groups = [good[o][:3] + [flipped(good[o][3])] for o in ops_st]
    st_ids = [g[3]['id'] for g in st_groups]
    a2, bad2, kf2 = validate(ctx, None, 'stage2', True, 1, 10 + len(st_groups), True,
                             groups=[[e] for e in s2ev] + st_groups)
    bad2ids = [e['id'] for e in bad2]
    if sorted(i for i in bad2ids if i < SWEEP_ID0) != sorted(st_ids):
        raise vlib.Inconclusive('binding self-test failed: flipped results %s, rejected %s' % (st_ids, bad2ids))
    bad2 = [e for e in bad2 if e['id'] >= SWEEP_ID0]
    kf2 = {i: k_ for i, k_ in kf2.items() if i >= SWEEP_ID0}
    for i, s in by2.items():
        if s['cls'] == 'plain' and i not in bad2ids:
            raise vlib.Inconclusive('embedding table and real-width oracle disagree on %s' % describe(s['ev']))
        if s['cls'] == 'kf' and (i in bad2ids or (i not in kf2 and not s['inv'])):
            raise vlib.Inconclusive('embedding table and real-width oracle disagree on the F2 region of %s' % describe(s['ev']))
    if plain_total and not bad2:
        raise vlib.Inconclusive('sweep reported mismatches that TLC does not confirm')
    ctx.traces += len(s2ev) - len(bad2)
    kfc2 = report(ctx, drv, bad2, kf2, by2, 'embedding sweep / model counterexamples')
    ctx.extra['stage2'] = dict(events=len(s2ev), rejected=len(bad2), known=kfc2,
                               apalache_counterexamples_observed_on_code=[
                                   describe(s['ev']) for s in by2.values() if s['inv']])
    for s in list(by2.values())[:1]:
        ctx.sample(dict(kind='sweep-mismatch-or-model-counterexample', call=describe(s['ev']), event=s['ev']))
    # the pure P-spec (Lenient = FALSE) rejects a result in an F2 region: the regions are not vacuous (thorough)
    anti = [e for e in evs if e['id'] in kf][:1]
    if th and anti:
        _a, badp, _k = validate(ctx, anti, 'strict', False, 1, 2, False)
        if len(badp) != 1:
            raise vlib.Inconclusive('pure P-spec accepted a result in an F2 region that differs from the definition')
    ctx.extra['binding_selftest'] = '%s; corrupted table entries noticed by the sweep%s' % (
        'flipped result rejected by TLC for %s' % ops_st if ops_st else 'flipped-result test skipped: real results already rejected',
        '; strict P-spec rejects an F2 vector' if th and anti else '')

    # ---- collect background work
    for f in fut_e1:
        for r in f.result():
            ctx.states += r.distinct
            ctx.transitions += r.generated
    pool.shutdown()
    ctx.extra['apalache'] = [{k: r[k] for k in ('module', 'inv', 'outcome', 'wall_s')} for r in apa]
    ms = [16, 32] + ([64] if th else [])
    ctx.extra['exhaustive_moduli'] = ms
    ctx.extra['operand_tuples_checked_by_tlc'] = sum(m ** 2 * 5 + m ** 3 * 2 + m ** 4 for m in ms)
    ctx.extra['evaluations'] = len(vectors) + len(s2ev) + ctx.extra['sweep_evaluations']
    ctx.extra['distinct_nontrivial'] = ctx.extra['vectors_distinct']
    ctx.extra['rule'] = ('vectors: fixed base points {0,1,2^31-1,2^31,2^31+1,2^32-1} and seeded random ones x deltas '
                         '{0,+-1,+-2,+-(2^k-1,2^k,2^k+1),2^31-1,2^31,2^31+1,randoms}, window sizes incl. 0, 2^31+-2, 2^32-1, '
                         'window offsets at each boundary +-1; distinct_nontrivial = distinct (function, operands) vectors '
                         'judged by TLC; sweep: every tuple of Z_2^k x translations against the TLC table')
    tcp_wrap(ctx)
    ctx.assumptions += [
        'real width is sampled (structured boundaries + seed), the for-all over 0..2^32-1 is Apalache on the implementation shapes of SeqNum.tla',
        'Share (exists k) is evaluated at 2^32 as ShareW (k in {a, x}); lemma checked by TLC for every tuple at the small moduli and by Apalache at 2^32',
        'U32.tla (16-bit halves) is checked against SeqNum.tla at B=4 (M=16) and, thorough, B=8 (M=64, pairs/triples); carries are base-generic',
        'embedding n -> n*2^(32-k)+t preserves every definition and region: Apalache SeqNumEmbed (thorough tier); translation invariance is part of AllInv',
        'F2a/F2b are known findings: inside those regions the code is expected to differ from the literal property text',
        'the "consequently" clause: TCP transfers whose sender ISS is pinned (hook H4) just below 2^31 / 2^32 / at 0 run on two real stacks over a synchronous wire with loss, reordering and coalescing; TLC validates them against the C01 and C04 clauses of TraceTcp (only the active opener\'s ISS can be pinned; the passive side\'s ISS is cookie-derived)',
    ]
