"""C03 - TCP connections exist only after a correct handshake; strays are reset.

Spec: spec/hs/TcpHs.tla (closed model: one stack endpoint in the handshake
phase - active opener, listener in normal and SYN-cookie mode - against an
arbitrary scripted peer, sequence arithmetic modulo 16, P-level monitors
AcceptOK / ConnectOK / BadAck / ResetNeverAnswered checked by TLC) and
spec/hs/TraceHs.tla (the same P-spec as a trace validator over wire + API
observations).  The no-socket half reuses spec/sock/TraceSock.tla.
Binding: harness/hsd (one real stack against a scripted raw peer; quiescence
is a state: every goroutine parked) replays paths of the TcpHs state graph
and seeded samples (wrong ACK numbers over the 32-bit space, SYN option sets,
wrap-adjacent ISS placements for both sides, random segment orders, backlog
pressure); harness/sockd injects segments for which no socket exists.
"""
import copy
import json  # noqa
import os
import threading
from concurrent.futures import ThreadPoolExecutor

import vlib
from vlib import cfg, MV

MANIFEST = dict(
    technique='TLA+ closed model TcpHs (handshake I-spec vs scripted peer, TLC exhaustive, P-monitors AcceptOK/ConnectOK/BadAck/ResetNeverAnswered) + paths of its state graph and seeded samples replayed on the real stack by a reactive raw-peer driver; every trace validated by TLC against the P-spec TraceHs (handshake) / TraceSock (no socket => exactly one reset)',
    text='TLC explores every sequence of up to 4 peer segments (flags S, SA, A, R, RA, FA, none; sequence numbers irs, irs+1, irs+2, far; ack numbers iss-1, iss, iss+1, iss+2, far; arithmetic modulo 16 with the initial sequence numbers placed at 0, 1, 7, 8, 15) against the active opener, the listener and the listener in SYN-cookie mode and checks that a connection reaches Accept / Connect completes only after a SYN and a non-RST ACK of exactly iss+1, that any other acknowledgement delivered to a SYN-SENT / SYN-RCVD connection is answered by one RST carrying that number, and that a RST is never answered. Transitions of that graph and seeded scenarios (wrong ACK numbers iss+1 +- 1, +- 2^k, random; SYN option lists with MSS, window scale, timestamps, SACK-permitted, NOP/EOL padding, unknown kinds, truncated and mis-sized options, none; peer and stack ISS at 0, 2^31-1, 2^31, 2^32-1 (hook H4 for the active side, cookie linearity for the passive side); IPv4, IPv6 and cross-family (dual-stack IPv6 socket with an IPv4 peer as listener and as active opener to the v4-mapped address; IPV6_V6ONLY listener with an IPv4 peer = no socket); normal, cookie and backlog-pressure mode; random segment orders; re-use of a 4-tuple after a handshake that was reset, and segments after the listener was closed) run on a real stack; after every peer segment the driver waits until every goroutine of the stack is parked, so "nothing is emitted" and "Accept would block" are statements about a quiescent state. TLC decides from the recorded injections, emitted frames (harness decoder) and Accept / Connect results whether the P-spec admits the trace; after the handshake a write shows that segment sizes and the amount in flight respect the MSS and window (scale) the peer put on its SYN. Segments for which no socket exists (64 flag combinations, with/without ACK, payload 0..1000, wrap-adjacent numbers, IPv4/IPv6) must be answered by exactly one RST with seq = their ack number (0 without ACK) and ack = seq + length, RSTs by nothing.',
    design='5 C03',
    note='Deviations from DESIGN C03: own closed model TcpHs instead of a TcpImpl section; quiescence detected from goroutine states instead of hook H6 / 50 ms of silence; the replayed graph is the placement-free quotient (VIEW ViewReplay) of TcpHs: quick replays a seeded sample of 700 paths of the <= 2-segment graph, thorough every transition of the <= 3-segment graph (52 k transitions); the exhaustive TLC run covers 4 segments. A mutant accepting cookies from a stale timestamp slot is not detectable (needs > 3 minutes of waiting and is not forbidden by the statement). AcceptOK does not constrain the sequence number of the final ACK (the statement does not): observed, out of scope - synRcvdState completes on an ACK of iss+1 with ANY sequence number (no RFC 793 acceptability test), also on a duplicate SYN-ACK. A bare ACK to a listener without SYN may be dropped or reset. Known finding F21 (cookie validation accepts ack numbers iss+1+d, |d| <= 3, through the additive MSS index), F22 (it validates only ack - seq: any common shift passes) are probed with the strict spec on every run and tolerated elsewhere only in exactly that shape; F23 (an established connection answered an acceptable RST with a RST; fixed in /repo) is probed too and tolerated nowhere. Seen, belongs to C04: cookie mode rounds a peer MSS below 536 up to 536; a passive open ignores the window of the handshake-completing ACK. The 2^-22 cookie guessing probability is not explored. Timestamp negotiation (RFC 7323 drop of option-less segments) is honoured by the scripts, not modelled.')

SPEC = ['hs']
WRAP = [0x00000000, 0x00000001, 0x7fffffff, 0x80000000, 0xffffffff, 0xfffffffe, 0x7ffffffe, 0x0000ffff, 0xffff0000, 0x80000001]
M = 16
H = M // 2


def hl(x):
    x &= 0xffffffff
    return [x >> 16, x & 0xffff]


def rel32(x):
    x &= 0xffffffff
    return dict(rel=x & 0xffff, relhi=x >> 16)


def send(flags, seq, ack=None, ackabs=None, **kw):
    d = dict(op='send', flags=flags, seq=rel32(seq))
    if ackabs is not None:
        d['ack'] = dict(abs=hl(ackabs))
    elif ack is not None:
        d['ack'] = rel32(ack)
    d.update(kw)
    return d


# ------------------------------------------------------------------ SYN option lists
def opt_semantics(b):
    """Strict reading of an option list: (wellformed, mss, ws, ts, sackperm); options after EOL are ignored."""
    i, n = 0, len(b)
    mss, ws, ts, sp = 536, -1, False, False
    seen = set()
    while i < n:
        k = b[i]
        if k == 0:
            break
        if k == 1:
            i += 1
            continue
        if i + 1 >= n:
            return (False, -1, -2, ts, sp)
        ln = b[i + 1]
        if ln < 2 or i + ln > n:
            return (False, -1, -2, ts, sp)
        if k in seen and k in (2, 3, 4, 8):
            return (False, -1, -2, ts, sp)      # duplicates: no claim
        seen.add(k)
        if k == 2:
            if ln != 4 or (b[i + 2] << 8 | b[i + 3]) == 0:
                return (False, -1, -2, ts, sp)
            mss = b[i + 2] << 8 | b[i + 3]
        elif k == 3:
            if ln != 3:
                return (False, -1, -2, ts, sp)
            ws = min(b[i + 2], 14)
        elif k == 4:
            if ln != 2:
                return (False, -1, -2, ts, sp)
            sp = True
        elif k == 8:
            if ln != 10:
                return (False, -1, -2, ts, sp)
            ts = True
        i += ln
    return (True, mss, ws, ts, sp)


MSS_VALUES = [88, 100, 256, 512, 536, 537, 1000, 1200, 1300, 1440, 1459, 1460, 1461, 4000, 9000, 65535]
WS_VALUES = [0, 1, 2, 5, 7, 8, 13, 14, 15, 255]


def gen_options(rng):
    """A SYN option list from the option grammar: returns (bytes, class)."""
    cls = rng.choice(['none', 'mss', 'mss', 'mssws', 'all', 'all', 'padded', 'unknown', 'eol', 'trunc', 'badlen', 'wsonly'])
    items = []
    mss = [2, 4] + [x for x in divmod(rng.choice(MSS_VALUES), 256)]
    ws = [3, 3, rng.choice(WS_VALUES)]
    sackp = [4, 2]
    ts = [8, 10] + [rng.randrange(256) for _ in range(4)] + [0, 0, 0, 0]
    unk = lambda: (lambda k, l: [k, l] + [rng.randrange(256) for _ in range(l - 2)])(rng.choice([5, 9, 19, 30, 34, 253, 254, 255]), rng.choice([2, 3, 4, 6, 8]))
    if cls == 'none':
        items = []
    elif cls == 'mss':
        items = [mss]
    elif cls == 'wsonly':
        items = [ws]
    elif cls == 'mssws':
        items = [mss, ws]
    elif cls in ('all', 'padded', 'unknown', 'eol', 'trunc', 'badlen'):
        items = [mss, ws] + ([sackp] if rng.random() < 0.6 else []) + ([ts] if rng.random() < 0.5 else [])
        if cls == 'unknown':
            items.append(unk())
            if rng.random() < 0.4:
                items.append(unk())
        rng.shuffle(items)
    b = []
    for it in items:
        if cls in ('padded', 'unknown') or rng.random() < 0.3:
            b += [1] * rng.randrange(0, 3)
        b += it
    if cls == 'eol':
        cut = rng.randrange(0, len(items) + 1)
        b = []
        for it in items[:cut]:
            b += it
        b += [0] + [rng.choice([0, 0, 1, 2, 255]) for _ in range(rng.randrange(0, 6))]
    elif cls == 'trunc':
        b = b[:max(1, len(b) - rng.randrange(1, 4))]
        if rng.random() < 0.5:
            b += [rng.choice([2, 3, 8, 30])]        # a kind without length at the very end
    elif cls == 'badlen':
        it = rng.choice(items)
        j = 0
        b = []
        for x in items:
            if x is it:
                x = list(x)
                x[1] = rng.choice([0, 1, x[1] - 1, x[1] + 1, 40, 255])
            b += x
    b = b[:40]
    while len(b) % 4:
        b.append(rng.choice([1, 1, 0]) if cls != 'trunc' else 1)
    b = b[:40]
    return b, cls


def syn_fields(b, cls='given'):
    well, mss, ws, ts, sp = opt_semantics(b)
    return dict(optbytes=b, omss=mss, ows=ws, ots=ts, osack=sp, owell=well, oclass=cls)


# ------------------------------------------------------------------ address families
def family(rng):
    """Wire family of the peer x family of the stack's socket: plain IPv4, plain IPv6 (v6only on or off), and the
    cross-family case - a dual-stack IPv6 socket (v6only off, wildcard) talking to an IPv4 peer (listener: IPv4 SYNs
    reach it; active open: connect to the v4-mapped address)."""
    return dict(rng.choice([dict(v=4, sock=4), dict(v=4, sock=4), dict(v=6, sock=6), dict(v=6, sock=6, v6only=True),
                            dict(v=4, sock=6), dict(v=4, sock=6)]))


# ------------------------------------------------------------------ scenarios from the model graph
OFFMAP = {0: 0, 1: 1, 2: 2, H: 0x80000000, -1: -1}
RESP = dict(ListenSyn=['SA'], SentSyn=['SA'], SentSynAck=['A'], HsBadAck=['RA'], RcvdOtherSyn=['RA'], ListenAckValid=[], ListenDrop=[],
            HsRst=[], SentNoSyn=[], RcvdAck=[], RcvdIgnore=[], DeadSeg=[])


def scenario_from_path(path, states, init, rng, kf):
    s0 = states[init]
    role = s0['role']
    sc = dict(family(rng), role='active' if role == 'active' else 'passive', cookie=1 if role == 'cookie' else 0,
              port=80, backlog=4, peeriss=[hl(rng.choice(WRAP))], tag='graph-' + role, info=dict(kf), steps=[])
    if role == 'active':
        sc['iss'] = hl(rng.choice([0x7fffffff, 0x80000000, 0xffffffff, 0x00000000]))
        sc['steps'].append(dict(op='connect'))
    else:
        sc['steps'].append(dict(op='listen'))
    prev = s0
    for st in path:
        f, so, ao, d = st['args']
        dst = states[st['dst']]
        kw = {}
        if f == 'S':
            kw = syn_fields([2, 4, 5, 180] if d else [], 'model-d%d' % d)
        if prev['known']:
            step = send('' if f == 'N' else f, OFFMAP[so], ack=OFFMAP[ao], **kw)
        else:
            step = send('' if f == 'N' else f, OFFMAP[so], ackabs=OFFMAP[ao], **kw)
        exp = list(RESP[st['a']])
        if st['a'] == 'RcvdOtherSyn' and role == 'active':
            exp.append('S')
        step['_pred'] = dict(a=st['a'], emits=exp, acc=dst['acceptq'] > prev['acceptq'], up=dst['connup'], st=dst['st'])
        sc['steps'].append(step)
        sc['steps'].append(dict(op='up') if role == 'active' else dict(op='accept'))
        prev = dst
    return sc


def strip(sc):
    c = {k: v for k, v in sc.items() if not k.startswith('_')}
    if sc.get('cookie'):
        # cookie mode carries the peer's MSS as an index into [536, 1300, 1440, 1460] (index 0 below 1300): the claim checked
        # after the handshake is max(offer, 536) there (the round-up below 536 is C04's business, not this property's)
        for s in sc['steps']:
            if s.get('omss', -1) >= 0:
                s['omss'] = max(s['omss'], 536)
    c['steps'] = [{k: v for k, v in s.items() if not k.startswith('_')} for s in sc['steps']]
    return c


def check_predictions(sc, seg):
    """Compare the I-spec's predicted response (by action) with what the stack did. Returns list of drift strings."""
    out = []
    sends = [s for s in sc['steps'] if s.get('op') == 'send']
    chunks = []
    cur = None
    for e in seg:
        if e['ev'] == 'inj':
            cur = dict(inj=e, emits=[], res=None)
            chunks.append(cur)
        elif cur is not None and e['ev'] == 'emit' and e.get('kind') == 'tcp':
            cur['emits'].append(e)
        elif cur is not None and e['ev'] in ('accept', 'up') and cur['res'] is None:
            cur['res'] = e
    if len(chunks) != len(sends):
        return ['%d inj events for %d sends' % (len(chunks), len(sends))]
    for s, c in zip(sends, chunks):
        p = s.get('_pred')
        if not p:
            continue
        got = [e['flags'] for e in c['emits']]
        if got != p['emits']:
            out.append('%s(%s): model predicts emits %s, stack emitted %s' % (p['a'], c['inj']['flags'], p['emits'], got))
        r = c['res'] or {}
        if r.get('ev') == 'accept' and bool(r.get('ok')) != p['acc']:
            out.append('%s: model predicts accept=%s, stack %s' % (p['a'], p['acc'], r.get('ok')))
        if r.get('ev') == 'up':
            want = 'connected' if p['up'] else ('error' if p['st'] == 'dead' else 'connecting')
            if r.get('res') != want:
                out.append('%s: model predicts connect state %s, stack %s' % (p['a'], want, r.get('res')))
    return out


# ------------------------------------------------------------------ seeded scenarios
def wrong_delta(rng):
    c = rng.random()
    if c < 0.25:
        return rng.choice([-1, 1, -2, 2, -3, 3, -4, 4, 5, -5])
    if c < 0.7:
        k = rng.randrange(1, 32)
        return rng.choice([1, -1]) * (1 << k) + rng.choice([0, 0, 1, -1])
    return rng.randrange(1, 1 << 32)


def base_sc(rng, role, cookie, kf, tag, npeers=1):
    sc = dict(family(rng), role=role, cookie=cookie, port=rng.choice([80, 8080, 1, 65535]), backlog=4,
              peeriss=[hl(rng.choice(WRAP + [rng.randrange(1 << 32)])) for _ in range(npeers)], tag=tag, info=dict(kf), steps=[])
    if role == 'active':
        if rng.random() < 0.8:
            sc['iss'] = hl(rng.choice([0x7fffffff, 0x80000000, 0xffffffff, 0x00000000, 0xfffffffe]))
        sc['steps'].append(dict(op='connect'))
    else:
        sc['steps'].append(dict(op='listen'))
    return sc


def tsx(ts):
    return dict(tsecho=1) if ts else {}


def sc_wrong_acks(rng, kf, i):
    """Handshake with wrong ACK numbers first (classes +-1, +-2^k, random), then the right one."""
    role = 'active' if i % 3 == 0 else 'passive'
    cookie = 0 if role == 'active' else rng.choice([0, 0, 1])
    sc = base_sc(rng, role, cookie, kf, 'wrongack-%s-%d' % (role, cookie))
    st = sc['steps']
    res = dict(op='up') if role == 'active' else dict(op='accept')
    ob, cls = gen_options(rng) if rng.random() < 0.5 else ([2, 4, 5, 180], 'mss')
    sf = syn_fields(ob, cls)
    ts = sf['ots'] and sf['owell']
    if sf['ots'] and not sf['owell']:
        ob = [2, 4, 5, 180]
        sf = syn_fields(ob, 'mss')
        ts = False
    if role == 'passive':
        if cookie == 0 and rng.random() < 0.3:      # place the stack's ISS next to the wrap through the cookie's linearity
            st.append(send('S', 0, **sf))
            st.append(send('R', 1))
            st.append(dict(op='retarget', pp=0, iss=hl(rng.choice([0x7fffffff, 0x80000000, 0xffffffff, 0x00000000, 0xfffffffe]))))
            sc['tag'] += '-retarget'
        st.append(send('S', 0, **sf))
        flagsets = ['A', 'A', 'A', 'PA', 'FA', 'SA']
    else:
        flagsets = ['SA', 'SA', 'SA', 'A', 'FA', 'PA']
    st.append(dict(res))
    for _ in range(rng.randrange(1, 4)):
        d = wrong_delta(rng)
        if cookie == 1 and abs(d) <= 4 and not kf['kf21']:
            d = 7
        f = rng.choice(flagsets)
        n = rng.choice([0, 0, 0, 1, 100]) if 'S' not in f else 0
        seqoff = 0 if ('S' in f and role == 'active') else (0 if 'S' in f else 1)
        st.append(send(f, seqoff, ack=1 + d, n=n, seed=rng.randrange(1000), win=rng.choice([0, 1, 1000, 65535]), note='wrong-ack', **tsx(ts)))
        st.append(dict(res))
    if role == 'passive':
        st.append(send('A', 1, ack=1, win=rng.choice([1, 2, 5, 16, 200, 65535]), **tsx(ts)))
    else:
        st.append(send('SA', 0, ack=1, win=rng.choice([1, 64, 500, 3000, 65535]), **sf))
    st.append(dict(res))
    st.append(dict(op='state'))
    st.append(dict(op='probe', pp=0, n=rng.choice([3000, 20000])))
    return sc


def sc_options(rng, kf, i):
    """Clean handshake with a sampled SYN option list; a write afterwards shows which MSS / window scale the stack uses."""
    role = 'active' if i % 2 else 'passive'
    cookie = 0 if role == 'active' else rng.choice([0, 0, 0, 1])
    sc = base_sc(rng, role, cookie, kf, 'options-%s-%d' % (role, cookie))
    sc['mtu'] = rng.choice([1500, 1500, 1500, 576, 9000])
    st = sc['steps']
    ob, cls = gen_options(rng)
    sf = syn_fields(ob, cls)
    if sf['ots'] and not sf['owell']:
        # a malformed list that contains a timestamp: whether the stack negotiated it is unknowable, later segments would need it or not
        ob = [x for x in ob if True]
        sf = syn_fields([2, 4, 2, 24, 3, 3], 'trunc')   # MSS 536, then a truncated WS
    ts = sf['ots']
    sc['tag'] += '-' + cls
    win = rng.choice([1, 2, 3, 7, 100, 1000, 65535])
    if role == 'passive':
        # the stack keeps the SYN's (unscaled) window until the first ACK after the handshake: keep it small so that
        # the window update below, scaled by the peer's window scale, is what bounds the amount in flight
        st.append(send('S', 0, win=rng.choice([0, 1, 90]), **sf))
        st.append(dict(op='accept'))
        st.append(send('A', 1, ack=1, win=rng.choice([0, 1, 90]), **tsx(ts)))
        st.append(dict(op='accept'))
    else:
        st.append(send('SA', 0, ack=1, win=rng.choice([1, 90]), **sf))
        st.append(dict(op='up'))
    if rng.random() < 0.8:
        st.append(send('A', 1, ack=1, win=win, note='window-update', **tsx(ts)))
    sc['_opt'] = dict(sf, mtu=sc['mtu'], cookie=cookie)
    st.append(dict(op='state'))
    st.append(dict(op='probe', pp=0, n=rng.choice([3000, 20000, 70000])))
    return sc


def sc_random_walk(rng, kf, i):
    """Arbitrary order of valid and invalid handshake segments."""
    role = 'active' if i % 3 == 0 else 'passive'
    cookie = 0 if role == 'active' else rng.choice([0, 0, 1, 2])
    npeers = 2 if cookie == 2 else 1
    sc = base_sc(rng, role, cookie, kf, 'walk-%s-%d' % (role, cookie), npeers)
    st = sc['steps']
    res = dict(op='up') if role == 'active' else dict(op='accept')
    for _ in range(rng.randrange(2, 7)):
        pp = rng.randrange(npeers)
        f = rng.choice(['S', 'S', 'SA', 'A', 'A', 'A', 'R', 'RA', 'FA', 'F', 'PA', '', 'SF', 'SR', 'SAR', 'UA', 'SFA'])
        so = rng.choice([0, 0, 1, 1, 1, 2, 0x80000000, 0x7fffffff, -1, 65535, 65536, rng.randrange(1 << 32)])
        ao = rng.choice([1, 1, 1, 0, 2, -1, 3, 4, 0x80000000, 0x80000001, rng.randrange(1 << 32)])
        kw = {}
        if 'S' in f:
            kw = syn_fields(rng.choice([[], [2, 4, 5, 180], [2, 4, 5, 20, 1, 3, 3, 7]]))
        n = rng.choice([0, 0, 0, 1, 50]) if 'S' not in f else 0
        st.append(send(f, so, ack=ao, pp=pp, n=n, seed=rng.randrange(100), win=rng.choice([0, 1, 65535]), **kw))
        st.append(dict(res))
    st.append(dict(op='state'))
    return sc


def sc_pressure(rng, kf, i):
    """Backlog pressure: several peers, SynRcvdCountThreshold = 1 (second half-open connection gets a cookie), small backlog."""
    n = rng.choice([2, 3, 4])
    sc = base_sc(rng, 'passive', 2, kf, 'pressure', n)
    sc['backlog'] = rng.choice([1, 1, 2, 4])
    st = sc['steps']
    order = list(range(n))
    rng.shuffle(order)
    for pp in order:
        st.append(send('S', 0, pp=pp, **syn_fields([2, 4, 5, 180])))
    st.append(dict(op='accept'))
    rng.shuffle(order)
    bad = rng.choice(order)
    for pp in order:
        if pp == bad:
            st.append(send('A', 1, ack=1 + rng.choice([9, -9, 1 << 20, 0x80000000]), pp=pp, note='wrong-ack'))
            st.append(dict(op='accept'))
        else:
            st.append(send('A', 1, ack=1, pp=pp))
    for _ in range(n + 1):
        st.append(dict(op='accept'))
    return sc


def sc_v6only(rng, kf, i):
    """IPv4 peer, the only socket is an IPV6_V6ONLY listener on that port: no socket exists for the segment."""
    sc = dict(v=4, sock=6, v6only=True, role='passive', cookie=rng.choice([0, 0, 1]), port=rng.choice([80, 8080]), backlog=4,
              peeriss=[hl(rng.choice(WRAP + [rng.randrange(1 << 32)]))], tag='v6only', info=dict(kf, nosock=True), steps=[dict(op='listen')])
    for _ in range(rng.randrange(2, 6)):
        f = rng.choice(['S', 'S', 'A', 'SA', 'FA', 'PA', 'R', 'RA', 'F', '', 'SF', 'UA', 'SFA'])
        kw = syn_fields([2, 4, 5, 180]) if 'S' in f else {}
        sc['steps'].append(send(f, rng.choice([0, 1, 2, 0x80000000, rng.randrange(1 << 32)]), ackabs=rng.choice(WRAP + [rng.randrange(1 << 32)]),
                                n=rng.choice([0, 0, 1, 10, 1000]), seed=rng.randrange(100), **kw))
        sc['steps'].append(dict(op='accept'))
    return sc


def sc_reuse(rng, kf, i):
    """4-tuple reuse: a passive handshake that ends without a connection (RST at RCV.NXT, directly or after a wrong final ACK
    was answered by a reset) leaves nothing behind - the same 4-tuple starts over with a new SYN (new ISS) like a fresh one,
    and once the listener is closed every segment on it gets the no-socket reset."""
    cookie = rng.choice([0, 0, 0, 1])
    sc = base_sc(rng, 'passive', cookie, kf, 'reuse-%d' % cookie, 2)
    st = sc['steps']
    base = 0
    for rnd in range(rng.choice([1, 1, 2, 3]) if i % 8 else 1):
        st.append(send('S', base, **syn_fields(rng.choice([[], [2, 4, 5, 180]]))))
        how = rng.choice(['rst', 'rst', 'badack', 'rstack']) if i % 8 else 'rst'
        if how == 'badack':
            st.append(send(rng.choice(['A', 'FA', 'PA']), base + 1, ack=1 + wrong_delta(rng) if cookie == 0 else 1 + 77, note='wrong-ack'))
        st.append(send('RA' if how == 'rstack' else 'R', base + 1, ack=1))
        st.append(dict(op='accept'))
        base += rng.choice([1000, 0x10000, 0x7fffffff, 3])
    end = rng.choice(['complete', 'close', 'close', 'close-after-complete']) if i % 8 else 'close'
    if end in ('complete', 'close-after-complete'):
        st.append(send('S', base, **syn_fields([2, 4, 5, 180])))
        st.append(send('A', base + 1, ack=1))
        st.append(dict(op='accept'))
    if end != 'complete':
        st.append(dict(op='closel'))
        for _ in range(rng.randrange(1, 5) if i % 8 else 2):
            f = rng.choice(['S', 'S', 'A', 'SA', 'FA', 'PA', 'R', 'RA', '', 'SF']) if i % 8 else 'S'
            pp = rng.choice([0, 0, 1]) if end == 'close' else 1      # a tuple with an accepted connection still has a socket
            st.append(send(f, rng.choice([base, base + 1, 0, 1, 5000, rng.randrange(1 << 32)]), ackabs=rng.choice(WRAP + [rng.randrange(1 << 32)]), pp=pp,
                           n=rng.choice([0, 0, 1, 100]) if 'S' not in f else 0, seed=rng.randrange(100)))
    return sc


def sc_dual_badack(kf, cookie, v6peer):
    """Fixed script: dual-stack listener (IPv6 socket, v6only off), wrong final ACK then the right one."""
    fam = dict(v=6, sock=6) if v6peer else dict(v=4, sock=6)
    return dict(fam, role='passive', cookie=cookie, port=80, backlog=4, peeriss=[hl(0xfffffffe)], tag='dual-%d-%s' % (cookie, 'v6' if v6peer else 'v4'),
                info=dict(kf), steps=[dict(op='listen'), send('S', 0, **syn_fields([2, 4, 5, 180])), dict(op='accept'), send('A', 1, ack=9), dict(op='accept'),
                                      send('A', 1, ack=1), dict(op='accept'), dict(op='state'), dict(op='probe', pp=0, n=3000)])


def probes_kf(rng, thorough):
    """Replay scripts of the known findings, validated with the STRICT P-spec on every run:
    F21 cookie validation tolerates the MSS index (ack = iss+1+d, |d| <= 3), F22 it only looks at ack - seq."""
    out = []
    f21 = [([2, 4, 5, 180], -1), ([], 3), ([2, 4, 5, 180], -3), ([], 1)]
    f22 = [(1, 1), (0, 0x80000000), (1, 0x12345678), (0, -2)]
    for k, (ob, d) in enumerate(f21[:4 if thorough else 1]):
        sc = dict(v=4 if k % 2 == 0 else 6, role='passive', cookie=1, port=80, backlog=4, peeriss=[hl(0xffffffff - k)], tag='probe-F21',
                  info=dict(kf21=False, kf22=False), steps=[])
        sc['steps'] = [dict(op='listen'), send('S', 0, **syn_fields(ob)), dict(op='accept'), send('A', 1, ack=1 + d, note='F21'), dict(op='accept')]
        out.append(sc)
    for k, (cookie, sh) in enumerate(f22[:4 if thorough else 1]):
        sc = dict(v=4 if k % 2 == 0 else 6, role='passive', cookie=cookie, port=80, backlog=4, peeriss=[hl(0x7fffffff + k)], tag='probe-F22',
                  info=dict(kf21=False, kf22=False), steps=[])
        sc['steps'] = [dict(op='listen'), send('S', 0, **syn_fields([2, 4, 5, 180])), dict(op='accept')]
        if cookie == 0:
            sc['steps'].append(send('R', 1))         # kill the SYN-RCVD connection: the listener validates bare ACKs statelessly
        sc['steps'] += [send('A', 1 + sh, ack=1 + sh, note='F22'), dict(op='accept')]
        out.append(sc)
    # F23 (fixed in /repo by 228fd49; a 'fixed' entry suppresses nothing): an established connection answered an acceptable RST with a RST
    none = dict(kf21=False, kf22=False)
    out.append(dict(v=4, role='passive', cookie=0, port=80, backlog=4, peeriss=[hl(0xfffffffe)], tag='probe-F23', info=none,
                    steps=[dict(op='listen'), send('S', 0), send('A', 1, ack=1), dict(op='accept'), send('R', 1)]))
    if thorough:
        out.append(dict(v=6, role='active', port=80, iss=hl(0x7fffffff), peeriss=[hl(0x80000000)], tag='probe-F23', info=none,
                        steps=[dict(op='connect'), send('SA', 0, ack=1), dict(op='up'), send('RA', 1, ack=1)]))
    return out


# ------------------------------------------------------------------ no-socket half (sockd + TraceSock)
NIC = dict(id=1, mtu=1500, addr4=['10.0.0.1', '10.0.0.2'], addr6=['fd00::1'])
FLAGS64 = [''.join(c for c, b in zip('FSRPAU', range(6)) if m >> b & 1) for m in range(64)]


def nosock_scenarios(ctx, n):
    rng = ctx.rng
    out = []
    fi = 0
    for i in range(n):
        ops = []
        kind = i % 4
        if kind == 3:      # the only socket on the port is an IPV6_V6ONLY listener: IPv4 segments have no socket
            ops += [dict(op='tcp', s=0, v=6), dict(op='setopt', s=0, opt='v6only', val=1), dict(op='bind', s=0, addr='', port=81), dict(op='listen', s=0, backlog=2)]
        if kind == 1:      # a listener exists, but on another port
            ops += [dict(op='tcp', s=0, v=4), dict(op='bind', s=0, addr='', port=80), dict(op='listen', s=0, backlog=2)]
        elif kind == 2:    # a listener on another address
            ops += [dict(op='tcp', s=0, v=4), dict(op='bind', s=0, addr='10.0.0.2', port=81), dict(op='listen', s=0, backlog=2)]
        for j in range(8):
            v = 6 if (rng.random() < 0.3 and kind != 3) else 4
            flags = FLAGS64[fi % 64] if rng.random() < 0.7 else rng.choice(['S', 'A', 'SA', 'FA', 'R', 'RA', 'PA', 'F', ''])
            fi += 1
            if v == 4:
                dst = '10.0.0.1' if kind == 2 else rng.choice(['10.0.0.1', '10.0.0.2'])
                src = '10.0.0.9'
            else:
                dst, src = 'fd00::1', 'fd00::9'
            dport = 81 if kind in (1, 2, 3) else rng.choice([80, 81, 1, 65535, 40000])
            seq = rng.choice(WRAP + [0xfffffff0, 0xfffffc18, rng.randrange(1 << 32)])
            ack = rng.choice(WRAP + [rng.randrange(1 << 32)])
            nn = rng.choice([0, 0, 1, 2, 10, 100, 1000])
            ops.append(dict(op='inject', kind='tcp', v=v, src=src, sport=rng.choice([7, 40000, 65535]), dst=dst, dport=dport, flags=flags,
                            seqhi=seq >> 16, seqlo=seq & 0xffff, ackhi=ack >> 16, acklo=ack & 0xffff, n=nn, seed=rng.randrange(1 << 16),
                            win=rng.choice([0, 1, 65535])))
            ops.append(dict(op='settle', ms=3))
        out.append(dict(nics=[NIC], ops=ops))
    return out


# ------------------------------------------------------------------ running the driver
CRASHES = []


def read_events(path):
    out = []
    if not os.path.exists(path):
        return out
    with open(path) as f:
        for ln in f:
            ln = ln.strip()
            if not ln:
                continue
            try:
                out.append(json.loads(ln))
            except ValueError:
                break           # a line cut by a crash
    return out


def run_hsd(ctx, drv, scs, name, chunk=120):
    """Run scenarios through hsd (several processes in parallel); returns one event segment per scenario.
    The driver flushes its events at every settle: if the stack under test crashes the process, what was
    observed up to then is kept (the P-spec still judges it), the crash is recorded and the remaining
    scenarios run in a fresh process."""
    if not scs:
        return []
    chunks = [scs[i:i + chunk] for i in range(0, len(scs), chunk)]

    def one(k):
        todo = list(chunks[k])
        done = []
        rnd = 0
        while todo:
            rnd += 1
            sp = os.path.join(ctx.work, '%s-%d-%d.json' % (name, k, rnd))
            tp = os.path.join(ctx.work, '%s-%d-%d.ndjson' % (name, k, rnd))
            vlib.write_json(sp, [strip(s) for s in todo])
            env = ctx.go_env()
            env['GOMAXPROCS'] = '1'
            p = ctx.run([drv, 'run', sp, tp], timeout=3000, env=env, ok_rc=None)
            segs = vlib.split_segments(read_events(tp))
            os.remove(sp)
            if os.path.exists(tp):
                os.remove(tp)
            if p.returncode == 0:
                if len(segs) != len(todo):
                    raise vlib.Inconclusive('hsd produced %d segments for %d scenarios' % (len(segs), len(todo)))
                done += segs
                break
            if p.returncode == 3 or rnd > 20:
                raise vlib.Inconclusive('hsd failed rc=%d: %s' % (p.returncode, p.stderr.decode('utf-8', 'replace')[-1500:]))
            # crash (Go panic / fatal error in the stack): the last segment written belongs to the scenario that was running
            n = max(len(segs), 1)
            if not segs:
                segs = [[dict(ev='reset', role=todo[0]['role'], cookie=todo[0].get('cookie', 0), tag=todo[0]['tag'])]]
            CRASHES.append(dict(tag=todo[n - 1]['tag'], stderr=p.stderr.decode('utf-8', 'replace')[:600]))
            done += segs[:n]
            todo = todo[n:]
        return done
    with ThreadPoolExecutor(max_workers=max(1, min(ctx.workers, 8))) as ex:
        res = list(ex.map(one, range(len(chunks))))
    segs = [s for r in res for s in r]
    for s in segs:
        if any(e['ev'] == 'settle' and not e['idle'] for e in s):
            raise vlib.Inconclusive('hsd: the stack did not become quiescent (scenario %s)' % s[0].get('tag'))
    return segs


TC = cfg(spec='TSpec', constraint='HWMark', postcondition='Accepted')


def short(e):
    return {k: v for k, v in e.items() if k not in ('optbytes',)}


ACTIONS = ['ListenSyn', 'ListenAckValid', 'ListenDrop', 'HsRst', 'HsBadAck', 'SentNoSyn', 'SentSynAck', 'SentSyn',
           'RcvdOtherSyn', 'RcvdAck', 'RcvdIgnore', 'DeadSeg']


def option_drift(sc, seg):
    """I-level: what the endpoint says it took from the SYN options vs what a strict reading of the list offers."""
    o = sc.get('_opt')
    if not o or not o['owell'] or o['cookie']:
        return []
    st = next((e for e in seg if e['ev'] == 'state'), None)
    if st is None:
        return []
    sn = st['active'] if sc['role'] == 'active' else st['conns'].get('0')
    if not sn or not sn.get('ok') or sn.get('state') != 4:
        return []
    hdr = 40 if sc['v'] == 4 else 60
    want_mss = min(o['omss'], o['mtu'] - hdr - (12 if o['ots'] else 0))
    want_ws = o['ows'] if (o['ows'] > 0 and o['cookie'] == 0) else 0
    out = []
    if sn['maxpayload'] != want_mss:
        out.append('options %s: endpoint payload size %d, option list offers %d' % (o['optbytes'], sn['maxpayload'], want_mss))
    if sn['sndwndscale'] != want_ws:
        out.append('options %s: endpoint send window scale %d, option list offers %d' % (o['optbytes'], sn['sndwndscale'], want_ws))
    return out


def run(ctx):
    rng = ctx.rng
    hsd = ctx.go_build('hsd')
    sockd = ctx.go_build('sockd')

    # ---- known findings F21 / F22: drive the real code through their replay scripts
    probes = probes_kf(rng, ctx.thorough())
    psegs = run_hsd(ctx, hsd, probes, 'probe')

    def took(s):
        return any(e['ev'] == 'accept' and e['ok'] for e in s)
    def reproduces(sc, s):
        if sc['tag'] == 'probe-F23':      # a RST emitted after the RST was injected
            k = max(i for i, e in enumerate(s) if e['ev'] == 'inj')
            return any(e['ev'] == 'emit' and 'R' in e.get('flags', '') for e in s[k:])
        return took(s)
    kf = dict(('kf' + f[1:], any(reproduces(sc, s) for sc, s in zip(probes, psegs) if sc['tag'] == 'probe-' + f)) for f in ('F21', 'F22'))
    ctx.extra['known_findings_reproduced'] = dict(F21=kf['kf21'], F22=kf['kf22'],
                                                  F23=any(reproduces(sc, s) for sc, s in zip(probes, psegs) if sc['tag'] == 'probe-F23'))
    consts = dict(M=M, W=4, CookieExact=not (kf['kf21'] or kf['kf22']), ND=4)
    allroles = MV('{"active", "passive", "cookie"}')

    nsock = nosock_scenarios(ctx, ctx.pick(60, 1500))

    # ---- E1 (exhaustive) in the background while the drivers run
    results = {}
    errs = []

    def guard(f):
        def g(*a):
            try:
                return f(*a)
            except BaseException as e:  # noqa
                errs.append(e)
        return g

    def e1():
        inv = ['AcceptOK', 'ConnectOK', 'BadAck', 'ResetNeverAnswered', 'TypeOK']
        if ctx.thorough():
            c = cfg(constants=dict(consts, MaxSeg=4, Roles=allroles, PeerISSs=MV('{0, 1, 7, 8, 15}'), OwnISSs=MV('{0, 7, 8, 15}')), invariants=inv, view='ViewNoOut')
        else:
            c = cfg(constants=dict(consts, MaxSeg=4, Roles=allroles, PeerISSs=MV('{15}'), OwnISSs=MV('{7, 15}')), invariants=inv, view='ViewNoOut')
        results['e1'] = ctx.tlc('TcpHs', c, SPEC, name='TcpHs', must_pass=True, workers=min(ctx.workers, 4), timeout=2400, count=False)
        if not consts['CookieExact']:
            # the monitors bite: without the known-finding disjunct the model of the tree as found must violate AcceptOK
            c2 = cfg(constants=dict(consts, MaxSeg=2, Roles=MV('{"cookie"}'), PeerISSs=MV('{15}'), OwnISSs=MV('{7}')), invariants=['AcceptStrict'])
            results['e1strict'] = ctx.tlc('TcpHs', c2, SPEC, name='TcpHs-strict', workers=1, timeout=900, count=False)

    def drive_sock():
        sp = os.path.join(ctx.work, 'nosock.json')
        tp = os.path.join(ctx.work, 'nosock.ndjson')
        vlib.write_json(sp, nsock)
        ctx.run([sockd, 'run', sp, tp], timeout=3000)
        segs = vlib.split_segments(vlib.read_ndjson(tp))
        if len(segs) != len(nsock):
            raise vlib.Inconclusive('sockd produced %d segments for %d scenarios' % (len(segs), len(nsock)))
        results['socksegs'] = segs

    th = [threading.Thread(target=guard(e1)), threading.Thread(target=guard(drive_sock))]
    for t in th:
        t.start()

    # ---- E2 source: (quotient of the) TcpHs state graph
    import tlaval
    gms = ctx.pick(2, 3)
    gc = cfg(constants=dict(consts, MaxSeg=gms, Roles=allroles, PeerISSs=MV('{15}'), OwnISSs=MV('{7}')), view='ViewReplay')
    gr = ctx.tlc('TcpHs', gc, SPEC, name='TcpHs-graph', dump_dot=True, workers=min(ctx.workers, 4), timeout=1800, count=False)
    nodes, edges, inits = tlaval.parse_dot(os.path.join(gr.dir, 'graph.dot'))
    seen_actions = set(tlaval.parse_action(lab)[0] for _s, _d, lab in edges)
    missing = [a for a in ACTIONS if a not in seen_actions]
    if missing or len(inits) != 3:
        raise vlib.Inconclusive('vacuity: TcpHs actions never taken in the replay graph: %s (initial states %d)' % (missing, len(inits)))
    paths, ncov, nedges = vlib.graph_paths(nodes, edges, inits, max_paths=ctx.pick(700, None), rng=rng)
    states = {}

    def st_of(nid):
        if nid not in states:
            states[nid] = tlaval.parse_state(nodes[nid])
        return states[nid]
    gscs = []
    for p in paths:
        jp = []
        for ei in p:
            _s, d, lab = edges[ei]
            a, args = tlaval.parse_action(lab)
            jp.append(dict(a=a, args=args, dst=d))
            st_of(d)
        init = edges[p[0]][0]
        st_of(init)
        gscs.append(scenario_from_path(jp, states, init, rng, kf))
    ctx.extra.update(graph_states=len(nodes), graph_edges=nedges, edges_replayed=ncov, paths=len(paths),
                     replayed_transition_fraction=round(ncov / max(nedges, 1), 4), graph_max_segments=gms)

    # ---- seeded scenarios
    nw, no, nr, npr, nv, nu = ctx.pick((100, 100, 100, 16, 30, 48), (2500, 2500, 2500, 300, 600, 1500))
    sscs = [sc_wrong_acks(rng, kf, i) for i in range(nw)] + [sc_options(rng, kf, i) for i in range(no)] + \
           [sc_random_walk(rng, kf, i) for i in range(nr)] + [sc_pressure(rng, kf, i) for i in range(npr)] + \
           [sc_v6only(rng, kf, i) for i in range(nv)] + [sc_reuse(rng, kf, i) for i in range(nu)] + \
           [sc_dual_badack(kf, c, p) for c in (0, 1) for p in (False, True)]
    # bases of the binding self-tests
    st_pas = dict(v=4, role='passive', cookie=0, port=80, backlog=4, peeriss=[hl(0xffffffff)], tag='selftest-passive', info=dict(kf),
                  steps=[dict(op='listen'), send('S', 0), send('A', 1, ack=6), send('A', 1, ack=1), dict(op='accept')])
    st_act = dict(v=4, role='active', port=80, iss=hl(0xffffffff), peeriss=[hl(0x7fffffff)], tag='selftest-active', info=dict(kf),
                  steps=[dict(op='connect'), send('SA', 0, ack=1), dict(op='up')])
    allsc = gscs + sscs + [st_pas, st_act]

    try:
        segs = run_hsd(ctx, hsd, allsc, 'main')
    except BaseException:
        for t in th:
            t.join()
        raise
    th[1].join()
    if errs:
        th[0].join()
        raise errs[0]
    socksegs = results['socksegs']

    # ---- model predictions (I-level): drift, never a violation
    ndrift = 0
    npred = 0
    for sc, seg in zip(allsc, segs):
        d = check_predictions(sc, seg) if sc['tag'].startswith('graph-') else option_drift(sc, seg)
        npred += sum(1 for s in sc['steps'] if '_pred' in s) + (1 if sc.get('_opt') else 0)
        for x in d:
            ndrift += 1
            if ndrift <= 3:
                ctx.model_drift('TcpHs %s [%s]' % (x, sc['tag']))
    ctx.extra['model_predictions_checked'] = npred
    ctx.extra['drift_count'] = ndrift

    # ---- binding self-tests: corrupted copies of recorded good traces must be rejected
    base_p, base_a = segs[-2], segs[-1]
    neg = []
    b1 = copy.deepcopy(base_p)      # the good final ACK becomes ack+1, the accept event stays
    hit = False
    for e in b1:
        if e['ev'] == 'inj' and e['flags'] == 'A' and e.get('rack') == 1:
            v = ((e['ackhi'] << 16 | e['acklo']) + 1) & 0xffffffff
            e['ackhi'], e['acklo'], e['rack'] = v >> 16, v & 0xffff, 2
            hit = True
    neg.append(('good ACK turned into ack+1, accept kept', b1, hit and any(e['ev'] == 'accept' and e['ok'] for e in b1)))
    b2 = copy.deepcopy(base_p)      # the RST answering the wrong ACK is dropped
    idx = [i for i, e in enumerate(b2) if e['ev'] == 'emit' and 'R' in e.get('flags', '')]
    if idx:
        del b2[idx[0]]
    neg.append(('recorded RST dropped', b2, bool(idx)))
    b3 = copy.deepcopy(base_a)      # the SYN-ACK acknowledges iss+2, the connect result stays
    hit = False
    for e in b3:
        if e['ev'] == 'inj' and e['flags'] == 'SA':
            v = ((e['ackhi'] << 16 | e['acklo']) + 1) & 0xffffffff
            e['ackhi'], e['acklo'], e['rack'] = v >> 16, v & 0xffff, 2
            hit = True
    neg.append(('SYN-ACK turned into ack+1, connected kept', b3, hit and any(e['ev'] == 'up' and e['res'] == 'connected' for e in b3)))
    rstseg = next((s for s in socksegs if any(e.get('ev') == 'emit' and e.get('kind') == 'tcp' and 'R' in e.get('flags', '') for e in s)), None)
    if rstseg is None:
        raise vlib.Inconclusive('no reset was ever emitted for a socket-less segment: dead driver')
    b4 = copy.deepcopy(rstseg)
    for i, e in enumerate(b4):
        if e.get('ev') == 'emit' and e.get('kind') == 'tcp' and 'R' in e.get('flags', ''):
            del b4[i]
            break
    # a base scenario that did not run as expected is itself in the main batch (the P-spec judges it there); only if
    # nothing is flagged does an unbuildable self-test make the run inconclusive
    unbuildable = [what for what, b, ok in neg if not ok]
    neg = [x for x in neg if x[2]]

    # ---- E3: all validations in parallel JVMs
    nchunk = ctx.pick(2, 4)
    per = (len(segs) + nchunk - 1) // nchunk
    jobs = []
    for k in range(nchunk):
        jobs.append(('main%d' % k, 'TraceHs', SPEC, segs[k * per:(k + 1) * per]))
    for k, s in enumerate(psegs):
        jobs.append(('probe%d' % k, 'TraceHs', SPEC, [s]))
    for k, (what, b, ok) in enumerate(neg):
        jobs.append(('neg%d' % k, 'TraceHs', SPEC, [b]))
    jobs.append(('nosock', 'TraceSock', ['sock'], socksegs))
    jobs.append(('negsock', 'TraceSock', ['sock'], [b4]))
    out = {}

    def val(job):
        nm, mod, sd, ss = job
        out[nm] = vlib.validate_segments(ctx, mod, TC, sd, ss, name=nm, timeout=3000, count=False, max_reruns=8) if ss else (0, [])
    with ThreadPoolExecutor(max_workers=max(2, min(ctx.workers + 2, 8))) as ex:
        list(ex.map(guard(val), jobs))
    th[0].join()
    if errs:
        raise errs[0]
    r1 = results['e1']
    if 'e1strict' in results and results['e1strict'].ok:
        raise vlib.Inconclusive('a cookie finding reproduces on the stack but the TcpHs model of it satisfies the strict AcceptOK: the monitors do not bite')
    # TLC accounting (the runs above were started from threads)
    ctx.states = sum(r['distinct'] for r in ctx.tlc_runs)
    ctx.transitions = sum(r['generated'] for r in ctx.tlc_runs)

    for k, (what, b, ok) in enumerate(neg):
        if not out['neg%d' % k][1]:
            raise vlib.Inconclusive('binding self-test failed: %s was accepted' % what)
    if not out['negsock'][1]:
        raise vlib.Inconclusive('binding self-test failed: missing RST for a socket-less segment was accepted')
    ctx.extra['binding_selftest'] = 'rejected: ' + '; '.join(w for w, _, _ in neg) + '; RST for a socket-less segment dropped'

    # ---- known findings: the strict P-spec must reject the probes that reproduced, exactly at the accept
    for i, s in enumerate(psegs):
        pacc, prej = out['probe%d' % i]
        fid = probes[i]['tag'].split('-')[1]
        if reproduces(probes[i], s) != bool(prej):
            raise vlib.Inconclusive('%s probe %d: reproduced on the stack=%s but TraceHs rejected=%s' % (fid, i, reproduces(probes[i], s), bool(prej)))
        if not prej:
            ctx.traces += 1
            continue
        ev = s[prej[0][1]] if prej[0][1] < len(s) else {}
        inj = [e for e in s if e['ev'] == 'inj'][-1]
        if fid == 'F23':
            if ev.get('ev') != 'emit' or 'R' not in ev.get('flags', ''):
                raise vlib.Inconclusive('F23 probe %d rejected at %s, not at the emitted RST' % (i, ev.get('ev')))
            what = 'established connection answered a RST (seq = RCV.NXT) with a RST'
        else:
            if ev.get('ev') != 'accept':
                raise vlib.Inconclusive('%s probe %d rejected at %s, not at the accept' % (fid, i, ev.get('ev')))
            what = 'stateless cookie validation: connection handed to Accept after a final ACK with seq = irs+1%+d, ack = iss+1%+d' % (inj['rseq'] - 1, inj['rack'] - 1)
        ctx.violation(what, dict(kind='hsd', scenario=strip(probes[i]), events=[short(e) for e in s]), key=fid)

    # ---- verdicts of the main batches
    nacc = 0
    rejected = []
    for k in range(nchunk):
        a, rj = out['main%d' % k]
        nacc += a
        rejected += [(k * per + si, ln) for si, ln in rj]
    ctx.traces += max(nacc - 2, 0)     # the two self-test bases are not claims
    for si, ln in rejected:
        sc = allsc[si]
        seg2 = run_hsd(ctx, hsd, [sc], 'retry%d' % si)          # reproduce once
        a2, r2 = vlib.validate_segments(ctx, 'TraceHs', TC, SPEC, seg2, name='retry%d' % si, count=False)
        if not r2:
            ctx.extra.setdefault('unreproduced', []).append(dict(scenario=si, tag=sc['tag'], event=ln))
            continue
        ln2 = r2[0][1]
        ev = seg2[0][ln2] if ln2 < len(seg2[0]) else {}
        ctx.violation('handshake behaviour rejected by the C03 P-spec at event %d (%s) of scenario %s (peer IPv%d, socket IPv%d%s): %s' % (
            ln2, ev.get('ev'), sc['tag'], sc['v'], sc.get('sock') or sc['v'], ' v6only' if sc.get('v6only') else '', short(ev)),
                      dict(kind='hsd', scenario=strip(sc), events=[short(e) for e in seg2[0][:ln2 + 1]]))
    a, rj = out['nosock']
    ctx.traces += a
    for si, ln in rj:
        ev = socksegs[si][ln] if ln < len(socksegs[si]) else {}
        ctx.violation('segment without a socket: behaviour rejected by the C03 P-spec (TraceSock) at event %d: %s' % (ln, {k: v for k, v in ev.items() if k not in ('pay', 'raw')}),
                      dict(kind='sockd', scenario=nsock[si], events=socksegs[si][:ln + 1]))

    # ---- evidence
    ninj = sum(1 for s in segs for e in s if e['ev'] == 'inj')
    nrst = sum(1 for s in segs for e in s if e['ev'] == 'emit' and 'R' in e.get('flags', ''))
    nconn = sum(1 for s in segs for e in s if (e['ev'] == 'accept' and e['ok']) or (e['ev'] == 'up' and e.get('res') == 'connected'))
    nsinj = sum(1 for s in socksegs for e in s if e.get('op') == 'inject')
    nsrst = sum(1 for s in socksegs for e in s if e.get('ev') == 'emit' and 'R' in e.get('flags', ''))
    if nrst == 0 or nconn == 0 or nsrst == 0:
        raise vlib.Inconclusive('dead driver: resets=%d connections=%d socket-less resets=%d' % (nrst, nconn, nsrst))
    tags = {}
    for sc in allsc:
        t = sc['tag'].split('-')[0]
        tags[t] = tags.get(t, 0) + 1
    ctx.extra.update(scenarios=tags, peer_segments=ninj, resets_observed=nrst, connections_observed=nconn,
                     nosocket_segments=nsinj, nosocket_resets=nsrst, e1_states=r1.distinct, graph_actions=sorted(seen_actions))
    if CRASHES:
        ctx.extra['driver_crashes'] = CRASHES[:5]
        if ctx.violations == 0:
            raise vlib.Inconclusive('the stack under test crashed the driver (%d times, first in scenario %s): %s' % (len(CRASHES), CRASHES[0]['tag'], CRASHES[0]['stderr'][:300]))
    if unbuildable and ctx.violations == 0:
        raise vlib.Inconclusive('binding self-test could not be built (%s): the base scenario did not run as expected' % '; '.join(unbuildable))
    ctx.sample(dict(kind='graph-path', scenario=strip(gscs[0])))
    ctx.sample(dict(kind='wrong-ack', scenario=strip(sscs[0])))
    ctx.sample(dict(kind='options', scenario=strip(sscs[nw])))
    ctx.sample(dict(kind='trace', events=[short(e) for e in segs[len(gscs)][:12]]))
    ctx.sample(dict(kind='nosocket', ops=nsock[0]['ops'][:4]))
    ctx.assumptions += ['pkg/sleep builds only with hook H1', 'hook H4 pins the active opener ISS', 'harness codecs (harness/wire) independent of protocol/header',
                        'quiescence = every goroutine of the driver process other than the driver is parked (the stack has no I/O threads and no polling loops)',
                        'cookie hash treated as unforgeable in the model']
