"""C20 - HTTP requests and WebSocket messages survive the round trip through the stack.

Spec: spec/app
  Http.tla      part A: wire grammar + implementation-shaped parser over character sequences (E1: Parse(Encode(r)) = r
                for every request of a small alphabet and every header order); part B: the exchange
                ClientSend / ServerParse / Dispatch / NoRoute / Respond / ClientRecv with the C20 statement as P.
  Ws.tla        RFC 6455 frame layout as data, two encoders (repo-shaped, independent masked), one decoder, two FIFO
                channels (E1: received is a prefix of sent, decoder(encoder(m)) = m, minimal length form).
  TraceHttp.tla / TraceWs.tla   the P-specs as trace validators.
Binding: harness/appd runs the BUNDLED http/websocket client and server over the stack's own TCP (one stack, loopback
NIC, hook H5) plus the harness's own RFC 6455 client on a raw tcpip.Endpoint; handler arguments, handler responses,
client results, upgrade keys, messages and raw frame headers go to TLC.
"""
import copy
import json
import os
import shutil
import subprocess
from concurrent.futures import ThreadPoolExecutor

import tlaval
import vlib
from vlib import cfg

MANIFEST = dict(
    technique='TLA+ specifications of the HTTP exchange (grammar + parser model + route dispatch) and of RFC 6455 framing over two FIFO channels, checked exhaustively by TLC on small closed models; P-specs TraceHttp/TraceWs validate traces of the bundled client and server (and of an independent raw RFC 6455 client) running over the real stack',
    text='TLC checks on a small alphabet that the stated wire grammar round-trips through a model of the bundled parser for every header order, and that the frame decoder inverts both the repo-shaped and an independent masked encoder with minimal length forms on all interleavings of two directions (length classes 0,1,125,126,127,65535,65536). The real code is then driven with requests generated from TLC simulations of the exchange model and from the seed (GET/HEAD/POST/PUT, 3 registered + unregistered/near-miss paths, 0-4 extra headers incl. overriding defaults and names/values containing the separator characters, bodies 0..1100 bytes incl. binary and CRLF/": " sequences, handler statuses 200/201/404/500) and with WebSocket message sequences in both directions (lengths 0,1,124..127,65534..65537,200000,300000 and random, sent by the harness\'s own client to the bundled server and by the harness\'s own server to the bundled client with masked (all-zero/all-ones/random/partly-zero keys) and unmasked frames alternating on one connection, long then tiny messages, frames dribbled in pieces); all scenarios of a run are served by ONE server process, including the same request shapes repeated (body/headers then bare, unregistered then registered path), raw upgrades repeating the same Sec-WebSocket-Key, and combos of simultaneously open connections (later upgrades and plain requests while earlier WebSocket connections are open, their messages flowing afterwards); TLC decides for every exchange that the handler of exactly the requested path saw the same method/path/header map/body, that no handler runs for an unregistered path, that the client got the handler\'s status and body, that the accept key equals RFC 6455\'s function (Go standard library) of the client key, that per direction the received messages are a prefix of the sent ones and at the end all of them, byte-identical, and that raw frame headers announce the actual length in the minimal form.',
    design='5 C20',
    note='Limits: an HTTP message is taken with one receive and Write ignores short writes, so HTTP messages stay within one segment (< 4 KiB here) and the bytes written per direction of a WebSocket connection stay below the 1 MiB send buffer; fragmented frames and ping/pong/close opcodes (the bundled Conn rejects everything but unfragmented text frames), empty header values, unknown status codes and an empty handler body (End("") means "use the default page") are outside the grammar. The bundled server registers its read waiter after Accept (a request arriving before that is never noticed, a schedule race outside C20): the driver writes only after the server goroutine of the connection is parked in ServerSocket.Read (seen in the goroutine dump, state-based) plus settle_ms, and every rejected scenario is re-run before it is reported: alone in a fresh process, then after one earlier scenario of its class, then after the whole recorded history of the server process (state leaking between exchanges reproduces only with its history; the replay file carries that history). websocket/client.go needs cgo (`import "C"`): appd is built with CGO_ENABLED=1, falling back to a replica of its few lines without cgo. Request token/header map without accessor are read by reflection. Known finding F11 (Response.Error is a no-op) is tolerated only via the KF constant when registered as known.')

SPEC = ['app']
ROUTES = ['/a', '/b', '/b/c.d_e-1?q=1&r=%20']
WS_ROUTES = ['/ws', '/ws2', '/ws3']
WS_ROUTE = WS_ROUTES[0]
SAMPLE_KEY = 'dGhlIHNhbXBsZSBub25jZQ=='     # RFC 6455's sample nonce, sent by several raw connections of one server process
UNREG = ['/nope', '/a/', '/A', '/c', '/b/', '/b/c', '/a?x', '/ws/', '/b/c.d_e-1', '/b/c.d_e-1?q=1&r=%21']
ALL_ROUTES = ROUTES + WS_ROUTES
STATUSES = [200, 201, 404, 500]
WS_LENS = [0, 1, 124, 125, 126, 127, 65534, 65535, 65536, 65537, 200000, 300000]
DIR_BUDGET = 900000      # bytes per direction per connection (send buffer: 1 MiB, Write ignores short writes)
HTTP_CONSTS = dict(Alphabet=set(), TokLen=0, BodyLen=0, MaxHdrs=0, Methods=set(), Paths=set(), HdrSets=set(),
                   Bodies=set(), Statuses=set(), RBodies=set())
WS_CONSTS = dict(Lens=set(), MaxMsgs=0, KeyNames=set(), EncC='repo', EncS='repo')


def http_trace_cfg(kf):
    c = dict(HTTP_CONSTS)
    c['Routes'] = set(ALL_ROUTES)
    c['KF'] = set(kf)
    return cfg(spec='TSpec', constants=c, constraint='HWMark', postcondition='Accepted')


def ws_trace_cfg():
    return cfg(spec='TSpec', constants=WS_CONSTS, constraint='HWMark', postcondition='Accepted')


# --------------------------------------------------------------------------- build
def build_appd(ctx):
    """appd with cgo (the bundled websocket.Client only exists then); plain go_build otherwise."""
    out = os.path.join(ctx.subdir('bin'), 'appd_cgo')
    gosum = os.path.join(vlib.REPO, 'go.sum')
    if os.path.exists(gosum):
        shutil.copy(gosum, os.path.join(vlib.HARNESS, 'go.sum'))
    cmd = ['go', 'build', '-tags', 'verif', '-o', out]
    if vlib.REPO != '/repo':
        mf = os.path.join(ctx.work, 'go-cgo.mod')
        with open(mf, 'w') as f:
            f.write(open(os.path.join(vlib.HARNESS, 'go.mod')).read().replace('=> /repo', '=> ' + vlib.REPO))
        open(os.path.join(ctx.work, 'go-cgo.sum'), 'w').write(open(gosum).read() if os.path.exists(gosum) else '')
        cmd.append('-modfile=' + mf)
    cmd.append('./appd')
    env = ctx.go_env()
    env['CGO_ENABLED'] = '1'
    p = subprocess.run(cmd, cwd=vlib.HARNESS, env=env, stdout=subprocess.PIPE, stderr=subprocess.STDOUT)
    if p.returncode == 0:
        return out, 'cgo'
    ctx.log('cgo build of appd failed, falling back to CGO_ENABLED=0: %s' % p.stdout.decode('utf-8', 'replace')[-400:])
    return ctx.go_build('appd'), 'nocgo'


# --------------------------------------------------------------------------- scenario generation
def hx(b):
    return bytes(b).hex()


NAME_POOL = ['X-One', 'x-one', 'Content-Type', 'Content-Length', 'A:b', 'Sp ace', 'X::', 'Tail ', ':lead', 'k', 'Cookie',
             'Host', 'Accept', 'User-Agent', 'X-Long-Header-Name-0123456789abcdefghijklmnopqrstuvwxyz']
VALUE_POOL = ['v', ' lead', 'trail ', 'a: b', 'x\ry', 'x\ny', ':', ' ', 'text/plain; charset=utf-8', '0', 'a=1; b=2: c',
              'q' * 200, '"quoted" \\ back', 'tab\there', '10.9.8.7:1234']


def gen_body(rng, n, cls):
    if cls == 'text':
        return bytes(0x20 + (rng.randrange(95) + i) % 95 for i in range(n))
    if cls == 'sep':
        parts = [b': ', b'\r\n', b'\r\n\r\n', b'k: v\r\n', b' ', b':', b'\r', b'\n', b'HTTP/1.1 200 OK\r\n', b'abc']
        out = b''
        while len(out) < n:
            out += rng.choice(parts)
        return out[:n]
    return bytes(rng.randrange(256) for _ in range(n))


def body_len(rng, tag):
    if tag == 'b0':
        return 0
    if tag in ('b1', 'r1'):
        return rng.choice([1, 2, 3])
    if tag in ('bmid', 'rmid'):
        return rng.choice([17, 100, 255, 256, 257, 511, 512, 513])
    return rng.choice([1000, 1023, 1024, 1025, 1100])


def http_scenario(rng, sid, method, ptag, nh, btag, status, rtag):
    path = {'r0': ROUTES[0], 'r1': ROUTES[1], 'r2': ROUTES[2]}.get(ptag) or rng.choice(UNREG)
    names = rng.sample(NAME_POOL, nh)
    headers = [[k, rng.choice(VALUE_POOL)] for k in names]
    body = gen_body(rng, body_len(rng, btag), rng.choice(['text', 'text', 'sep', 'bin']))
    rbody = gen_body(rng, body_len(rng, rtag), rng.choice(['text', 'text', 'sep', 'bin']))
    return dict(kind='http', id=sid, method=method, path=path, headers=headers, body=hx(body), status=status, rbody=hx(rbody))


def http_from_sim(ctx, n):
    """Behaviours of the exchange model (Http.tla part B) chosen by TLC -simulate; the class tags are made concrete below."""
    consts = dict(Alphabet=set(), TokLen=0, BodyLen=0, MaxHdrs=0,
                  Methods={'GET', 'HEAD', 'POST', 'PUT'}, Paths={'r0', 'r1', 'r2', 'nr'}, Routes={'r0', 'r1', 'r2'},
                  HdrSets={'h0', 'h1', 'h2', 'h3', 'h4'}, Bodies={'b0', 'b1', 'bmid', 'b1k'},
                  Statuses=set(STATUSES), RBodies={'r1', 'rmid', 'r1k'}, KF=set())
    d = ctx.subdir('tlc-HttpSim')
    r = ctx.tlc('Http', cfg(spec='BSpec', constants=consts, invariants=['P']), SPEC, name='HttpSim', workers=1,
                simulate='num=%d,file=%s' % (n, os.path.join(d, 'sim')), depth=8, seed=ctx.seed, count=False)
    out = []
    for fn in sorted(os.listdir(d)):
        if not fn.startswith('sim_'):
            continue
        steps = tlaval.parse_simulation(os.path.join(d, fn))
        if not steps:
            continue
        st = steps[-1][2]
        if st.get('phase') != 'done':
            continue
        rq = st['req']
        hr = st['hresp'] if 'status' in st['hresp'] else dict(status=200, body='r1')
        out.append((rq['method'], rq['path'], int(rq['headers'][1:]), rq['body'], int(hr['status']), hr['body']))
    return out, r


def ws_from_sim(ctx, n):
    """Interleavings of sends in the two directions chosen by TLC -simulate of Ws.tla."""
    consts = dict(Lens={0, 1, 125, 126, 127, 65535, 65536}, MaxMsgs=3, KeyNames={'zero', 'ones', 'mix', 'hi'}, EncC='masked', EncS='repo')
    d = ctx.subdir('tlc-WsSim')
    r = ctx.tlc('Ws', cfg(constants=consts, invariants=['PrefixOK', 'HeaderOK']), SPEC, name='WsSim', workers=1,
                simulate='num=%d,file=%s' % (n, os.path.join(d, 'sim')), depth=13, seed=ctx.seed, count=False)
    out = []
    for fn in sorted(os.listdir(d)):
        if not fn.startswith('sim_'):
            continue
        steps = tlaval.parse_simulation(os.path.join(d, fn))
        order, prev = [], dict(c2s=0, s2c=0)
        for _a, _args, st in steps:
            for dname, side in (('c2s', 'c'), ('s2c', 's')):
                k = len(st['sent'][dname])
                if k > prev[dname]:
                    order.append((side, int(st['sent'][dname][k - 1]['n'])))
                    prev[dname] = k
        if order:
            out.append(order)
    return out, r


JITTER = {0: [0], 1: [1, 2], 125: [124, 125], 126: [126], 127: [127, 128, 1000], 65535: [65534, 65535], 65536: [65536, 65537]}


def jitter(rng, n):
    """a concrete length of the class of n"""
    return rng.choice(JITTER.get(n, [n]))


def key_of(rng, i=None):
    """masking key of one frame written by the harness's own encoder; [] = the frame goes out UNMASKED (masked and
    unmasked frames alternate on one connection: a receiver must not carry the key over)"""
    r = rng.random()
    if r < 0.35:
        return []
    if r < 0.5:
        return [0, 0, 0, 0]
    if r < 0.6:
        return [255, 255, 255, 255]
    if r < 0.8:
        k = [rng.randrange(1, 256) for _ in range(4)]
        for j in rng.sample(range(4), rng.choice([1, 2, 3])):
            k[j] = 0
        return k
    return [rng.randrange(256) for _ in range(4)]


def ws_scenario(rng, sid, raw, c_lens, s_lens, order=None, chunks=None, route=None, ckey=None, ckeys=None, skeys=None):
    def trim(ls):
        out, tot = [], 0
        for n in ls:
            if tot + n + 14 > DIR_BUDGET:
                continue
            out.append(n)
            tot += n + 14
        return out
    c_lens, s_lens = trim(c_lens), trim(s_lens)
    if ckey is None:
        ckey = SAMPLE_KEY if raw is True and rng.random() < 0.4 else ''
    kind = 'wsrawsrv' if raw == 'srv' else 'wsraw' if raw else 'ws'
    ck = ckeys if ckeys is not None else [key_of(rng) for _ in c_lens]
    sk = skeys if skeys is not None else [key_of(rng) for _ in s_lens]
    sc = dict(kind=kind, id=sid, path=(route or WS_ROUTE) if kind != 'wsrawsrv' else WS_ROUTE, ckey=ckey if kind == 'wsraw' else '',
              c2s=[dict(n=n, seed=rng.randrange(1 << 30), key=ck[i] if kind == 'wsraw' else []) for i, n in enumerate(c_lens)],
              s2c=[dict(n=n, seed=rng.randrange(1 << 30), key=sk[i] if kind == 'wsrawsrv' else []) for i, n in enumerate(s_lens)],
              order=[], chunks=[])
    if order is None and rng.random() < 0.6:
        tags = ['c%d' % i for i in range(len(c_lens))] + ['s%d' % i for i in range(len(s_lens))]
        # a random merge of the two sequences
        ci = si = 0
        order = []
        while ci < len(c_lens) or si < len(s_lens):
            if si >= len(s_lens) or (ci < len(c_lens) and rng.random() < 0.5):
                order.append('c%d' % ci)
                ci += 1
            else:
                order.append('s%d' % si)
                si += 1
        assert sorted(order) == sorted(tags)
    sc['order'] = order or []
    if raw:
        if chunks is None:
            chunks = rng.choice([[], [], [1], [1, 1, 3, 1000], [2, 5, 4, 60000], [7], [1, 13, 1, 1, 1, 1, 1, 1, 1, 1, 1, 1, 1, 1, 30000]])
        # keep dribbling affordable: at most ~400 writes per frame
        big = max((s_lens if raw == 'srv' else c_lens) or [0])
        if chunks and big // max(1, sum(chunks) // len(chunks)) > 400:
            chunks = chunks + [big]
        sc['chunks'] = chunks
    return sc


def leaves(scs):
    """the single-connection scenarios (a combo contributes its parts)"""
    out = []
    for s in scs:
        out.extend(s['parts'] if s['kind'] == 'combo' else [s])
    return out


def combo_scenario(rng, nid):
    """Several connections of ONE server process open at the same time: upgrades (same key repeated / different keys),
    plain requests and messages on earlier connections interleave."""
    parts = []
    wsr = list(WS_ROUTES)
    rng.shuffle(wsr)
    kinds = ['ws', 'wsraw', 'http', 'http']
    kinds += [rng.choice(['ws', 'wsraw', 'wsrawsrv', 'http'])] if rng.random() < 0.6 else []
    rng.shuffle(kinds)
    if kinds[0] == 'http':      # a websocket connection first, so that everything else happens while it is open
        i = next(i for i, k in enumerate(kinds) if k != 'http')
        kinds[0], kinds[i] = kinds[i], kinds[0]
    hroutes = ['r0', 'r1', 'r2', 'nr', 'nr']
    rng.shuffle(hroutes)

    def ln():
        return rng.choice([0, 1, 125, 126, 127, 300, 65535, 65536, 70000]) if rng.random() < 0.7 else rng.randrange(0, 2000)
    for k in kinds:
        if k == 'http':
            parts.append(http_scenario(rng, nid(), rng.choice(['GET', 'HEAD', 'POST', 'PUT']), hroutes.pop(), rng.randrange(5),
                                       rng.choice(['b0', 'b1', 'bmid', 'b1k']), 200 if rng.random() < 0.8 else rng.choice(STATUSES[1:]),
                                       rng.choice(['r1', 'rmid', 'r1k'])))
        else:
            raw = {'ws': False, 'wsraw': True, 'wsrawsrv': 'srv'}[k]
            parts.append(ws_scenario(rng, nid(), raw, [ln() for _ in range(rng.randrange(1, 4))], [ln() for _ in range(rng.randrange(1, 4))],
                                     route=wsr.pop() if k != 'wsrawsrv' else None, ckey=SAMPLE_KEY if raw is True and rng.random() < 0.7 else ''))
    return dict(kind='combo', id=nid(), parts=parts)


def gen_scenarios(ctx, sims_http, sims_ws):
    rng = ctx.rng
    scs = []
    counter = [0]

    def nid():
        counter[0] += 1
        return counter[0] - 1
    # F11 probe first (fixed shape: the handler answers 404)
    scs.append(dict(kind='http', id=nid(), method='GET', path=ROUTES[0], headers=[['X-Probe', 'f11']], body='', status=404, rbody=hx(b'not here')))
    # state that must not leak between exchanges of one server process: a request with body and headers, then the same
    # path bare; an unregistered path, then a registered one; the same again after a 404-producing handler
    big = http_scenario(rng, nid(), 'POST', 'r1', 4, 'b1k', 200, 'r1k')
    scs.append(big)
    scs.append(dict(kind='http', id=nid(), method='GET', path=big['path'], headers=[], body='', status=200, rbody=hx(b'bare')))
    scs.append(http_scenario(rng, nid(), 'GET', 'nr', 2, 'bmid', 200, 'r1'))
    scs.append(dict(kind='http', id=nid(), method='HEAD', path=ROUTES[0], headers=[['X-After', 'unregistered']], body='', status=200, rbody=hx(b'a again')))
    n_http = ctx.pick(40, 1500)
    for (m, p, nh, b, st, rb) in sims_http:
        if len(scs) > n_http:
            break
        scs.append(http_scenario(rng, nid(), m, p, nh, b, st, rb))
    while len(scs) <= n_http:
        scs.append(http_scenario(rng, nid(), rng.choice(['GET', 'HEAD', 'POST', 'PUT']),
                                 rng.choice(['r0', 'r1', 'r2', 'nr']), rng.randrange(5),
                                 rng.choice(['b0', 'b1', 'bmid', 'b1k']),
                                 200 if rng.random() < 0.75 else rng.choice(STATUSES[1:]),
                                 rng.choice(['r1', 'rmid', 'r1k'])))
    # two raw upgrades with the SAME key right after each other, then one with another key
    scs.append(ws_scenario(rng, nid(), True, [1], [1], ckey=SAMPLE_KEY))
    scs.append(ws_scenario(rng, nid(), True, [2], [], ckey=SAMPLE_KEY))
    scs.append(ws_scenario(rng, nid(), True, [], [3], ckey=''))
    # masked and unmasked frames alternating on ONE connection, every length class, keys with zero bytes, a long message
    # followed by a tiny one: received by the bundled server (raw client) and by the bundled client (raw server)
    U, Z = [], [0, 0, 0, 0]
    for raw in (True, 'srv'):
        la = [5, 70000, 3, 126, 0, 125, 1]
        ka = [U, [rng.randrange(1, 256) for _ in range(4)], U, Z, U, [0, rng.randrange(1, 256), 0, rng.randrange(1, 256)], U]
        lb = [65536, 2, 65535, 127, 300, 4, 65537]
        kb = [[rng.randrange(1, 256), 0, 0, 0], U, [255, 255, 255, 255], U, U, [rng.randrange(256) for _ in range(4)], U]
        for (ls, ks) in ((la, ka), (lb, kb)):
            other = [rng.choice([0, 1, 125, 126, 300]) for _ in range(3)]
            if raw is True:
                scs.append(ws_scenario(rng, nid(), raw, ls, other, ckeys=ks, chunks=[]))
            else:
                scs.append(ws_scenario(rng, nid(), raw, other, ls, skeys=ks, chunks=[]))
    # WebSocket: every boundary length once per direction through the bundled client, the raw client and the raw server
    for raw in (False, True, 'srv'):
        ls = list(WS_LENS)
        rng.shuffle(ls)
        ls2 = list(WS_LENS)
        rng.shuffle(ls2)
        for i in range(0, len(ls), 3):
            scs.append(ws_scenario(rng, nid(), raw, ls[i:i + 3], ls2[i:i + 3]))
    for _ in range(ctx.pick(3, 60)):
        scs.append(combo_scenario(rng, nid))
    for order in sims_ws:
        raw = rng.choice([False, True, True, 'srv'])
        c = [jitter(rng, n) for s, n in order if s == 'c']
        s = [jitter(rng, n) for s, n in order if s == 's']
        tags, ci, si = [], 0, 0
        for side, _n in order:
            if side == 'c':
                tags.append('c%d' % ci)
                ci += 1
            else:
                tags.append('s%d' % si)
                si += 1
        sc = ws_scenario(rng, nid(), raw, c, s, order=tags)
        if len(sc['c2s']) == len(c) and len(sc['s2c']) == len(s):
            scs.append(sc)
    for _ in range(ctx.pick(2, 220)):
        raw = rng.choice([False, True, True, 'srv'])
        k = rng.choice([1, 2, 3, 3, 5, 8])

        def ln():
            r = rng.random()
            if r < 0.45:
                return rng.choice(WS_LENS[:10]) if rng.random() < 0.8 else rng.choice(WS_LENS)
            if r < 0.8:
                return rng.randrange(0, 300)
            if r < 0.95:
                return rng.randrange(65000, 66500)
            return rng.randrange(0, 300000)
        scs.append(ws_scenario(rng, nid(), raw, [ln() for _ in range(rng.randrange(k + 1))], [ln() for _ in range(rng.randrange(k + 1))]))
    # a plain request after all that websocket traffic
    scs.append(http_scenario(rng, nid(), 'PUT', 'r2', 1, 'b1', 200, 'rmid'))
    return scs


# --------------------------------------------------------------------------- driver
def drive(ctx, drv, scs, tag, deadline_ms):
    inp = dict(routes=ROUTES, ws_routes=WS_ROUTES, settle_ms=int(os.environ.get('VERIF_C20_SETTLE_MS', '2')),
               deadline_ms=deadline_ms, max_stuck=2, scenarios=scs)
    ip = os.path.join(ctx.work, 'in-%s.json' % tag)
    hp = os.path.join(ctx.work, 'http-%s.ndjson' % tag)
    wp = os.path.join(ctx.work, 'ws-%s.ndjson' % tag)
    vlib.write_json(ip, inp)
    lv = leaves(scs)
    nbig = sum(1 for s in lv if s['kind'] != 'http')
    p = ctx.run([drv, 'run', ip, hp, wp], timeout=120 + len(lv) * 2 + (deadline_ms // 1000) * 6 + nbig * 5)
    try:
        summ = json.loads(p.stdout.decode().strip().split('\n')[-1])
    except Exception:
        raise vlib.Inconclusive('appd printed no summary: %r' % p.stdout[-300:])
    return summ, vlib.split_segments(vlib.read_ndjson(hp)), vlib.split_segments(vlib.read_ndjson(wp))


def short(e):
    """event without bulky fields, for reports"""
    out = {}
    for k, v in e.items():
        if isinstance(v, str) and len(v) > 96:
            v = v[:96] + '...(%d chars)' % len(v)
        if isinstance(v, dict):
            v = short(v)
        out[k] = v
    return out


def validate_one(ctx, module, cfgtext, seg, name):
    """True iff the single segment is accepted."""
    r = ctx.tlc(module, cfgtext, SPEC, name=name, files={'trace.ndjson': '\n'.join(json.dumps(e) for e in seg) + '\n'},
                workers=1, dfs=True, count=False)
    if r.ok:
        return True, None
    if r.kind != 'postcondition':
        raise vlib.Inconclusive('trace validation %s: unexpected TLC verdict %s %s\n%s' % (name, r.kind, r.violated, r.out[-1500:]))
    import re
    m = re.search(r'"REJECTED_AT", (\d+)', r.out)
    return False, (int(m.group(1)) - 1 if m else None)


# --------------------------------------------------------------------------- E1
def e1(ctx):
    """Closed models (must pass). Returns list of TLC results."""
    w = max(1, ctx.workers // 2)
    jobs = []
    ws_cfgs = [('Ws-q', dict(Lens={0, 125, 126, 65535, 65536}, MaxMsgs=2, KeyNames={'ones', 'mix'}, EncC='masked', EncS='repo'))]
    if ctx.thorough():
        ws_cfgs = [
            ('Ws-keys', dict(Lens={0, 1, 125, 126, 127, 65535, 65536}, MaxMsgs=2, KeyNames={'zero', 'hi'}, EncC='masked', EncS='repo')),
            ('Ws-3', dict(Lens={0, 125, 126, 65536}, MaxMsgs=3, KeyNames={'mix'}, EncC='repo', EncS='repo')),
            ('Ws-indep', dict(Lens={0, 125, 126, 65535, 65536}, MaxMsgs=2, KeyNames={'ones', 'mix'}, EncC='indep', EncS='masked')),
        ]
    for name, c in ws_cfgs:
        if name == 'Ws-indep':   # small: also liveness (every message sent is eventually received, under weak fairness)
            jobs.append(('Ws', name, cfg(spec='FairSpec', constants=c, invariants=['PrefixOK', 'HeaderOK'], properties=['AllDelivered']), True))
        else:
            jobs.append(('Ws', name, cfg(constants=c, invariants=['PrefixOK', 'HeaderOK']), True))
    abc = {'a', ':', ' ', 'CR', 'LF'}
    ha = [('HttpA-q', dict(Alphabet=abc, TokLen=1, BodyLen=1, MaxHdrs=2))]
    if ctx.thorough():
        ha += [('HttpA-2h', dict(Alphabet={':', ' ', 'CR', 'LF'}, TokLen=1, BodyLen=2, MaxHdrs=2)),   # separators only
               ('HttpA-tok2', dict(Alphabet={':', ' ', 'CR', 'LF'}, TokLen=2, BodyLen=1, MaxHdrs=1))]
    for name, c in ha:
        cc = dict(HTTP_CONSTS)
        cc.update(c)
        cc.update(Routes=set(), KF=set())
        jobs.append(('Http', name, cfg(spec='ASpec', constants=cc, invariants=['AGrammar', 'ARoundTrip']), False))
    cb = dict(Alphabet=set(), TokLen=0, BodyLen=0, MaxHdrs=0, Methods={'GET', 'HEAD', 'POST', 'PUT'},
              Paths={'r0', 'r1', 'r2', 'nr'}, Routes={'r0', 'r1', 'r2'}, HdrSets={'h0', 'h4'} if not ctx.thorough() else {'h0', 'h1', 'h2', 'h3', 'h4'},
              Bodies={'b0', 'b1k'} if not ctx.thorough() else {'b0', 'b1', 'bmid', 'b1k'}, Statuses=set(STATUSES), RBodies={'r1', 'r1k'}, KF=set())
    if ctx.thorough():   # quick: P is checked along the simulated behaviours of the same model (HttpSim)
        jobs.append(('Http', 'HttpB', cfg(spec='BSpec', constants=cb, invariants=['P']), True))
    res = []
    with ThreadPoolExecutor(max_workers=3) as ex:
        futs = [(name, cov, ex.submit(ctx.tlc, mod, c, SPEC, name=name, workers=w, coverage=cov, must_pass=True, count=False,
                                      timeout=800)) for mod, name, c, cov in jobs]
        for name, cov, f in futs:
            r = f.result()
            if cov:
                z = [a for a in ctx.zero_coverage(r) if a not in ('BInit', 'Init')]
                if z:
                    raise vlib.Inconclusive('vacuity: actions never taken in %s: %s' % (name, z))
            res.append(r)
    return res


# --------------------------------------------------------------------------- main
def run(ctx):
    deadline_ms = int(os.environ.get('VERIF_C20_DEADLINE_MS', '30000'))
    pool = ThreadPoolExecutor(max_workers=16)
    f_build = pool.submit(build_appd, ctx)
    f_e1 = pool.submit(e1, ctx)
    f_hs = pool.submit(http_from_sim, ctx, ctx.pick(24, 600))
    f_ws = pool.submit(ws_from_sim, ctx, ctx.pick(4, 120))
    drv, flavour = f_build.result()
    sims_http, _ = f_hs.result()
    sims_ws, _ = f_ws.result()
    if not sims_http or not sims_ws:
        raise vlib.Inconclusive('TLC -simulate produced no behaviours')
    scs = gen_scenarios(ctx, sims_http, sims_ws)
    lv = leaves(scs)
    byid = {}
    for ti, top in enumerate(scs):
        for leaf in (top['parts'] if top['kind'] == 'combo' else [top]):
            byid[leaf['id']] = (leaf, ti)
    summ, hsegs, wsegs = drive(ctx, drv, scs, 'main', deadline_ms)
    ctx.extra.update(scenarios=len(lv), http_scenarios=sum(1 for s in lv if s['kind'] == 'http'),
                     ws_scenarios=sum(1 for s in lv if s['kind'] != 'http'),
                     combos_of_simultaneous_connections=sum(1 for s in scs if s['kind'] == 'combo'),
                     ws_upgrades_in_one_server_process=sum(1 for s in wsegs for e in s if e['ev'] == 'upg'),
                     http_from_tlc_simulation=min(len(sims_http), ctx.pick(40, 1500)), ws_orders_from_tlc_simulation=len(sims_ws),
                     ws_client=summ.get('ws_client'), build=flavour, driver_stuck=summ.get('stuck'), driver_skipped=summ.get('skipped'),
                     ws_messages=sum(1 for s in wsegs for e in s if e['ev'] == 'recv'),
                     ws_raw_frames_checked=sum(1 for s in wsegs for e in s if e['ev'] == 'frame'),
                     ws_bytes=sum(e['m']['n'] for s in wsegs for e in s if e['ev'] == 'recv'),
                     handler_invocations=sum(1 for s in hsegs for e in s if e['ev'] == 'hreq'))
    if len(hsegs) + len(wsegs) + len(summ.get('skipped', [])) != len(lv):
        raise vlib.Inconclusive('driver produced %d+%d segments (+%d skipped) for %d scenarios' % (
            len(hsegs), len(wsegs), len(summ.get('skipped', [])), len(lv)))
    if not any(e['ev'] == 'hreq' for s in hsegs for e in s) and not any(e['ev'] == 'recv' for s in wsegs for e in s):
        raise vlib.Inconclusive('dead driver: no handler invocation / no websocket message observed')

    # ---- E3: trace validation (HTTP and WebSocket in parallel, with the F11 probe validated strictly on its own)
    kf = ['F11'] if ctx.known('F11') else []
    probe = hsegs[0]
    mr = ctx.pick(3, 6)
    f_h = pool.submit(vlib.validate_segments, ctx, 'TraceHttp', http_trace_cfg(kf), SPEC, hsegs, name='http', count=False, max_reruns=mr)
    f_w = pool.submit(vlib.validate_segments, ctx, 'TraceWs', ws_trace_cfg(), SPEC, wsegs, name='ws', count=False, max_reruns=mr)
    f_p = pool.submit(validate_one, ctx, 'TraceHttp', http_trace_cfg([]), probe, 'http-f11-probe')
    # ---- binding self-tests, also in parallel
    f_st = pool.submit(selftests, ctx, pool, hsegs, wsegs, kf)

    probe_ok, probe_at = f_p.result()
    acc_h, rej_h = f_h.result()
    if kf and probe_ok:
        # the known finding no longer reproduces: drop its disjunct and validate strictly
        ctx.extra['f11_reproduces'] = False
        acc_h, rej_h = vlib.validate_segments(ctx, 'TraceHttp', http_trace_cfg([]), SPEC, hsegs, name='http-strict', count=False)
        kf = []
    elif not probe_ok:
        cres = next((e for e in probe if e['ev'] == 'cres'), {})
        hresp = next((e for e in probe if e['ev'] == 'hresp'), {})
        if hresp.get('status') == 404 and cres.get('status') == 200 and cres.get('body') == hresp.get('body') and not cres.get('timeout'):
            # exactly the shape of F11; anything else in the probe is left to the batch validation below
            ctx.extra['f11_reproduces'] = True
            ctx.violation('handler answered with Response.Error(404) + End("not here"); the bundled client received status %s (expected 404)' % cres.get('status'),
                          dict(kind='scenario', scenario=scs[0], events=[short(e) for e in probe]), key='F11')
        else:
            ctx.extra['f11_reproduces'] = 'probe rejected with another shape'
    acc_w, rej_w = f_w.result()
    ctx.traces += acc_h + acc_w
    ctx.extra.update(http_segments_accepted=acc_h, ws_segments_accepted=acc_w, kf_tolerated=kf)
    for s in (hsegs[1:3] + wsegs[:2]):
        ctx.sample(dict(kind='scenario-trace', events=[short(e) for e in s[:7]]))

    def rerun(kind, module, cfgtext, tops, sid, tag):
        """run `tops` in one fresh server process; verdict for the segment of leaf `sid`"""
        _s, h2, w2 = drive(ctx, drv, tops, tag, deadline_ms)
        seg2 = next((g for g in (h2 if kind == 'http' else w2) if g and g[0].get('sid') == sid), None)
        if seg2 is None:
            return True, None, None
        ok2, at2 = validate_one(ctx, module, cfgtext, seg2, '%s-%s' % (kind, tag))
        return ok2, at2, seg2

    def handle(kind, segs, rej, module, cfgtext):
        reported = 0
        for si, ln in rej:
            seg = segs[si]
            sid = seg[0]['sid']
            sc, ti = byid[sid]
            top = scs[ti]
            ev = seg[ln] if ln is not None and ln < len(seg) else {}
            if kind == 'ws' and ev.get('ev') == 'frame' and 'key' in ev:
                raise vlib.Inconclusive('the harness\'s own encoder disagrees with Ws!IndepHeader: %s' % ev)
            if reported >= 2:
                ctx.extra.setdefault('rejections_not_rerun', []).append(dict(scenario=sid, event=short(ev)))
                continue
            # reproduce once (verdict rule). The behaviour may depend on what the server process served before, so:
            # the scenario alone in a fresh process; then after one earlier scenario of its class; then after the whole
            # recorded history of the process.
            same = [t for t in scs[:ti] if (t['kind'] == 'http') == (top['kind'] == 'http')]
            attempts = [('alone', [top])]
            if same:
                attempts.append(('after-one', [same[0], top]))
            if ti > 0:
                attempts.append(('history', scs[:ti + 1]))
            hit = None
            for label, tops in attempts:
                ok2, at2, seg2 = rerun(kind, module, cfgtext, tops, sid, 'retry%d-%s' % (sid, label))
                if not ok2:
                    hit = (label, tops, at2, seg2)
                    break
            if hit is None:
                ctx.extra.setdefault('unreproduced', []).append(dict(scenario=sid, kind=sc['kind'], event=short(ev),
                                                                     notes=[e.get('what') for e in seg if e['ev'] == 'note'][:4],
                                                                     tail=[short(e) for e in seg[max(0, (ln or 0) - 3):(ln or 0) + 1]]))
                continue
            label, tops, at2, seg2 = hit
            key = None
            if kind == 'http' and 'F11' not in kf:
                okf, _ = validate_one(ctx, module, http_trace_cfg(['F11']), seg2, 'http-classify%d' % sid)
                if okf:
                    key = 'F11'
            what = describe(kind, seg, ln)
            if label != 'alone':
                what += ' [history-dependent: reproduces only after earlier exchanges served by the same server process (%s, %d scenarios before it)]' % (label, len(tops) - 1)
            ctx.violation(what, dict(kind='history', target=sid, scenarios=tops if len(tops) <= 40 else tops[-40:],
                                     history_truncated=len(tops) > 40,
                                     events=[short(e) for e in seg[:(ln or 0) + 1]],
                                     rerun_events=[short(e) for e in seg2[:(at2 or 0) + 1]]), key=key)
            reported += 1

    handle('http', hsegs, rej_h, 'TraceHttp', http_trace_cfg(kf))
    handle('ws', wsegs, rej_w, 'TraceWs', ws_trace_cfg())
    st = f_st.result()
    if st is None and not ctx.violations:
        raise vlib.Inconclusive('binding self-test: no complete HTTP exchange / WebSocket connection to corrupt')
    ctx.extra['binding_selftest'] = st or 'skipped: no complete exchange of one kind (violations reported)'
    # ---- E1 results
    f_e1.result()
    pool.shutdown()
    ctx.states = sum(r['distinct'] for r in ctx.tlc_runs)
    ctx.transitions = sum(r['generated'] for r in ctx.tlc_runs)
    ctx.extra['limits'] = dict(http_message_bytes_max=max(len(s['body']) // 2 for s in lv if s['kind'] == 'http') + 1400,
                               ws_bytes_per_direction_max=DIR_BUDGET, settle_ms=int(os.environ.get('VERIF_C20_SETTLE_MS', '2')),
                               deadline_ms=deadline_ms, ws_lengths=WS_LENS)
    ctx.assumptions += [
        'pkg/sleep builds only with the verif-tagged assembly (hook H1); stack/stackinit is skipped under -tags verif (hook H5) and the harness installs stack.Pstack (one stack, loopback NIC, MTU 65536)',
        'HTTP messages fit one TCP segment and WebSocket traffic stays below the 1 MiB send buffer per direction (single receive / ignored short writes are outside C20)',
        'websocket/client.go needs cgo: appd built with CGO_ENABLED=1 (%s)' % summ.get('ws_client'),
        'request-line token and header map have no accessor: read from the API objects by reflection; the accept key reference is crypto/sha1 + encoding/base64',
        'the driver writes only after the server goroutine of the connection is parked in ServerSocket.Read (the bundled server registers its read waiter after Accept; lost-wakeup race outside C20); a rejected scenario is re-run once before it is reported',
    ]


def describe(kind, seg, ln):
    ev = seg[ln] if ln is not None and ln < len(seg) else {}
    if kind == 'http':
        creq = next((e for e in seg if e['ev'] == 'creq'), {})
        hresp = next((e for e in seg if e['ev'] == 'hresp'), {})
        if ev.get('ev') == 'hreq':
            diffs = [k for k in ('method', 'path', 'headers', 'body') if ev.get(k) != creq.get(k)]
            if ev.get('route') != creq.get('path'):
                diffs.append('route(handler %s invoked for %s)' % (ev.get('route'), creq.get('path')))
            return 'HTTP %s %s: the handler saw a different request (%s differ): sent %s, handler saw %s' % (
                creq.get('method'), creq.get('path'), ', '.join(diffs), short({k: creq.get(k) for k in diffs if k in creq}),
                short({k: ev.get(k) for k in diffs if k in ev}))
        if ev.get('ev') == 'cres':
            if ev.get('timeout'):
                return 'HTTP %s %s: no response within the deadline' % (creq.get('method'), creq.get('path'))
            if not hresp:
                return 'HTTP %s %s: the client got an answer but no handler was invoked for the registered path' % (creq.get('method'), creq.get('path'))
            return 'HTTP %s %s: the client did not receive what the handler produced: handler status %s body %s..., client status %s body %s... err %r' % (
                creq.get('method'), creq.get('path'), hresp.get('status'), hresp.get('body', '')[:40], ev.get('status'), ev.get('body', '')[:40], ev.get('err'))
        return 'HTTP exchange rejected by the C20 P-spec at event %s: %s' % (ln, short(ev))
    if ev.get('ev') == 'recv':
        d = ev.get('dir')
        k = sum(1 for e in seg[:ln] if e['ev'] == 'recv' and e.get('dir') == d)
        sent = [e for e in seg if e['ev'] == 'send' and e.get('dir') == d]
        exp = sent[k]['m'] if k < len(sent) else None
        return 'WebSocket %s message %d: received %s, sent %s' % (d, k, short(ev.get('m', {})), short(exp) if exp else 'nothing')
    if ev.get('ev') == 'frame':
        return 'WebSocket raw frame header %s does not announce the message length in the minimal RFC 6455 form' % ev.get('hdr')
    if ev.get('ev') == 'upg':
        return 'WebSocket upgrade: accept key %r, RFC 6455 function of the client key %r is %r (server saw key %r, status %s)' % (
            ev.get('accept'), ev.get('ckey'), ev.get('ref'), ev.get('skey'), ev.get('status'))
    if ev.get('ev') == 'done':
        ns = {d: sum(1 for e in seg if e['ev'] == 'send' and e.get('dir') == d) for d in ('c2s', 's2c')}
        nr = {d: sum(1 for e in seg if e['ev'] == 'recv' and e.get('dir') == d) for d in ('c2s', 's2c')}
        return 'WebSocket: not every message was received within the deadline (sent %s, received %s); notes: %s' % (
            ns, nr, [e.get('what') for e in seg if e['ev'] == 'note'][:3])
    return 'WebSocket connection rejected by the C20 P-spec at event %s: %s' % (ln, short(ev))


def selftests(ctx, pool, hsegs, wsegs, kf):
    """Corrupt one recorded field / drop one event: TLC must reject."""
    tests = []
    hb = next((s for s in hsegs[1:] if any(e['ev'] == 'hreq' and e['headers'] for e in s) and any(e['ev'] == 'cres' and not e['timeout'] for e in s)), None)
    wb = next((s for s in wsegs if any(e['ev'] == 'recv' and 0 < e['m']['n'] <= 256 for e in s) and any(e['ev'] == 'done' and not e['timeout'] for e in s)), None)
    if hb is None or wb is None:
        # (every connection of one kind failed: with violations reported this is not a harness problem)
        return None
    t = copy.deepcopy(hb)
    e = next(e for e in t if e['ev'] == 'hreq')
    e['headers'][-1][1] += 'x'
    tests.append(('http-header-value', 'TraceHttp', http_trace_cfg(kf), t))
    t = copy.deepcopy(wb)
    e = next(e for e in t if e['ev'] == 'recv' and 0 < e['m']['n'] <= 256)
    b = e['m']['b']
    e['m']['b'] = b[:-1] + ('0' if b[-1] != '0' else '1')
    tests.append(('ws-payload-byte', 'TraceWs', ws_trace_cfg(), t))
    t = copy.deepcopy(wb)
    i = next(i for i, e in enumerate(t) if e['ev'] == 'recv')
    del t[i]
    tests.append(('ws-drop-message', 'TraceWs', ws_trace_cfg(), t))
    if ctx.thorough():
        t = copy.deepcopy(hb)
        t = [e for e in t if e['ev'] not in ('hreq', 'hresp')]
        tests.append(('http-drop-handler', 'TraceHttp', http_trace_cfg(kf), t))
        t = copy.deepcopy(hb)
        e = next(e for e in t if e['ev'] == 'cres')
        e['body'] = e['body'][:-2] if e['body'] else '00'
        tests.append(('http-client-body', 'TraceHttp', http_trace_cfg(kf), t))
        t = copy.deepcopy(hb)
        e = next(e for e in t if e['ev'] == 'hreq')
        e['route'] = ROUTES[1] if e['route'] != ROUTES[1] else ROUTES[0]
        tests.append(('http-other-handler', 'TraceHttp', http_trace_cfg(kf), t))
        t = copy.deepcopy(wb)
        e = next(e for e in t if e['ev'] == 'upg')
        e['accept'] = e['accept'][:-2] + ('A=' if not e['accept'].endswith('A=') else 'B=')
        tests.append(('ws-accept-key', 'TraceWs', ws_trace_cfg(), t))
        wr = next((s for s in wsegs if any(e['ev'] == 'frame' and e['dir'] == 's2c' and len(e['hdr']) == 4 for e in s)), None)
        if wr is not None:
            t = copy.deepcopy(wr)
            e = next(e for e in t if e['ev'] == 'frame' and e['dir'] == 's2c' and len(e['hdr']) == 4)
            n = e['hdr'][2] * 256 + e['hdr'][3]
            e['hdr'] = [e['hdr'][0], 127, 0, 0, 0, 0, 0, 0, n // 256, n % 256]   # same length, non-minimal 64-bit form
            tests.append(('ws-nonminimal-header', 'TraceWs', ws_trace_cfg(), t))
    futs = [(nm, pool.submit(validate_one, ctx, mod, c, seg, 'selftest-' + nm)) for nm, mod, c, seg in tests]
    # the uncorrupted bases must be accepted (otherwise the rejections above mean nothing)
    bases = [pool.submit(validate_one, ctx, 'TraceHttp', http_trace_cfg(kf), hb, 'selftest-http-base'),
             pool.submit(validate_one, ctx, 'TraceWs', ws_trace_cfg(), wb, 'selftest-ws-base')] if ctx.thorough() else []
    out = []
    for nm, f in futs:
        ok, _at = f.result()
        if ok:
            raise vlib.Inconclusive('binding self-test failed: corrupted trace %s accepted' % nm)
        out.append(nm)
    for f in bases:
        if not f.result()[0]:
            out.append('base-rejected')
    return 'rejected as required: ' + ', '.join(out)


def replay(ctx, rep):
    """python3 tools/vcheck C20 --replay <file>: run the recorded scenario(s) again in one server process and validate the target's trace."""
    r = rep['replay']
    tops = r['scenarios'] if 'scenarios' in r else [r['scenario']]
    target = r.get('target', leaves(tops)[-1]['id'])
    sc = next(s for s in leaves(tops) if s['id'] == target)
    drv, _ = build_appd(ctx)
    summ, h, w = drive(ctx, drv, tops, 'replay', int(os.environ.get('VERIF_C20_DEADLINE_MS', '30000')))
    kind = 'http' if sc['kind'] == 'http' else 'ws'
    seg = next((g for g in (h if kind == 'http' else w) if g and g[0].get('sid') == target), None)
    if seg is None:
        raise vlib.Inconclusive('replay produced no trace')
    kf = ['F11'] if ctx.known('F11') else []
    ok, at = validate_one(ctx, 'TraceHttp' if kind == 'http' else 'TraceWs', http_trace_cfg(kf) if kind == 'http' else ws_trace_cfg(),
                          seg, 'replay')
    ctx.states = sum(x['distinct'] for x in ctx.tlc_runs)
    ctx.transitions = sum(x['generated'] for x in ctx.tlc_runs)
    if ok:
        ctx.traces += 1
        print('replay: accepted by the C20 P-spec (does not reproduce)')
        return
    ctx.violation(describe(kind, seg, at), dict(kind='history', target=target, scenarios=tops, events=[short(e) for e in seg[:(at or 0) + 1]]))
