"""C01 - TCP delivers an exact, ordered, duplicate-free byte stream.

Spec: spec/tcp/TcpData.tla (closed model of the data phase: gVisor-shaped
sender/receiver, adversarial network, application chunking; TLC exhaustive)
and spec/tcp/TraceTcp.tla (P-spec as trace validator, clauses C01).
Binding: harness/tcpd joins two REAL stacks by an adversarial wire (drop,
duplicate, hold-back reordering, stale replay; seeded and finite) with
applications chunking writes/reads; every byte on the wire and every byte
returned by Read is judged by TLC.
"""
import copy
import os
import tcplib
import vlib
from vlib import cfg, MV

MANIFEST = dict(
    technique='TLA+ closed model of the TCP data phase checked exhaustively by TLC (all fault placements, chunkings, schedules of the small configuration) + trace validation: traces of two real stacks over an adversarial wire validated by TLC against the P-spec TraceTcp (StreamInv, EmitData, AppendOnly)',
    text='TLC explores every interleaving of application writes/reads, segment delivery, drop, duplication and timeout of the data-phase model and checks that delivered is always a prefix of written. Real executions: two stacks, IPv4/IPv6, SACK on/off, Reno/CUBIC, MTU 68..1500, small buffers, wrap-adjacent ISS, bidirectional transfers, seeded finite fault schedules; TLC checks for EVERY read that the bytes are exactly the next bytes of the peer\'s stream and had arrived in order, and for EVERY emitted data segment that its bytes are the bytes written at that offset.',
    design='5 C01',
    note='Streams are <= 4 KiB (quick) / 32 KiB (thorough) per direction; wrap is reached by ISS placement (hook H4), not by volume. The wire never alters segments. Timestamps cannot be switched off in this stack (always offered).')

SPEC = ['tcp']


def run(ctx):
    drv = ctx.go_build('tcpd')
    # ---- E1: data-phase model
    n, rtos = ctx.pick((3, 1), (4, 2))
    c = cfg(constants=dict(N=n, Buf=2, MaxDrop=2, MaxDup=1, MaxRto=rtos), invariants=['Safety', 'StreamInv'], view='View')
    r = ctx.tlc('TcpData', c, SPEC, name='TcpData', must_pass=True, timeout=3000)
    # ---- E3: real stacks
    rng = ctx.rng
    nsc = ctx.pick(48, 600)
    maxb = ctx.pick(4000, 32000)
    scs = []
    for i in range(nsc):
        iss = rng.choice(tcplib.WRAP_ISS) if i % 5 == 0 else None
        scs.append(tcplib.random_scenario(rng, i, maxbytes=maxb if i % 4 else 2000, iss=iss))
    # deterministic: several writes of different sizes whose segments straddle the 2^32 / 2^31 wrap of the sender's sequence space
    for k, (hi, below) in enumerate([(0xffff, 100), (0xffff, 255), (0xffff, 1), (0x7fff, 100), (0xffff, 700), (0xffff, 2)][:ctx.pick(4, 6)]):
        scs.append(dict(v=4 if k % 2 else 6, mtu=1500, sack=True, cc='', deadline_ms=20000, seed=9000 + k, flags={},
                        tag='wrap-writes%d-iss%04x%04x' % (k, hi, 0x10000 - below),
                        a=dict(writes=[200, 300, 50, 700, 1, 1500], write_gap_us=15000, shutdown=True, iss=[hi, 0x10000 - below]),
                        b=dict(writes=[300], shutdown=True), a2b=dict(), b2a=dict()))
    segs, stats, rep = tcplib.run_pair(ctx, drv, scs, ['C01'], 'c01', what='TCP stream')
    ctx.extra.update(stats)
    ctx.extra['wrap_adjacent_iss_scenarios'] = sum(1 for s in scs if 'iss' in s['a'])
    ctx.sample(dict(kind='scenario', scenario=scs[1]))
    ctx.sample(dict(kind='trace', events=tcplib.sample_trace(segs[1], 12)))
    # ---- the scripted raw peer (harness/tcprawd): ACK patterns, windows and options a real-stack peer never produces (mid-segment
    #      ACKs, shrinking windows with pretended loss, tiny MSS ...) re-cut and retransmit queued segments; the C01 clauses judge
    #      every byte put on the wire and every byte read
    import checks.rawpeer as rawpeer
    rawpeer.raw_peer(ctx, ['C01'], 40, 300)
    # ---- binding self-test: corrupt one delivered byte, drop one arrive event
    # (a fault-free trace: with losses or duplicates a missing arrival may be covered by another copy of the segment)
    clean = lambda s: not any(e['ev'] == 'drop' or (e['ev'] == 'arrive' and e.get('how') != 'pass') for e in s)
    base = next((s for s in segs if clean(s) and any(e['ev'] == 'read' for e in s) and s[-1].get('why') == 'done'), None)
    if base is None:
        raise vlib.Inconclusive('binding self-test: no fault-free completed transfer among the scenarios')
    bad = copy.deepcopy(base)
    for e in bad:
        if e['ev'] == 'read':
            e['pay'][0] = (e['pay'][0] + 1) % 256
            break
    bad2 = copy.deepcopy(base)
    for i, e in enumerate(bad2):
        if e['ev'] == 'arrive' and e.get('len', 0) > 0:
            del bad2[i]
            break
    tc = tcplib.tcfg(['C01'])
    for nm, b in (('corrupt', bad), ('drop', bad2)):
        a, rj = vlib.validate_segments(ctx, 'TraceTcp', tc, SPEC, [b], name='selftest-' + nm, count=False)
        if not rj:
            raise vlib.Inconclusive('binding self-test failed: %s trace accepted' % nm)
    ctx.extra['binding_selftest'] = 'corrupted read byte and missing arrival rejected'
    ctx.assumptions += ['hooks H1 (sleep asm), H4 (ISS), H6 (snapshot)', 'the wire never alters a segment']
