"""C12 - neighbour resolution: correct ARP/NDP answers, learning, waiting and failure.

Spec: spec/neigh/Neigh.tla (I-spec of stack/linkaddrcache.go: ring, cache map,
entry state machine, waiters, one goroutine per resolution; TLC exhaustive) and
spec/neigh/TraceNeigh.tla (P-spec as trace validator over wire + API
observations: AnswerIff, Learn, NoEarlyData, Resolve, NeverWrong).
Binding: harness/neighd runs seeded scenarios CONCURRENTLY, each on its own
real stack with a resolution-required NIC: background UDP Write / connected
Write / TCP Connect / Stack.GetLinkAddress towards unknown neighbours while
the script injects ARP and NDP replies, unsolicited announcements, requests for
own / foreign / malformed targets, lets 1..3 timeouts pass, overwrites
mappings, overflows the 512-entry ring through Stack.AddLinkAddress.  Lookup /
add / timeout orders are also taken from `tlc -simulate` runs of Neigh.tla.
"""
import copy
import os
import threading
import vlib
from vlib import cfg, MV
import tlaval

MANIFEST = dict(
    technique='TLA+ I-spec Neigh (link address cache ring + resolution goroutines; TLC exhaustive, all races of lookup / add / timeout / expiry / eviction) + P-spec TraceNeigh validating link-tap and sockets-API observations of the real stack (own decoder; time used only as lower bound); scenario orders partly derived from TLC simulation of the I-spec',
    text='TLC explores every interleaving of two concurrent lookups, replies, overwrites, retry timeouts, expiry and ring eviction on a 2..3-entry ring with 3 addresses: a hit returns the link address most recently added for exactly that key and never an expired one, waiters are always notified when their entry leaves incomplete or is evicted, changeState never takes a transition on which the Go code panics, a resolution sends at most 3 requests. On the real stack TLC decides for every trace: an injected ARP request / neighbour solicitation is answered exactly once iff the target is an own address (sender fields = own MAC + target, target fields and link destination = requester), malformed ones never; a neighbour advertisement is a reply for its TARGET field whatever its IPv6 source is (link-local source answering for a global target and the reverse, foreign source, solicited and unsolicited; messages without the link-layer address option may but need not be learned from); after a reply or a request addressed to the stack traffic for that neighbour goes to the learned MAC without a new request; no packet for an unresolved next hop (also via a gateway) is emitted; requests are broadcast, at least 0.9 s apart, at most 3 per resolution; the waiting Write / Connect / GetLinkAddress proceeds with the learned MAC or fails with the no-link-address error only after the third request plus one more timeout; mappings (also ones that overwrote an older mapping or a failed resolution of the same address, whose stale ring slot is recycled earlier) survive exactly until 512 newer entries exist and are never used for another key after ring wrap, nor once their 60 s life time is over: real-time scenarios (one in the quick tier, 13 in the thorough tier, run beside everything else) learn a mapping, check that it is still used without a request after 43-49 s, idle to 65+ s and require a new request before any datagram (answered: the new MAC is used; unanswered: failure after the budget), and require a failed entry to be retried after its life time.',
    design='5 C12',
    note='Only lower bounds on time (a give-up after 20 s of real time produces a ret event the spec rejects, subject to the reproduce-once rule). Learning from requests NOT addressed to the stack is neither required nor forbidden by the statement: the P-spec allows both. Connected sockets / TCP connections keep the link address their route resolved once (route-level caching): scenarios do not overwrite a mapping while such a socket is in use. The stale-timer race of the I-spec (NoEarlyFail, see Neigh.tla) needs an eviction or expiry inside the microsecond window between a timer firing and checkLinkRequest taking the lock; it is reported in the evidence, not driven on the real code.  The cache reads time.Now() directly, so the life-time scenarios cost 66-70 s of real time (overlapped with the rest of the check); the P-spec asserts must-use only up to 55 s and must-re-resolve only from 61 s after the mapping was learned or confirmed. Link refusal: in a third of the fail scenarios and a quarter of the resolve scenarios the link endpoint refuses to transmit one or two of the requests (WritePacket returns an error); the spec lets a refused request count as an attempt or not, the resolution must end all the same.')

SPEC = ['neigh']
OWNMAC = '02:00:00:00:00:01'
OWN4 = ['10.0.0.1', '10.0.0.2']
OWN6 = ['fd00::1']
MC6 = ['ff02::1:ff00:1']
HOST = dict(mac=OWNMAC, addr4=OWN4, addr6=OWN6, mcast6=MC6)
GW_ROUTES = [dict(dst='10.0.0.0', mask='255.255.255.0'), dict(dst='0.0.0.0', mask='0.0.0.0', gw='10.0.0.254'),
             dict(dst='::', mask='::')]


def mac(i):
    return '02:00:00:00:%02x:%02x' % ((i >> 8) & 255, i & 255)


# ------------------------------------------------------------------ inject builders (with the normalised description the P-spec reads)
def arp_req(sha, spa, tpa, rmac=None, **kw):
    op = dict(op='inject', kind='arp', arpop=1, sha=sha, spa=spa, tha='00:00:00:00:00:00', tpa=tpa, rmac=rmac or sha,
              cls='req', v=4, valid=True, target=tpa, sip=spa, smac=sha)
    op.update(kw)
    return op


def arp_rep(sha, spa, tha=OWNMAC, tpa='10.0.0.1', rmac=None, **kw):
    op = dict(op='inject', kind='arp', arpop=2, sha=sha, spa=spa, tha=tha, tpa=tpa, rmac=rmac or sha,
              cls='rep', v=4, valid=True, target=tpa, sip=spa, smac=sha)
    op.update(kw)
    return op


def ns(src, target, m, dst=None, opt=True, **kw):
    """Neighbour solicitation; what a receiver learns from one addressed to it: IPv6 source -> source link-layer address."""
    op = dict(op='inject', kind='ns', src=src, dst=dst or 'ff02::1:ff00:1', target=target, optmac=(m if opt else ''), rmac=m,
              cls='req', v=6, valid=True, sip=src, smac=m, noopt=not opt)
    op.update(kw)
    return op


def na(src, target, m, dst='fd00::1', opt=True, **kw):
    """Neighbour advertisement: it is a reply FOR ITS TARGET FIELD (RFC 4861), whatever its IPv6 source address is."""
    op = dict(op='inject', kind='na', src=src, dst=dst, target=target, optmac=(m if opt else ''), rmac=m,
              cls='rep', v=6, valid=True, sip=target, smac=m, sip2=(src if src != target else ''), noopt=not opt)
    op.update(kw)
    return op


def other6(addr):
    """Another address of the same neighbour: link-local for a global one and the reverse."""
    return ('fe80::' if addr.startswith('fd00::') else 'fd00::') + addr.split('::')[1]


def malform(rng, op):
    """Return a malformed variant of an ARP / NDP message (the stack must ignore it)."""
    op = dict(op)
    op['valid'] = False
    if op['kind'] == 'arp':
        how = rng.choice(['trunc', 'hlen', 'plen', 'htype', 'ptype', 'opcode'])
        if how == 'trunc':
            op['trunc'] = rng.choice([1, 7, 8, 14, 24, 27])
        elif how == 'hlen':
            op['hlen'] = rng.choice([0, 5, 7, 8, 255])
        elif how == 'plen':
            op['plen'] = rng.choice([0, 3, 5, 16])
        elif how == 'htype':
            op['htype'] = rng.choice([0, 2, 6, 256])
        elif how == 'ptype':
            op['ptype'] = rng.choice([0x86dd, 0x0806, 0x0801, 0])
        else:
            op['arpop'] = rng.choice([0, 3, 4, 8, 9, 256, 65535])
            op['cls'] = 'other'
    else:
        op['trunc'] = rng.choice([0 + 1, 4, 8, 15])     # target address cut short
    return op


def learn_op(rng, v, addr, m, own=None):
    """One way of telling the stack addr -> m (all of them must be learned)."""
    if v == 4:
        own = own or rng.choice(OWN4)
        how = rng.choice(['reply', 'reply', 'reply-unsolicited', 'request-to-us', 'add', 'reply-padded'])
        if how == 'reply':
            return arp_rep(m, addr, tpa=own)
        if how == 'reply-unsolicited':       # gratuitous reply: sender = target
            return arp_rep(m, addr, tha='ff:ff:ff:ff:ff:ff', tpa=addr)
        if how == 'reply-padded':
            return arp_rep(m, addr, tpa=own, pad=18)
        if how == 'request-to-us':
            return arp_req(m, addr, own)
        return dict(op='add', addr=addr, mac=m)
    how = rng.choice(['na', 'na-othersrc', 'na-othersrc', 'na-foreignsrc', 'na-unsolicited', 'na-unsolicited-othersrc', 'ns-to-us', 'add'])
    if how == 'na':
        return na(addr, addr, m)
    if how == 'na-othersrc':             # answers for its global address from its link-local one (or the reverse)
        return na(other6(addr), addr, m)
    if how == 'na-foreignsrc':           # proxy-like: source is yet another address
        return na('fd00::%x' % rng.randrange(0x200, 0x2ff), addr, m)
    if how == 'na-unsolicited':
        return na(addr, addr, m, flags=0x20)
    if how == 'na-unsolicited-othersrc':
        return na(other6(addr), addr, m, flags=rng.choice([0x20, 0x00, 0xa0]), dst=rng.choice(['fd00::1', 'ff02::1:ff00:1']))
    if how == 'ns-to-us':
        return ns(addr, 'fd00::1', m, dst=rng.choice(['ff02::1:ff00:1', 'fd00::1']))
    return dict(op='add', addr=addr, mac=m)


def noopt6(rng, addr, m):
    """NDP messages about addr WITHOUT the link-layer address option (the stack may or may not learn from them)."""
    if rng.random() < 0.5:
        return na(rng.choice([addr, other6(addr)]), addr, m, opt=False)
    return ns(addr, 'fd00::1', m, dst=rng.choice(['ff02::1:ff00:1', 'fd00::1']), opt=False)


class Sc(object):
    def __init__(self, fam, routes=None, giveup=20000):
        self.d = dict(HOST, fam=fam, ops=[], giveup_ms=giveup)
        if routes:
            self.d['routes'] = routes
        self.nid = 0

    def bg(self, kind, to, hop=None, **kw):
        self.nid += 1
        op = dict(op='bg', id=self.nid, kind=kind, to=to)
        if hop:
            op['hop'] = hop
        if kind == 'getlink':
            op['local'] = 'fd00::1' if ':' in to else '10.0.0.1'
        op.update(kw)
        self.d['ops'].append(op)
        return self.nid

    def wait(self, *ids):
        for i in ids:
            self.d['ops'].append(dict(op='wait', id=i))

    def op(self, *ops):
        self.d['ops'].extend(ops)

    def sync(self, kind, to, **kw):
        i = self.bg(kind, to, **kw)
        self.wait(i)


KINDS = ['write', 'write', 'cwrite', 'connect', 'getlink']


def gen_scenarios(ctx, n):
    rng = ctx.rng
    out = []
    fams = ['answer', 'resolve', 'fail', 'overwrite', 'overflow', 'gateway', 'race', 'mixed6', 'rewrap']
    for i in range(n):
        fam = fams[i % len(fams)]
        v = 6 if (fam == 'mixed6' or (fam in ('resolve', 'fail', 'overwrite', 'race', 'answer') and rng.random() < 0.3)) else 4
        pfx6 = 'fe80::' if (v == 6 and rng.random() < 0.3) else 'fd00::'
        A = (lambda k, p=pfx6: '%s%x' % (p, 0x10 + k)) if v == 6 else (lambda k: '10.0.0.%d' % (16 + k))
        s = Sc(fam)
        if fam == 'answer':
            # requests for own / foreign / malformed targets from several senders; learning from the ones addressed to us
            learned = {}
            for j in range(rng.randrange(4, 9)):
                k = rng.randrange(4)
                m = mac(0x100 + k if rng.random() < 0.8 else 0x200 + k)
                if v == 4:
                    tgt = rng.choice(OWN4 + OWN4 + ['10.0.0.3', '10.0.0.0', '10.0.0.255', '0.0.0.0', '255.255.255.255', '10.0.1.1', A(k)])
                    op = arp_req(m, A(k), tgt, rmac=(m if rng.random() < 0.85 else mac(0x300 + k)), pad=rng.choice([0, 0, 18]))
                else:
                    tgt = rng.choice(OWN6 + OWN6 + ['fd00::2', 'fd00::100:1', 'fe80::1', A(k)])
                    op = ns(A(k), tgt, m, dst=rng.choice(['ff02::1:ff00:1', 'fd00::1']), opt=rng.random() < 0.75)
                if rng.random() < 0.25:
                    op = malform(rng, op)
                s.op(op)
                if op['valid'] and op['cls'] == 'req' and tgt in OWN4 + OWN6 and not op.get('noopt'):
                    learned[k] = m
                    if rng.random() < 0.5:
                        s.sync(rng.choice(KINDS), A(k))      # Learn: no new request, right MAC
            for k in learned:
                s.sync('getlink', A(k))
        elif fam in ('resolve', 'mixed6'):
            # unknown neighbour: request(s), then the mapping arrives after 1..3 requests; waiting operations proceed
            if rng.random() < 0.25:
                s.d['refuse'] = [rng.choice([1, 1, 2])]       # the link refuses one request: lost before the wire
            nops = rng.choice([1, 1, 2, 3])
            ids = [s.bg(rng.choice(KINDS), A(0), after_ms=rng.choice([0, 0, 5, 300])) for _ in range(nops)]
            k = rng.choice([1, 1, 2, 3])
            s.op(dict(op='waitreq', h=A(0), n=k, then_ms=rng.choice([0, 10, 200, 500])))
            if rng.random() < 0.5:        # noise that must not resolve anything: other neighbour, malformed reply for A(0)
                s.op(learn_op(rng, v, A(1), mac(0x101)))
                base = arp_rep(mac(0x1ff), A(0)) if v == 4 else na(A(0), A(0), mac(0x1ff))
                s.op(malform(rng, base))
            if v == 6 and rng.random() < 0.4:
                s.op(noopt6(rng, A(0), mac(0x100)))          # optional: same MAC as the real answer below
            s.op(learn_op(rng, v, A(0), mac(0x100)))
            s.wait(*ids)
            s.sync(rng.choice(KINDS), A(0))
            if rng.random() < 0.5:
                s.sync(rng.choice(KINDS), A(1))       # resolves or was learned above
                if not any(o.get('sip') == A(1) or o.get('addr') == A(1) for o in s.d['ops'] if o['op'] in ('inject', 'add') and o.get('valid', True)):
                    pass
        elif fam == 'fail':
            # nobody answers: exactly 3 requests, then every waiter fails; negative answer is immediate afterwards; a late reply repairs it
            # (in a third of the scenarios the LINK refuses to transmit one or two of the requests - a full transmit queue: those
            #  requests are lost like any other, the resolution goes on and ends all the same)
            if rng.random() < 0.35:
                s.d['refuse'] = sorted(rng.sample([1, 2, 3], rng.choice([1, 1, 2])))
            nops = rng.choice([1, 2, 3])
            ids = [s.bg(rng.choice(KINDS), A(0), after_ms=rng.choice([0, 0, 400, 1500])) for _ in range(nops)]
            if rng.random() < 0.6:
                s.op(dict(op='waitreq', h=A(0), n=rng.choice([1, 2]), then_ms=50))
                s.op(learn_op(rng, v, A(1), mac(0x101)))        # reply for somebody else
                base = arp_rep(mac(0x1ff), A(0)) if v == 4 else na(A(0), A(0), mac(0x1ff))
                s.op(malform(rng, base))
            s.wait(*ids)
            s.sync(rng.choice(KINDS), A(0))                     # still failed (no new request within the entry's life time)
            if rng.random() < 0.7:
                s.op(learn_op(rng, v, A(0), mac(0x100)))
                s.sync(rng.choice(KINDS), A(0))
        elif fam == 'overwrite':
            cur = None
            for j in range(rng.randrange(3, 7)):
                m = mac(0x100 + rng.randrange(3))
                s.op(learn_op(rng, v, A(0), m))
                cur = m
                for _ in range(rng.choice([1, 1, 2])):
                    s.sync(rng.choice(['write', 'getlink', 'write', 'connect']), A(0))
                if rng.random() < 0.3:
                    # a request from A(0) for a foreign target: may or may not be learned
                    s.op(arp_req(mac(0x180), A(0), '10.0.0.77') if v == 4 else ns(A(0), 'fd00::77', mac(0x180), dst='fd00::1'))
                    s.op(learn_op(rng, v, A(0), m))
        elif fam == 'overflow':
            # ring of 512: a mapping survives 511 newer entries, not 512; after the wrap a key never gets another key's MAC
            # the boundary values come first so that every run has them
            n1 = [511, 510, 512, 300, 1030, 513, 600, 100, 505, 520][(i // len(fams)) % 10]
            s.op(dict(op='add', addr=A(0), mac=mac(0x100)))
            split = rng.randrange(0, n1 + 1)
            s.op(dict(op='fill', n=split, base=rng.randrange(0, 50000)))
            s.op(dict(op='add', addr=A(1), mac=mac(0x101)))
            s.op(dict(op='fill', n=n1 - split, base=60000 + rng.randrange(0, 50000)))
            order = [0, 1]
            if n1 not in (510, 511, 512):
                rng.shuffle(order)
            for k in order:
                i_ = s.bg(rng.choice(['write', 'getlink']), A(k))
                # if it was evicted a request appears: answer it (waitreq returns at once when the mapping is still there: bounded wait)
                s.op(dict(op='waitreq', h=A(k), n=1, ms=300))
                s.op(learn_op(rng, 4, A(k), mac(0x110 + k)))
                s.wait(i_)
                s.sync('getlink', A(k))
        elif fam == 'rewrap':
            # an address is overwritten (its new mapping lives in a NEW ring slot, the old slot stays behind, stale) and the
            # ring then wraps onto the STALE slot: recycling it must not touch the live mapping, which is newer than
            # everything evicted so far.  Slots: A0/m1 at s, k fillers, A0/m2 at s+k+1, j fillers: slot s is recycled as
            # soon as j >= 512-k, the live entry only after 512 newer ones (j <= 511 keeps it).
            k = rng.choice([1, 1, 2, 5, 40, 200])
            j = rng.randrange(512 - k, 512)
            s.op(dict(op='fill', n=rng.randrange(0, 40), base=0))           # shift the ring position
            if rng.random() < 0.3:
                # the stale slot holds a FAILED resolution instead of an older mapping
                ids = [s.bg(rng.choice(['write', 'getlink']), A(0))]
                s.wait(*ids)
            else:
                s.op(learn_op(rng, 4, A(0), mac(0x100)))
                if rng.random() < 0.5:
                    s.sync(rng.choice(['write', 'getlink']), A(0))
            s.op(dict(op='fill', n=k, base=1000))
            s.op(learn_op(rng, 4, A(0), mac(0x101)))
            s.op(dict(op='fill', n=j, base=2000))
            for _ in range(rng.choice([1, 2])):
                s.sync(rng.choice(['write', 'getlink', 'connect']), A(0))      # still known: right MAC, no new request
            # now really push it out (512 newer entries) and resolve again
            s.op(dict(op='fill', n=512 - j + rng.randrange(0, 3), base=3000))
            i_ = s.bg(rng.choice(['write', 'getlink']), A(0))
            s.op(dict(op='waitreq', h=A(0), n=1, ms=2000))
            s.op(learn_op(rng, 4, A(0), mac(0x102)))
            s.wait(i_)
        elif fam == 'gateway':
            s = Sc(fam, routes=GW_ROUTES)
            dsts = ['192.168.5.5', '8.8.8.8', '10.0.1.9']
            ids = [s.bg(rng.choice(['write', 'cwrite', 'connect']), rng.choice(dsts), hop='10.0.0.254') for _ in range(rng.choice([1, 2]))]
            s.op(dict(op='waitreq', h='10.0.0.254', n=rng.choice([1, 2]), then_ms=20))
            if rng.random() < 0.5:
                s.op(arp_rep(mac(0x1aa), '192.168.5.5'))         # an off-link claim must not be used for the gateway's traffic
            s.op(learn_op(rng, 4, '10.0.0.254', mac(0x1fe)))
            s.wait(*ids)
            s.sync('write', rng.choice(dsts), hop='10.0.0.254')
            s.sync('write', '10.0.0.254')
            s.sync(rng.choice(KINDS), '10.0.0.30')               # on-link: own resolution
        elif fam == 'race':
            # the mapping arrives while the lookup is starting / between retries; concurrent lookups for two neighbours
            ids = [s.bg(rng.choice(KINDS), A(j % 2)) for j in range(rng.choice([2, 3, 4]))]
            if rng.random() < 0.5:
                s.op(dict(op='sleep', ms=rng.choice([0, 1, 1000, 1001, 2000])))
            s.op(learn_op(rng, v, A(0), mac(0x100)))
            s.op(dict(op='sleep', ms=rng.choice([0, 1, 999, 1000])))
            s.op(learn_op(rng, v, A(1), mac(0x101)))
            s.op(learn_op(rng, v, A(0), mac(0x102)))           # overwrite while operations may be in flight
            s.wait(*ids)
            s.sync('getlink', A(0))
            s.sync('write', A(1))
        out.append(s.d)
    return out


def sim_to_scenario(rng, steps):
    """Map one simulated behaviour of Neigh.tla to driver operations.
    Get(c,k) -> background lookup for address k; Add(k,m) -> one way of
    telling the stack k -> m; RetryTimeout(g) -> wait for the next request for
    g.k (a timeout of real time); everything else is internal to the stack."""
    s = Sc('sim')
    A = lambda k: '10.0.0.%d' % (40 + int(k[1:]))
    nreq = {}
    ids = []
    for a, args in steps:
        if a == 'Get':
            ids.append(s.bg(rng.choice(['write', 'getlink', 'write', 'connect']), A(args[1])))
        elif a == 'Add':
            s.op(learn_op(rng, 4, A(args[0]), mac(0x100 + int(args[1][1:]))))
        elif a == 'RetryTimeout':
            k = args[0]
            # the timer of a resolution fired: on real code one second passes; the next request (if any) shows it
            nreq[k] = nreq.get(k, 1) + 1
            if nreq[k] <= 3:
                s.op(dict(op='waitreq', h=A(k), n=nreq[k], ms=1300))
    s.wait(*ids)
    return s.d


def expiry_scenario(rng):
    """One real 70 s scenario: a learned mapping must not be used after its life time; a failed one is retried.
    (A repeated announcement with the same MAC at 30 s does not refresh the entry in this stack; the P-spec allows both.)"""
    s = Sc('expiry', giveup=30000)
    s.op(arp_rep(mac(0x100), '10.0.0.16'))
    s.op(dict(op='add', addr='fd00::10', mac=mac(0x106)))
    i1 = s.bg('write', '10.0.0.17')           # fails after 3 s: negative entry
    s.wait(i1)
    s.sync('write', '10.0.0.16')
    s.op(dict(op='sleep', ms=30000))
    s.op(arp_rep(mac(0x100), '10.0.0.16'))     # repeated announcement (same MAC)
    s.sync('write', '10.0.0.16')
    s.op(dict(op='sleep', ms=34500))           # > 61 s after every learning event above, > 61 s after the failure
    a = s.bg('write', '10.0.0.16')
    s.op(dict(op='waitreq', h='10.0.0.16', n=1, ms=2000))
    s.op(arp_rep(mac(0x101), '10.0.0.16'))
    s.wait(a)
    b = s.bg('getlink', 'fd00::10')
    s.op(dict(op='waitreq', h='fd00::10', n=1, ms=2000))
    s.op(na('fd00::10', 'fd00::10', mac(0x107)))
    s.wait(b)
    c = s.bg('write', '10.0.0.17')            # the failed entry expired as well: a new resolution, answered this time
    s.op(dict(op='waitreq', h='10.0.0.17', n=4, ms=2000))
    s.op(arp_rep(mac(0x111), '10.0.0.17'))
    s.wait(c)
    return s.d


def expiry_variant(rng, j):
    """Real-time life-time scenarios (about 66-70 s each, all run side by side).  The entry life time is 60 s and the cache
    reads time.Now() directly, so real time has to pass.  Idle <= ~50 s: the mapping must still be used without a request;
    idle >= 62 s: a lookup must start a new resolution (request before any datagram), which succeeds when answered and fails
    after the budget when not; a failed (negative) entry must be retried after its life time."""
    v = 6 if j % 3 == 2 else 4
    A = (lambda k: 'fd00::%x' % (0x10 + k)) if v == 6 else (lambda k: '10.0.0.%d' % (16 + k))
    s = Sc('expiry', giveup=30000)
    s.op(learn_op(rng, v, A(0), mac(0x100)))
    f = s.bg(rng.choice(['write', 'getlink', 'connect']), A(1))       # nobody answers: failed entry at about 3 s
    if rng.random() < 0.5:
        s.sync(rng.choice(['write', 'getlink']), A(0))
    s.wait(f)
    s.sync(rng.choice(['write', 'getlink']), A(1))                     # negative answer, immediately
    first = rng.choice([40000, 45000])
    s.op(dict(op='sleep', ms=first))                                   # 43..49 s: still young
    s.sync(rng.choice(['write', 'getlink', 'connect']), A(0))          # must be used without a request
    s.op(dict(op='sleep', ms=62500 - first + rng.choice([0, 1500, 3000])))   # >= 65 s after everything above
    kind = rng.choice(['write', 'getlink', 'connect', 'cwrite'])
    a = s.bg(kind, A(0))                                               # expired: a new request must precede the datagram
    if j % 2 == 0:
        s.op(dict(op='waitreq', h=A(0), n=1, ms=3000, then_ms=rng.choice([0, 100, 1200])))
        s.op(learn_op(rng, v, A(0), mac(0x101)))                       # the peer changed its MAC meanwhile
        s.wait(a)
        s.sync(rng.choice(['write', 'getlink']), A(0))
    else:
        s.wait(a)                                                      # unanswered: fails after the retry budget
    b = s.bg(rng.choice(['write', 'getlink', 'connect']), A(1))        # the failed entry expired: a NEW resolution (requests 4..)
    if j % 4 < 2:
        s.op(dict(op='waitreq', h=A(1), n=4, ms=3000))
        s.op(learn_op(rng, v, A(1), mac(0x111)))
    s.wait(b)
    return s.d


# ------------------------------------------------------------------ E1
INVS = ['TypeOK', 'NeverWrong', 'NoBadTransition', 'AtMostBudget', 'CacheConsistent', 'WaitersNotified', 'ClosedIffLeft', 'Progress']


def neigh_cfg(n, keys, gets, adds, over, res, invs=INVS):
    return cfg(constants=dict(N=n, Keys=MV('{%s}' % ', '.join('k%d' % i for i in range(1, keys + 1))), Macs=MV('{m1, m2}'),
                              Callers=MV('{c1, c2}'), MaxAtt=3, MaxGets=gets, MaxAdd=adds, MaxOver=over, MaxRes=res),
               invariants=invs, symmetry='Sym')


def run_e1(ctx, box):
    """Exhaustive runs of the I-spec, concurrently (each is one JVM)."""
    def one(nm, p):
        try:
            r = ctx.tlc('Neigh', neigh_cfg(*p), SPEC, name='Neigh-' + nm, coverage=True, must_pass=True, timeout=3000)
            z = ctx.zero_coverage(r, ignore=('Overdue',) if p[4] == 0 else ())
            if z:
                raise vlib.Inconclusive('vacuity: actions never taken in %s: %s' % (nm, z))
        except BaseException as e:     # reported by the main thread
            box.append(e)

    def stale():
        try:
            # the stale-timer race of the implementation-shaped model (documented, not a verdict)
            r = ctx.tlc('Neigh', neigh_cfg(2, 3, 2, 1, 1, 2, invs=['NoEarlyFail']), SPEC, name='Neigh-staletimer', count=False, timeout=3000,
                        workers=2)
            ctx.extra['ispec_stale_timer_race'] = (
                'I-spec only: NoEarlyFail %s (a resolution goroutine whose timer fired before its entry was evicted/expired applies its '
                'attempt counter to the NEW incomplete entry of the same key; on real code this needs an eviction/expiry inside the '
                'window between timer and lock)' % ('violated, counterexample of %d steps' % len(r.trace) if not r.ok else 'holds'))
        except BaseException as e:
            box.append(e)
    # N, keys, lookups per caller, adds, expiries, resolution goroutines
    runs = [('N2-expiry', (2, 3, 2, 1, 1, 2)), ('N2-overwrite', (2, 3, 2, 2, 0, 1))]
    if ctx.thorough():
        runs = [('N2', (2, 3, 2, 2, 1, 2)), ('N2-lookups3', (2, 3, 3, 2, 1, 2)), ('N3', (3, 3, 2, 3, 1, 2))]
    ths = [threading.Thread(target=one, args=a) for a in runs]
    if ctx.thorough():
        ths.append(threading.Thread(target=stale))
    for t in ths:
        t.start()
    return ths


def simulate(ctx, num):
    """Behaviours of the I-spec as action sequences."""
    d = ctx.subdir('tlc-Neigh-sim')
    c = neigh_cfg(3, 3, 2, 3, 0, 3, invs=INVS).replace('SYMMETRY Sym\n', '')
    r = ctx.tlc('Neigh', c, SPEC, name='Neigh-sim', simulate='num=%d,file=%s' % (num, os.path.join(d, 'sim')), depth=24,
                seed=ctx.seed, count=False, workers=1, timeout=600)
    if not r.ok:
        raise vlib.Inconclusive('simulation of Neigh reported %s %s' % (r.kind, r.violated))
    out = []
    for fn in sorted(os.listdir(d)):
        if fn.startswith('sim_'):
            steps = [(a, args) for a, args, _st in tlaval.parse_simulation(os.path.join(d, fn)) if a]
            if any(a == 'Get' for a, _ in steps):
                out.append(steps)
    return out


# ------------------------------------------------------------------ run
def drive(ctx, drv, scs, name, par=64):
    sp = os.path.join(ctx.work, name + '.json')
    tp = os.path.join(ctx.work, name + '.ndjson')
    vlib.write_json(sp, scs)
    ctx.run([drv, 'run', sp, tp, str(par)], timeout=3000)
    segs = vlib.split_segments(vlib.read_ndjson(tp))
    if len(segs) != len(scs):
        raise vlib.Inconclusive('driver produced %d segments for %d scenarios' % (len(segs), len(scs)))
    return segs


TC = cfg(spec='TSpec', constraint='HWMark', postcondition='Accepted')


def describe(ev):
    return {k: v for k, v in ev.items() if k not in ('len',)}


def classify(seg, ln):
    """Known-finding classification hook (no known finding for C12 at present)."""
    return None


OLDMAC = '2.0.0.0.1.0'      # mac(0x100) in trace form


def expiry_bad_trace(seg):
    """Binding self-test for the life-time clause: what a stack that never expires entries would have produced."""
    for j, e in enumerate(seg):
        if e['ev'] == 'call' and e['t'] > 61500000 and e['h'] in ('10.0.0.16', '253.0.0.0.0.0.0.0.0.0.0.0.0.0.0.16'):
            b = copy.deepcopy(seg[:j + 1])
            t = e['t'] + 100
            if e['kind'] == 'getlink':
                b.append(dict(ev='ret', id=e['id'], err='', mac=OLDMAC, blocks=0, t=t))
            else:
                b.append(dict(ev='emit', cls='data', kind='udp', ok=True, h=e['h'], dst=e['dst'], dport=e['dport'], n=16, v=e['v'], rmac=OLDMAC, len=44, t=t))
                b.append(dict(ev='ret', id=e['id'], err='', mac='', blocks=0, t=t + 1))
            b.append(dict(ev='end', t=t + 2))
            return b
    return None


def run_expiry(ctx, drv, scs, out):
    """Real-time life-time scenarios in their own driver invocation, beside everything else (quick tier: one scenario)."""
    try:
        segs = drive(ctx, drv, scs, 'expiry')
        # the self-test trace is built from the first scenario and validated beside the real ones
        bad = next((x for x in (expiry_bad_trace(sg) for sg in segs) if x), None)
        st = {}

        def selft():
            try:
                a, rj = vlib.validate_segments(ctx, 'TraceNeigh', TC, SPEC, [bad], name='selftest-expiry', count=False)
                st['rejected'] = bool(rj)
            except BaseException as e:
                st['exc'] = e
        t = threading.Thread(target=selft)
        if bad is not None:
            t.start()
        acc, rej = vlib.validate_segments(ctx, 'TraceNeigh', TC, SPEC, segs, name='expiry')
        if bad is not None:
            t.join()
        if 'exc' in st:
            raise st['exc']
        out.update(scs=scs, segs=segs, acc=acc, rej=rej, selftest=st.get('rejected', False))
    except BaseException as e:
        out['exc'] = e


def report_rejections(ctx, drv, scs, segs, rej, tag):
    for si, ln in rej:
        # reproduce once (verdict rule): re-run the single scenario; only a reproduced rejection counts
        seg2 = drive(ctx, drv, [scs[si]], 'retry-%s%d' % (tag, si), par=1)
        a2, r2 = vlib.validate_segments(ctx, 'TraceNeigh', TC, SPEC, seg2, name='retry-%s%d' % (tag, si), count=False)
        if not r2:
            ctx.extra.setdefault('unreproduced', []).append(dict(scenario='%s%d' % (tag, si), event=ln))
            continue
        ev = segs[si][ln] if ln < len(segs[si]) else {}
        ln2 = r2[0][1]
        ev2 = seg2[0][ln2] if ln2 < len(seg2[0]) else {}
        ctx.violation('neighbour resolution rejected by the C12 P-spec (%s scenario) at event %d %s; on re-run at event %d %s' % (
            scs[si].get('fam'), ln, describe(ev), ln2, describe(ev2)),
            dict(kind='scenario', scenario=scs[si], events=segs[si][:ln + 1], rerun_events=seg2[0][:ln2 + 1]),
            key=classify(segs[si], ln))


def run(ctx):
    # many small JVMs run side by side: keep each one's helper threads few
    os.environ.setdefault('_JAVA_OPTIONS', '-XX:ParallelGCThreads=2 -XX:CICompilerCount=2')
    drv = ctx.go_build('neighd')
    box = []
    # the entry life time (60 s) is read from time.Now() inside the cache: not reachable without touching /repo, so real
    # time passes: one scenario in the quick tier, a dozen in the thorough tier, all beside the rest of the check
    erng = __import__('random').Random(ctx.seed * 104729 + 5)
    escs = [expiry_variant(erng, j) for j in range(ctx.pick(1, 12))]
    if ctx.thorough():
        escs.append(expiry_scenario(erng))
    eout = {}
    eth = threading.Thread(target=run_expiry, args=(ctx, drv, escs, eout))
    eth.start()
    ths = run_e1(ctx, box) + [eth]
    try:
        # behaviours of the I-spec -> scenarios, driven while the seeded families run
        simbox = {}

        def sim_thread():
            try:
                sims = simulate(ctx, ctx.pick(10, 80))
                rng = __import__('random').Random(ctx.seed * 7919 + 1)
                scs_ = [sim_to_scenario(rng, tr) for tr in sims]
                simbox['scs'] = scs_
                simbox['segs'] = drive(ctx, drv, scs_, 'sim')
            except BaseException as e:
                box.append(e)
        st = threading.Thread(target=sim_thread)
        st.start()
        n = ctx.pick(63, 963)
        scs = gen_scenarios(ctx, n)
        segs = drive(ctx, drv, scs, 'scen')
        st.join()
        if box:
            raise box[0]
        scs += simbox['scs']
        segs += simbox['segs']
        cnt = {}
        for s in segs:
            for e in s:
                k = e['ev'] + ('-' + e['cls'] if e['ev'] in ('emit', 'inj') else '') + ('-' + (e['err'] or 'ok') if e['ev'] == 'ret' else '')
                cnt[k] = cnt.get(k, 0) + 1
        ctx.extra.update(scenarios=len(scs), sim_scenarios=len(simbox['scs']), event_counts=cnt)
        need = ['emit-req', 'emit-rep', 'emit-data', 'ret-ok', 'ret-no remote link address', 'inj-req', 'inj-rep']
        miss = [k for k in need if not cnt.get(k)]
        if miss:
            raise vlib.Inconclusive('vacuity: no %s observed (dead driver?)' % miss)
        # binding self-tests run beside the main validation (their base traces are checked for acceptance afterwards)
        stest = {}
        sth = threading.Thread(target=selftest, args=(ctx, segs, range(len(segs)), stest))
        sth.start()
        acc, rej = vlib.validate_segments(ctx, 'TraceNeigh', TC, SPEC, segs, name='trace', timeout=3000)
        sth.join()
        ctx.traces += acc
        bad = set(si for si, _ in rej)
        good = [i for i in range(len(segs)) if i not in bad]
        for fam in ('answer', 'fail', 'overflow', 'sim'):
            i = next((i for i in good if scs[i].get('fam') == fam), None)
            if i is not None:
                ctx.sample(dict(kind='scenario-trace', family=fam, events=[describe(e) for e in segs[i][:14]]))
        report_rejections(ctx, drv, scs, segs, rej, 's')
        # the real-time life-time scenarios
        eth.join()
        if 'exc' in eout:
            raise eout['exc']
        ctx.traces += eout['acc']
        report_rejections(ctx, drv, eout['scs'], eout['segs'], eout['rej'], 'e')
        if not eout['rej'] and not eout.get('selftest'):
            raise vlib.Inconclusive('binding self-test (life time): a trace using a mapping 61 s after it was learned was accepted or could not be built')
        ctx.extra['expiry'] = ('entry life time 60 s is read from time.Now() directly (no hook, /repo untouched): %d real-time scenario(s) of 66-70 s ran '
                               'beside the rest; must-use asserted up to 55 s, must-re-resolve from 61 s; self-test (stale mapping used after 61 s) %s' % (
                                   len(eout['scs']), 'rejected' if eout.get('selftest') else 'skipped: scenario itself rejected'))
        # verdict of the binding self-tests (after the violations: a broken tree must be reported as such)
        if 'exc' in stest or bad & set(stest.get('bases', [])):
            if ctx.violations:
                stest = dict(what='skipped: base traces rejected (violations reported)')
            else:
                stest = {}
                selftest(ctx, segs, good, stest)
                if 'exc' in stest:
                    raise stest['exc']
        ctx.extra['binding_selftest'] = stest['what']
    finally:
        for t in ths:
            t.join()
    if box:
        raise box[0]
    ctx.assumptions += ['pkg/sleep builds only with the verif-tagged assembly (hook H1)',
                        'harness decoder/builder (harness/wire) is independent of protocol/header',
                        'wire.Frame.Remote (the route\'s remote link address handed to the link endpoint) is the Ethernet destination',
                        'I-spec constants: ring of 2..3 entries, 3 keys, 2 MACs, 2 callers x 2..3 lookups, <= 3 adds, <= 2 expiries; timers may fire at any moment',
                        'real-time lower bounds only: 0.9 s between requests, 60 s life time']


def replay(ctx, rec):
    """vcheck C12 --replay replays/C12-...json : re-run the recorded scenario and validate it again."""
    os.environ.setdefault('_JAVA_OPTIONS', '-XX:ParallelGCThreads=2 -XX:CICompilerCount=2')
    drv = ctx.go_build('neighd')
    sc = rec['replay']['scenario']
    seg = drive(ctx, drv, [sc], 'replay', par=1)
    acc, rej = vlib.validate_segments(ctx, 'TraceNeigh', TC, SPEC, seg, name='replay')
    ctx.traces += acc
    for si, ln in rej:
        ev = seg[0][ln] if ln < len(seg[0]) else {}
        ctx.violation('neighbour resolution rejected by the C12 P-spec (replayed %s scenario) at event %d %s' % (sc.get('fam'), ln, describe(ev)),
                      dict(kind='scenario', scenario=sc, events=seg[0][:ln + 1]))


def selftest(ctx, segs, good, out):
    """Binding self-tests: the validator must reject small corruptions of (accepted) traces."""
    try:
        _selftest(ctx, segs, good, out)
    except BaseException as e:
        out['exc'] = e


def _selftest(ctx, segs, good, out):
    bases = []

    def pick(pred):
        for i in good:
            for j, e in enumerate(segs[i]):
                if pred(e, segs[i], j):
                    bases.append(i)
                    return i, j
        return None, None
    tests = []
    i, j = pick(lambda e, s, j: e['ev'] == 'emit' and e['cls'] == 'data')
    if i is not None:
        b = copy.deepcopy(segs[i])
        b[j]['rmac'] = '2.0.0.0.9.9'
        tests.append(('data frame to a corrupted MAC', b))
    i, j = pick(lambda e, s, j: e['ev'] == 'emit' and e['cls'] == 'rep')
    if i is not None:
        b = copy.deepcopy(segs[i])
        del b[j]
        tests.append(('ARP/NDP reply event dropped', b))
        b = copy.deepcopy(segs[i])
        b.insert(j, copy.deepcopy(b[j]))
        tests.append(('reply duplicated', b))
        b = copy.deepcopy(segs[i])
        b[j]['sip'] = '10.0.0.99'
        tests.append(('reply with a foreign sender protocol address', b))
    i, j = pick(lambda e, s, j: e['ev'] == 'inj' and e.get('cls') == 'rep' and e.get('valid') and any(x['ev'] == 'emit' and x['cls'] == 'data' and x['h'] == e['sip'] for x in s[j:]))
    if i is not None:
        b = copy.deepcopy(segs[i])
        del b[j:j + 2]
        tests.append(('learning event dropped: data without resolution', b))
    i, j = pick(lambda e, s, j: e['ev'] == 'ret' and e['err'] == 'no remote link address' and sum(1 for x in s[:j] if x['ev'] == 'emit' and x['cls'] == 'req') == 3)
    if i is not None:
        b = copy.deepcopy(segs[i])
        k = max(x for x in range(j) if b[x]['ev'] == 'emit' and b[x]['cls'] == 'req')
        del b[k]
        tests.append(('failure after two requests only', b))
        b = copy.deepcopy(segs[i])
        e4 = copy.deepcopy(b[k])
        e4['t'] = b[j]['t'] - 1
        b.insert(j, e4)
        tests.append(('fourth request', b))
        b = copy.deepcopy(segs[i])
        b[k]['t'] = b[k - 1]['t'] + 1000 if b[k - 1]['ev'] == 'emit' else next(x['t'] for x in reversed(b[:k]) if x['ev'] == 'emit' and x['cls'] == 'req') + 1000
        tests.append(('requests 1 ms apart', b))
    if len(tests) < 8:
        raise vlib.Inconclusive('binding self-test: no suitable accepted trace found (%d tests)' % len(tests))
    if not ctx.thorough():
        tests = [tests[0], tests[1], tests[6]]
    # one JVM per corrupted trace, a few at a time
    from concurrent.futures import ThreadPoolExecutor
    def one(t):
        nm, b = t[1]
        a, rj = vlib.validate_segments(ctx, 'TraceNeigh', TC, SPEC, [b], name='selftest%d' % t[0], count=False)
        return nm, bool(rj)
    with ThreadPoolExecutor(max_workers=4) as ex:
        res = list(ex.map(one, enumerate(tests)))
    for nm, rejected in res:
        if not rejected:
            raise vlib.Inconclusive('binding self-test failed: "%s" accepted' % nm)
    out['what'] = 'rejected: ' + '; '.join(nm for nm, _ in tests)
    out['bases'] = bases
