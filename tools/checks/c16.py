"""C16 - buffer views behave like the byte string they represent.

Spec: spec/buffer (BufferP = P-spec: every object is a plain byte string;
Buffer = I-spec: arrays with identity, slice headers [a, lo, hi, cap], the
view list with its own identity, operations transcribed from view.go and
prependable.go, composed with BufferP; MCBuffer = closed model; TraceBuffer =
BufferP as trace validator).
Binding: E2 every transition of the TLC state graph replayed on real
buffer.View / VectorisedView / Prependable objects; E3 seeded random operation
sequences (30 operations, up to 10 chunks) validated by TLC against BufferP.
"""
import copy
import os
import vlib
from vlib import cfg, MV

MANIFEST = dict(technique='TLA+ P-spec BufferP (objects are byte strings) + I-spec Buffer (Go slice memory model of view.go/prependable.go) model-checked by TLC over every chunking and every operation sequence of the small configuration (Refines, CloneIndep, NoReExtend); every transition of the TLC state graph replayed on the real pkg/buffer objects; seeded random operation sequences validated by TLC against the P-spec',
        text='Exhaustive TLC over all chunkings (empty chunks included) of position-distinct contents and ALL operation sequences (trim, cap, remove-first, clone with and without caller buffer, flatten, first, view trim/cap, to-vectorised, prepend, prependable view) with every count from -1 to size+1: the slice-level model of the Go code refines the byte-string spec, clones never move when another object is operated on, and bytes cut off by CapLength are not reachable by re-slicing a view to its capacity. The real buffer package is held to the same byte-string spec on every transition of the model graph (flattened bytes, Views() bytes, Size, re-extension to cap) and on longer random sequences over up to 10 chunks and 8 live objects decided by TLC.',
        design='5 C16',
        note='Operation sequences are unbounded in the model (every operation shrinks something or uses up an object slot), bounded by the object count (2-3) and content length (<=5) instead. Calls that panic by contract (View.TrimFront/CapLength outside 0..len, Prepend(<0)) are Undefined and never issued. Vectorised views are built both with every chunk in its own exact array and with all chunks carved out of one backing array, each followed by distinct non-zero spare bytes (capacity beyond the length); a chunk\'s capacity never reaches into another chunk\'s bytes (with plain two-index carving of adjacent chunks even the unchanged CapLength leaves cut bytes reachable through the chunks before the cap point: caller-made aliasing, not examined). "Beyond the cap" = everything physically after the cap point: later content, the boundary chunk\'s spare bytes, later chunks. The []View list of a capped VectorisedView is re-sliced with two indices by the code (Views()[:cap] still shows dropped chunks) - outside the property, which speaks of a capped View. NextBytes and the string/url helpers of pkg/buffer are not covered.')

SPEC = ['buffer']
INV = ['Refines', 'NoReExtend']
PROPS = ['CloneIndep']
OPS = ['NewVV', 'NewView', 'NewPrep', 'VTrim', 'VCap', 'VRemoveFirst', 'VClone', 'VToView', 'VFirst',
       'WTrim', 'WCap', 'WToVV', 'WToPrep', 'Prepend', 'PView']
SCRATCH = 2


def consts(maxobj, maxlen, maxchunks, maxres, variant='go'):
    # Slacks: vectorised views with every chunk its own exact array (0) and with all chunks carved
    # out of one backing array, each followed by 1 spare byte of capacity (1)
    return dict(Variant=variant, ScratchCap=SCRATCH, MaxObj=maxobj, MaxLen=maxlen, MaxChunks=maxchunks, MaxRes=maxres,
                Slacks=MV('{0, 1}'))


def brief(ev):
    """An event without the per-object observations (for replay files / samples)."""
    return {k: v for k, v in ev.items() if k != 'objs'}


TC = cfg(spec='TSpec', constraint='HWMark', postcondition='Accepted')


def ops_rejected(ctx, drv, steps, name):
    """Run one explicit operation sequence on the real objects and let TLC judge the
    observations against the P-spec alone. Returns (rejected_at_event or None, events)."""
    ip = os.path.join(ctx.work, name + '.json')
    tp = os.path.join(ctx.work, name + '.ndjson')
    vlib.write_json(ip, dict(scratch_cap=SCRATCH, steps=steps))
    ctx.run([drv, 'ops', ip, tp])
    seg = vlib.read_ndjson(tp)
    acc, rej = vlib.validate_segments(ctx, 'TraceBuffer', TC, SPEC, [seg], name=name, count=False)
    return (rej[0][1] if rej else None), seg


def replay(ctx, data):
    """vcheck C16 --replay <file>: run the recorded operation sequence again."""
    r = data['replay']
    drv = ctx.go_build('bufferd')
    if r['kind'] == 'graph':
        at, seg = ops_rejected(ctx, drv, r['steps'], 'replay')
    else:
        tp = os.path.join(ctx.work, 'replay.ndjson')
        ctx.run([drv, 'random', tp, str(r['seed']), str(r.get('segments', r['segment'] + 1)), str(r['ops'])])
        seg = vlib.split_segments(vlib.read_ndjson(tp))[r['segment']]
        acc, rej = vlib.validate_segments(ctx, 'TraceBuffer', TC, SPEC, [seg], name='replay', count=False)
        at = rej[0][1] if rej else None
    ctx.traces += 1
    ctx.sample(dict(kind='replay', events=[brief(e) for e in seg[:14]]))
    if at is None:
        print('replay: the recorded operation sequence is accepted by the byte-string spec (not reproduced)')
    else:
        ctx.violation('replayed operation sequence rejected by the byte-string spec at event %d: %s' % (at, brief(seg[at]) if at < len(seg) else '?'),
                      r, key=data.get('key'))


def run(ctx):
    drv = ctx.go_build('bufferd')

    # ---- E1: closed model, every chunking x every operation sequence (graph kept for E2)
    gcfg = ctx.pick((2, 2, 2, 2), (2, 3, 2, 2))
    c = cfg(spec='MCSpec', constants=consts(*gcfg), invariants=INV, properties=PROPS)
    rg = ctx.tlc('MCBuffer', c, SPEC, name='MCBuffer-graph', dump_dot=True, coverage=ctx.thorough(), must_pass=True, timeout=3000)
    if ctx.thorough():
        z = [a for a in OPS if rg.cov.get(a, (0, 0))[1] == 0]
        if z:
            raise vlib.Inconclusive('vacuity: actions never taken in MCBuffer-graph: %s' % z)
    big = ctx.pick([], [(2, 4, 3, 2), (3, 2, 2, 2)])
    for b in big:
        cb = cfg(spec='MCSpec', constants=consts(*b), invariants=INV, properties=PROPS)
        ctx.tlc('MCBuffer', cb, SPEC, name='MCBuffer-%d%d%d%d' % b, must_pass=True, timeout=6000)
    ctx.extra['exhaustive'] = True

    # ---- spec sensitivity: the invariants must be able to fail (model-only, never a verdict on the code)
    if ctx.thorough():
        for variant, expect in (('twoindex', ('NoReExtend',)), ('boundary', ('NoReExtend',)), ('sharelist', ('Refines', 'CloneIndep'))):
            cv = cfg(spec='MCSpec', constants=consts(2, 2, 2, 0, variant), invariants=INV, properties=PROPS)
            rv = ctx.tlc('MCBuffer', cv, SPEC, name='MCBuffer-' + variant, count=False)
            if rv.ok or rv.violated not in expect:
                raise vlib.Inconclusive('sensitivity self-test: variant %s should violate %s, TLC says %s' % (variant, expect, rv.violated))
        ctx.extra['spec_sensitivity'] = 'two-index View.CapLength and `>` for `>=` at the chunk boundary of VectorisedView.CapLength refuted by NoReExtend; Clone sharing the view list refuted by Refines/CloneIndep'

    # ---- E2: every transition of the graph replayed on real buffer objects
    script, stats = vlib.graph_script(ctx, rg, extra=dict(scratch_cap=SCRATCH))
    sp = os.path.join(ctx.work, 'buffer-graph.json')
    vlib.write_json(sp, script)
    out = ctx.run([drv, 'graph', sp], timeout=3000)
    res = vlib.json.loads(out.stdout)
    res['mismatches'] = res.get('mismatches') or []
    ctx.extra.update(stats)
    ctx.extra['replay_steps'] = res['steps']
    acts = res.get('extra', {}).get('actions') or {}
    ctx.extra['replayed_actions'] = acts
    z = [a for a in OPS if not acts.get(a)]
    if z and not res['mismatches']:
        raise vlib.Inconclusive('vacuity: actions with no transition in the replayed graph: %s' % z)
    ctx.traces += res['paths']
    if res['paths'] != len(script['paths']) and not res['mismatches']:
        raise vlib.Inconclusive('graph replay stopped early without a mismatch')
    for p in script['paths'][:2]:
        ctx.sample(dict(kind='graph-path', steps=[[s['a']] + s['args'] for s in p[:10]]))
    seen = set()
    drift = [m for m in res['mismatches'] if m['kind'] != 'property']
    for mm in res['mismatches']:
        if mm['kind'] != 'property' or mm['path'] in seen:
            continue
        seen.add(mm['path'])
        p = script['paths'][mm['path']][:mm['step'] + 1]
        if len(seen) <= (1 if 'never returns' in mm['what'] else 2):    # (a stuck call costs its 5 s again)
            # reproduce once, judged by TLC against the P-spec alone (no model state involved)
            at, _seg = ops_rejected(ctx, drv, [[s['a']] + s['args'] for s in p], 'confirm-%d' % len(seen))
            if at is None:
                raise vlib.Inconclusive('graph mismatch not reproduced at P-level (%s after %s): the replay compares against the model, TLC accepts the same run' % (
                    mm['what'], [[s['a']] + s['args'] for s in p]))
        before = script['states'][p[-2]['dst'] if len(p) > 1 else script['init']]
        ctx.violation('pkg/buffer disagrees with the byte-string spec after step %d (%s): %s want=%s got=%s' % (
            mm['step'], p[-1]['a'] + str(p[-1]['args']), mm['what'], mm.get('want'), mm.get('got')),
            dict(kind='graph', config=dict(zip(('MaxObj', 'MaxLen', 'MaxChunks', 'MaxRes'), gcfg)),
                 steps=[[s['a']] + s['args'] for s in p], abstract_before=before.get('abs'), mismatch=mm))
    # observation, not a verdict: Views()[:cap(Views())] of a capped VectorisedView still shows the
    # dropped chunks (the list is re-sliced with two indices). Reported as a finding only if
    # known_findings.json carries an entry for it (match.kind = "list-reextend").
    lx = res.get('extra', {}).get('list_reextend_first')
    if lx:
        steps = [[s['a']] + s['args'] for s in script['paths'][lx['path']][:lx['step'] + 1]]
        ctx.extra['list_level_reextension'] = dict(states_seen=res['extra'].get('list_reextend_count'), steps=steps, byte=lx['byte'], object=lx['object'])
        for kf in ctx.known_findings():
            if kf.get('property') == ctx.pid and (kf.get('match') or {}).get('kind') == 'list-reextend':
                ctx.violation('Views()[:cap] of a capped VectorisedView exposes byte %d cut off by CapLength (object %d)' % (lx['byte'], lx['object']),
                              dict(kind='graph', steps=steps, note='list-level re-extension'), key=kf.get('id'))
    if drift and not seen:
        d = drift[0]
        ctx.model_drift('implementation shape differs from the I-spec Buffer (%d cases), first: %s want=%s got=%s at %s' % (
            len(drift), d['what'], d.get('want'), d.get('got'),
            [[s['a']] + s['args'] for s in script['paths'][d['path']][:d['step'] + 1]]))

    # ---- E3: longer seeded random sequences, decided by TLC against the P-spec
    nseg, nops = ctx.pick((60, 30), (1500, 30))
    nsegarg = nseg
    tp = os.path.join(ctx.work, 'random.ndjson')
    ctx.run([drv, 'random', tp, str(ctx.seed), str(nseg), str(nops)], timeout=3000)
    segs = vlib.split_segments(vlib.read_ndjson(tp))
    # the driver first runs its directed sequences (empty chunks at the front / middle / end / in a
    # row / only empty chunks; counts beyond the size, RemoveFirst past the end), then nseg random ones;
    # it stops early only after 3 calls that never returned
    nstuck = sum(1 for s in segs for e in s if e['ev'] == 'stuck')
    nrandom = sum(1 for s in segs if s[0].get('kind') == 'random')
    if nrandom != nseg and nstuck < 3:
        raise vlib.Inconclusive('random driver produced %d random segments, expected %d' % (nrandom, nseg))
    ctx.extra['directed_segments'] = len(segs) - nrandom
    nseg = len(segs)
    hist = {}
    maxchunks = 0
    for s in segs:
        for e in s:
            hist[e['ev']] = hist.get(e['ev'], 0) + 1
            if e['ev'] == 'NewVV':
                maxchunks = max(maxchunks, len(e['chunks']))
    ctx.extra['random_ops'] = hist
    ctx.extra['random_segments'] = nseg
    ctx.extra['random_max_chunks'] = maxchunks
    missing = [a for a in OPS if not hist.get(a)]
    if missing and not hist.get('panic') and not hist.get('stuck'):
        raise vlib.Inconclusive('vacuity: operations never issued by the random driver: %s' % missing)
    # binding self-test rides along: a copy of a recorded sequence with one content byte flipped
    # (and, thorough tier, one with a trim/cap event removed) is appended; TLC must reject exactly those
    tests = {}
    for s in segs:
        if 'corrupt' not in tests:
            for k, e in enumerate(s):
                if e.get('objs') and e['objs'][0]['b']:
                    bad = copy.deepcopy(s)
                    bad[k]['objs'][0]['b'][-1] ^= 1
                    bad[k]['objs'][0]['bv'][-1] ^= 1
                    tests['corrupt'] = bad
                    break
        if 'drop' not in tests and ctx.thorough():
            for k, e in enumerate(s):
                # an event whose removal shows at P level: it changed some object's bytes
                if e['ev'] in ('VTrim', 'VCap') and k >= 1 and [x['b'] for x in e['objs']] != [x['b'] for x in s[k - 1].get('objs', [])]:
                    tests['drop'] = s[:k] + s[k + 1:]
                    break
        if len(tests) == ctx.pick(1, 2):
            break
    names = sorted(tests)
    allsegs = segs + [tests[nm] for nm in names]
    acc, rej_all = vlib.validate_segments(ctx, 'TraceBuffer', TC, SPEC, allsegs, name='random-and-selftest',
                                          max_reruns=5 + len(names), timeout=3000)
    rej = [(si, ln) for si, ln in rej_all if si < nseg]
    caught = [names[si - nseg] for si, _ in rej_all if si >= nseg]
    ctx.traces += acc
    ctx.sample(dict(kind='random-sequence', events=[brief(e) for e in segs[0][:14]]))
    for si, ln in rej:
        e = segs[si][ln] if ln < len(segs[si]) else {}
        prev = segs[si][ln - 1].get('objs') if ln >= 1 else None
        what = 'operation sequence rejected by the byte-string spec at event %d: %s' % (ln, brief(e))
        if e.get('ev') == 'stuck':
            what = 'operation sequence: %s(%s, %s) never returns (the byte-string spec says it returns): %s; objects before: %s' % (
                e['op'], e['o'], e['n'], e['msg'], [dict(kind=x['kind'], b=x['b'], chunks=[v['b'] for v in x['views']]) for x in e.get('before', [])])
        ctx.violation(what,
                      dict(kind='random', seed=ctx.seed, segment=si, segments=nsegarg, ops=nops,
                           steps=[brief(x) for x in segs[si][:ln + 1]], objects_before=prev, observed_after=e.get('objs')))
    if not ctx.extra.get('unexamined_segments'):
        if len(names) < ctx.pick(1, 2) and not rej:
            raise vlib.Inconclusive('binding self-test: no suitable recorded sequence')
        if sorted(caught) != names:
            raise vlib.Inconclusive('binding self-test failed: accepted by TLC: %s' % sorted(set(names) - set(caught)))
        ctx.extra['binding_selftest'] = 'rejected by TLC: ' + ', '.join(names) + ' (corrupt = one flipped content byte, drop = one trim/cap event removed)'
    ctx.assumptions += ['Go slice semantics (bounds, capacity, append into a buffer with enough capacity) as modelled by Slice2/Slice3',
                        'the capacity of one chunk never overlaps the bytes of another chunk (own arrays, or carved with a third index); callers respect the contracts (View counts within 0..len, Clone buffer not in use by a live object)',
                        'content and spare-capacity bytes are pairwise distinct and non-zero within one operation sequence (byte value = byte identity)',
                        'constants: graph %s, exhaustive %s as (MaxObj, MaxLen, MaxChunks, MaxRes); counts -1..size+1' % (gcfg, big)]
