"""C19 - Sleeper/Waker never lose or invent a wake-up.

Spec: spec/sleep (Sleep = I-spec, one action per atomic operation of
pkg/sleep, with the C19 properties as invariants/temporal formulas over ghost
variables; MCSleep = cfg wrapper for Target; SleepMon = the P-spec as a
deterministic monitor over calls/returns/observations only, run by
TraceSleepProp over recorded schedules and by GraphSleepProp over the product
with the complete real-code graph).
Binding: the real Sleeper/Wakers run under a gate scheduler (hooks H2; the
gopark gate is one step, "parked" is a state read from waitingG / the
runtime); the complete reachable graph of the real code is compared with TLC's
graph of the I-spec (drift only); every path of the real graph and seeded
random schedules with up to 8 waker goroutines are checked by TLC against the
P-spec (violations).
"""
import copy
import json
import os
import re
import vlib
from vlib import cfg, MV

MANIFEST = dict(technique='TLA+ I-spec Sleep at atomic-operation granularity model-checked by TLC (safety + liveness under fairness); complete reachable graph of the REAL Sleeper/Waker under a gate scheduler (gopark/goready as scheduled steps) compared edge-for-edge with the TLC graph; the P-spec (deterministic monitor SleepMon over call/return/parked/IsAsserted observations) model-checked by TLC over the product with the complete real-code graph (every path) and over seeded random schedules',
                text='All interleavings of one sleeper goroutine (AddWaker, blocking/non-blocking Fetch, Done) with 2-4 waker goroutines x 1-2 Assert/Clear operations are explored by TLC on the I-spec (NoLostWake, NoInvented, Coalesce, NBSound, AfterDone, FetchLive, DoneLive). The real pkg/sleep is driven through every reachable state/transition at atomic-operation granularity, including asserts landing between the decision to sleep and commitSleep and Done racing with asserts; its graph must equal the model graph (drift otherwise). The verdict comes from TLC checking the C19 monitor against every path of that real-code graph (GraphSleepProp) and against random schedules with up to 8 waker goroutines (TraceSleepProp); terminal states after Done re-attach every waker to a new sleeper through the public API; thorough adds a free-running stress with pre-emption injected at the hook points under the race detector.',
                design='5 C19',
                note='Trusted: runtime gopark/goready, sync/atomic, the gate scheduler. NBSound is checked literally (completed = some Assert call returned, unconsumed); the one shape in which the real code contradicts it is known finding F25 (an Assert that finds the waker already asserted returns before the Assert still in flight has queued it): a fixed gate-scheduler probe reproduces it on every run (KNOWN-FINDING line) and, only while it reproduces, the monitor tolerates exactly that shape (an Assert of the waker still in flight at the moment of the Fetch); without it the clause "no Assert of that waker in flight" is never relaxed. Order of returned wakers is not checked. "Nobody touches the sleeper after Done" is observed through the verif accessor (lists empty, waitingG zero) and through the public API on the old/new sleeper in terminal states. Bounded: <=3 wakers, <=4 waker goroutines x <=2 ops exhaustively; 8 goroutines in random schedules. The free-running stress under the race detector (thorough tier) is exploration-grade: a race report there is reported as inconclusive, not as a C19 verdict.')

SPEC = ['sleep']
INV = ['NoLostWake', 'NoInvented', 'Coalesce', 'NBSound', 'AfterDone', 'GhostOK', 'ParkOK', 'TypeOK', 'QueuedNotSlp']
LIVE = ['FetchLive', 'DoneLive', 'AfterDoneStable', 'NBStrictOrF25']
SLEEPER_START = {'StartAdd': 'StartAddWaker(0)', 'StartDone': 'StartDone(0)'}
KF = 'F25'   # known finding: strict NBSound fails when an Assert returns early while another Assert of the waker is in flight
PROBE_CFG = (1, (1, 1), 1, 1, True)
# g1: Assert up to (not including) the enqueue; g2: Assert of the same waker returns; sleeper: non-blocking Fetch
PROBE_MOVES = [dict(w=1, op='Assert'), dict(w=1, op=''), dict(w=1, op=''), dict(w=2, op='Assert'), dict(w=2, op=''),
               dict(w=0, op='FetchNB'), dict(w=0, op='')]


def tcfg(tol):
    return cfg(spec='TSpec', constants=dict(TolerateF25=bool(tol)), constraint='HWMark', postcondition='Accepted')


def drive(ctx, drv, conf, moves, name):
    """Run one schedule on the real code; returns the P-level segment, or None if a move was not enabled."""
    mp = os.path.join(ctx.work, name + '-moves.json')
    vlib.write_json(mp, moves)
    out = json.loads(ctx.run([drv, 'replay', conf, mp]).stdout)
    seg = [conf_reset(conf)]
    for st in out['steps']:
        if st.get('error'):
            return None
        seg.extend(st.get('events') or [])
    return seg


def probe_f25(ctx, drv):
    """Drive the schedule of known finding F25 on the real code and validate it with the STRICT clause.
    Returns True iff it reproduces in exactly the known shape and the finding is registered as known:
    only then is the shape tolerated in the rest of this run."""
    conf = dcfg(PROBE_CFG)
    seg = drive(ctx, drv, conf, PROBE_MOVES, 'probe')
    ctx.extra['F25_probe'] = 'schedule not drivable'
    if seg is None:
        return False
    _a, rj = vlib.validate_segments(ctx, 'TraceSleepProp', tcfg(False), SPEC, [seg], name='probe-F25-strict', count=False)
    if not rj:
        ctx.extra['F25_probe'] = 'not reproduced (strict clause holds on the probe)'
        return False
    ln = rj[0][1]
    info = dict(kind='gate-probe', config=conf, moves=PROBE_MOVES, events=seg[:ln + 1])
    _a, rj2 = vlib.validate_segments(ctx, 'TraceSleepProp', tcfg(True), SPEC, [seg], name='probe-F25-shape', count=False)
    if rj2:
        ctx.extra['F25_probe'] = 'rejected outside the known shape'
        ctx.violation('real pkg/sleep behaviour (F25 probe schedule) rejected by the C19 P-spec outside the known shape at event %d: %s' % (
            rj2[0][1], json.dumps(seg[rj2[0][1]]) if rj2[0][1] < len(seg) else '?'), dict(info, events=seg[:rj2[0][1] + 1]))
        return False
    ctx.extra['F25_probe'] = 'reproduced'
    ctx.sample(dict(kind='F25-probe', config=conf, events=seg))
    ctx.violation('non-blocking Fetch reported nothing although an Assert of the attached waker had returned and was unconsumed '
                  '(another Assert of the same waker still in flight, not yet queued): %s' % json.dumps(seg[ln]), info, key=KF)
    return ctx.known(KF) is not None



def copts(c):
    """options of a configuration tuple (nw, targets, maxg, maxf, pre[, dict(clear=, preq=)])"""
    o = dict(clear=True, preq=0)
    if len(c) > 5:
        o.update(c[5])
    return o


def mcfg(c, invariants=INV, properties=()):
    nw, tgt, maxg, maxf, pre = c[:5]
    o = copts(c)
    return cfg(constants=dict(NW=nw, Target='<- T_' + ''.join(str(t) for t in tgt), MaxG=maxg, MaxF=maxf, PreAttach=pre,
                              ClearOK=o['clear'], PreQ=o['preq']),
               invariants=invariants, properties=properties)


def dcfg(c):
    nw, tgt, maxg, maxf, pre = c[:5]
    o = copts(c)
    ol = ([] if o['clear'] else ['a']) + (['q%d' % o['preq']] if o['preq'] else [])
    return '%d:%s:%d:%d:%d' % (nw, ','.join(str(t) for t in tgt), maxg, maxf, 1 if pre else 0) + (':' + ','.join(ol) if ol else '')


def conf_reset(conf, **kw):
    """reset event for a driver configuration string"""
    p = conf.split(':')
    q = [int(x[1:]) for x in (p[5].split(',') if len(p) > 5 else []) if x.startswith('q')]
    d = dict(ev='reset', nw=int(p[0]), pre=p[4] == '1', preq=q[0] if q else 0)
    d.update(kw)
    return d


def seq(v):
    return list(v) if isinstance(v, (list, tuple)) else [v[k] for k in sorted(v)] if isinstance(v, dict) else v


def model_key(st):
    pcf = st['pcF']
    pcg = seq(st['pcG'])
    gv = [x if pc == 'E2' else 0 for x, pc in zip(seq(st['gv']), pcg)]
    gg = [x if pc in ('E4', 'E5') else 0 for x, pc in zip(seq(st['gg']), pcg)]
    pend = sorted(st['pend']) if not isinstance(st['pend'], dict) else sorted(st['pend'].values())
    return '|'.join(str(x) for x in (
        seq(st['ws']), seq(st['shared']), seq(st['local']), st['waitingG'], st['parked'], pcf,
        st['fblock'], st['fw'] if pcf == 'Fswap' else 0, st['fops'], st['nadd'], st['sp'] if pcf == 'AW2' else 'nil',
        st['sv'] if pcf == 'SE2' else 0, seq(st['dq']), pend, st['inDone'], pcg, gv, gg, seq(st['gops'])))


def real_key(st):
    if st.get('aborted'):
        return 'aborted'
    return ('stuck(%s)' % st['stuck'] if st.get('stuck') else '') + '|'.join(str(x) for x in (
        st['ws'], st['shared'], st['local'], st['waitingG'], st['parked'], st['pcF'], st['fblock'], st['fw'], st['fops'],
        st['nadd'], st['sp'], st['sv'], st['dq'], st['pend'], st['inDone'], st['pcG'], st['gv'], st['gg'], st['gops']))


def model_label(lab):
    a, args = vlib.tlaval.parse_action(lab)
    if a in SLEEPER_START:
        return SLEEPER_START[a]
    if a == 'StartFetch':
        return 'StartFetchB(0)' if args[0] in (True, 'TRUE') else 'StartFetchNB(0)'
    if a in ('StartAssert', 'StartClear'):
        return '%s(%d)' % (a, int(args[0]))
    if args:
        return 'Step(%d)' % int(args[0])
    return 'Step(0)'


def pgraph(ctx, c, g, name, tol, corrupt=False):
    """P-level verdict over the complete real-code graph g of configuration c: TLC explores the product
    of the graph with the monitor SleepMon (module GraphSleepProp); a TLC deadlock is an observation the
    P-spec rejects.  Returns None if every path is accepted, else dict(moves, events, rejected)."""
    keys = list(g['states'].keys())
    idx = {k: i + 1 for i, k in enumerate(keys)}
    out = {k: [] for k in keys}
    done = not corrupt
    for n, e in enumerate(g['edges']):
        evs = e['events'] or []
        if not done:
            for q, ev in enumerate(evs):
                if ev.get('ev') == 'ret' and ev.get('op') == 'Fetch' and ev.get('ok'):
                    evs = copy.deepcopy(evs)
                    evs[q]['id'] = ev['id'] % 8 + 1          # the Fetch reports another waker
                    done = True
                    break
        out[e['src']].append(dict(dst=idx[e['dst']], id=n, events=evs))
    if not done:
        raise vlib.Inconclusive('graph self-test: no successful Fetch in the real graph %s' % dcfg(c))
    text = ''.join(json.dumps(dict(out=out[k])) + '\n' for k in keys)
    gc = cfg(spec='GSpec', constants=dict(GNW=c[0], GPre=bool(c[4]), GPreQ=copts(c)['preq'], GInit=idx[g['init']], TolerateF25=bool(tol)))
    r = ctx.tlc('GraphSleepProp', gc, SPEC, name=name, files={'graph.ndjson': text}, nodeadlock=False, timeout=3000,
                count=not corrupt)
    if r.ok:
        return None
    if r.kind != 'deadlock':
        raise vlib.Inconclusive('graph validation %s: unexpected TLC verdict %s %s\n%s' % (name, r.kind, r.violated, r.out[-2000:]))
    # counterexample: the sequence of (node, ei, k) TLC printed
    st = [(int(m.group(1)), None, None) for m in re.finditer(r'^/\\ node = (\d+)', r.out, re.M)]
    eis = [int(m.group(1)) for m in re.finditer(r'^/\\ ei = (\d+)', r.out, re.M)]
    ks = [int(m.group(1)) for m in re.finditer(r'^/\\ k = (\d+)', r.out, re.M)]
    if not st or len(eis) != len(st) or len(ks) != len(st):
        raise vlib.Inconclusive('graph validation %s: cannot read the counterexample\n%s' % (name, r.out[-2000:]))
    moves, events, last = [], [], None
    for (node, _a, _b), ei, k in zip(st, eis, ks):
        if ei and (node, ei) != last:
            last = (node, ei)
            e = out[keys[node - 1]][ei - 1]
            moves.append(g['edges'][e['id']]['move'])
            cur = e['events']
            events.append(cur)
        if not ei:
            last = None
    node, ei, k = st[-1][0], eis[-1], ks[-1]
    flat = [ev for evs in events[:-1] for ev in evs] + events[-1][:k + 1]
    return dict(moves=moves, events=flat, rejected=flat[-1] if flat else None)


def graph_part(ctx, drv, c, tag, tol):
    """Configuration c: model graph vs complete real-code graph (drift only), and the P-level verdict over
    every path of the real graph.  Returns (graph, nondeterminism message or None, rejected?)."""
    rc = ctx.tlc('MCSleep', mcfg(c), SPEC, name='Sleep-graph-' + tag, dump_dot=True, must_pass=True, timeout=3000)
    nodes, edges, init = vlib.tlaval.parse_dot(os.path.join(rc.dir, 'graph.dot'))
    mkeys = {nid: model_key(vlib.tlaval.parse_state(t)) for nid, t in nodes.items()}
    medges = set((mkeys[s], model_label(lab), mkeys[d]) for s, d, lab in edges)
    out = ctx.run([drv, 'explore', dcfg(c), '3000000'], timeout=3000)
    g = json.loads(out.stdout)
    if g.get('truncated'):
        raise vlib.Inconclusive('real-code exploration truncated')
    ctx.log('real graph %s (%s): %d states, %d edges, %d runs, %d steps' % (
        tag, dcfg(c), len(g['states']), len(g['edges']), g['runs'], g['steps']))
    ctx.extra.setdefault('real_graph', {})[tag] = dict(config=dcfg(c), states=len(g['states']), edges=len(g['edges']),
                                                       runs=g['runs'], steps=g['steps'])
    # ---- P-level: every path of the REAL graph against the P-spec
    bad = pgraph(ctx, c, g, 'pgraph-' + tag, tol)
    if bad is None:
        ctx.traces += len(g['edges'])
    else:
        ctx.violation('real pkg/sleep behaviour (path of the real-code graph, config %s) rejected by the C19 P-spec at: %s' % (
            dcfg(c), json.dumps(bad['rejected'])), dict(kind='graph path', config=dcfg(c), moves=bad['moves'], events=bad['events']))
    ctx.sample(dict(kind='real-graph-edges', config=dcfg(c),
                    edges=[dict(move=e['label'], events=e['events']) for e in g['edges'][:6]]))
    ctx.extra.setdefault('watchdog', {})[tag] = dict(stuck=g.get('stuck', 0), aborted=bool(g.get('aborted')))
    if g.get('stuck') or g.get('aborted'):
        ctx.model_drift('real pkg/sleep (%s): %d histories abandoned by the watchdog (a call did not come back)%s' % (
            dcfg(c), g.get('stuck', 0), '; exploration aborted' if g.get('aborted') else ''))
        msg = None if bad is not None else 'watchdog hit (%s) but the P-spec accepted every path: %s' % (dcfg(c), g.get('stuck'))
        return g, msg if g.get('aborted') else None, bad is not None
    if g.get('nondeterminism'):
        return g, 'real code not deterministic under the gate scheduler (%s): %s' % (dcfg(c), g['nondeterminism'][:2]), bad is not None
    # ---- I-level: graph equality (drift only)
    rk = {k: real_key(st) for k, st in g['states'].items()}
    redges = set((rk[e['src']], e['label'], rk[e['dst']]) for e in g['edges'])
    cmp_ = vlib.compare_graphs(medges, redges)
    ctx.extra.setdefault('graph_compare', {})[tag] = cmp_
    ctx.log('graph compare %s: %s' % (tag, {k: cmp_[k] for k in ('model_edges', 'real_edges', 'common', 'n_model_only', 'n_real_only')}))
    if cmp_['n_model_only'] or cmp_['n_real_only']:
        ctx.model_drift('real pkg/sleep graph (%s) differs from the I-spec: model-only %s real-only %s' % (
            dcfg(c), cmp_['model_only'][:2], cmp_['real_only'][:2]))
    return g, None, bad is not None


def selftest_traces(base):
    """(good, {name: bad}) hand-made and corrupted traces for the binding self-test."""
    tests = {}
    b = copy.deepcopy(base)          # corrupt: a successful Fetch reports another waker
    for e in b:
        if e.get('ev') == 'ret' and e.get('op') == 'Fetch' and e.get('ok'):
            e['id'] = e['id'] % 8 + 1
            break
    tests['corrupt-id'] = b
    b = copy.deepcopy(base)          # drop: the call event of the first Assert
    for i, e in enumerate(b):
        if e.get('ev') == 'call' and e.get('op') == 'Assert':
            del b[i]
            break
    tests['drop-call'] = b
    r0 = dict(ev='reset', nw=1, pre=True, preq=0)
    A = lambda p, ev, **kw: dict(ev=ev, p=p, **kw)

    def O(asserted=(), parked=False, dirty=False):
        return dict(ev='obs', parked=parked, asserted=list(asserted), dirty=dirty)

    def op(p, name, before=(), after=(), **kw):        # a whole call in one piece: call, obs, ret
        return [A(p, 'call', op=name, **{k: v for k, v in kw.items() if k in ('w', 'block')}), O(after),
                A(p, 'ret', op=name, **{k: v for k, v in kw.items() if k != 'block' or name == 'Fetch'})]
    tests['lost-wake'] = [r0, A(0, 'call', op='Fetch', block=True), O(parked=True), A(1, 'call', op='Assert', w=1),
                          O([1], parked=True), A(1, 'ret', op='Assert', w=1)]
    tests['invented'] = [r0] + op(1, 'Assert', after=[1], w=1) + op(1, 'Clear', after=[], w=1, ok=True) + \
        op(0, 'Fetch', after=[], block=False, id=1, ok=True)
    tests['double-notify'] = [r0] + op(1, 'Assert', after=[1], w=1) + op(1, 'Assert', after=[1], w=1) + \
        op(0, 'Fetch', after=[], block=False, id=1, ok=True) + op(0, 'Fetch', after=[], block=False, id=1, ok=True)
    tests['nb-unsound'] = [r0] + op(1, 'Assert', after=[1], w=1) + op(0, 'Fetch', after=[1], block=False, id=-1, ok=False)
    tests['clear-lies'] = [r0] + op(1, 'Assert', after=[1], w=1) + [A(2, 'call', op='Clear', w=1), O([1])] + \
        op(0, 'Fetch', after=[], block=True, id=1, ok=True) + [O([]), A(2, 'ret', op='Clear', w=1, ok=True)]
    tests['after-done'] = [r0] + op(0, 'Done') + [O(dirty=True)]
    tests['reattach-old'] = [r0] + op(0, 'Done') + [dict(ev='reattach', old=[[1, True]], new=[[1, 101, True, -1, False]])]
    tests['reattach-twice'] = [r0] + op(0, 'Done') + [dict(ev='reattach', old=[], new=[[1, 101, True, 101, True]])]
    # legal: g2's Assert finds the waker asserted and returns while g1's Assert has not queued it yet, so a
    # non-blocking Fetch still reports nothing; later the blocking Fetch gets the one notification
    good = [r0, A(1, 'call', op='Assert', w=1), O([]), O([1])] + op(2, 'Assert', after=[1], w=1) + \
        op(0, 'Fetch', after=[1], block=False, id=-1, ok=False) + [A(1, 'ret', op='Assert', w=1)] + \
        [A(0, 'call', op='Fetch', block=True), O([1], parked=False), O([]), A(0, 'ret', op='Fetch', id=1, ok=True, block=True)] + \
        op(0, 'Done') + [dict(ev='reattach', old=[], new=[[1, 101, True, -1, False]])]
    # watchdog events: a call that spins never returns; a non-blocking call may not even sleep; a blocking Fetch with
    # nothing asserted may sleep for ever (legal)
    tests['stuck-spinning'] = [r0, A(0, 'call', op='Fetch', block=True), O(), dict(ev='stuck', p=0, op='Fetch', state='spinning')]
    tests['stuck-assert'] = [r0, A(1, 'call', op='Assert', w=1), O(), dict(ev='stuck', p=1, op='Assert', state='parked')]
    tests['stuck-lost-wake'] = [r0] + op(1, 'Assert', after=[1], w=1) + [A(0, 'call', op='Fetch', block=True), O([1]),
                                                                         dict(ev='stuck', p=0, op='Fetch', state='parked')]
    good2 = [r0, A(0, 'call', op='Fetch', block=True), O(), dict(ev='stuck', p=0, op='Fetch', state='parked')]
    return [good, good2], tests


def run(ctx):
    drv = ctx.go_build('sleepd')

    # ---- known finding F25: fixed probe on the real code, validated with the strict clause; its shape is
    # ---- tolerated below only if it reproduces (and is registered as known)
    tol = probe_f25(ctx, drv)
    ctx.extra['F25_tolerated'] = tol

    # ---- E1: I-spec, every schedule of the small configurations; safety everywhere, liveness on the smaller ones
    e1 = ctx.pick([((2, (1, 2), 2, 2, True), False), ((1, (1, 1), 1, 1, False), True)],
                  [((2, (1, 1, 2), 2, 2, True), False), ((2, (1, 1, 2, 2), 1, 1, True), False), ((3, (1, 2, 3), 1, 1, True), False),
                   ((2, (1, 2), 2, 1, False), False), ((2, (1, 2), 1, 2, True), True), ((1, (1, 1), 2, 1, False), True)])
    cov = {}
    for k, (c, lv) in enumerate(e1):
        r = ctx.tlc('MCSleep', mcfg(c, properties=LIVE if lv else ()), SPEC, name='Sleep-e1-%d' % k, coverage=True,
                    must_pass=True, timeout=3000)
        for a, (d_, t_) in r.cov.items():
            cov[a] = cov.get(a, 0) + t_
    if ctx.thorough():
        # the literal (strict) non-blocking clause on the I-spec: expected to fail exactly as F25 says
        r = ctx.tlc('MCSleep', mcfg(PROBE_CFG, invariants=(), properties=['NBStrict']), SPEC, name='Sleep-F25', count=False, timeout=3000)
        ctx.extra['F25_in_model'] = (not r.ok) and r.violated == 'NBStrict'
        if ctx.extra['F25_in_model'] != (ctx.extra['F25_probe'] == 'reproduced'):
            ctx.model_drift('known finding F25: I-spec %s the strict non-blocking clause, real code: probe %s' % (
                'violates' if ctx.extra['F25_in_model'] else 'satisfies', ctx.extra['F25_probe']))
    zero = sorted(a for a, n in cov.items() if n == 0)
    if zero or not cov:
        raise vlib.Inconclusive('vacuity: actions never taken in the Sleep E1 runs: %s' % zero)
    ctx.extra['action_counts'] = cov

    # ---- E1 + E2 + P-level: model graph vs complete real-code graph (drift); every path of the real graph
    # ---- against the P-spec (violations)
    # 'e': two goroutines on the SAME waker (w2) while another waker (w1) is already queued; 'f': the same race with
    # the third waker queued by a third goroutine (Assert only, the sleeper only calls Done)
    gconfs = ctx.pick([('a', (1, (1, 1), 1, 1, True)), ('e', (2, (2, 2), 1, 1, True, dict(preq=1))), ('c', (1, (1,), 1, 1, False))],
                      [('a', (1, (1, 1), 2, 1, True)), ('b', (2, (1, 2), 1, 2, False)), ('c', (2, (1, 2), 1, 1, True)),
                       ('d', (1, (1,), 1, 1, False)), ('e', (2, (2, 2), 1, 1, True, dict(preq=1))),
                       ('f', (2, (1, 2, 2), 1, 0, True, dict(clear=False)))])
    nondet, grej, small = [], False, None
    for tag, c in gconfs:
        g, nd, bad = graph_part(ctx, drv, c, tag, tol)
        grej = grej or bad
        if nd:
            nondet.append(nd)
        if small is None or len(g['edges']) < len(small[1]['edges']):
            small = (c, g)
    fr = [v['fraction'] for v in ctx.extra.get('graph_compare', {}).values()]
    if fr:
        ctx.extra['replayed_transition_fraction'] = min(fr)
    if nondet and not grej:
        raise vlib.Inconclusive('; '.join(nondet))
    batch = []          # (segment, replay info) of every recorded real-code schedule to validate against the P-spec
    ngraph = 0

    # ---- seeded random schedules: up to 8 waker goroutines
    rconfs = ctx.pick([('3:r8:2:3:r', 100), ('2:r4:3:2:r', 100)],
                      [('3:r8:2:3:r', 1000), ('2:r4:3:3:r', 1000), ('1:r6:2:2:r', 500)])
    for k, (rc_, runs) in enumerate(rconfs):
        tp = os.path.join(ctx.work, 'random-%d.ndjson' % k)
        seed = ctx.seed * 1000 + k
        ctx.run([drv, 'random', rc_, str(runs), str(seed), tp], timeout=3000)
        for sg in vlib.split_segments(vlib.read_ndjson(tp)):
            batch.append(([conf_reset(sg[0]['config'], run=sg[0]['run'])] + sg[1:],
                          dict(kind='random schedule', config=sg[0]['config'], moves=sg[0]['moves'], seed=seed, run=sg[0]['run'])))
    ctx.extra['random_schedules'] = len(batch) - ngraph
    ctx.sample(dict(kind='random-schedule', config=batch[ngraph][1]['config'], events=batch[ngraph][0][:14]))

    # ---- P-level verdict: TLC validates every real-code trace against TraceSleepProp
    segs = [b[0] for b in batch]
    rej = []
    lo = 0
    while lo < len(segs):          # chunks of at most ~250k events per TLC start
        hi, n = lo, 0
        while hi < len(segs) and (hi == lo or n + len(segs[hi]) <= 250000):
            n += len(segs[hi])
            hi += 1
        acc, rj = vlib.validate_segments(ctx, 'TraceSleepProp', tcfg(tol), SPEC, segs[lo:hi], name='ptrace-%d' % lo, timeout=3000)
        ctx.traces += acc
        rej += [(lo + si, ln) for si, ln in rj]
        lo = hi
    ctx.extra['ptrace_events'] = sum(len(s_) for s_ in segs)
    for si, ln in rej:
        seg, info = batch[si]
        ctx.violation('real pkg/sleep behaviour (%s, config %s) rejected by the C19 P-spec at event %d: %s' % (
            info['kind'], info['config'], ln, json.dumps(seg[ln]) if ln < len(seg) else '?'),
            dict(events=seg[:ln + 1], **info))

    # ---- free-running stress (no gate scheduler) with pre-emption injected at the hook points, under the race
    # ---- detector when the toolchain can build it: exploration-grade last layer (thorough tier)
    if ctx.thorough():
        try:
            sdrv, racy = ctx.go_build('sleepd', race=True), True
        except vlib.Inconclusive:
            sdrv, racy = drv, False
        sargs = ['stress', '8', '3', '3000', str(ctx.seed), '6']

        def stress_once():
            p = ctx.run([sdrv] + sargs, ok_rc=None, timeout=3000)
            err = p.stderr.decode('utf-8', 'replace')
            if p.returncode == 66 or 'DATA RACE' in err:
                raise vlib.Inconclusive('race detector report while stressing pkg/sleep (no verdict on C19):\n' + err[:3000])
            if p.returncode != 0:
                raise vlib.Inconclusive('stress driver failed rc=%d:\n%s' % (p.returncode, err[-3000:]))
            rounds = json.loads(p.stdout)['rounds']
            return rounds, [r for r in rounds if r['stuck'] or r['mismatch'] or r['invented'] or not r['reattach_ok']]
        rounds, sbad = stress_once()
        if sbad:
            _r2, sbad2 = stress_once()
            if not sbad2:
                raise vlib.Inconclusive('stress failure not reproducible: %s' % sbad[:1])
            ctx.violation('free-running stress of the real pkg/sleep: notification lost / sleeper stuck / re-attachment failed: %s' % (
                json.dumps(sbad[0])), dict(kind='stress', args=sargs, race=racy, rounds=sbad[:2], again=sbad2[:2]))
        else:
            ctx.traces += len(rounds)
        ctx.extra['stress'] = dict(race_detector=racy, rounds=len(rounds), asserts=sum(r['asserts'] for r in rounds),
                                   fetches=sum(r['fetches'] for r in rounds), injected_yields=sum(r['yields'] for r in rounds))

    # ---- binding self-test: corrupted / event-dropped / semantically wrong traces must be rejected, a legal one accepted
    base = None
    for seg in segs[ngraph:]:
        ops = [(e.get('ev'), e.get('op'), e.get('ok')) for e in seg]
        if ('ret', 'Fetch', True) in ops and ('call', 'Assert', None) in ops:
            base = seg
            break
    if base is None:
        raise vlib.Inconclusive('binding self-test: no random run with a successful Fetch')
    goods, tests = selftest_traces(base)
    names = sorted(tests) if ctx.thorough() else ['corrupt-id', 'stuck-spinning']
    a, rj = vlib.validate_segments(ctx, 'TraceSleepProp', tcfg(True), SPEC, goods + [tests[n] for n in names], name='selftest',
                                   count=False, max_reruns=len(names) + 3)
    rejected = set(si for si, _ln in rj)
    if rejected & set(range(len(goods))):
        raise vlib.Inconclusive('binding self-test failed: a legal hand-written trace is rejected')
    missed = [n for i, n in enumerate(names) if i + len(goods) not in rejected]
    if missed:
        raise vlib.Inconclusive('binding self-test failed: bad traces accepted: %s' % missed)
    if pgraph(ctx, small[0], small[1], 'selftest-graph', True, corrupt=True) is None:
        raise vlib.Inconclusive('binding self-test failed: real graph with a corrupted Fetch result accepted')
    names = names + ['graph with a corrupted Fetch result']
    ctx.extra['binding_selftest'] = 'rejected: ' + ', '.join(names) + '; legal trace with a coalesced early-returning Assert accepted'
    ctx.assumptions += ['Go runtime gopark/goready and sync/atomic trusted; commitSleep+gopark is one step',
                        'hook granularity = one atomic operation per step (no coarser place); goroutine-local work rides with the preceding atomic operation',
                        'NBSound: strict clause, known finding F25 tolerated only in its shape (an Assert of the waker in flight) and only while the probe reproduces',
                        'constants: E1 %s, graph comparison %s' % ([dcfg(c) for c, _l in e1], [dcfg(c) for _t, c in gconfs])]


def replay(ctx, data):
    """Re-run the schedule of a recorded violation / known finding on the real code and validate it again."""
    drv = ctx.go_build('sleepd')
    rp = data['replay']
    if 'moves' not in rp or 'config' not in rp or rp['config'].count(':') != 4 or 'r' in rp['config']:
        raise vlib.Inconclusive('replay file has no explicit schedule (stress runs: re-run the check with the recorded VERIF_SEED)')
    seg = drive(ctx, drv, rp['config'], rp['moves'], 'replay')
    if seg is None:
        raise vlib.Inconclusive('the recorded schedule cannot be driven on this tree (a move is not enabled)')
    probe = rp.get('kind') == 'gate-probe'
    acc, rej = vlib.validate_segments(ctx, 'TraceSleepProp', tcfg(not probe and ctx.known(KF) is not None), SPEC, [seg], name='replay')
    ctx.traces += acc
    for _si, ln in rej:
        ctx.violation('real pkg/sleep behaviour (replay, config %s) rejected by the C19 P-spec at event %d: %s' % (
            rp['config'], ln, json.dumps(seg[ln]) if ln < len(seg) else '?'),
            dict(kind=rp.get('kind', 'replay'), config=rp['config'], moves=rp['moves'], events=seg[:ln + 1]), key=KF if probe else None)
