"""C19 - Sleeper/Waker never lose or invent a wake-up.

Spec: spec/sleep (Sleep = I-spec, one action per atomic operation of
pkg/sleep, with the C19 properties as invariants/temporal formulas over ghost
variables; MCSleep = cfg wrapper for Target; TraceSleepProp = P-spec as trace
validator over calls/returns/observations only).
Binding: the real Sleeper/Wakers run under a gate scheduler (hooks H2; the
gopark gate is one step, "parked" is a state read from waitingG / the
runtime); the complete reachable graph of the real code is compared with TLC's
graph of the I-spec (drift only), and every real transition plus seeded random
schedules with up to 8 waker goroutines are validated by TLC against the
P-spec (violations).
"""
import copy
import json
import os
import vlib
from vlib import cfg, MV

MANIFEST = dict(technique='TLA+ I-spec Sleep at atomic-operation granularity model-checked by TLC (safety + liveness under fairness); complete reachable graph of the REAL Sleeper/Waker under a gate scheduler (gopark/goready as scheduled steps) compared edge-for-edge with the TLC graph; every real transition and seeded random schedules validated by TLC against a P-level linearizability/observation trace spec',
                text='All interleavings of one sleeper goroutine (AddWaker, blocking/non-blocking Fetch, Done) with 2-4 waker goroutines x 1-2 Assert/Clear operations are explored by TLC on the I-spec (NoLostWake, NoInvented, Coalesce, NBSound, AfterDone, FetchLive, DoneLive). The real pkg/sleep is driven through every reachable state/transition at atomic-operation granularity, including asserts landing between the decision to sleep and commitSleep and Done racing with asserts; its graph must equal the model graph (drift otherwise). The verdict comes from TLC validating the observed call/return/parked/IsAsserted events of every real transition, and of random schedules with 8 waker goroutines, against TraceSleepProp; terminal states after Done re-attach every waker to a new sleeper through the public API.',
                design='5 C19',
                note='Trusted: runtime gopark/goready, sync/atomic, the gate scheduler. NBSound is checked at the strength "Assert returned, unconsumed, and no Assert of that waker still in flight": an Assert that finds the waker already asserted returns before the earlier, still running Assert has queued it (by design of the algorithm), so a stricter reading is refuted by model and code alike. Order of returned wakers is not checked. "Nobody touches the sleeper after Done" is observed through the verif accessor (lists empty, waitingG zero) and through the public API on the old/new sleeper in terminal states. Bounded: <=3 wakers, <=4 waker goroutines x <=2 ops exhaustively; 8 goroutines in random schedules. Not run under the race detector (cgo toolchain unavailable in the check environment).')

SPEC = ['sleep']
INV = ['NoLostWake', 'NoInvented', 'Coalesce', 'NBSound', 'AfterDone', 'GhostOK', 'ParkOK', 'TypeOK', 'QueuedNotSlp']
LIVE = ['FetchLive', 'DoneLive', 'AfterDoneStable']
SLEEPER_START = {'StartAdd': 'StartAddWaker(0)', 'StartDone': 'StartDone(0)'}
TCFG = cfg(spec='TSpec', constraint='HWMark', postcondition='Accepted')


def mcfg(c, invariants=INV, properties=()):
    nw, tgt, maxg, maxf, pre = c
    return cfg(constants=dict(NW=nw, Target='<- T_' + ''.join(str(t) for t in tgt), MaxG=maxg, MaxF=maxf, PreAttach=pre),
               invariants=invariants, properties=properties)


def dcfg(c):
    nw, tgt, maxg, maxf, pre = c
    return '%d:%s:%d:%d:%d' % (nw, ','.join(str(t) for t in tgt), maxg, maxf, 1 if pre else 0)


def seq(v):
    return list(v) if isinstance(v, (list, tuple)) else [v[k] for k in sorted(v)] if isinstance(v, dict) else v


def model_key(st):
    pcf = st['pcF']
    pcg = seq(st['pcG'])
    gv = [x if pc == 'E2' else 0 for x, pc in zip(seq(st['gv']), pcg)]
    gg = [x if pc in ('E4', 'E5') else 0 for x, pc in zip(seq(st['gg']), pcg)]
    pend = sorted(st['pend']) if not isinstance(st['pend'], dict) else sorted(st['pend'].values())
    return '|'.join(str(x) for x in (
        seq(st['ws']), seq(st['shared']), seq(st['local']), st['waitingG'], st['parked'], pcf,
        st['fblock'], st['fw'] if pcf == 'Fswap' else 0, st['fops'], st['nadd'], st['sp'] if pcf == 'AW2' else 'nil',
        st['sv'] if pcf == 'SE2' else 0, seq(st['dq']), pend, st['inDone'], pcg, gv, gg, seq(st['gops'])))


def real_key(st):
    return '|'.join(str(x) for x in (
        st['ws'], st['shared'], st['local'], st['waitingG'], st['parked'], st['pcF'], st['fblock'], st['fw'], st['fops'],
        st['nadd'], st['sp'], st['sv'], st['dq'], st['pend'], st['inDone'], st['pcG'], st['gv'], st['gg'], st['gops']))


def model_label(lab):
    a, args = vlib.tlaval.parse_action(lab)
    if a in SLEEPER_START:
        return SLEEPER_START[a]
    if a == 'StartFetch':
        return 'StartFetchB(0)' if args[0] in (True, 'TRUE') else 'StartFetchNB(0)'
    if a in ('StartAssert', 'StartClear'):
        return '%s(%d)' % (a, int(args[0]))
    if args:
        return 'Step(%d)' % int(args[0])
    return 'Step(0)'


def reset_ev(c, **kw):
    d = dict(ev='reset', nw=c[0], pre=bool(c[4]))
    d.update(kw)
    return d


def graph_part(ctx, drv, c, tag, batch):
    """Model graph vs complete real-code graph for configuration c (drift only);
    an edge cover of the real graph is added to `batch` for the P-level validation."""
    rc = ctx.tlc('MCSleep', mcfg(c), SPEC, name='Sleep-graph-' + tag, dump_dot=True, must_pass=True, timeout=3000)
    nodes, edges, init = vlib.tlaval.parse_dot(os.path.join(rc.dir, 'graph.dot'))
    mkeys = {nid: model_key(vlib.tlaval.parse_state(t)) for nid, t in nodes.items()}
    medges = set((mkeys[s], model_label(lab), mkeys[d]) for s, d, lab in edges)
    out = ctx.run([drv, 'explore', dcfg(c), '3000000'], timeout=3000)
    g = json.loads(out.stdout)
    if g.get('truncated'):
        raise vlib.Inconclusive('real-code exploration truncated')
    ctx.log('real graph %s (%s): %d states, %d edges, %d runs, %d steps' % (
        tag, dcfg(c), len(g['states']), len(g['edges']), g['runs'], g['steps']))
    ctx.extra.setdefault('real_graph', {})[tag] = dict(config=dcfg(c), states=len(g['states']), edges=len(g['edges']),
                                                       runs=g['runs'], steps=g['steps'])
    # every transition of the REAL graph covered by root paths: P-level segments
    paths, ncov, ne = vlib.real_graph_paths(g, rng=ctx.rng)
    for k, p in enumerate(paths):
        seg = [reset_ev(c, path=k)]
        for e in p:
            seg.extend(e['events'] or [])
        batch.append((seg, dict(kind='graph path', config=dcfg(c), moves=[e['move'] for e in p])))
    ctx.extra.setdefault('real_edges_covered_by_ptraces', {})[tag] = ncov
    ctx.sample(dict(kind='real-graph-path', config=dcfg(c), moves=[e['label'] for e in paths[0][:24]]))
    if g.get('nondeterminism'):
        return 'real code not deterministic under the gate scheduler (%s): %s' % (dcfg(c), g['nondeterminism'][:2])
    # I-level: graph equality (drift only)
    rk = {k: real_key(st) for k, st in g['states'].items()}
    redges = set((rk[e['src']], e['label'], rk[e['dst']]) for e in g['edges'])
    cmp_ = vlib.compare_graphs(medges, redges)
    ctx.extra.setdefault('graph_compare', {})[tag] = cmp_
    ctx.log('graph compare %s: %s' % (tag, {k: cmp_[k] for k in ('model_edges', 'real_edges', 'common', 'n_model_only', 'n_real_only')}))
    if cmp_['n_model_only'] or cmp_['n_real_only']:
        ctx.model_drift('real pkg/sleep graph (%s) differs from the I-spec: model-only %s real-only %s' % (
            dcfg(c), cmp_['model_only'][:2], cmp_['real_only'][:2]))
    return None


def selftest_traces(base):
    """(good, {name: bad}) hand-made and corrupted traces for the binding self-test."""
    tests = {}
    b = copy.deepcopy(base)          # corrupt: a successful Fetch reports another waker
    for e in b:
        if e.get('ev') == 'ret' and e.get('op') == 'Fetch' and e.get('ok'):
            e['id'] = e['id'] % 8 + 1
            break
    tests['corrupt-id'] = b
    b = copy.deepcopy(base)          # drop: the call event of the first Assert
    for i, e in enumerate(b):
        if e.get('ev') == 'call' and e.get('op') == 'Assert':
            del b[i]
            break
    tests['drop-call'] = b
    r0 = dict(ev='reset', nw=1, pre=True)
    A = lambda p, ev, **kw: dict(ev=ev, p=p, **kw)

    def O(asserted=(), parked=False, dirty=False):
        return dict(ev='obs', parked=parked, asserted=list(asserted), dirty=dirty)

    def op(p, name, before=(), after=(), **kw):        # a whole call in one piece: call, obs, ret
        return [A(p, 'call', op=name, **{k: v for k, v in kw.items() if k in ('w', 'block')}), O(after),
                A(p, 'ret', op=name, **{k: v for k, v in kw.items() if k != 'block' or name == 'Fetch'})]
    tests['lost-wake'] = [r0, A(0, 'call', op='Fetch', block=True), O(parked=True), A(1, 'call', op='Assert', w=1),
                          O([1], parked=True), A(1, 'ret', op='Assert', w=1)]
    tests['invented'] = [r0] + op(1, 'Assert', after=[1], w=1) + op(1, 'Clear', after=[], w=1, ok=True) + \
        op(0, 'Fetch', after=[], block=False, id=1, ok=True)
    tests['double-notify'] = [r0] + op(1, 'Assert', after=[1], w=1) + op(1, 'Assert', after=[1], w=1) + \
        op(0, 'Fetch', after=[], block=False, id=1, ok=True) + op(0, 'Fetch', after=[], block=False, id=1, ok=True)
    tests['nb-unsound'] = [r0] + op(1, 'Assert', after=[1], w=1) + op(0, 'Fetch', after=[1], block=False, id=-1, ok=False)
    tests['clear-lies'] = [r0] + op(1, 'Assert', after=[1], w=1) + [A(2, 'call', op='Clear', w=1), O([1])] + \
        op(0, 'Fetch', after=[], block=True, id=1, ok=True) + [O([]), A(2, 'ret', op='Clear', w=1, ok=True)]
    tests['after-done'] = [r0] + op(0, 'Done') + [O(dirty=True)]
    tests['reattach-old'] = [r0] + op(0, 'Done') + [dict(ev='reattach', old=[[1, True]], new=[[1, 101, True, -1, False]])]
    tests['reattach-twice'] = [r0] + op(0, 'Done') + [dict(ev='reattach', old=[], new=[[1, 101, True, 101, True]])]
    # legal: g2's Assert finds the waker asserted and returns while g1's Assert has not queued it yet, so a
    # non-blocking Fetch still reports nothing; later the blocking Fetch gets the one notification
    good = [r0, A(1, 'call', op='Assert', w=1), O([]), O([1])] + op(2, 'Assert', after=[1], w=1) + \
        op(0, 'Fetch', after=[1], block=False, id=-1, ok=False) + [A(1, 'ret', op='Assert', w=1)] + \
        [A(0, 'call', op='Fetch', block=True), O([1], parked=False), O([]), A(0, 'ret', op='Fetch', id=1, ok=True, block=True)] + \
        op(0, 'Done') + [dict(ev='reattach', old=[], new=[[1, 101, True, -1, False]])]
    return good, tests


def run(ctx):
    drv = ctx.go_build('sleepd')

    # ---- E1: I-spec, every schedule of the small configurations; safety everywhere, liveness on the smaller ones
    e1 = ctx.pick([((2, (1, 2), 2, 2, True), False), ((1, (1, 1), 1, 1, False), True)],
                  [((2, (1, 1, 2), 2, 2, True), False), ((2, (1, 1, 2, 2), 1, 1, True), False), ((3, (1, 2, 3), 1, 1, True), False),
                   ((2, (1, 2), 2, 1, False), False), ((2, (1, 2), 2, 2, True), True), ((1, (1, 1), 2, 1, False), True)])
    cov = {}
    for k, (c, lv) in enumerate(e1):
        r = ctx.tlc('MCSleep', mcfg(c, properties=LIVE if lv else ()), SPEC, name='Sleep-e1-%d' % k, coverage=True,
                    must_pass=True, timeout=3000)
        for a, (d_, t_) in r.cov.items():
            cov[a] = cov.get(a, 0) + t_
    zero = sorted(a for a, n in cov.items() if n == 0)
    if zero or not cov:
        raise vlib.Inconclusive('vacuity: actions never taken in the Sleep E1 runs: %s' % zero)
    ctx.extra['action_counts'] = cov

    # ---- E1 + E2: model graph vs complete real-code graph (drift); edge cover of the real graph -> batch
    batch = []          # (segment, replay info) of every real-code trace to validate against the P-spec
    gconfs = ctx.pick([('a', (1, (1, 1), 1, 1, True)), ('c', (1, (1,), 1, 1, False))],
                      [('a', (1, (1, 1), 2, 1, True)), ('b', (2, (1, 2), 1, 2, False)), ('c', (2, (1, 2), 1, 1, True)),
                       ('d', (1, (1,), 1, 1, False))])
    nondet = []
    for tag, c in gconfs:
        nd = graph_part(ctx, drv, c, tag, batch)
        if nd:
            nondet.append(nd)
    fr = [v['fraction'] for v in ctx.extra.get('graph_compare', {}).values()]
    if fr:
        ctx.extra['replayed_transition_fraction'] = min(fr)
    ngraph = len(batch)

    # ---- seeded random schedules: up to 8 waker goroutines
    rconfs = ctx.pick([('3:r8:2:3:r', 150), ('2:r4:3:2:r', 150)],
                      [('3:r8:2:3:r', 1000), ('2:r4:3:3:r', 1000), ('1:r6:2:2:r', 500)])
    for k, (rc_, runs) in enumerate(rconfs):
        tp = os.path.join(ctx.work, 'random-%d.ndjson' % k)
        seed = ctx.seed * 1000 + k
        ctx.run([drv, 'random', rc_, str(runs), str(seed), tp], timeout=3000)
        for sg in vlib.split_segments(vlib.read_ndjson(tp)):
            batch.append(([dict(ev='reset', nw=sg[0]['nw'], pre=sg[0]['pre'], run=sg[0]['run'])] + sg[1:],
                          dict(kind='random schedule', config=sg[0]['config'], moves=sg[0]['moves'], seed=seed, run=sg[0]['run'])))
    ctx.extra['random_schedules'] = len(batch) - ngraph
    ctx.sample(dict(kind='random-schedule', config=batch[ngraph][1]['config'], events=batch[ngraph][0][:14]))

    # ---- P-level verdict: TLC validates every real-code trace against TraceSleepProp
    segs = [b[0] for b in batch]
    rej = []
    lo = 0
    while lo < len(segs):          # chunks of at most ~250k events per TLC start
        hi, n = lo, 0
        while hi < len(segs) and (hi == lo or n + len(segs[hi]) <= 250000):
            n += len(segs[hi])
            hi += 1
        acc, rj = vlib.validate_segments(ctx, 'TraceSleepProp', TCFG, SPEC, segs[lo:hi], name='ptrace-%d' % lo, timeout=3000)
        ctx.traces += acc
        rej += [(lo + si, ln) for si, ln in rj]
        lo = hi
    ctx.extra['ptrace_events'] = sum(len(s_) for s_ in segs)
    for si, ln in rej:
        seg, info = batch[si]
        ctx.violation('real pkg/sleep behaviour (%s, config %s) rejected by the C19 P-spec at event %d: %s' % (
            info['kind'], info['config'], ln, json.dumps(seg[ln]) if ln < len(seg) else '?'),
            dict(events=seg[:ln + 1], **info))
    if nondet and not rej:
        raise vlib.Inconclusive('; '.join(nondet))

    # ---- binding self-test: corrupted / event-dropped / semantically wrong traces must be rejected, a legal one accepted
    base = None
    for seg in segs[ngraph:]:
        ops = [(e.get('ev'), e.get('op'), e.get('ok')) for e in seg]
        if ('ret', 'Fetch', True) in ops and ('call', 'Assert', None) in ops:
            base = seg
            break
    if base is None:
        raise vlib.Inconclusive('binding self-test: no random run with a successful Fetch')
    good, tests = selftest_traces(base)
    names = sorted(tests) if ctx.thorough() else ['corrupt-id', 'lost-wake']
    a, rj = vlib.validate_segments(ctx, 'TraceSleepProp', TCFG, SPEC, [good] + [tests[n] for n in names], name='selftest',
                                   count=False, max_reruns=len(names) + 2)
    rejected = set(si for si, _ln in rj)
    if 0 in rejected:
        raise vlib.Inconclusive('binding self-test failed: a legal hand-written trace is rejected')
    missed = [n for i, n in enumerate(names) if i + 1 not in rejected]
    if missed:
        raise vlib.Inconclusive('binding self-test failed: bad traces accepted: %s' % missed)
    ctx.extra['binding_selftest'] = 'rejected: ' + ', '.join(names) + '; legal trace with a coalesced early-returning Assert accepted'
    ctx.assumptions += ['Go runtime gopark/goready and sync/atomic trusted; commitSleep+gopark is one step',
                        'hook granularity = one atomic operation per step (no coarser place); goroutine-local work rides with the preceding atomic operation',
                        'NBSound strength: completed = an Assert returned, unconsumed, no Assert of that waker in flight',
                        'constants: E1 %s, graph comparison %s' % ([dcfg(c) for c, _l in e1], [dcfg(c) for _t, c in gconfs])]


def replay(ctx, data):
    """Re-run the schedule of a recorded violation on the real code and validate it again."""
    drv = ctx.go_build('sleepd')
    rp = data['replay']
    if 'moves' not in rp or 'config' not in rp or rp['config'].count(':') != 4 or 'r' in rp['config']:
        raise vlib.Inconclusive('replay file has no explicit schedule (random runs: re-run the check with the recorded VERIF_SEED)')
    mp = os.path.join(ctx.work, 'moves.json')
    vlib.write_json(mp, rp['moves'])
    out = json.loads(ctx.run([drv, 'replay', rp['config'], mp]).stdout)
    c = rp['config'].split(':')
    seg = [dict(ev='reset', nw=int(c[0]), pre=c[4] == '1')]
    for st in out['steps']:
        seg.extend(st.get('events') or [])
    acc, rej = vlib.validate_segments(ctx, 'TraceSleepProp', TCFG, SPEC, [seg], name='replay')
    ctx.traces += acc
    for _si, ln in rej:
        ctx.violation('real pkg/sleep behaviour (replay, config %s) rejected by the C19 P-spec at event %d: %s' % (
            rp['config'], ln, json.dumps(seg[ln]) if ln < len(seg) else '?'),
            dict(kind='replay', config=rp['config'], moves=rp['moves'], events=seg[:ln + 1]))
