"""C09, racing half (library module, called from c09.py: not a check of its own).

demux_race(ctx): registrations racing deliveries on one real stack.
harness/demuxraced runs seeded random CONCURRENT histories (UDP socket
lifecycles Bind/Connect/drain/Close contending for the same ports, UDP
injectors with unique datagram ids, a TCP listener lifecycle on the same port
number with SYN injectors); every call/ret goes to one totally ordered log and
TLC decides for each recorded history whether a linearization exists under the
P-spec spec/sock/TraceDemuxLin.tla (each datagram given to the single most
specific socket bound at some instant of its injection, or to nobody; never to
anyone else, never twice, never invented; a SYN either taken by a listener or
reset).

A concurrent history cannot be reproduced by running the driver again: a
REJECTED RECORDED history is itself real behaviour.  It is re-validated once
more in a fresh TLC run (to rule out a TLC hiccup) and then reported.
"""
import copy
import os
import vlib
from vlib import cfg

SPEC = ['sock']
MODULE = 'TraceDemuxLin'
TC = cfg(spec='TSpec', constraint='HWMark', postcondition='Accepted')


def intervals(seg):
    """[(op_event, call_index, ret_index, ret_event)] of one history."""
    open_, out = {}, []
    for i, e in enumerate(seg):
        if e.get('ev') == 'call':
            open_[e['g']] = (e, i)
        elif e.get('ev') == 'ret' and e['g'] in open_:
            c, ci = open_.pop(e['g'])
            out.append((c, ci, i, e))
    return out


def history_stats(seg, st):
    ivs = intervals(seg)
    port_of = {}
    for c, ci, ri, r in ivs:
        if c['op'] in ('bind', 'tbind'):
            port_of[c['s']] = c['port']
    read_ids = set(r['id'] for c, ci, ri, r in ivs if c['op'] == 'read' and r.get('ok'))
    regs = [(c, ci, ri) for c, ci, ri, r in ivs if c['op'] in ('bind', 'connect', 'close')]
    tregs = [(c, ci, ri) for c, ci, ri, r in ivs if c['op'] in ('listen', 'tclose')]
    emits = {}
    for e in seg:
        if e.get('ev') == 'emit':
            emits.setdefault(e['id'], set()).add(e['kind'])
    for c, ci, ri, r in ivs:
        op = c['op']
        st['ops'] += 1
        if op == 'inject':
            st['injects'] += 1
            if c['id'] in read_ids:
                st['injects_delivered'] += 1
            else:
                st['injects_undelivered'] += 1
            ov = [x for x, a, b in regs if port_of.get(x['s']) == c['dport'] and a < ri and ci < b]
            if ov:
                st['overlaps'] += 1
                if c['id'] in read_ids:
                    st['overlaps_delivered'] += 1
                if any(x['op'] == 'close' for x in ov):
                    st['overlaps_close'] += 1
                if any(x['op'] == 'bind' for x in ov):
                    st['overlaps_bind'] += 1
                if any(x['op'] == 'connect' for x in ov):
                    st['overlaps_connect'] += 1
        elif op == 'bind':
            st['binds'] += 1
            if not r.get('ok'):
                st['bind_conflicts'] += 1
        elif op == 'connect':
            st['connects'] += 1
            if not r.get('ok'):
                st['connect_errors'] += 1
        elif op == 'read':
            st['reads'] += 1
        elif op == 'listen':
            st['tcp_listens'] += 1
        elif op == 'syn':
            st['syns'] += 1
            k = emits.get(c['id'], set())
            st['syn_rst'] += 1 if 'rst' in k else 0
            st['syn_synack'] += 1 if 'synack' in k else 0
            st['syn_silent'] += 1 if not k else 0
            if [x for x, a, b in tregs if a < ri and ci < b]:
                st['syn_overlaps'] += 1


def diagnose(seg):
    """Plain-language hints for a rejected history (the verdict is TLC's; these only point the reader at the likely spot)."""
    ivs = intervals(seg)
    hints = []
    socks = {}
    for c, ci, ri, r in ivs:
        if c['op'] == 'bind' and r.get('ok'):
            socks[c['s']] = dict(s=c['s'], port=c['port'], addr=c['addr'], bound=ri, bind_call=ci, close_call=len(seg), close_ret=len(seg), conn=None)
    for c, ci, ri, r in ivs:
        if c['op'] == 'close' and c['s'] in socks:
            socks[c['s']]['close_call'], socks[c['s']]['close_ret'] = ci, ri
        if c['op'] == 'connect' and r.get('ok') and c['s'] in socks:
            socks[c['s']]['conn'] = dict(call=ci, ret=ri, laddr=r['laddr'], raddr=c['raddr'], rport=c['rport'])
    readers, lastread = {}, {}
    for c, ci, ri, r in ivs:
        if c['op'] == 'read':
            lastread[c['s']] = ci       # call index of the socket's last read (the would-block that ends its drain)
            if r.get('ok'):
                readers.setdefault(r['id'], []).append(c['s'])

    def matches(k, c, connected):
        if k['port'] != c['dport']:
            return False
        if connected:
            cn = k['conn']
            return cn['laddr'] == c['dst'] and cn['raddr'] == c['src'] and cn['rport'] == c['sport']
        return k['addr'] in ('', c['dst'])
    injected = set()
    for c, ci, ri, r in ivs:
        if c['op'] != 'inject':
            continue
        injected.add(c['id'])
        rd = readers.get(c['id'], [])
        if len(rd) > 1:
            hints.append('datagram %d was read %d times (sockets %s)' % (c['id'], len(rd), rd))
        for k in socks.values():
            if not (k['bound'] < ci and ri < lastread.get(k['s'], -1)):
                continue        # not bound during the whole injection, or its last read began before the injection ended
            cn = k['conn']
            if cn is None or ri < cn['call']:
                m = matches(k, c, False)
            elif cn['ret'] < ci:
                m = matches(k, c, True)
            else:
                m = matches(k, c, False) and matches(k, c, True)
            if m and c['dst'] in seg[0].get('addrs', []) and k['s'] not in rd:
                hints.append('datagram %d (%s:%d -> %s:%d) was injected (events %d..%d) while socket %d was bound to a matching address during the '
                             'whole injection and drained afterwards, but socket %d never read it%s' % (c['id'], c['src'], c['sport'], c['dst'], c['dport'], ci, ri, k['s'], k['s'],
                                                                                  (' (socket %s did)' % rd) if rd else ''))
    for i, rd in readers.items():
        if i not in injected:
            hints.append('sockets %s read datagram %d, which nobody injected' % (rd, i))
    for c, ci, ri, r in ivs:
        if c['op'] == 'bind' and not r.get('ok'):
            holders = [k for k in socks.values() if k['s'] != c['s'] and k['port'] == c['port'] and (c['addr'] == '' or k['addr'] in ('', c['addr']))
                       and k['bind_call'] < ri and ci < k['close_ret']]
            if not holders:
                hints.append('bind of socket %d to %r:%d was refused (%s, events %d..%d) although no socket held a conflicting binding at any instant of the call'
                             % (c['s'], c['addr'], c['port'], r.get('err'), ci, ri))
    emits = {}
    for e in seg:
        if e.get('ev') == 'emit':
            emits.setdefault(e['id'], set()).add(e['kind'])
    tclose = dict((c['s'], ri) for c, ci, ri, r in ivs if c['op'] == 'tclose')
    maybe = [(ci, tclose.get(c['s'], len(seg))) for c, ci, ri, r in ivs if c['op'] == 'listen']
    for c, ci, ri, r in ivs:
        if c['op'] == 'syn' and 'rst' not in emits.get(c['id'], set()) and not any(a < ri and ci < b for a, b in maybe):
            hints.append('SYN %d (events %d..%d) met no listener at any instant of its injection and was not reset' % (c['id'], ci, ri))
    return hints[:6]


def corrupt(segs):
    """Binding self-test material: three histories that the real stack did NOT produce."""
    out = []
    # (a) a read attributed to another socket
    for seg in segs:
        ivs = intervals(seg)
        socks = sorted(set(c['s'] for c, ci, ri, r in ivs if c['op'] == 'bind' and r.get('ok')))
        rd = [(c, ci, ri, r) for c, ci, ri, r in ivs if c['op'] == 'read' and r.get('ok')]
        if rd and len(socks) >= 2:
            bad = copy.deepcopy(seg)
            c, ci, ri, r = rd[0]
            bad[ci]['s'] = next(s for s in socks if s != c['s'])
            out.append(('read moved to another socket', bad))
            break
    # (b) a datagram read twice
    for seg in segs:
        rd = [(c, ci, ri, r) for c, ci, ri, r in intervals(seg) if c['op'] == 'read' and r.get('ok')]
        if rd:
            c, ci, ri, r = rd[-1]
            # the duplicate pair goes right after the original ret: same goroutine, same socket, still open
            bad = copy.deepcopy(seg[:ri + 1]) + [copy.deepcopy(seg[ci]), copy.deepcopy(seg[ri])] + copy.deepcopy(seg[ri + 1:])
            out.append(('datagram read twice', bad))
            break
    # (c) a datagram nobody injected
    for seg in segs:
        rd = [(c, ci, ri, r) for c, ci, ri, r in intervals(seg) if c['op'] == 'read' and r.get('ok')]
        if rd:
            bad = copy.deepcopy(seg)
            bad[rd[0][2]]['id'] = 999999
            out.append(('read of a datagram nobody injected', bad))
            break
    # (d) a reset that never left although nobody listened (nor was about to / had just stopped) during the whole injection
    for seg in segs:
        ivs = intervals(seg)
        tclose = dict((c['s'], ri) for c, ci, ri, r in ivs if c['op'] == 'tclose')
        maybe = [(ci, tclose.get(c['s'], len(seg))) for c, ci, ri, r in ivs if c['op'] == 'listen']
        k = None
        for c, ci, ri, r in ivs:
            if c['op'] == 'syn' and not any(a < ri and ci < b for a, b in maybe):
                k = next((i for i in range(ci, ri) if seg[i].get('ev') == 'emit' and seg[i].get('kind') == 'rst' and seg[i].get('id') == c['id']), None)
                if k is not None:
                    break
        if k is not None:
            out.append(('missing RST', copy.deepcopy(seg[:k]) + copy.deepcopy(seg[k + 1:])))
            break
    return out


def demux_race(ctx, histories=None):
    drv = ctx.go_build('demuxraced')
    n = histories or ctx.pick(150, 3000)
    tp = os.path.join(ctx.work, 'demuxrace.ndjson')
    ctx.run([drv, 'run', tp, str(ctx.seed), str(n)], timeout=1800)
    segs = vlib.split_segments(vlib.read_ndjson(tp))
    nstress = 0 if histories else ctx.pick(0, 300)
    if nstress:
        # longer histories (~100 operations each): more operations in flight at once, larger searches
        tp2 = os.path.join(ctx.work, 'demuxrace-stress.ndjson')
        ctx.run([drv, 'run', tp2, str(ctx.seed + 1), str(nstress), 'stress'], timeout=1800)
        segs += vlib.split_segments(vlib.read_ndjson(tp2))
    if len(segs) != n + nstress:
        raise vlib.Inconclusive('demuxraced produced %d histories for %d requested' % (len(segs), n + nstress))
    st = dict.fromkeys(['ops', 'injects', 'injects_delivered', 'injects_undelivered', 'overlaps', 'overlaps_delivered',
                        'overlaps_bind', 'overlaps_close', 'overlaps_connect', 'binds', 'bind_conflicts', 'connects',
                        'connect_errors', 'reads', 'tcp_listens', 'syns', 'syn_rst', 'syn_synack', 'syn_silent', 'syn_overlaps'], 0)
    for sg in segs:
        history_stats(sg, st)
    st['histories'] = n + nstress
    st['stress_histories'] = nstress
    st['events'] = sum(len(s) for s in segs)
    acc, rej = vlib.validate_segments(ctx, MODULE, TC, SPEC, segs, name='demuxrace', timeout=3000)
    ctx.traces += acc
    st['accepted'] = acc
    st['rejected'] = len(rej)
    nconf = 0
    if rej:
        # the same recorded histories once more, each alone in a fresh TLC run (five replay files are enough)
        import concurrent.futures
        first = rej[:5]
        with concurrent.futures.ThreadPoolExecutor(max_workers=len(first)) as ex:
            futs = [ex.submit(vlib._validate_seq, ctx, MODULE, TC, SPEC, [segs[si]], 'demuxrace-again%d' % si, 2, True, 900, None, False, True)
                    for si, ln in first]
            again = [f.result() for f in futs]
        for (si, ln), (a2, r2, un) in zip(first, again):
            if not r2:
                raise vlib.Inconclusive('history %d rejected in the batch but accepted alone: TLC hiccup' % si)
            nconf += 1
            ln = r2[0][1]
            ev = segs[si][ln] if ln < len(segs[si]) else {}
            hints = diagnose(segs[si])
            ctx.violation('recorded concurrent history %d (registrations racing deliveries) has no linearization under the C09 P-spec; '
                          'search stopped at event %d: %s%s' % (si, ln, ev, ('; hint: ' + hints[0]) if hints else ''),
                          dict(kind='recorded-history', note='concurrent history: not reproducible by re-running; the recorded events are the evidence '
                               '(validate with spec/sock/TraceDemuxLin.tla)', driver='harness/demuxraced', seed=ctx.seed, history=si, stopped_at=ln,
                               hints=hints, events=segs[si]))
        for si, ln in rej[5:]:
            ctx.violation('recorded concurrent history %d rejected (not re-validated)' % si, dict(kind='recorded-history', history=si))
    st['rejected_confirmed'] = nconf
    ctx.extra['demux_race'] = st
    if segs:
        ctx.sample(dict(kind='demux-race-history', events=segs[0][:12]))
    if not rej:
        # vacuity guards
        if st['overlaps'] == 0:
            raise vlib.Inconclusive('vacuity: no injection interval overlapped a bind/connect/close interval of its port (nothing raced)')
        if st['injects_delivered'] == 0 or st['bind_conflicts'] == 0:
            raise vlib.Inconclusive('vacuity: no datagram was delivered / no bind conflict was seen: dead driver')
        # binding self-test: TLC must reject histories the stack did not produce
        bads = corrupt(segs)
        if len(bads) < 3:
            raise vlib.Inconclusive('binding self-test: no history with a delivered datagram to corrupt')
        import concurrent.futures
        with concurrent.futures.ThreadPoolExecutor(max_workers=len(bads)) as ex:
            futs = [ex.submit(vlib._validate_seq, ctx, MODULE, TC, SPEC, [b], 'demuxrace-selftest%d' % i, 2, True, 900, None, False, True)
                    for i, (w, b) in enumerate(bads)]
            res = [f.result() for f in futs]
        passed = [w for (w, b), (a, rj, un) in zip(bads, res) if not rj]
        if passed:
            raise vlib.Inconclusive('binding self-test failed: accepted corrupted histories: %s' % passed)
        st['binding_selftest'] = '; '.join(w for w, b in bads) + ': all rejected'
    ctx.assumptions += ['demux race: schedules are whatever the Go scheduler produced (GOMAXPROCS 6, seeded yields/spins/sleeps): a sample of the '
                        'interleavings, not all of them; receive buffers never fill (<= 44-byte payloads)']
    return st
