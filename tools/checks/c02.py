"""C02 - TCP transfers complete and close in order; no connection stalls silently.

Spec: spec/tcp/TcpData.tla (closed model; NoSilentStall is violated only through
the lost window update = finding F1) and spec/tcp/TraceTcp.tla clauses C02:
EOS only after the peer's FIN and all its data; FIN only after shutdown, at the
end of the stream; everything written before shutdown is delivered; loss-free
close ends closed/no error; a provably quiet connection (nothing in flight, no
timer armed, protocol goroutines idle: a STATE read through hook H6, not a
timeout) never owes data or a FIN to a reading application.
Binding: harness/tcpd; fault ENUMERATION: every single frame of the reference
exchange (by kind and occurrence: SYN, SYN-ACK, ACK, data, window update, FIN)
and pairs of them are dropped; all shutdown orders; zero-window scenarios.
"""
import copy
import itertools
import os
import tcplib
import vlib
from vlib import cfg, MV

MANIFEST = dict(
    technique='TLA+ closed data-phase model (TLC: stall reachable only via the lost window update) and closed model of the closing exchange TcpClose (no TIME-WAIT, forgotten connections reset, lazy readers, orderly Close: safety exhaustive, liveness under fairness; with the pre-fix behaviour it reaches F26) + fault enumeration on two real stacks: every single dropped frame of the exchange and (seeded / all) pairs, all shutdown orders, zero-window histories; traces validated by TLC against the C02 clauses of TraceTcp, stalls decided from quiescent STATES',
    text='For the reference exchanges (handshake, 2 data segments + FIN each way; half-close then data; one-sided and simultaneous close; a closed receive window with a late reader) every single frame and pairs of frames are dropped by the wire. TLC checks on each trace: EOS only after the FIN and all data; FIN placement; completion (everything written before shutdown delivered, then EOS); loss-free close leaves both endpoints closed without error; and a quiescent state with data or a FIN owed is rejected as a silent stall. Finding F1 (no zero-window probe) is matched by shape.',
    design='5 C02',
    note='Liveness is judged from quiescent states (an armed retransmission timer that is overdue by more than 2 s with an idle protocol goroutine counts as dead) and from completion within a generous deadline; traces cut off by the deadline are still judged against every safety clause. Orderly Close() after EOS is exercised in all close orders with each packet of the exchange lost (F26 replay included); abortive closes only where an explicit error is an allowed outcome. TcpClose abstracts data to units, windows and congestion control away, and its timer never fires spuriously. Wrap-adjacent initial sequence numbers (receiver window edges straddling 2^32 / 2^31 with a small buffer, a lost FIN whose number is exactly 0 / 2^31) are part of the families since round 8.')

SPEC = ['tcp']
KINDS = ['syn', 'synack', 'ack', 'data', 'fin']


def ref_scenarios():
    base = dict(v=4, mtu=600, sack=True, cc='', deadline_ms=45000, seed=1, flags={})
    refs = []
    refs.append(('both', dict(base, a=dict(writes=[500, 500], shutdown=True), b=dict(writes=[500, 300], shutdown=True))))
    refs.append(('halfclose', dict(base, a=dict(writes=[100], shutdown=True), b=dict(writes=[400, 400], shutdown=True, shut_after_ms=150))))
    refs.append(('oneway', dict(base, a=dict(writes=[700, 700, 200], shutdown=True), b=dict(writes=[], shutdown=True))))
    refs.append(('nosack6', dict(base, v=6, mtu=1280, sack=False, a=dict(writes=[1000, 1000], shutdown=True), b=dict(writes=[10], shutdown=True))))
    return refs


def count_kinds(seg):
    out = {}
    for e in seg:
        if e['ev'] == 'emit' and 'kind' in e:
            d = 'a2b' if e['e'] == 'a' else 'b2a'
            out[(d, e['kind'])] = out.get((d, e['kind']), 0) + 1
    return out


def run(ctx):
    drv = ctx.go_build('tcpd')
    # ---- E1: stall reachable only through the lost window update (F1)
    n = ctx.pick(3, 4)
    c = cfg(constants=dict(N=n, Buf=2, MaxDrop=2, MaxDup=0, MaxRto=ctx.pick(1, 2)), invariants=['Safety', 'StallOnlyByLostWindowUpdate'], view='View')
    ctx.tlc('TcpData', c, SPEC, name='TcpData-stall', must_pass=True, timeout=3000)
    c2 = cfg(constants=dict(N=3, Buf=2, MaxDrop=1, MaxDup=0, MaxRto=1), invariants=['NoSilentStall'], view='View')
    r2 = ctx.tlc('TcpData', c2, SPEC, name='TcpData-f1', count=False)
    ctx.extra['model_reaches_f1'] = (not r2.ok)
    # ---- E1: the closing exchange (TcpClose: no TIME-WAIT, forgotten connections answer with RST, ignored segments after the
    #      goroutine exited, lazy readers, orderly Close): safety exhaustively, liveness under weak fairness on the small config
    th = ctx.thorough()
    cc = dict(W=2 if th else 1, MaxDrop=2 if th else 1, MaxRetx=3 if th else 2, RstClosesInLastAck=True)
    ctx.tlc('TcpClose', cfg(constants=cc, invariants=['EosOK', 'OrderlyCloseSeesEos', 'CleanWithoutLoss']), SPEC, name='TcpClose-safety',
            must_pass=True, timeout=3000)
    ctx.tlc('TcpClose', cfg(spec='FairSpec', constants=dict(W=1, MaxDrop=1, MaxRetx=2, RstClosesInLastAck=True), properties=['EventuallyEnd']), SPEC,
            name='TcpClose-liveness', must_pass=True, timeout=3000)
    # the behaviour of the pinned tree (before fix F26): the model must reach the reset-instead-of-EOS state; its counterexample
    # is the 'close-order ... lost-ack2' scenario family below (replayed on the real stacks on every run)
    r26 = ctx.tlc('TcpClose', cfg(constants=dict(W=1, MaxDrop=1, MaxRetx=2, RstClosesInLastAck=False), invariants=['OrderlyCloseSeesEos', 'CleanWithoutLoss']), SPEC,
                  name='TcpClose-pinned', count=False)
    ctx.extra['model_reaches_f26_without_fix'] = (not r26.ok)
    if r26.ok:
        raise vlib.Inconclusive('TcpClose with RstClosesInLastAck=FALSE does not reach the F26 state: the model lost its teeth')
    # ---- reference runs (no faults) to learn how many frames of each kind each exchange has
    refs = ref_scenarios()
    rsc = []
    for name, sc in refs:
        s = copy.deepcopy(sc)
        s['tag'] = 'ref-' + name
        rsc.append(s)
    segs, stats, rep = tcplib.run_pair(ctx, drv, rsc, ['C02'], 'c02ref', what='TCP close/completion', classify=tcplib.classify_all)
    counts = [count_kinds(s) for s in segs]
    ctx.extra['reference_frame_kinds'] = [{'%s/%s' % k: v for k, v in c_.items()} for c_ in counts]
    # ---- fault enumeration: singles, then pairs
    rng = ctx.rng
    scs = []
    for (name, sc), cnt in zip(refs, counts):
        singles = [(d, k, i) for (d, k), m in sorted(cnt.items()) for i in range(1, min(m, 6) + 1) if k in KINDS]
        for (d, k, i) in singles:
            s = copy.deepcopy(sc)
            s[d] = dict(rules=[dict(kind=k, nth=i, act='drop')])
            s['tag'] = '%s-drop-%s-%s%d' % (name, d, k, i)
            scs.append(s)
        pairs = list(itertools.combinations(singles, 2))
        if not ctx.thorough():
            rng.shuffle(pairs)
            pairs = pairs[:14]
        for p1, p2 in pairs:
            s = copy.deepcopy(sc)
            for (d, k, i) in (p1, p2):
                s.setdefault(d, dict(rules=[]))['rules'].append(dict(kind=k, nth=i, act='drop'))
            s['tag'] = '%s-drop2-%s-%s%d+%s-%s%d' % ((name,) + p1 + p2)
            scs.append(s)
    # ---- zero window: tiny receive buffer, late reader, the k-th pure ACK of the receiver is lost
    for k in range(1, ctx.pick(7, 14)):
        for rb in ((2000,) if not ctx.thorough() else (500, 2000, 4096)):
            s = dict(v=4, mtu=1500, sack=True, cc='', deadline_ms=45000, seed=k, flags={},
                     a=dict(writes=[20000], shutdown=True), b=dict(writes=[], shutdown=True, rcvbuf=rb, read_start_ms=400),
                     b2a=dict(rules=[dict(kind='ack', nth=k, act='drop')]), tag='zerowin-rb%d-dropack%d' % (rb, k))
            scs.append(s)
    # ---- "all configurations as in C01": initial sequence numbers next to 2^32 / 2^31.  The RECEIVER's window edges straddle the
    #      wrap point (small receive buffer, the sender's ISS a few thousand below it), loss-free: the window must keep re-opening and
    #      the transfer must complete; and a FIN whose sequence number is exactly 0 / 2^31
    kk = 0
    for hi in (0xffff, 0x7fff):
        for below in ((1500, 6000) if not ctx.thorough() else (1500, 3000, 6000, 12000)):
            kk += 1
            scs.append(dict(v=4 if kk % 2 else 6, mtu=576 if kk % 2 else 1280, sack=(kk % 2 == 0), cc='', sync=False, deadline_ms=45000, seed=kk, flags={},
                            tag='wrap-rcvwin%d-iss%04x%04x' % (kk, hi, 0x10000 - below),
                            a=dict(writes=[20000], shutdown=True, iss=[hi, 0x10000 - below]),
                            b=dict(writes=[], shutdown=True, rcvbuf=rng.choice([1000, 2000, 2500]), read_delay_us=300), a2b=dict(), b2a=dict()))
        scs.append(dict(v=4, mtu=1500, sack=True, cc='', sync=False, deadline_ms=30000, seed=kk, flags={}, tag='wrap-fin-at-zero-%04x' % hi,
                        a=dict(writes=[700], shutdown=True, iss=[hi, 0x10000 - 701]), b=dict(writes=[300], shutdown=True),
                        a2b=dict(rules=[dict(kind='fin', nth=1, act='drop')]), b2a=dict()))
    # ---- the peer half-closes first, then more data is owed to it than its window takes while its application reads late
    for k, (rb, tot) in enumerate([(2000, 20000), (4096, 30000), (1000, 5000)][:ctx.pick(2, 3)]):
        scs.append(dict(v=4, mtu=1500, sack=True, cc='', deadline_ms=45000, seed=k + 1, flags={}, tag='halfclose-then-big-%d' % k,
                        a=dict(writes=[], shutdown=True, rcvbuf=rb, read_start_ms=600), b=dict(writes=[tot], shutdown=True)))
        scs.append(dict(v=4, mtu=1500, sack=True, cc='', deadline_ms=45000, seed=k + 1, flags={}, tag='big-then-halfclose-%d' % k,
                        a=dict(writes=[tot], shutdown=True), b=dict(writes=[], shutdown=True, rcvbuf=rb, read_start_ms=600)))
    # ---- paced writes (less than one RTO apart, each acknowledged before the next) with a tail loss: recovery depends on the
    #      retransmission timer after it has been stopped and re-armed several times; also the FIN as the lost tail
    for k in range(ctx.pick(6, 24)):
        n = rng.choice([2, 3, 4, 5])
        gap = [40, 80, 120, 60, 150, 30][k % 6] * 1000
        fin_lost = (k % 3 == 2)
        rules = [dict(kind='fin', nth=1, act='drop')] if fin_lost else [dict(kind='data', nth=n - (k % 2 if n > 2 else 0), act='drop')]
        scs.append(dict(v=4 if k % 4 else 6, mtu=576, sack=(k % 2 == 0), cc='', deadline_ms=45000, seed=k + 1, flags={},
                        tag='paced-tail-%d-n%d-gap%dms-%s' % (k, n, gap // 1000, 'fin' if fin_lost else 'data'),
                        a=dict(writes=[rng.choice([100, 400, 500])] * n, write_gap_us=gap, shutdown=True),
                        b=dict(writes=[rng.choice([0, 200])] if k % 2 else [], shutdown=True), a2b=dict(rules=rules)))
    # ---- handshake packets lost twice in a row (the SYN and its first retransmission, the SYN-ACK and its retransmission, one
    #      of each): the attempt is retransmitted again (after 3 s) and the transfer completes
    for k, rules in enumerate([dict(a2b=[dict(kind='syn', nth=1, upto=2, act='drop')]),
                               dict(b2a=[dict(kind='synack', nth=1, upto=2, act='drop')]),
                               dict(a2b=[dict(kind='syn', nth=1, act='drop')], b2a=[dict(kind='synack', nth=1, act='drop')]),
                               dict(a2b=[dict(kind='syn', nth=1, upto=3, act='drop')])][:ctx.pick(3, 4)]):
        scs.append(dict(v=4 if k % 2 == 0 else 6, mtu=1500, sack=True, cc='', deadline_ms=30000, seed=400 + k, flags={}, tag='handshake-loss-%d' % k,
                        a=dict(writes=[500], shutdown=True), b=dict(writes=[300], shutdown=True),
                        a2b=dict(rules=rules.get('a2b', [])), b2a=dict(rules=rules.get('b2a', []))))
    # ---- a SCALED receive window closes with 1 .. 2^scale - 1 bytes of buffer left (the field on the wire is zero although
    #      the buffer is not full), then the application drains the buffer: the window must re-open (no packet is lost)
    for k, (rb, first) in enumerate([(131072, 7), (262144, 1), (131072, 13), (1 << 20, 7)][:ctx.pick(2, 4)]):
        scs.append(dict(v=4, mtu=1500, sack=(k % 2 == 0), cc='', deadline_ms=30000, seed=300 + k, flags={}, tag='scaled-zero-window-%d-rb%d' % (k, rb),
                        a=dict(writes=[first, rb + 50000], shutdown=True), b=dict(writes=[], shutdown=True, rcvbuf=rb, read_start_ms=600),
                        a2b=dict(), b2a=dict()))
    # ---- the application ENLARGES its receive buffer while the window it advertises is closed (it is not reading), and only
    #      starts to read later: the transfer must go on (the setter has to announce the re-opened window; no packet is lost)
    for k, (rb, rb2) in enumerate([(8192, 32768), (131072, 524288), (4096, 6000), (65535, 1 << 20)][:ctx.pick(2, 4)]):
        scs.append(dict(v=4 if k % 2 == 0 else 6, mtu=1500, sack=(k % 2 == 1), cc='', deadline_ms=30000, seed=350 + k, flags={}, tag='rcvbuf-grow-at-zero-window-%d-%d-to-%d' % (k, rb, rb2),
                        a=dict(writes=[rb2 + rb + 30000], shutdown=True), b=dict(writes=[], shutdown=True, rcvbuf=rb, rcvbuf2=rb2, rcvbuf2_ms=500, read_start_ms=1200),
                        a2b=dict(), b2a=dict()))
    # ---- close orders: an application that has read the end of stream and finished writing Close()s its endpoint (the
    #      stack forgets the connection: no TIME-WAIT), the other side shuts down later and reads late; one packet of the
    #      closing exchange is lost.  Includes the replay of fixed finding F26 (final ACK lost -> retransmitted FIN answered by
    #      a RST -> the late reader must still get data + EOS).
    k = 0
    for closer in ('a', 'b'):
        other = 'b' if closer == 'a' else 'a'
        for lost in (('ack', 2), ('ack', 1), ('fin', 1), ('data', 1), None):
            for late in ((300, 1500), (0, 0)) if ctx.thorough() or lost == ('ack', 2) else ((300, 1500),):
                k += 1
                sc = dict(v=4 if k % 3 else 6, mtu=1500, sack=True, cc='', deadline_ms=30000, seed=k, flags={},
                          tag='close-order-%d-%s-closes-lost-%s-late%d' % (k, closer, '%s%d' % lost if lost else 'none', late[1]), a2b=dict(), b2a=dict())
                sc[closer] = dict(writes=[rng.choice([1, 1000, 3000])], shutdown=True, close=True)
                sc[other] = dict(writes=[rng.choice([0, 0, 500])] if k % 2 else [], shutdown=True, shut_after_ms=late[0], read_start_ms=late[1])
                if lost:
                    # the lost packet travels from the closer to the other side (its final ACK, its FIN, its data) ...
                    sc['a2b' if closer == 'a' else 'b2a'] = dict(rules=[dict(kind=lost[0], nth=lost[1], act='drop')])
                    if k % 4 == 0:
                        # ... or the other way round
                        sc['b2a' if closer == 'a' else 'a2b'] = dict(rules=[dict(kind=lost[0], nth=lost[1], act='drop')])
                        sc['a2b' if closer == 'a' else 'b2a'] = dict()
                scs.append(sc)
    # both sides close
    for k2 in range(ctx.pick(2, 8)):
        scs.append(dict(v=4, mtu=1500, sack=True, cc='', deadline_ms=30000, seed=100 + k2, flags={}, tag='both-close-%d' % k2,
                        a=dict(writes=[rng.choice([10, 2000])], shutdown=True, close=True),
                        b=dict(writes=[rng.choice([10, 2000])], shutdown=True, close=True, shut_after_ms=rng.choice([0, 50, 300])),
                        a2b=dict(loss=0.1, budget=1), b2a=dict(loss=0.1, budget=1)))
    # ---- the replay script of known finding F1: every window-bearing pure ACK of the receiver is lost after the window closed
    scs.append(dict(v=4, mtu=1500, sack=True, cc='', deadline_ms=30000, seed=1, flags={}, tag='f1-replay',
                    a=dict(writes=[20000], shutdown=True), b=dict(writes=[], shutdown=True, rcvbuf=2000, read_start_ms=1500),
                    b2a=dict(rules=[dict(kind='ack', nth=0, act='drop')])))
    # ---- Close() instead of Shutdown: completion or an explicit reset are both allowed
    for i in range(ctx.pick(4, 20)):
        s = tcplib.random_scenario(rng, 1000 + i, maxbytes=3000)
        s['flags'] = dict(allowerr=True, noclosecheck=True)
        s['tag'] = 'rndclose%d' % i
        scs.append(s)
    segs2, stats2, rep2 = tcplib.run_pair(ctx, drv, scs, ['C02'], 'c02', what='TCP close/completion', classify=tcplib.classify_all)
    ctx.extra.update(stats2)
    ctx.extra['fault_scenarios'] = len(scs)
    ctx.sample(dict(kind='fault-scenario', scenario={k: v for k, v in scs[0].items()}))
    ctx.sample(dict(kind='trace', events=tcplib.sample_trace(segs2[0], 14)))
    if stats2['undecided_deadline'] > len(scs) // 5:
        raise vlib.Inconclusive('%d of %d scenarios hit the deadline (machine too slow?)' % (stats2['undecided_deadline'], len(scs)))
    # ---- binding self-test: an EOS before the FIN arrived, and a fabricated quiet state with data owed, must be rejected
    base = next(s for s in segs if s[-1].get('why') == 'done' and any(e['ev'] == 'eos' for e in s))
    bad = copy.deepcopy(base)
    idx = next(i for i, e in enumerate(bad) if e['ev'] == 'arrive' and 'F' in e.get('flags', ''))
    del bad[idx]
    bad2 = copy.deepcopy(base)
    k = next(i for i, e in enumerate(bad2) if e['ev'] == 'read')
    fake = dict(ev='quiesce', a=dict(ok=True, state=4, err=''), b=dict(ok=True, state=4, err=''), t=bad2[k]['t'])
    bad2 = bad2[:k] + [fake]
    tc = tcplib.tcfg(['C02'])
    for nm, b in (('eos-without-fin', bad), ('fabricated-stall', bad2)):
        a, rj = vlib.validate_segments(ctx, 'TraceTcp', tc, SPEC, [b], name='selftest-' + nm, count=False)
        if not rj:
            raise vlib.Inconclusive('binding self-test failed: %s accepted' % nm)
    ctx.extra['binding_selftest'] = 'EOS without FIN arrival and fabricated quiescent stall rejected'
    ctx.assumptions += ['hooks H1, H6 (snapshot used for the quiescence oracle)', 'finite fault schedules; deadline 45 s per scenario']
