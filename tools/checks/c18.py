"""C18 - try-lock mutex: mutual exclusion, TryLock semantics, no lost wake-up.

Spec: spec/tmutex (TMutex = I-spec at atomic-operation granularity with the
P-level invariants; TraceTMutexProp = P-spec as trace validator).
Binding: the real tmutex.Mutex runs under the gate scheduler (hooks H3); its
complete reachable graph is compared with TLC's graph of the coarse-grained
I-spec (both directions), and every real transition is covered by P-level
traces validated by TLC; plus seeded random schedules with more goroutines.
"""
import copy
import json
import os
import vlib
from vlib import cfg, MV

MANIFEST = dict(technique='TLA+ I-spec TMutex at atomic-operation granularity model-checked by TLC (safety + liveness); complete reachable graph of the REAL mutex under a gate scheduler compared edge-for-edge with the TLC graph; every real transition and seeded random schedules validated by TLC against the P-level trace spec',
        text='All interleavings of 3-4 goroutines x 2 operations are explored by TLC on the I-spec (Mutex, NoLostWakeup, TryOK, NoStarve, LockReturns). The real tmutex.Mutex is driven through every reachable state/transition at hook granularity (2x2 quick, 3x2 thorough) and its graph must equal the model graph (drift otherwise); the P-level verdict comes from TLC validating the observed call/return/blocked events of every real transition against TraceTMutexProp.',
        design='5 C18',
        note='Trusted: Go runtime channels/atomics, the gate scheduler. Hook granularity is coarser than the atomic operations in one place (load+swap of a Lock loop iteration), since hooks are add-only; that interleaving is covered only by the TLC model. Bounded: <=4 goroutines x <=4 operations.')

SPEC = ['tmutex']
INV = ['Mutex', 'NoLostWakeup', 'TryOK']


def procs(n):
    return MV('{' + ', '.join('p%d' % i for i in range(1, n + 1)) + '}')


def model_key(st, n):
    pcs = [st['pc']['p%d' % i] for i in range(1, n + 1)]
    ops = [st['ops']['p%d' % i] for i in range(1, n + 1)]
    return '%d|%d|%s|%s' % (st['v'], st['ch'], pcs, ops)


def real_key(st):
    return '%d|%d|%s|%s' % (st['v'], st['ch'], st['pc'], st['ops'])


def model_label(lab):
    a, args = vlib.tlaval.parse_action(lab)
    w = int(args[0][1:]) - 1
    if a in ('StartLock', 'StartTry', 'StartUnlock'):
        return '%s(%d)' % (a, w)
    return 'Step(%d)' % w


def run(ctx):
    drv = ctx.go_build('tmutexd')

    # ---- E1: fine-grained I-spec, safety + liveness, all schedules
    n1, m1 = ctx.pick((3, 2), (4, 2))
    c = cfg(constants=dict(Procs=procs(n1), MaxOps=m1, Fine=True), invariants=INV,
            properties=['NoStarve', 'LockReturns'])
    r = ctx.tlc('TMutex', c, SPEC, name='TMutex-fine', coverage=True, must_pass=True, timeout=3000)
    z = ctx.zero_coverage(r)
    if z:
        raise vlib.Inconclusive('vacuity: actions never taken in TMutex-fine: %s' % z)

    # ---- E1 + E2: coarse-grained graph of the spec vs complete reachable graph of the REAL code
    n, mo = ctx.pick((2, 2), (3, 2))
    cc = cfg(constants=dict(Procs=procs(n), MaxOps=mo, Fine=False), invariants=INV)
    rc = ctx.tlc('TMutex', cc, SPEC, name='TMutex-coarse', dump_dot=True, must_pass=True)
    nodes, edges, init = vlib.tlaval.parse_dot(os.path.join(rc.dir, 'graph.dot'))
    mkeys = {nid: model_key(vlib.tlaval.parse_state(t), n) for nid, t in nodes.items()}
    medges = set((mkeys[s], model_label(lab), mkeys[d]) for s, d, lab in edges)
    out = ctx.run([drv, 'explore', str(n), str(mo), '2000000'], timeout=3000)
    g = json.loads(out.stdout)
    if g.get('nondeterminism'):
        raise vlib.Inconclusive('real code not deterministic under the gate scheduler: %s' % g['nondeterminism'][:2])
    if g.get('truncated'):
        raise vlib.Inconclusive('real-code exploration truncated')
    rk = {k: real_key(st) for k, st in g['states'].items()}
    redges = set((rk[e['src']], e['label'], rk[e['dst']]) for e in g['edges'])
    cmp_ = vlib.compare_graphs(medges, redges)
    ctx.extra['graph_compare'] = cmp_
    ctx.extra['real_graph'] = dict(states=len(g['states']), edges=len(g['edges']), runs=g['runs'], steps=g['steps'])
    ctx.extra['replayed_transition_fraction'] = cmp_['fraction']
    ctx.log('graph compare: %s' % {k: cmp_[k] for k in ('model_edges', 'real_edges', 'common', 'n_model_only', 'n_real_only')})
    if cmp_['n_model_only'] or cmp_['n_real_only']:
        ctx.model_drift('real tmutex graph differs from coarse I-spec: model-only %s real-only %s' % (
            cmp_['model_only'][:2], cmp_['real_only'][:2]))

    # ---- P-level: every transition of the REAL graph covered by traces validated against the P-spec
    paths, ncov, ne = vlib.real_graph_paths(g, rng=ctx.rng)
    segs = []
    for k, p in enumerate(paths):
        seg = [dict(ev='reset', path=k)]
        for e in p:
            seg.extend(e['events'])
        segs.append(seg)
    tc = cfg(spec='TSpec', constraint='HWMark', postcondition='Accepted')
    acc, rej = vlib.validate_segments(ctx, 'TraceTMutexProp', tc, SPEC, segs, name='ptrace-graph')
    ctx.traces += acc
    ctx.extra['real_edges_covered_by_ptraces'] = ncov
    ctx.sample(dict(kind='real-graph-path', moves=[e['label'] for e in paths[0][:20]]))
    for si, ln in rej:
        ctx.violation('real tmutex behaviour rejected by the C18 P-spec at event %d: %s' % (ln, segs[si][ln] if ln < len(segs[si]) else '?'),
                      dict(kind='graph-path', n=n, maxops=mo, moves=[e['move'] for e in paths[si]], events=segs[si][:ln + 1]))

    # ---- seeded random schedules, more goroutines / operations
    nr, mr, runs = ctx.pick((4, 3, 300), (4, 4, 4000))
    tp = os.path.join(ctx.work, 'random.ndjson')
    ctx.run([drv, 'random', str(nr), str(mr), str(runs), str(ctx.seed), tp], timeout=3000)
    rsegs = vlib.split_segments(vlib.read_ndjson(tp))
    acc, rej = vlib.validate_segments(ctx, 'TraceTMutexProp', tc, SPEC, rsegs, name='ptrace-random')
    ctx.traces += acc
    ctx.extra['random_schedules'] = len(rsegs)
    ctx.sample(dict(kind='random-schedule', events=rsegs[0][:12]))
    for si, ln in rej:
        ctx.violation('real tmutex behaviour (random schedule) rejected by the C18 P-spec at event %d' % ln,
                      dict(kind='random', n=nr, maxops=mr, seed=ctx.seed, run=si, events=rsegs[si][:ln + 1]))

    # ---- binding self-test: corrupt one field, drop one event
    bad = copy.deepcopy(rsegs[0])
    for e in bad:
        if e.get('ev') == 'ret' and e.get('op') == 'Lock':
            e['op'] = 'Unlock'
            break
    bad2 = [e for e in copy.deepcopy(rsegs[0])]
    for i, e in enumerate(bad2):
        if e.get('ev') == 'call' and e.get('op') == 'Unlock':
            del bad2[i]
            break
    for nm, b in (('corrupt', bad), ('drop', bad2)):
        a, rj = vlib.validate_segments(ctx, 'TraceTMutexProp', tc, SPEC, [b], name='selftest-' + nm, count=False)
        if not rj:
            raise vlib.Inconclusive('binding self-test failed: %s trace accepted' % nm)
    ctx.extra['binding_selftest'] = 'corrupted and event-dropped traces rejected'
    ctx.assumptions += ['Go runtime (channels, sync/atomic) trusted',
                        'gate granularity: load+swap of one Lock loop iteration is one step on the real code (hooks are add-only); the fine-grained interleavings are covered by the exhaustive TLC run only',
                        'constants: fine model %dx%d, graph comparison %dx%d' % (n1, m1, n, mo)]
