"""C13 - echo requests are answered once, mirroring identifier, sequence and payload.

Spec: spec/icmp (Icmp = closed model of the bounded request channel + replier,
TraceIcmp = P-spec as trace validator over wire observations).
Binding: the harness's own packet builder injects echo requests into a real
stack (IPv4 plain / fragmented / multi-view, IPv6); every emitted frame is
decoded by the harness's own decoder and the request/reply/quiesce trace is
validated by TLC.
"""
import copy
import os
import vlib
from vlib import cfg

MANIFEST = dict(
    technique='TLA+ closed model of the echo channel/replier checked by TLC; P-spec TraceIcmp validates traces (requests injected, replies captured at the link tap, quiescence events) of the real stack',
    text='TLC explores all arrival/service interleavings of the bounded request channel (capacity scaled to 2-3) for NoUnsolicited and the must-answer rule; the real stack is driven with seeded request mixes (identifiers, sequence numbers, payload lengths 0..MTU-28 odd/even, IPv4 fragmented in all orders with duplicates, multi-view packets, IPv6, bursts above the 10-request bound, own/foreign destinations) and TLC decides for every reply whether it mirrors exactly one pending request from the pinged address with valid checksums, and at quiescence that every request accepted while fewer than ten were pending was answered.',
    design='5 C13',
    note='Replies are matched on (version, addresses, ident, seq, payload length, first/last 48 payload bytes, RFC 1071 sum of the payload). Quiescence is state-based (the driver waits for the owed replies; a 10 s give-up bound produces a quiesce event that the spec then rejects). Only lower bounds on time. Payloads up to the MTU; larger (fragment-assembled) requests are outside the statement. A quarter of the scenarios run over a link with a transmit queue that keeps the header views it was handed by reference (as protocol/link/channel does) and puts the frames on the wire after the burst.')

SPEC = ['icmp']


def gen_scenarios(ctx, n):
    rng = ctx.rng
    out = []
    lens = [0, 1, 2, 3, 7, 8, 9, 15, 16, 17, 31, 32, 33, 55, 56, 57, 63, 64, 65, 100, 255, 256, 257, 511, 512, 999, 1000, 1001, 1399, 1400]
    idents = [0, 1, 2, 255, 256, 0x7fff, 0x8000, 0xfffe, 0xffff]
    for s in range(n):
        mtu = rng.choice([1500, 1500, 576, 200])
        maxp = mtu - 48 - 8
        bursts = []
        used = set()
        for b in range(rng.choice([1, 2, 3])):
            burst = []
            k = rng.choice([1, 1, 2, 3, 5, 9, 10, 11, 14, 25]) if s % 3 else rng.choice([1, 2, 3])
            for i in range(k):
                v = 4 if rng.random() < 0.7 else 6
                while True:
                    ident = rng.choice(idents) if rng.random() < 0.5 else rng.randrange(65536)
                    seq = rng.choice(idents) if rng.random() < 0.5 else rng.randrange(65536)
                    if (v, ident, seq) not in used:
                        used.add((v, ident, seq))
                        break
                plen = rng.choice([l for l in lens if l <= maxp]) if rng.random() < 0.7 else rng.randrange(0, maxp + 1)
                dst = rng.choice(['own1', 'own1', 'own2', 'own2', 'foreign'])
                r = dict(v=v, dst=dst, ident=ident, seq=seq, plen=plen, cuts=[], order=[], split=0, dup=False)
                mlen = 8 + plen
                if v == 4 and mlen > 16 and rng.random() < 0.35:
                    ncut = rng.choice([1, 1, 2, 3])
                    cuts = sorted(set(8 * rng.randrange(1, (mlen + 7) // 8) for _ in range(ncut)))
                    cuts = [c for c in cuts if 0 < c < mlen]
                    if cuts:
                        r['cuts'] = cuts
                        order = list(range(len(cuts) + 1))
                        rng.shuffle(order)
                        r['order'] = order
                        r['dup'] = rng.random() < 0.3
                elif rng.random() < 0.2 and mlen + 40 > 130:
                    r['split'] = rng.randrange(64, mlen + 20)
                if rng.random() < 0.25:
                    r['pad'] = rng.choice([1, 4, 6, 18, 46])          # the frame is longer than the IP packet (link padding): not part of the message
                burst.append(r)
            bursts.append(burst)
        sc = dict(mtu=mtu, bursts=bursts)
        if s % 4 == 1:
            # pressure, then an address goes away: a burst above the queue bound while the transmit path is stalled (requests
            # are dropped), the pinged address is removed once the burst has quiesced, later requests to it are "addressed to
            # someone else" and must stay unanswered, requests to the remaining address are answered
            gone, stays = rng.choice([('own1', 'own2'), ('own2', 'own1')])
            fresh = lambda: dict(v=4, ident=rng.randrange(65536), seq=rng.randrange(65536), plen=rng.randrange(0, 64), cuts=[], order=[], split=0, dup=False)
            mk = lambda dst, v=4: dict(fresh(), dst=dst, v=v)
            b0 = [mk(gone) for _ in range(rng.choice([12, 13, 16, 25]))] + [mk(stays) for _ in range(rng.choice([0, 2]))]
            b1 = [mk(gone) for _ in range(3)] + [mk(stays), mk(gone, 6), mk(stays, 6)]
            rng.shuffle(b1)
            uniq, seen = [], set()
            for r in b0 + b1:
                while (r['v'], r['ident'], r['seq']) in seen:
                    r['seq'] = (r['seq'] + 1) % 65536
                seen.add((r['v'], r['ident'], r['seq']))
            sc = dict(mtu=1500, bursts=[b0, b1], ctl=[dict(stall=True, rmaddr=gone), dict()])
        elif s % 4 == 2:
            # a link with a transmit queue (frames are kept by reference, as protocol/link/channel keeps them, and go out after the
            # burst): every reply must still be the one the replier built, whatever was built after it
            sc['ctl'] = [dict(queue=True) for _ in bursts]
        out.append(sc)
    return out


def run(ctx):
    drv = ctx.go_build('icmpd')
    # ---- E1
    for cap_, nreq in ((2, 5), (3, 6)) if ctx.thorough() else ((2, 5),):
        c = cfg(constants=dict(Cap=cap_, NReq=nreq), invariants=['NoUnsolicited', 'MustQueued'], properties=['AllAnswered'])
        r = ctx.tlc('Icmp', c, SPEC, name='Icmp-%d-%d' % (cap_, nreq), coverage=True, must_pass=True)
        z = ctx.zero_coverage(r)
        if z:
            raise vlib.Inconclusive('vacuity: %s' % z)
    # ---- E3
    n = ctx.pick(60, 1200)
    scs = gen_scenarios(ctx, n)
    segs = vlib.run_scenarios(ctx, drv, scs, 'c13', what='the stack (ICMP echo path)')
    if len(segs) != n:
        raise vlib.Inconclusive('driver produced %d segments for %d scenarios' % (len(segs), n))
    nreq = sum(1 for s in segs for e in s if e['ev'] == 'req')
    nrep = sum(1 for s in segs for e in s if e['ev'] == 'reply')
    ctx.extra.update(requests=nreq, replies=nrep, scenarios=n)
    if nrep == 0:
        raise vlib.Inconclusive('no reply observed at all: dead driver')
    tc = cfg(spec='TSpec', constraint='HWMark', postcondition='Accepted')
    acc, rej = vlib.validate_segments(ctx, 'TraceIcmp', tc, SPEC, segs, name='trace')
    ctx.traces += acc
    ctx.sample(dict(kind='scenario-trace', events=[{k: v for k, v in e.items() if k != 'pay'} for e in segs[0][:8]]))
    for si, ln in rej:
        # reproduce once (verdict rule): rerun the single scenario
        tp2 = os.path.join(ctx.work, 'retry%d.ndjson' % si)
        sp2 = os.path.join(ctx.work, 'retry%d.json' % si)
        vlib.write_json(sp2, [scs[si]])
        ctx.run([drv, 'run', sp2, tp2], timeout=300)
        seg2 = vlib.split_segments(vlib.read_ndjson(tp2))
        a2, r2 = vlib.validate_segments(ctx, 'TraceIcmp', tc, SPEC, seg2, name='retry%d' % si, count=False)
        if not r2:
            ctx.extra.setdefault('unreproduced', []).append(si)
            continue
        ev = segs[si][ln] if ln < len(segs[si]) else {}
        ctx.violation('echo handling rejected by the C13 P-spec at event %d (%s): %s' % (
            ln, ev.get('ev'), {k: v for k, v in ev.items() if k != 'pay'}),
            dict(kind='scenario', scenario=scs[si], events=segs[si][:ln + 1]))
    # ---- binding self-test
    base = next(s for s in segs if any(e['ev'] == 'reply' for e in s))
    bad = copy.deepcopy(base)
    for e in bad:
        if e['ev'] == 'reply':
            e['seq'] = (e['seq'] + 1) % 65536
            break
    bad2 = [e for e in copy.deepcopy(base)]
    for i, e in enumerate(bad2):
        if e['ev'] == 'reply':
            del bad2[i]
            break
    for nm, b in (('corrupt', bad), ('drop', bad2)):
        a, rj = vlib.validate_segments(ctx, 'TraceIcmp', tc, SPEC, [b], name='selftest-' + nm, count=False)
        if not rj:
            raise vlib.Inconclusive('binding self-test failed: %s trace accepted' % nm)
    ctx.extra['binding_selftest'] = 'corrupted reply.seq and dropped reply rejected'
    ctx.assumptions += ['pkg/sleep builds only with the verif-tagged assembly (hook H1)', 'harness decoder (harness/wire) is independent of protocol/header']
